import TracklibVerif.Drv.C03
import TracklibVerif.Drv.C11
/-! `tvdriver`: one request per line on stdin, one reply per line on stdout.
A request is `<PROP>.<cmd> args…`; the reply is produced by the model's executable definitions. -/
open TV.Drv

def dispatch (line : String) : String :=
  match (line.trimAscii.toString.splitOn " ").filter (· ≠ "") with
  | [] => "bad-request"
  | head :: args =>
    match head.splitOn "." with
    | [p, cmd] =>
      match p with
      | "C03" => C03.handle cmd args
      | "C11" => C11.handle cmd args
      | _ => "bad-request"
    | _ => "bad-request"

partial def loop (h : IO.FS.Stream) (out : IO.FS.Stream) : IO Unit := do
  let line ← h.getLine
  if line.isEmpty then return ()
  out.putStrLn (dispatch line)
  loop h out

def main : IO Unit := do
  loop (← IO.getStdin) (← IO.getStdout)
