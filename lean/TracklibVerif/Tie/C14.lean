import TracklibVerif.Model.Geo
import TracklibVerif.Gen.ObsCoords
/-! Tie for C14: the closed forms of `tracklib/core/obs_coords.py` — `GeoCoords.toECEFCoords`, `ECEFCoords.toGeoCoords`,
`ECEFCoords.toENUCoords`, `ENUCoords.toECEFCoords` — translated from the CURRENT source equal the model's
`TV.Geo.geoToEcef` / `ecefToGeo` / `ecefToEnu` / `enuToEcef`. In the two rotations the first statement
`base = base.toECEFCoords()` is a dynamic dispatch on the class of `base`: the translator reads it as a declared accessor
(three numbers), which the tie instantiates with the model's `base.toEcef` (a copy for an ECEF base, `geoToEcef` for a
geographic one); the call `base.toGeoCoords()` that follows is resolved statically (the object is an `ECEFCoords`).

The model divides with the plain `/` (it has no `ZeroDivisionError` branch), so the statements are: WHENEVER the
translated function returns a value, that value is the model's (for every input on which Python does not raise).
Python's integer literals `1`, `2`, `3` in these formulas are written `1.0`, `2.0`, `3.0` in the model: `h1 h2 h3`
say they denote the same numbers (true of `Float` and of every field). Nothing else is assumed of the scalar type or
of the `math` functions (fields of `Trig`). -/
namespace TV.Tie.C14
open TV TV.Py
set_option linter.unusedSectionVars false
set_option linter.unusedSimpArgs false
section
variable {α : Type} [Add α] [Sub α] [Mul α] [Div α] [Neg α] [LE α] [DecidableLE α] [OfScientific α]
  [OfNat α 0] [OfNat α 1] [OfNat α 2] [OfNat α 3]

/-- `GeoCoords(lon, lat, hgt).toECEFCoords()`: when it returns, it returns the model's `geoToEcef` -/
theorem tie_geoToEcef (T : Geo.Trig α) (g : Geo.V3 α) (v : α × α × α)
    (h1 : (1 : α) = 1.0) (h2 : (2 : α) = 2.0)
    (h : Gen.ObsCoords.GeoCoords_toECEFCoords T.pi T.sqrt T.sin T.cos T.pow g.x g.y g.z = .ok v) :
    v = ((Geo.geoToEcef T g).x, (Geo.geoToEcef T g).y, (Geo.geoToEcef T g).z) := by
  simp only [Gen.ObsCoords.GeoCoords_toECEFCoords] at h
  have h := bind_fdiv_ok h
  simp only [h1, h2] at h
  exact (Except.ok.inj h).symm

/-- `ECEFCoords(X, Y, Z).toGeoCoords()`: when it returns, it returns the model's `ecefToGeo` -/
theorem tie_ecefToGeo (T : Geo.Trig α) (p : Geo.V3 α) (v : α × α × α)
    (h1 : (1 : α) = 1.0) (h2 : (2 : α) = 2.0) (h3 : (3 : α) = 3.0)
    (h : Gen.ObsCoords.ECEFCoords_toGeoCoords T.pi T.sqrt T.sin T.cos T.atan2 T.pow p.x p.y p.z = .ok v) :
    v = ((Geo.ecefToGeo T p).x, (Geo.ecefToGeo T p).y, (Geo.ecefToGeo T p).z) := by
  simp only [Gen.ObsCoords.ECEFCoords_toGeoCoords] at h
  have h := bind_fdiv_ok h
  have h := bind_fdiv_ok h
  have h := bind_fdiv_ok h
  have h := bind_fdiv_ok h
  have h := bind_fdiv_ok h
  simp only [h1, h2, h3] at h
  exact (Except.ok.inj h).symm

/-- `ECEFCoords(X, Y, Z).toENUCoords(base)`, `base.toECEFCoords()` being the model's `base.toEcef`: when it returns,
it returns the model's `ecefToEnu` -/
theorem tie_ecefToEnu (T : Geo.Trig α) (p : Geo.V3 α) (base : Geo.Base α) (v : α × α × α)
    (h1 : (1 : α) = 1.0) (h2 : (2 : α) = 2.0) (h3 : (3 : α) = 3.0)
    (h : Gen.ObsCoords.ECEFCoords_toENUCoords T.pi T.sqrt T.sin T.cos T.atan2 T.pow p.x p.y p.z
          (base.toEcef T).x (base.toEcef T).y (base.toEcef T).z = .ok v) :
    v = ((Geo.ecefToEnu T p base).x, (Geo.ecefToEnu T p base).y, (Geo.ecefToEnu T p base).z) := by
  simp only [Gen.ObsCoords.ECEFCoords_toENUCoords] at h
  cases hg : Gen.ObsCoords.ECEFCoords_toGeoCoords T.pi T.sqrt T.sin T.cos T.atan2 T.pow
      (base.toEcef T).x (base.toEcef T).y (base.toEcef T).z with
  | error e => rw [hg] at h; exact nomatch h
  | ok w =>
    rw [hg] at h
    have hw := tie_ecefToGeo T (base.toEcef T) w h1 h2 h3 hg
    subst hw
    exact (Except.ok.inj h).symm

/-- `ENUCoords(E, N, U).toECEFCoords(base)`: when it returns, it returns the model's `enuToEcef` -/
theorem tie_enuToEcef (T : Geo.Trig α) (q : Geo.V3 α) (base : Geo.Base α) (v : α × α × α)
    (h1 : (1 : α) = 1.0) (h2 : (2 : α) = 2.0) (h3 : (3 : α) = 3.0)
    (h : Gen.ObsCoords.ENUCoords_toECEFCoords T.pi T.sqrt T.sin T.cos T.atan2 T.pow q.x q.y q.z
          (base.toEcef T).x (base.toEcef T).y (base.toEcef T).z = .ok v) :
    v = ((Geo.enuToEcef T q base).x, (Geo.enuToEcef T q base).y, (Geo.enuToEcef T q base).z) := by
  simp only [Gen.ObsCoords.ENUCoords_toECEFCoords] at h
  cases hg : Gen.ObsCoords.ECEFCoords_toGeoCoords T.pi T.sqrt T.sin T.cos T.atan2 T.pow
      (base.toEcef T).x (base.toEcef T).y (base.toEcef T).z with
  | error e => rw [hg] at h; exact nomatch h
  | ok w =>
    rw [hg] at h
    have hw := tie_ecefToGeo T (base.toEcef T) w h1 h2 h3 hg
    subst hw
    exact (Except.ok.inj h).symm

end
end TV.Tie.C14
