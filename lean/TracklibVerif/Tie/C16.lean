import TracklibVerif.Model.Simplify
import TracklibVerif.Gen.Geometry
/-! Tie for C16: `distance_to_segment` and `triangle_area` translated from the CURRENT `tracklib/util/geometry.py` equals the model's
`TV.Simplify.distanceToSegment` on all arguments.

The model tests `l == 0` with a `BEq α` instance and then divides with the plain `/`; the translation tests it with
`Py.feq` (`l ≤ 0 ∧ 0 ≤ l`) and divides with `Py.fdiv` (which raises on a zero divisor). The hypothesis `hbeq` says the
`BEq` instance is Python's `==` on numbers; it holds for `Float` (IEEE `==`) and for every ordered field. Under it the
guarded divisions cannot raise, and the two definitions coincide. -/
namespace TV.Tie.C16
open TV TV.Py
set_option linter.unusedSectionVars false
set_option linter.unusedSimpArgs false
section
variable {α : Type} [Add α] [Sub α] [Mul α] [Div α] [LT α] [LE α] [DecidableLT α] [DecidableLE α] [BEq α] [OfNat α 0]

theorem tie_distance_to_segment (hbeq : ∀ a b : α, (a == b) = Py.feq a b) (sqrt : α → α) (x0 y0 x1 y1 x2 y2 : α) :
    Gen.Geometry.distance_to_segment sqrt x0 y0 x1 y1 x2 y2 = .ok (Simplify.distanceToSegment sqrt x0 y0 x1 y1 x2 y2) := by
  simp only [Gen.Geometry.distance_to_segment, Simplify.distanceToSegment, Py.fdiv, hbeq]
  by_cases h : Py.feq (sqrt ((x2 - x1) * (x2 - x1) + (y2 - y1) * (y2 - y1))) 0 = true
  · simp only [ite_pos' h]
  · simp only [ite_neg' h, bind_ok]; rfl

/-- `triangle_area(x0, y0, x1, y1, x2, y2)` is the model's `triangleArea`; `h05`: the Python literal `0.5` is the
model's `1 / 2` (true of `Float`, `Rat` and every field of characteristic ≠ 2) -/
theorem tie_triangle_area [Neg α] [OfScientific α] [OfNat α 1] [OfNat α 2] (h05 : (0.5 : α) = 1 / 2) (x0 y0 x1 y1 x2 y2 : α) :
    Gen.Geometry.triangle_area x0 y0 x1 y1 x2 y2 = .ok (Simplify.triangleArea x0 y0 x1 y1 x2 y2) := by
  simp only [Gen.Geometry.triangle_area, Simplify.triangleArea, h05]
  rfl

end
end TV.Tie.C16
