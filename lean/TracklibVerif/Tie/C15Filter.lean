import TracklibVerif.Model.Filter
import TracklibVerif.Gen.Operators
/-! Tie for C15 (loops of `Filter.execute`, tracklib/core/operators.py, kernel argument a `Kernel` object that is not
the Dirac kernel): the definition `Gen.Operators.Filter_execute_kernel` translated from the CURRENT source equals the
hand-written model `TV.Filter.filterWindow` (Model/Filter.lean, section `core`) on ALL arguments, errors included.

NaN: the generated code works on raw scalars and tests `isnan(val)` = `!(val == val)`; the model works on
`List (Option α)` with `none` = NaN. The model input is `af_input.map enc` (`enc x = some x` unless `x != x`); the model
output `w` is read back by `decode af_input w` (`some y ↦ y`, `none` at index `i` ↦ `af_input[i]`: in `filterWindow` a `none`
can only come from `copyBoundary` copying `(af_input.map enc)[i] = none`, i.e. a NaN of the input at the same index — this
remark is NOT a theorem of this file). The interior cells are compared EXACTLY (`c.1 / c.2`, NaN or not).

Hypotheses of `tie_execute_kernel`: `af_input.length = n` (the column has `track.size()` entries) and
`trunc ((N : α) / 2) = N / 2` (`int(N / 2)` is the integer half of `N = len(window)`; true of doubles for every list length
and of an ordered field with truncation). The model's `BEq α` is instantiated by `⟨Py.feq⟩` (Python's `==`).

* `innerLoop_tie`, `outerLoop_tie`, `copyLoop_ok`, `copyLoop_index` — loop lemmas for an arbitrary body satisfying a pointwise
  equation; nothing of the generated text is copied here.
* `tie_execute_kernel` — the equality. -/
namespace TV.Tie.C15Filter
open TV TV.Py TV.Filter
set_option linter.unusedSectionVars false
set_option linter.unusedSimpArgs false
set_option linter.unusedVariables false

/-! ## Prelude lemmas (general; could live in Model/PyPrelude.lean) -/

theorem fmod_natCast (n k : Nat) : Int.fmod (n : Int) (k : Int) = ((n % k : Nat) : Int) := by
  rw [Int.fmod_eq_emod_of_nonneg _ (Int.natCast_nonneg k)]
  exact (Int.natCast_emod n k).symm

/-- reading the item just after a prefix of known length -/
theorem getIdx_mid {β : Type} (pre suf : List β) (t : β) (i : Nat) (h : pre.length = i) :
    getIdx (pre ++ t :: suf) (i : Int) = .ok t := by
  rw [getIdx_natCast]; apply getItem_eq_ok; subst h; simp

/-- writing the item just after a prefix of known length -/
theorem setIdx_mid {β : Type} (pre suf : List β) (t x : β) (i : Nat) (h : pre.length = i) :
    setIdx (pre ++ t :: suf) (i : Int) x = .ok (pre ++ x :: suf) := by
  rw [setIdx_natCast _ _ _ (by subst h; simp)]; subst h; simp

theorem getIdx_ok_of_getElem? {β : Type} (l : List β) (i : Nat) (x : β) (h : l[i]? = some x) :
    getIdx l (i : Int) = .ok x := by
  rw [getIdx_natCast]; exact getItem_eq_ok h

theorem replicate_natCast {β : Type} (n : Nat) (c : β) : Py.replicate (n : Int) c = List.replicate n c := by
  unfold Py.replicate; rw [Int.toNat_natCast]

/-- `for i in range(a, b): temp[i] = af[i]` inside both lists: item `i` of the result is `af[i]` for `a ≤ i < b`,
`temp[i]` elsewhere -/
theorem copyLoop_ok {β ρ : Type} (af : List β) (body : Int → List β → M (Ctl (List β) ρ))
    (h : ∀ (i : Nat) (temp : List β), body (i : Int) temp
      = Py.bind (getIdx af (i : Int)) fun x => Py.bind (setIdx temp (i : Int) x) fun t => .ok (.cont t))
    (m : Nat) : ∀ (a : Nat) (temp : List β), a + m ≤ af.length → temp.length = af.length →
      ∃ r, forList body (range (a : Int) ((a + m : Nat) : Int)) temp = .ok (.done r) ∧ r.length = af.length ∧
        ∀ i, r[i]? = if a ≤ i ∧ i < a + m then af[i]? else temp[i]? := by
  induction m with
  | zero =>
    intro a temp _ hl
    refine ⟨temp, ?_, hl, ?_⟩
    · rw [range_empty (by omega)]; rfl
    · intro i; rw [if_neg (by omega)]
  | succ m ih =>
    intro a temp ha hl
    have hlt : a < af.length := by omega
    have hx : af[a]? = some af[a] := List.getElem?_eq_getElem hlt
    have hb : body (a : Int) temp = .ok (.cont (temp.set a af[a])) := by
      rw [h, getIdx_ok_of_getElem? af a _ hx, bind_ok, setIdx_natCast _ _ _ (by omega), bind_ok]
    obtain ⟨r, hr, hrl, hri⟩ := ih (a + 1) (temp.set a af[a]) (by omega) (by simp [hl])
    refine ⟨r, ?_, hrl, ?_⟩
    · rw [range_cons (by omega), forList_cons_cont hb]
      have e1 : ((a : Int) + 1) = ((a + 1 : Nat) : Int) := by omega
      have e2 : ((a + (m + 1) : Nat) : Int) = ((a + 1 + m : Nat) : Int) := by omega
      rw [e1, e2]; exact hr
    · intro i
      rw [hri i]
      by_cases hia : i = a
      · subst hia
        rw [if_neg (by omega), if_pos (by omega), List.getElem?_set_self (by omega), hx]
      · by_cases hc : a + 1 ≤ i ∧ i < a + 1 + m
        · rw [if_pos hc, if_pos (by omega)]
        · rw [if_neg hc, if_neg (by omega), List.getElem?_set_ne (by omega)]

/-- `for i in range(a, b): temp[i] = af[i]` with `a ≤ len(af) < b`: IndexError (at `i = len(af)`) -/
theorem copyLoop_index {β ρ : Type} (af : List β) (body : Int → List β → M (Ctl (List β) ρ))
    (h : ∀ (i : Nat) (temp : List β), body (i : Int) temp
      = Py.bind (getIdx af (i : Int)) fun x => Py.bind (setIdx temp (i : Int) x) fun t => .ok (.cont t))
    (b : Nat) (hb : af.length < b)
    (m : Nat) : ∀ (a : Nat) (temp : List β), a + m = af.length → temp.length = af.length →
      forList body (range (a : Int) (b : Int)) temp = .error .index := by
  induction m with
  | zero =>
    intro a temp ha hl
    have hx : af[a]? = none := List.getElem?_eq_none (by omega)
    rw [range_cons (by omega)]
    apply forList_cons_error
    rw [h, getIdx_natCast, getItem_eq_error hx]; rfl
  | succ m ih =>
    intro a temp ha hl
    have hlt : a < af.length := by omega
    have hx : af[a]? = some af[a] := List.getElem?_eq_getElem hlt
    have hbd : body (a : Int) temp = .ok (.cont (temp.set a af[a])) := by
      rw [h, getIdx_ok_of_getElem? af a _ hx, bind_ok, setIdx_natCast _ _ _ (by omega), bind_ok]
    rw [range_cons (by omega), forList_cons_cont hbd]
    have e1 : ((a : Int) + 1) = ((a + 1 : Nat) : Int) := by omega
    rw [e1]; exact ih (a + 1) _ (by omega) (by simp [hl])

/-- using a loop lemma stated with `∃` under a `bind` -/
theorem bind_forList_exists {β σ ρ γ : Type} {body : β → σ → M (Ctl σ ρ)} {l : List β} {s : σ} {P : σ → Prop}
    {F : Out σ ρ → M γ} {R : M γ} (h : ∃ r, forList body l s = .ok (.done r) ∧ P r)
    (hk : ∀ r, P r → F (.done r) = R) : Py.bind (forList body l s) F = R := by
  obtain ⟨r, e, p⟩ := h
  rw [e]; exact hk r p

/-! ## The tie -/
section
variable {α : Type} [Add α] [Mul α] [Div α] [LE α] [DecidableLE α] [OfNat α 0]

/-- encoding of a raw scalar: NaN (`x != x`) is `none` -/
def enc (x : α) : Option α := if Py.feq x x then some x else none

/-- reading back a model signal against the raw input column: `some y ↦ y`, `none` at index `i` ↦ `af[i]` -/
def decode (af : List α) (w : List (Option α)) : List α := List.zipWith (fun o x => o.getD x) w af

/-- exceptions: `KernelError` (in fact NameError) is `raised`; the errors `filterWindow` cannot produce go to `raised` -/
def liftErr : TV.Filter.Err → Py.Err
  | .zeroDiv => .zerodiv
  | .index => .index
  | _ => .raised

def lift (af : List α) : Except TV.Filter.Err (List (Option α)) → Py.M (List α)
  | .error e => .error (liftErr e)
  | .ok w => .ok (decode af w)

/-- `sample` on an encoded column, three cases -/
theorem sample_lt (v : List (Option α)) (D i j : Nat) (h : (i : Int) - (j : Int) + (D : Int) < 0) :
    sample v D i j = none := by
  unfold sample; simp only []; rw [if_pos h]

theorem sample_ge (v : List (Option α)) (D i j : Nat) (h1 : ¬ (i : Int) - (j : Int) + (D : Int) < 0)
    (h : (v.length : Int) ≤ (i : Int) - (j : Int) + (D : Int)) : sample v D i j = none := by
  unfold sample; simp only []; rw [if_neg h1, if_pos h]

theorem sample_in (af : List α) (D i j : Nat) (h1 : ¬ (i : Int) - (j : Int) + (D : Int) < 0)
    (h2 : ¬ (af.length : Int) ≤ (i : Int) - (j : Int) + (D : Int)) :
    ∃ x, getIdx af ((i : Int) - (j : Int) + (D : Int)) = .ok x ∧ sample (af.map enc) D i j = enc x := by
  have hm : ((i : Int) - (j : Int) + (D : Int)).toNat < af.length := by omega
  refine ⟨af[((i : Int) - (j : Int) + (D : Int)).toNat], ?_, ?_⟩
  · rw [getIdx_nonneg _ (by omega)]; exact getItem_eq_ok (List.getElem?_eq_getElem hm)
  · unfold sample; simp only []
    rw [if_neg h1, if_neg (by rw [List.length_map]; exact h2), List.getElem?_map, List.getElem?_eq_getElem hm]
    simp only [Option.map_some]
    cases enc af[((i : Int) - (j : Int) + (D : Int)).toNat] <;> rfl

/-- the loop `for j in range(N)`: only `temp[i]` and `norm` change, as in `inner` -/
theorem innerLoop_tie {ρ : Type} (v : List (Option α)) (D i : Nat) (pre suf : List α)
    (body : Int → List α × α → M (Ctl (List α × α) ρ)) (ks : List α) :
    ∀ (j0 : Nat), (∀ (m : Nat) (kj t norm : α), ks[m]? = some kj →
        body ((j0 + m : Nat) : Int) (pre ++ t :: suf, norm) = .ok (.cont (match sample v D i (j0 + m) with
          | none => (pre ++ t :: suf, norm)
          | some val => (pre ++ (t + val * kj) :: suf, norm + kj)))) →
      ∀ (t norm : α), forList body (range (j0 : Int) ((j0 + ks.length : Nat) : Int)) (pre ++ t :: suf, norm)
        = .ok (.done (pre ++ (inner v D i ks j0 (t, norm)).1 :: suf, (inner v D i ks j0 (t, norm)).2)) := by
  induction ks with
  | nil => intro j0 _ t norm; rw [range_empty (by simp)]; rfl
  | cons kj ks ih =>
    intro j0 h t norm
    have h0 := h 0 kj t norm rfl
    rw [Nat.add_zero] at h0
    have e1 : ((j0 : Int) + 1) = ((j0 + 1 : Nat) : Int) := by omega
    have e2 : ((j0 + (kj :: ks).length : Nat) : Int) = ((j0 + 1 + ks.length : Nat) : Int) := by
      rw [List.length_cons]; omega
    have h' : ∀ (m : Nat) (kj t norm : α), ks[m]? = some kj →
        body ((j0 + 1 + m : Nat) : Int) (pre ++ t :: suf, norm) = .ok (.cont (match sample v D i (j0 + 1 + m) with
          | none => (pre ++ t :: suf, norm)
          | some val => (pre ++ (t + val * kj) :: suf, norm + kj))) := by
      intro m kj' t' norm' hk
      have := h (m + 1) kj' t' norm' (by rw [List.getElem?_cons_succ]; exact hk)
      rw [show j0 + (m + 1) = j0 + 1 + m by omega] at this
      exact this
    rw [range_cons (by rw [List.length_cons]; omega), forList_cons_cont h0, e1, e2]
    cases hs : sample v D i j0 with
    | none => simp only [inner, hs]; exact ih (j0 + 1) h' t norm
    | some val => simp only [inner, hs]; exact ih (j0 + 1) h' _ _

/-- `temp[i] /= norm` cell after cell, stopping at the first zero norm -/
def divCells : List (α × α) → M (List α)
  | [] => .ok []
  | c :: cs => if Py.feq c.2 0 then .error .zerodiv else
      match divCells cs with
      | .error e => .error e
      | .ok l => .ok (c.1 / c.2 :: l)

theorem divCells_eq (cs : List (α × α)) :
    divCells cs = if cs.any (fun c => Py.feq c.2 0) then .error .zerodiv else .ok (cs.map fun c => c.1 / c.2) := by
  induction cs with
  | nil => rfl
  | cons c cs ih =>
    rw [divCells, ih, List.any_cons]
    by_cases hc : Py.feq c.2 0 = true
    · rw [if_pos hc, hc]; rfl
    · have hc' : Py.feq c.2 0 = false := by simpa using hc
      rw [if_neg hc, hc', Bool.false_or]
      by_cases ha : cs.any (fun c => Py.feq c.2 0) = true
      · rw [if_pos ha, if_pos ha]
      · rw [if_neg ha, if_neg ha]; rfl

/-- the loop `for i in range(track.size())`: the state is the cells already divided followed by the untouched zeros -/
theorem outerLoop_tie {ρ : Type} (f : Nat → α × α) (n : Nat) (body : Int → List α → M (Ctl (List α) ρ))
    (h : ∀ (i m : Nat) (pre : List α), pre.length = i → i + m + 1 = n →
      body (i : Int) (pre ++ List.replicate (m + 1) 0)
        = if Py.feq (f i).2 0 then .error .zerodiv else .ok (.cont (pre ++ ((f i).1 / (f i).2) :: List.replicate m 0)))
    (m : Nat) : ∀ (i : Nat) (pre : List α), pre.length = i → i + m = n →
      forList body (range (i : Int) (n : Int)) (pre ++ List.replicate m 0)
        = match divCells ((List.range' i m).map f) with
          | .error e => .error e
          | .ok l => .ok (.done (pre ++ l)) := by
  induction m with
  | zero =>
    intro i pre hp hn
    rw [range_empty (by omega)]; rfl
  | succ m ih =>
    intro i pre hp hn
    rw [range_cons (by omega), List.range'_succ, List.map_cons, divCells]
    have hb := h i m pre hp (by omega)
    by_cases hz : Py.feq (f i).2 0 = true
    · rw [if_pos hz] at hb
      rw [forList_cons_error hb, if_pos hz]
    · rw [if_neg hz] at hb
      rw [forList_cons_cont hb, if_neg hz]
      have e1 : ((i : Int) + 1) = ((i + 1 : Nat) : Int) := by omega
      have := ih (i + 1) (pre ++ [(f i).1 / (f i).2]) (by simp [hp]) (by omega)
      rw [List.append_assoc, List.singleton_append] at this
      rw [e1, this]
      cases divCells ((List.range' (i + 1) m).map f) with
      | error e => rfl
      | ok l => simp

theorem any_zipIdx_fst {β : Type} (l : List β) (p : β → Bool) (s : Nat) :
    (l.zipIdx s).any (fun c => p c.1) = l.any p := by
  induction l generalizing s with
  | nil => rfl
  | cons a l ih => rw [List.zipIdx_cons, List.any_cons, List.any_cons, ih]

/-- first boundary loop `for i in range(0, D)` -/
theorem copyLoop_prefix {β ρ : Type} (af : List β) (body : Int → List β → M (Ctl (List β) ρ))
    (h : ∀ (i : Nat) (temp : List β), body (i : Int) temp
      = Py.bind (getIdx af (i : Int)) fun x => Py.bind (setIdx temp (i : Int) x) fun t => .ok (.cont t))
    (D : Nat) (temp : List β) (hD : D ≤ af.length) (hl : temp.length = af.length) :
    ∃ r, forList body (range 0 (D : Int)) temp = .ok (.done r) ∧ r.length = af.length ∧
        ∀ i, r[i]? = if i < D then af[i]? else temp[i]? := by
  obtain ⟨r, h1, h2, h3⟩ := copyLoop_ok af body h D 0 temp (by omega) hl
  rw [Nat.zero_add] at h1
  refine ⟨r, h1, h2, ?_⟩
  intro i; rw [h3 i]
  by_cases hi : i < D
  · rw [if_pos (by omega), if_pos hi]
  · rw [if_neg (by omega), if_neg hi]

/-- second boundary loop `for i in range(n - D, n)` -/
theorem copyLoop_suffix {β ρ : Type} (af : List β) (body : Int → List β → M (Ctl (List β) ρ))
    (h : ∀ (i : Nat) (temp : List β), body (i : Int) temp
      = Py.bind (getIdx af (i : Int)) fun x => Py.bind (setIdx temp (i : Int) x) fun t => .ok (.cont t))
    (D n : Nat) (temp : List β) (hn : af.length = n) (hD : D ≤ n) (hl : temp.length = n) :
    ∃ r, forList body (range ((n : Int) - (D : Int)) (n : Int)) temp = .ok (.done r) ∧ r.length = n ∧
        ∀ i, r[i]? = if n - D ≤ i ∧ i < n then af[i]? else temp[i]? := by
  obtain ⟨r, h1, h2, h3⟩ := copyLoop_ok af body h D (n - D) temp (by omega) (by omega)
  have e1 : ((n - D : Nat) : Int) = (n : Int) - (D : Int) := by omega
  have e2 : n - D + D = n := by omega
  rw [e1, e2] at h1
  refine ⟨r, h1, by omega, ?_⟩
  intro i; rw [h3 i, e2]

theorem enc_getD (x : α) : (enc x).getD x = x := by
  unfold enc; by_cases h : Py.feq x x = true
  · rw [if_pos h]; rfl
  · rw [if_neg h]; rfl

theorem decode_map {γ : Type} (g : γ → Option α) (q : γ → α) (cs : List γ) :
    ∀ (af : List α), (∀ c ∈ cs, g c = some (q c)) → cs.length = af.length → decode af (cs.map g) = cs.map q := by
  induction cs with
  | nil => intro af _ _; rfl
  | cons c cs ih =>
    intro af hg hl
    cases af with
    | nil => exact nomatch hl
    | cons x af =>
      have := ih af (fun c' hc' => hg c' (List.mem_cons_of_mem c hc')) (by simpa using hl)
      unfold decode at this ⊢
      rw [List.map_cons, List.zipWith_cons_cons, this, hg c List.mem_cons_self]; rfl

/-- the list left by the two boundary loops is the decoded `copyBoundary` -/
theorem final_eq (af : List α) (cs : List (α × α)) (D n : Nat) (hn : af.length = n) (hcs : cs.length = n) (hD : D ≤ n)
    (g : α × α → Option α) (hg : ∀ c ∈ cs, g c = some (c.1 / c.2))
    (r : List α) (hrl : r.length = n)
    (hr : ∀ i, r[i]? = if n - D ≤ i ∧ i < n then af[i]?
      else if i < D then af[i]? else (cs.map fun c => c.1 / c.2)[i]?) :
    r = decode af (copyBoundary (af.map enc) (cs.map g) D) := by
  apply List.ext_getElem?
  intro i
  rw [hr i]
  unfold decode copyBoundary
  rw [List.getElem?_zipWith, List.length_map, hn]
  by_cases hi : i < n
  · have hia : i < af.length := by omega
    have hic : i < cs.length := by omega
    simp only [List.getElem?_map, List.getElem?_range hi, List.getElem?_eq_getElem hia, List.getElem?_eq_getElem hic, Option.map_some,
      Option.join_some]
    rw [hg cs[i] (List.getElem_mem hic)]
    by_cases h1 : n - D ≤ i ∧ i < n
    · rw [if_pos h1, if_pos (Or.inr h1.1), enc_getD]
    · rw [if_neg h1]
      by_cases h2 : i < D
      · rw [if_pos h2, if_pos (Or.inl h2), enc_getD]
      · rw [if_neg h2, if_neg (by omega)]; rfl
  · rw [if_neg (by omega), if_neg (by omega), List.getElem?_eq_none (by omega : af.length ≤ i), List.getElem?_map,
      List.getElem?_eq_none (by omega : cs.length ≤ i)]
    cases (List.map
          (fun i =>
            if i < D ∨ n - D ≤ i then (List.map enc af)[i]?.join else (List.map g cs)[i]?.join)
          (List.range n))[i]? <;> rfl

/-- `Filter.execute` (Kernel object, not Dirac) = `filterWindow` on the encoded column, on ALL arguments: `KernelError` on an
even window, `ZeroDivisionError` when a collected norm is `== 0`, `IndexError` in the boundary copy of a track shorter than
the half window, else the decoded model signal. Hypotheses: `hn` the column has `n = track.size()` entries; `hD`
`int(N / 2)` is the integer half of the window length; the model's `==` is `Py.feq`. -/
theorem tie_execute_kernel [IntCast α] [OfNat α 2] (trunc : α → Int) (n : Nat) (af_input k : List α) (boundary : Bool)
    (hn : af_input.length = n)
    (hD : trunc (((k.length : Int) : α) / 2) = ((k.length / 2 : Nat) : Int)) :
    Gen.Operators.Filter_execute_kernel trunc (n : Int) af_input boundary k
      = lift af_input (@TV.Filter.filterWindow α _ _ _ _ ⟨Py.feq⟩ (af_input.map enc) k boundary) := by
  unfold Gen.Operators.Filter_execute_kernel
  simp only [Py.len, hD, replicate_natCast]
  have hf : (k.length : Int).fmod 2 = ((k.length % 2 : Nat) : Int) := fmod_natCast k.length 2
  simp only [hf]
  -- the main double loop
  have hOuter : ∀ body : Int → List α → M (Ctl (List α) (List α)),
      (∀ (i m : Nat) (pre : List α), pre.length = i → i + m + 1 = n →
        body (i : Int) (pre ++ List.replicate (m + 1) 0)
          = if Py.feq (inner (af_input.map enc) (k.length / 2) i k 0 (0, 0)).2 0 then .error .zerodiv
            else .ok (.cont (pre ++ ((inner (af_input.map enc) (k.length / 2) i k 0 (0, 0)).1
              / (inner (af_input.map enc) (k.length / 2) i k 0 (0, 0)).2) :: List.replicate m 0))) →
      forList body (range 0 (n : Int)) (List.replicate n 0)
        = match divCells ((List.range' 0 n).map fun i => inner (af_input.map enc) (k.length / 2) i k 0 (0, 0)) with
          | .error e => .error e
          | .ok l => .ok (.done l) := by
    intro body hb
    have := outerLoop_tie (fun i => inner (af_input.map enc) (k.length / 2) i k 0 (0, 0)) n body hb n 0 [] rfl (by omega)
    rw [List.nil_append] at this
    rw [show (0 : Int) = ((0 : Nat) : Int) from rfl, this]
    cases divCells ((List.range' 0 n).map fun i => inner (af_input.map enc) (k.length / 2) i k 0 (0, 0)) with
    | error e => rfl
    | ok l => rfl
  rw [hOuter _ ?spec]
  case spec =>
    intro i m pre hp hm
    simp only [List.replicate_succ]
    have hInner : ∀ body' : Int → List α × α → M (Ctl (List α × α) (List α)),
        (∀ (j : Nat) (kj t norm : α), k[j]? = some kj →
          body' (j : Int) (pre ++ t :: List.replicate m 0, norm)
            = .ok (.cont (match sample (af_input.map enc) (k.length / 2) i j with
              | none => (pre ++ t :: List.replicate m 0, norm)
              | some val => (pre ++ (t + val * kj) :: List.replicate m 0, norm + kj)))) →
        forList body' (range 0 (k.length : Int)) (pre ++ 0 :: List.replicate m 0, 0)
          = .ok (.done (pre ++ (inner (af_input.map enc) (k.length / 2) i k 0 (0, 0)).1 :: List.replicate m 0,
              (inner (af_input.map enc) (k.length / 2) i k 0 (0, 0)).2)) := by
      intro body' hb
      have := innerLoop_tie (af_input.map enc) (k.length / 2) i pre (List.replicate m 0) body' k 0
        (by intro j kj t norm hk; rw [Nat.zero_add]; exact hb j kj t norm hk) 0 0
      rw [Nat.zero_add] at this
      exact this
    rw [hInner _ ?spec']
    case spec' =>
      intro j kj t norm hk
      simp only []
      by_cases h1 : (i : Int) - (j : Int) + ((k.length / 2 : Nat) : Int) < 0
      · rw [sample_lt _ _ _ _ h1, ite_pos' (decide_eq_true h1)]
      · rw [ite_neg' (by simpa using h1)]
        by_cases h2 : (n : Int) ≤ (i : Int) - (j : Int) + ((k.length / 2 : Nat) : Int)
        · rw [sample_ge _ _ _ _ h1 (by rw [List.length_map, hn]; exact h2), ite_pos' (decide_eq_true h2)]
        · obtain ⟨x, hx, hs⟩ := sample_in af_input _ i j h1 (by rw [hn]; exact h2)
          rw [ite_neg' (by simpa using h2), hx, hs]
          simp only [bind_ok, Gen.Utils.isnan, enc]
          by_cases hxx : Py.feq x x = true
          · simp only [hxx, Bool.not_true, Bool.false_eq_true, if_false, if_true, getIdx_mid pre _ _ i hp,
              getIdx_ok_of_getElem? k j kj hk, bind_ok, setIdx_mid pre _ _ _ i hp]
          · have hxx' : Py.feq x x = false := by simpa using hxx
            simp only [hxx', Bool.not_false, if_true, Bool.false_eq_true, if_false]
    simp only [bind_ok, getIdx_mid pre _ _ i hp, Py.fdiv]
    by_cases hz : Py.feq (inner (af_input.map enc) (k.length / 2) i k 0 (0, 0)).2 0 = true
    · simp only [hz, if_true, bind_error]
    · simp only [hz, Bool.false_eq_true, if_false, bind_ok, setIdx_mid pre _ _ _ i hp]
  unfold filterWindow filterWindowG
  simp only [List.length_map, hn]
  have hcells : cells (af_input.map enc) k (k.length / 2)
      = (List.range' 0 n).map (fun i => inner (af_input.map enc) (k.length / 2) i k 0 (0, 0)) := by
    unfold cells; rw [List.length_map, hn, List.range_eq_range']
  rw [hcells]
  generalize hcs : (List.range' 0 n).map (fun i => inner (af_input.map enc) (k.length / 2) i k 0 (0, 0)) = cs
  have hcl : cs.length = n := by rw [← hcs]; simp
  have hcond : (fun c : (α × α) × Nat =>
      Py.feq c.1.2 0 && (!false || !anySample (af_input.map enc) (k.length / 2) c.2 k 0))
      = fun c => (fun c' : α × α => Py.feq c'.2 0) c.1 := by
    funext c; simp only [Bool.not_false, Bool.true_or, Bool.and_true]
  rw [hcond, any_zipIdx_fst cs (fun c' : α × α => Py.feq c'.2 0) 0, divCells_eq]
  by_cases hev : k.length % 2 = 0
  · have h1 : (k.length % 2 == 0) = true := by simp [hev]
    rw [if_pos h1, hev]; rfl
  · have h1 : ¬ ((k.length % 2 == 0) = true) := by simpa using hev
    have h2 : ¬ (decide (((k.length % 2 : Nat) : Int) = 0) = true) := by
      intro h; exact hev (by have := of_decide_eq_true h; omega)
    rw [if_neg h1, ite_neg' h2, bind_ok]
    by_cases hany : cs.any (fun c => Py.feq c.2 0) = true
    · rw [if_pos hany, if_pos hany]; rfl
    · rw [if_neg hany, if_neg hany]
      simp only [bind_ok]
      have hnz : ∀ c ∈ cs, (fun c : α × α => if Py.feq c.2 0 = true then none else some (c.1 / c.2)) c
          = some (c.1 / c.2) := by
        intro c hc
        have : ¬ Py.feq c.2 0 = true := fun h => hany (List.any_eq_true.mpr ⟨c, hc, h⟩)
        simp only [if_neg this]
      cases boundary with
      | true =>
        simp only [Bool.not_true, Bool.false_eq_true, if_false, if_true]
        unfold lift; simp only []
        rw [decode_map _ (fun c => c.1 / c.2) cs af_input hnz (by omega)]
      | false =>
        simp only [Bool.not_false, if_true, Bool.false_eq_true, if_false]
        by_cases hlt : n < k.length / 2
        · rw [if_pos hlt]
          have hidx : ∀ body : Int → List α → M (Ctl (List α) (List α)),
              (∀ (i : Nat) (temp : List α), body (i : Int) temp
                = Py.bind (getIdx af_input (i : Int)) fun x => Py.bind (setIdx temp (i : Int) x) fun t => .ok (.cont t)) →
              forList body (range 0 ((k.length / 2 : Nat) : Int)) (cs.map fun c => c.1 / c.2) = .error .index := by
            intro body hb
            exact copyLoop_index af_input body hb (k.length / 2) (by omega) n 0 _ (by omega) (by simp; omega)
          rw [hidx _ (fun i temp => rfl)]; rfl
        · rw [if_neg hlt]
          refine bind_forList_exists (copyLoop_prefix af_input _ (fun i temp => rfl) (k.length / 2)
            (cs.map fun c => c.1 / c.2) (by omega) (by simp; omega)) ?_
          intro r1 ⟨l1, g1⟩
          simp only []
          refine bind_forList_exists (copyLoop_suffix af_input _ (fun i temp => rfl) (k.length / 2) n r1 hn
            (by omega) (by omega)) ?_
          intro r2 ⟨l2, g2⟩
          unfold lift; simp only []
          congr 1
          apply final_eq af_input cs (k.length / 2) n hn hcl (by omega) _ hnz r2 l2
          intro i; rw [g2 i, g1 i]
end

end TV.Tie.C15Filter
