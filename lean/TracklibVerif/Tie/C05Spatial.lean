import TracklibVerif.Model.Resample
import TracklibVerif.Gen.Interpolation
import TracklibVerif.Tie.C17
/-! Tie for C05, spatial half: `__resampleSpatial` of `tracklib/algo/interpolation.py` translated from the CURRENT source
(tools/py2lean.py → `Gen.Interpolation.resampleSpatial`) against the hand-written model `TV.Resample.resampleSpatial`
(`legs2D`, `cum`, `scanB`/`advanceB`, `pmin`, `bwdIdx`, `weights`, `bracket`, `spatialLoop`, `resampleSpatialLegs`).

An observation is the record `(E, N, U, t)`, `t = timestamp.toAbsTime()`; the model's `Fix` is `⟨x, y, z, t⟩`: `toFix` / `ofFix`.
The model's exceptions are mapped by `liftErr` (`index`, `zerodiv`, `nonterm`, `type` ↦ `.index`, `.zerodiv`, `.fuel`, `.type`).

* `tie_resampleSpatial` — for EVERY fuel `≥ len(track)` the translated function equals `lift` of the model's result, exceptions
  included, on every track (the empty one too) and every step, under: `x ** 2 = x * x`; `IntCast` agrees with `NatCast`;
  the zero test of a divisor (`Py.fdiv`: `x == 0`) is the negation of the model's `x < 0 ∨ 0 < x` for `ds` and for the
  differences of two entries of the abscissa table (`ZeroTest`: true in an ordered field, true of every non-NaN double).
* `tie_resampleSpatial_of_zeroTest` — the same with the zero-test hypothesis for every scalar (ordered fields).
* `resampleSpatial_empty_zero` — on an empty track with `ds == 0` the code raises ZeroDivisionError (`(sfin - sini) / ds` is
  evaluated before `track.getFirstObs()`) and so does the model (a former deviation of the model, corrected there).

The loop lemmas (`cumLoop_tie`, `scanB_tie`/`advanceB_tie`, `spatialLoop_tie`) are stated for an arbitrary body satisfying a
pointwise equation, which is then proved of the generated bodies: nothing of the generated text is copied here. -/
namespace TV.Tie.C05Spatial
open TV TV.Py
set_option linter.unusedSectionVars false
set_option linter.unusedSimpArgs false
set_option linter.unusedVariables false

/-- an observation: the record `(E, N, U, t)`, `t = timestamp.toAbsTime()` -/
abbrev Rec (α : Type) := α × α × α × α

/-- the model's fix of an observation record -/
def toFix {α : Type} (o : Rec α) : Resample.Fix α := ⟨o.1, o.2.1, o.2.2.1, o.2.2.2⟩
/-- the observation record of a model fix -/
def ofFix {α : Type} (p : Resample.Fix α) : Rec α := (p.x, p.y, p.z, p.t)

theorem ofFix_toFix {α : Type} (o : Rec α) : ofFix (toFix o) = o := rfl
theorem toFix_ofFix {α : Type} (p : Resample.Fix α) : toFix (ofFix p) = p := rfl

/-- the model's exceptions as Python exceptions (`nonterm` = the loop would still be running = out of fuel) -/
def liftErr : Resample.Err → Py.Err
  | .index => .index
  | .zerodiv => .zerodiv
  | .nonterm => .fuel
  | .type => .type

/-- the model's result as a result of the translated function -/
def lift {α : Type} : Except Resample.Err (List (Resample.Fix α)) → Py.M (List (Rec α))
  | .ok l => .ok (l.map ofFix)
  | .error e => .error (liftErr e)

/-! ### indexing -/

theorem getIdx_cur {β : Type} {l : List β} {r : Nat} {v : β} (h : l[r]? = some v) :
    Py.getIdx l (r : Int) = .ok v := by
  rw [getIdx_natCast]; exact getItem_eq_ok h

theorem getIdx_succ {β : Type} {l : List β} {j : Nat} {v : β} (h : l[j + 1]? = some v) :
    Py.getIdx l ((j : Int) + 1) = .ok v := by
  have : (j : Int) + 1 = ((j + 1 : Nat) : Int) := by omega
  rw [this]; exact getIdx_cur h

/-- `L[running_id - 1]`: Python's index `-1` is the last element — the model's `bwdIdx` -/
theorem getIdx_bwd {β : Type} {l : List β} {r : Nat} {v : β} (hr : r < l.length)
    (h : l[Resample.bwdIdx r l.length]? = some v) : Py.getIdx l ((r : Int) - 1) = .ok v := by
  unfold Resample.bwdIdx at h
  by_cases h0 : r = 0
  · subst h0
    rw [if_pos rfl] at h
    unfold Py.getIdx Py.len
    rw [if_neg (by omega), if_pos (by omega)]
    have : ((l.length : Int) + ((0 : Nat) - 1 : Int)).toNat = l.length - 1 := by omega
    rw [this]; exact getItem_eq_ok h
  · rw [if_neg h0] at h
    have : (r : Int) - 1 = ((r - 1 : Nat) : Int) := by omega
    rw [this]; exact getIdx_cur h

theorem bwdIdx_lt {r n : Nat} (h : r < n) : Resample.bwdIdx r n < n := by
  unfold Resample.bwdIdx; split <;> omega

section
variable {α : Type} [Add α] [Sub α] [Mul α] [Div α] [LT α] [LE α] [DecidableLT α] [DecidableLE α]
  [IntCast α] [NatCast α] [OfNat α 0] [OfNat α 2]

/-- the 2D length of the leg from `a` to `b`, as the model's `legs2D` writes it -/
def leg (sqrt : α → α) (a b : Rec α) : α :=
  sqrt ((b.1 - a.1) * (b.1 - a.1) + (b.2.1 - a.2.1) * (b.2.1 - a.2.1))

/-- `a.position.distance2DTo(b.position)` is that leg (through `TV.Tie.C17.tie_distance2DTo`) -/
theorem dist_leg (sqrt : α → α) (pow : α → α → α) (hsq : ∀ x : α, pow x 2 = x * x) (a b : Rec α) :
    Gen.ObsCoords.ENUCoords_distance2DTo sqrt pow a.1 a.2.1 a.2.2.1 b.1 b.2.1 b.2.2.1 = .ok (leg sqrt a b) :=
  @TV.Tie.C17.tie_distance2DTo α _ _ _ _ _ _ ⟨fun _ _ => true⟩ sqrt pow hsq (a.1, a.2.1) (b.1, b.2.1) a.2.2.1 b.2.2.1

theorem legs2D_cons2 (sqrt : α → α) (a b : Rec α) (rest : List (Rec α)) :
    Resample.legs2D sqrt ((a :: b :: rest).map toFix) = leg sqrt a b :: Resample.legs2D sqrt ((b :: rest).map toFix) := rfl

theorem length_cumFrom (s : α) (l : List α) : (Resample.cumFrom s l).length = l.length + 1 := by
  induction l generalizing s with
  | nil => rfl
  | cons x xs ih => simp only [Resample.cumFrom, List.length_cons, ih]

theorem length_legs2D (sqrt : α → α) (P : List (Resample.Fix α)) : (Resample.legs2D sqrt P).length = P.length - 1 := by
  induction P with
  | nil => rfl
  | cons a r ih =>
    cases r with
    | nil => rfl
    | cons b r' =>
      simp only [Resample.legs2D, List.length_cons] at ih ⊢
      omega

/-- the table of curvilinear abscissas has one entry per observation (one entry for an empty track) -/
theorem length_cum (sqrt : α → α) (P : List (Resample.Fix α)) (h : P ≠ []) :
    (Resample.cum (Resample.legs2D sqrt P)).length = P.length := by
  unfold Resample.cum
  rw [length_cumFrom, length_legs2D]
  cases P with
  | nil => exact absurd rfl h
  | cons a r => simp only [List.length_cons]; omega

/-! ### first loop: `S = [0]; for i in range(1, n): S.append(S[i-1] + dl)` is `cum (legs2D …)` -/

/-- generalised over the part of the track already walked (`done`) and the part of `S` already built (`pre ++ [s]`) -/
theorem cumLoop_tie {ρ : Type} (sqrt : α → α) (track : List (Rec α)) (body : Int → List α → Py.M (Py.Ctl (List α) ρ))
    (h : ∀ (j : Nat) (a b : Rec α) (S : List α) (s : α), track[j]? = some a → track[j + 1]? = some b → S[j]? = some s →
      body ((j : Int) + 1) S = .ok (.cont (S ++ [s + leg sqrt a b])))
    (rest dn : List (Rec α)) (a : Rec α) (pre : List α) (s : α)
    (htr : track = dn ++ a :: rest) (hlen : pre.length = dn.length) :
    Py.forList body (Py.range ((dn.length : Int) + 1) (track.length : Int)) (pre ++ [s])
      = .ok (.done (pre ++ Resample.cumFrom s (Resample.legs2D sqrt ((a :: rest).map toFix)))) := by
  induction rest generalizing dn a pre s with
  | nil =>
    rw [Py.range_empty (by rw [htr, List.length_append]; simp only [List.length_cons, List.length_nil]; omega)]
    rfl
  | cons b rest ih =>
    have hl : track.length = dn.length + (rest.length + 2) := by
      rw [htr, List.length_append]; simp only [List.length_cons]
    have ha : track[dn.length]? = some a := by
      rw [htr, List.getElem?_append_right (Nat.le_refl _), Nat.sub_self]; rfl
    have hb : track[dn.length + 1]? = some b := by
      rw [htr, List.getElem?_append_right (by omega)]
      have : dn.length + 1 - dn.length = 1 := by omega
      rw [this]; rfl
    have hs : (pre ++ [s])[dn.length]? = some s := by
      rw [List.getElem?_append_right (by omega), hlen, Nat.sub_self]; rfl
    rw [Py.range_cons (by omega), Py.forList_cons_cont (h dn.length a b (pre ++ [s]) s ha hb hs)]
    have ih' := ih (dn ++ [a]) b (pre ++ [s]) (s + leg sqrt a b) (by rw [htr, List.append_assoc]; rfl)
      (by simp only [List.length_append, List.length_cons, List.length_nil]; omega)
    have e1 : (((dn ++ [a]).length : Nat) : Int) + 1 = (dn.length : Int) + 1 + 1 := by
      simp only [List.length_append, List.length_cons, List.length_nil]; omega
    rw [e1] at ih'
    rw [ih', legs2D_cons2, Resample.cumFrom, List.append_assoc]
    rfl

/-- the whole first loop on a non-empty track -/
theorem cumLoop_tie0 {ρ : Type} (sqrt : α → α) (a : Rec α) (rest : List (Rec α)) (body : Int → List α → Py.M (Py.Ctl (List α) ρ))
    (h : ∀ (j : Nat) (a' b' : Rec α) (S : List α) (s : α), (a :: rest)[j]? = some a' → (a :: rest)[j + 1]? = some b' →
      S[j]? = some s → body ((j : Int) + 1) S = .ok (.cont (S ++ [s + leg sqrt a' b'])))
    (S : List α) (hS : S = Resample.cum (Resample.legs2D sqrt ((a :: rest).map toFix))) :
    Py.forList body (Py.range 1 (Py.len (a :: rest))) [0] = .ok (.done S) := by
  have := cumLoop_tie sqrt (a :: rest) body h rest [] a [] 0 rfl rfl
  rw [hS]
  exact this

/-! ### the scan `while running_id < len(S) - 1 and S[running_id] < s: running_id += 1` -/

theorem scanB_tie {ρ : Type} (S : List α) (s : α) (body : Int → Py.M (Py.Ctl Int ρ))
    (h : ∀ (r : Nat) (w : α), S[r]? = some w → body (r : Int) =
      if r + 1 < S.length ∧ w < s then .ok (.cont ((r : Int) + 1)) else .ok (.brk (r : Int)))
    (suf pre : List α) (hS : S = pre ++ suf) (hne : suf ≠ []) (fuel : Nat) (hf : suf.length ≤ fuel) :
    ∃ r : Nat, Resample.scanB s suf pre.length = some r ∧ pre.length ≤ r ∧ r < S.length ∧
      Py.whileLoop body fuel (pre.length : Int) = .ok (.done (r : Int)) := by
  induction suf generalizing pre fuel with
  | nil => exact absurd rfl hne
  | cons w ws ih =>
    have hw : S[pre.length]? = some w := by
      rw [hS, List.getElem?_append_right (Nat.le_refl _), Nat.sub_self]; rfl
    have hl : S.length = pre.length + (ws.length + 1) := by rw [hS, List.length_append]; rfl
    cases fuel with
    | zero => simp only [List.length_cons] at hf; omega
    | succ f =>
      cases ws with
      | nil =>
        refine ⟨pre.length, rfl, Nat.le_refl _, by omega, ?_⟩
        have hb := h pre.length w hw
        rw [if_neg (by simp only [List.length_nil] at hl; omega)] at hb
        exact Py.whileLoop_brk hb
      | cons w' ws' =>
        have hb := h pre.length w hw
        by_cases hc : w < s
        · rw [if_pos ⟨by simp only [List.length_cons] at hl; omega, hc⟩] at hb
          obtain ⟨r, h1, h2, h3, h4⟩ := ih (pre ++ [w]) (by rw [hS, List.append_assoc]; rfl) (by simp) f
            (by simp only [List.length_cons] at hf ⊢; omega)
          have e : ((pre ++ [w]).length) = pre.length + 1 := by simp
          rw [e] at h1 h2 h4
          refine ⟨r, ?_, by omega, h3, ?_⟩
          · rw [Resample.scanB, if_pos hc]; exact h1
          · rw [Py.whileLoop_cont hb]
            have : ((pre.length + 1 : Nat) : Int) = (pre.length : Int) + 1 := by omega
            rw [← this]; exact h4
        · rw [if_neg (fun hh => hc hh.2)] at hb
          refine ⟨pre.length, ?_, Nat.le_refl _, by omega, Py.whileLoop_brk hb⟩
          rw [Resample.scanB, if_neg hc]

/-- the scan from `running_id = rid` inside the table: the model's `advanceB` finds an index, inside the table, and the
`while` loop — with fuel for `len(S) - rid` evaluations of its test — ends on it -/
theorem advanceB_tie {ρ : Type} (S : List α) (s : α) (body : Int → Py.M (Py.Ctl Int ρ))
    (h : ∀ (r : Nat) (w : α), S[r]? = some w → body (r : Int) =
      if r + 1 < S.length ∧ w < s then .ok (.cont ((r : Int) + 1)) else .ok (.brk (r : Int)))
    (rid fuel : Nat) (hrid : rid < S.length) (hf : S.length - rid ≤ fuel) :
    ∃ r : Nat, Resample.advanceB S s rid = some r ∧ r < S.length ∧
      Py.whileLoop body fuel (rid : Int) = .ok (.done (r : Int)) := by
  have hS : S = S.take rid ++ S.drop rid := (List.take_append_drop rid S).symm
  have hl : (S.take rid).length = rid := by rw [List.length_take]; omega
  have hne : S.drop rid ≠ [] := by
    intro hh
    have := congrArg List.length hh
    rw [List.length_drop] at this; simp only [List.length_nil] at this; omega
  obtain ⟨r, h1, h2, h3, h4⟩ := scanB_tie S s body h (S.drop rid) (S.take rid) hS hne fuel
    (by rw [List.length_drop]; exact hf)
  rw [hl] at h1 h4
  exact ⟨r, h1, h3, h4⟩

/-- the model's scan from inside the table stays inside the table -/
theorem advanceB_lt (S : List α) (s : α) (rid r : Nat) (hrid : rid < S.length) (h : Resample.advanceB S s rid = some r) :
    r < S.length := by
  obtain ⟨r', h1, h2, _⟩ := advanceB_tie (ρ := Unit) S s
    (fun i => match S[i.toNat]? with
      | some w => if i.toNat + 1 < S.length ∧ w < s then .ok (.cont (i + 1)) else .ok (.brk i)
      | none => .ok (.brk i))
    (by intro r w hw; simp only [Int.toNat_natCast, hw]) rid (S.length - rid) hrid (Nat.le_refl _)
  rw [h] at h1
  simp only [Option.some.injEq] at h1
  omega

/-- `advanceB_tie` as an equation (the `none` branch never happens) -/
theorem advanceB_tie_eq {ρ : Type} (S : List α) (s : α) (body : Int → Py.M (Py.Ctl Int ρ))
    (h : ∀ (r : Nat) (w : α), S[r]? = some w → body (r : Int) =
      if r + 1 < S.length ∧ w < s then .ok (.cont ((r : Int) + 1)) else .ok (.brk (r : Int)))
    (rid fuel : Nat) (hrid : rid < S.length) (hf : S.length - rid ≤ fuel) :
    Py.whileLoop body fuel (rid : Int) =
      match Resample.advanceB S s rid with
      | some r => .ok (.done (r : Int))
      | none => .error .index := by
  obtain ⟨r, h1, _, h3⟩ := advanceB_tie S s body h rid fuel hrid hf
  rw [h1, h3]

/-! ### the bracket and the weights -/

/-- "`x == 0` is the negation of `x < 0 or 0 < x`" for the value `x`: how the code (`Py.fdiv`: ZeroDivisionError iff `x == 0`)
and the model (`x < 0 ∨ 0 < x`, else `zerodiv`) test a divisor. True of every element of an ordered field and of every
double that is not NaN (for NaN the code divides, the model says `zerodiv`). -/
def ZeroTest (x : α) : Prop := Py.feq x 0 = true ↔ ¬ (x < 0 ∨ 0 < x)

theorem fdiv_eq {a x : α} (hx : ZeroTest x) :
    Py.fdiv a x = if x < 0 ∨ 0 < x then .ok (a / x) else .error .zerodiv := by
  unfold Py.fdiv
  by_cases hc : x < 0 ∨ 0 < x
  · rw [if_pos hc, ite_neg' (fun hh => (hx.mp hh) hc)]
  · rw [if_neg hc, ite_pos' (hx.mpr hc)]

theorem bracket_eq {P : List (Resample.Fix α)} {V : List α} {v : α} {r : Nat} {pb pf : Resample.Fix α} {vb vf : α}
    (h1 : P[Resample.bwdIdx r P.length]? = some pb) (h2 : P[r]? = some pf)
    (h3 : V[Resample.bwdIdx r V.length]? = some vb) (h4 : V[r]? = some vf) :
    Resample.bracket P V v r =
      if vf - vb < 0 ∨ 0 < vf - vb then .ok (pb, pf, (vf - v) / (vf - vb), (v - vb) / (vf - vb)) else .error .zerodiv := by
  unfold Resample.bracket Resample.weights
  rw [h1, h2, h3, h4]
  simp only []
  by_cases hc : vf - vb < 0 ∨ 0 < vf - vb
  · rw [if_pos hc, if_pos hc]
  · rw [if_neg hc, if_neg hc]

theorem fmin_eq_pmin (a b : α) : Py.fmin a b = Resample.pmin a b := rfl
theorem fmax_eq_pmax (a b : α) : Py.fmax a b = Resample.pmax a b := rfl

/-- the observation the model's `spatialLoop` conses, as a record (time component: `T = min(max(T, t_bwd), t_fwd)`, the model's
`clampT`) -/
def newPt (pb pf : Resample.Fix α) (wb wf : α) : Rec α :=
  (wb * pb.x + wf * pf.x, wb * pb.y + wf * pf.y, wb * pb.z + wf * pf.z,
    Resample.clampT (wb * pb.t + wf * pf.t) pb.t pf.t)

/-! ### main loop `for k in range(1, N + 1)` against `spatialLoop` -/

/-- generalised over the list `acc` of points already appended (the model conses in front of the recursive result) -/
theorem spatialLoop_tie {ρ : Type} (P : List (Resample.Fix α)) (S : List α) (sini sfin ds : α)
    (body : Int → (List (Rec α) × Int) → Py.M (Py.Ctl (List (Rec α) × Int) ρ))
    (h : ∀ (k : Nat) (acc : List (Rec α)) (rid : Nat), rid < S.length →
      body (k : Int) (acc, (rid : Int)) =
        match Resample.advanceB S (Resample.pmin ((k : α) * ds + sini) sfin) rid with
        | none => .error .index
        | some r =>
          match Resample.bracket P S (Resample.pmin ((k : α) * ds + sini) sfin) r with
          | .error e => .error (liftErr e)
          | .ok (pb, pf, wb, wf) => .ok (.cont (acc ++ [newPt pb pf wb wf], (r : Int))))
    (hadv : ∀ (v : α) (rid r : Nat), rid < S.length → Resample.advanceB S v rid = some r → r < S.length)
    (n k rid : Nat) (acc : List (Rec α)) (hrid : rid < S.length) :
    match Resample.spatialLoop P S sini sfin ds n k rid with
    | .error e => Py.forList body (Py.range (k : Int) ((k : Int) + (n : Int))) (acc, (rid : Int)) = .error (liftErr e)
    | .ok out => ∃ r : Int,
        Py.forList body (Py.range (k : Int) ((k : Int) + (n : Int))) (acc, (rid : Int)) = .ok (.done (acc ++ out.map ofFix, r)) := by
  induction n generalizing k rid acc with
  | zero =>
    rw [Py.range_empty (by omega)]
    exact ⟨(rid : Int), by simp only [Resample.spatialLoop, Py.forList_nil, List.map_nil, List.append_nil]⟩
  | succ n ih =>
    rw [Py.range_cons (by omega), Py.forList_cons, h k acc rid hrid, Resample.spatialLoop]
    cases ha : Resample.advanceB S (Resample.pmin ((k : α) * ds + sini) sfin) rid with
    | none => rfl
    | some r =>
      have hr := hadv _ _ _ hrid ha
      simp only []
      cases hb : Resample.bracket P S (Resample.pmin ((k : α) * ds + sini) sfin) r with
      | error e => rfl
      | ok q =>
        obtain ⟨pb, pf, wb, wf⟩ := q
        simp only []
        have ih' := ih (k + 1) r (acc ++ [newPt pb pf wb wf]) hr
        have e1 : (((k + 1 : Nat) : Int)) = (k : Int) + 1 := by omega
        have e2 : (k : Int) + ((n + 1 : Nat) : Int) = (k : Int) + 1 + (n : Int) := by omega
        rw [e1] at ih'
        rw [e2]
        cases hl : Resample.spatialLoop P S sini sfin ds n (k + 1) r with
        | error e => rw [hl] at ih'; exact ih'
        | ok out =>
          rw [hl] at ih'
          obtain ⟨r', hr'⟩ := ih'
          refine ⟨r', ?_⟩
          rw [hr', List.append_assoc]
          rfl

/-- the main loop with what follows it (`cont`: the code after the loop only reads `interp_points`), from the initial state -/
theorem spatialLoop_tie0 {ρ : Type} (P : List (Resample.Fix α)) (S : List α) (sini sfin ds : α)
    (body : Int → (List (Rec α) × Int) → Py.M (Py.Ctl (List (Rec α) × Int) ρ))
    (cont : Py.Out (List (Rec α) × Int) ρ → Py.M (List (Rec α)))
    (h : ∀ (k : Nat) (acc : List (Rec α)) (rid : Nat), rid < S.length →
      body (k : Int) (acc, (rid : Int)) =
        match Resample.advanceB S (Resample.pmin ((k : α) * ds + sini) sfin) rid with
        | none => .error .index
        | some r =>
          match Resample.bracket P S (Resample.pmin ((k : α) * ds + sini) sfin) r with
          | .error e => .error (liftErr e)
          | .ok (pb, pf, wb, wf) => .ok (.cont (acc ++ [newPt pb pf wb wf], (r : Int))))
    (hcont : ∀ (l : List (Rec α)) (r : Int), cont (.done (l, r)) = .ok l)
    (N : Int) (first : Rec α) (hpos : 0 < S.length) :
    Py.bind (Py.forList body (Py.range 1 (N + 1)) ([first], 0)) cont =
      match Resample.spatialLoop P S sini sfin ds N.toNat 1 0 with
      | .error e => .error (liftErr e)
      | .ok out => .ok (first :: out.map ofFix) := by
  have hr : Py.range 1 (N + 1) = Py.range ((1 : Nat) : Int) (((1 : Nat) : Int) + (N.toNat : Int)) := by
    unfold Py.range
    congr 1
    omega
  have := spatialLoop_tie P S sini sfin ds body h (fun v rid r h1 h2 => advanceB_lt S v rid r h1 h2) N.toNat 1 0 [first] hpos
  rw [hr]
  cases hl : Resample.spatialLoop P S sini sfin ds N.toNat 1 0 with
  | error e =>
    rw [hl] at this
    rw [show ((0 : Int)) = ((0 : Nat) : Int) from rfl, this]; rfl
  | ok out =>
    rw [hl] at this
    obtain ⟨r, hr'⟩ := this
    rw [show ((0 : Int)) = ((0 : Nat) : Int) from rfl, hr', Py.bind_ok, hcont]
    rfl

/-! ### assembling -/

theorem resampleSpatialLegs_eq (trunc : α → Int) (P : List (Resample.Fix α)) (legs : List α) (ds sini sfin : α)
    (h0 : (Resample.cum legs)[0]? = some sini)
    (h1 : (Resample.cum legs)[(Resample.cum legs).length - 1]? = some sfin) :
    Resample.resampleSpatialLegs trunc P legs ds =
      if ds < 0 ∨ 0 < ds then
        match P[0]? with
        | some first =>
          match Resample.spatialLoop P (Resample.cum legs) sini sfin ds (trunc ((sfin - sini) / ds)).toNat 1 0 with
          | .error e => .error e
          | .ok out => .ok (first :: out)
        | none => .error .index
      else .error .zerodiv := by
  unfold Resample.resampleSpatialLegs
  simp only [List.head?_eq_getElem?, List.getLast?_eq_getElem?, h0, h1]
  rfl

/-- **`__resampleSpatial(track, ds)` = the model's `resampleSpatial`, exceptions included, for every fuel `≥ len(track)`.**
Hypotheses: `hsq` — `x ** 2 = x * x` (as for `TV.Tie.C17.tie_distance2DTo`); `hcast` — the conversion of the `int` `k` to a float
is the model's cast of the natural number `k`; `hds`, `hden` — for the step `ds` and for every difference of two entries of
the table `S` of curvilinear abscissas, `x == 0` (the test of `Py.fdiv`) is the negation of `x < 0 ∨ 0 < x` (the model's test):
true in an ordered field and for every double that is not NaN; `hfuel` — the scans evaluate their test at most `len(S) =
len(track)` times. Every track is covered, the empty one included (`S = [0]`; `ds == 0`: ZeroDivisionError on both sides —
`resampleSpatial_empty_zero` —, else IndexError from `track.getFirstObs()` on both sides). A negative
`N = int((sfin - sini)/ds)` needs no hypothesis: `range(1, N + 1)` is empty as is the model's `N.toNat` iterations. -/
theorem tie_resampleSpatial (sqrt : α → α) (pow : α → α → α) (trunc : α → Int) (fuel : Nat) (track : List (Rec α)) (ds : α)
    (hsq : ∀ x : α, pow x 2 = x * x)
    (hcast : ∀ n : Nat, ((n : Int) : α) = (n : α))
    (hds : ZeroTest ds)
    (hden : ∀ a ∈ Resample.cum (Resample.legs2D sqrt (track.map toFix)),
      ∀ b ∈ Resample.cum (Resample.legs2D sqrt (track.map toFix)), ZeroTest (a - b))
    (hfuel : track.length ≤ fuel) :
    Gen.Interpolation.resampleSpatial sqrt pow trunc fuel track ds
      = lift (Resample.resampleSpatial sqrt trunc (track.map toFix) ds) := by
  cases track with
  | nil =>
    unfold Gen.Interpolation.resampleSpatial
    simp only []
    rw [Py.range_empty (show Py.len ([] : List (Rec α)) ≤ 1 by simp [Py.len])]
    simp only [Py.forList_nil, Py.bind_ok, Py.getItem_zero]
    rw [show Py.getIdx [(0 : α)] (Py.len [(0 : α)] - 1) = .ok 0 from rfl]
    simp only [Py.bind_ok]
    rw [fdiv_eq hds]
    unfold Resample.resampleSpatial
    rw [resampleSpatialLegs_eq trunc _ _ ds 0 0 rfl rfl]
    by_cases hc : ds < 0 ∨ 0 < ds
    · rw [if_pos hc, if_pos hc]; rfl
    · rw [if_neg hc, if_neg hc]; rfl
  | cons a rest =>
    obtain ⟨P, hP⟩ : ∃ P, P = (a :: rest).map toFix := ⟨_, rfl⟩
    obtain ⟨S, hSdef⟩ : ∃ S, S = Resample.cum (Resample.legs2D sqrt P) := ⟨_, rfl⟩
    rw [← hP] at hden ⊢
    rw [← hSdef] at hden
    have hlenP : P.length = (a :: rest).length := by rw [hP, List.length_map]
    have hlen : S.length = (a :: rest).length := by
      rw [hSdef, length_cum _ _ (by rw [hP]; exact List.cons_ne_nil _ _), hlenP]
    have hpos : 0 < S.length := by rw [hlen]; exact Nat.succ_pos _
    obtain ⟨sini, h0⟩ : ∃ v, S[0]? = some v := ⟨S[0], List.getElem?_eq_getElem hpos⟩
    obtain ⟨sfin, hl⟩ : ∃ v, S[S.length - 1]? = some v := ⟨_, List.getElem?_eq_getElem (by omega)⟩
    unfold Gen.Interpolation.resampleSpatial
    simp only []
    have h1 : ∀ body : Int → List α → Py.M (Py.Ctl (List α) (List (Rec α))), _ →
        Py.forList body (Py.range 1 (Py.len (a :: rest))) [0] = .ok (.done S) :=
      fun body h => cumLoop_tie0 sqrt a rest body h S (by rw [hSdef, hP])
    rw [h1 _ ?spec1]
    case spec1 =>
      intro j a' b' S' s ha hb hs
      simp only [Int.add_sub_cancel, getIdx_cur ha, getIdx_succ hb, getIdx_cur hs, Py.bind_ok, dist_leg sqrt pow hsq]
    simp only [Py.bind_ok]
    have e1 : Py.len S - 1 = ((S.length - 1 : Nat) : Int) := by unfold Py.len; omega
    rw [getItem_eq_ok h0, e1, getIdx_cur hl]
    simp only [Py.bind_ok]
    rw [fdiv_eq hds]
    unfold Resample.resampleSpatial
    rw [resampleSpatialLegs_eq trunc P _ ds sini sfin (by rw [← hSdef]; exact h0)
      (by rw [← hSdef]; exact hl), ← hSdef]
    by_cases hc : ds < 0 ∨ 0 < ds
    · rw [if_pos hc, if_pos hc, show P[0]? = some (toFix a) by rw [hP]; rfl]
      simp only [Py.bind_ok]
      rw [show Py.getIdx (a :: rest) 0 = .ok a from rfl]
      simp only [Py.bind_ok]
      have hL : ∀ (body : Int → (List (Rec α) × Int) → Py.M (Py.Ctl (List (Rec α) × Int) (List (Rec α))))
          (cont : Py.Out (List (Rec α) × Int) (List (Rec α)) → Py.M (List (Rec α))), _ → _ →
          Py.bind (Py.forList body (Py.range 1 (trunc ((sfin - sini) / ds) + 1)) ([a], 0)) cont = _ :=
        fun body cont h hcont => spatialLoop_tie0 P S sini sfin ds body cont h hcont (trunc ((sfin - sini) / ds)) a hpos
      rw [hL _ _ ?spec2 ?spec3]
      case spec3 => intro l r; rfl
      case spec2 =>
        intro k acc rid hrid
        simp only [hcast, fmin_eq_pmin]
        generalize Resample.pmin ((k : α) * ds + sini) sfin = s
        have hw : ∀ body : Int → Py.M (Py.Ctl Int (List (Rec α))), _ → Py.whileLoop body fuel (rid : Int) = _ :=
          fun body h => advanceB_tie_eq S s body h rid fuel hrid (by rw [hlen]; omega)
        rw [hw _ ?spec4]
        case spec4 =>
          intro r w hw
          by_cases hr1 : r + 1 < S.length
          · have hlt : ((r : Int) < ((S.length - 1 : Nat) : Int)) := by omega
            simp only [hlt, decide_true, if_true, getIdx_cur hw, Py.bind_ok]
            by_cases hws : w < s
            · simp only [hws, hr1, decide_true, and_self, if_true]
            · simp only [hws, hr1, decide_false, and_false, if_false, Bool.false_eq_true]
          · have hlt : ¬ ((r : Int) < ((S.length - 1 : Nat) : Int)) := by omega
            simp only [hlt, decide_false, Bool.false_eq_true, if_false, Py.bind_ok, hr1, false_and]
        cases ha : Resample.advanceB S s rid with
        | none => rfl
        | some r =>
          have hr := advanceB_lt S s rid r hrid ha
          have hr' : r < (a :: rest).length := by rw [← hlen]; exact hr
          obtain ⟨pb, hpb⟩ : ∃ v, (a :: rest)[Resample.bwdIdx r (a :: rest).length]? = some v :=
            ⟨_, List.getElem?_eq_getElem (bwdIdx_lt hr')⟩
          obtain ⟨pf, hpf⟩ : ∃ v, (a :: rest)[r]? = some v := ⟨_, List.getElem?_eq_getElem hr'⟩
          obtain ⟨vb, hvb⟩ : ∃ v, S[Resample.bwdIdx r S.length]? = some v := ⟨_, List.getElem?_eq_getElem (bwdIdx_lt hr)⟩
          obtain ⟨vf, hvf⟩ : ∃ v, S[r]? = some v := ⟨_, List.getElem?_eq_getElem hr⟩
          have hPb : P[Resample.bwdIdx r P.length]? = some (toFix pb) := by
            rw [hlenP, hP, List.getElem?_map, hpb]; rfl
          have hPf : P[r]? = some (toFix pf) := by
            rw [hP, List.getElem?_map, hpf]; rfl
          have hz := hden vf (List.mem_of_getElem? hvf) vb (List.mem_of_getElem? hvb)
          simp only [Py.bind_ok, getIdx_bwd hr' hpb, getIdx_cur hpf, getIdx_bwd hr hvb, getIdx_cur hvf, fdiv_eq hz,
            bracket_eq hPb hPf hvb hvf]
          by_cases hcd : vf - vb < 0 ∨ 0 < vf - vb
          · simp only [if_pos hcd, Py.bind_ok, Gen.ObsCoords.ENUCoords_getX, Gen.ObsCoords.ENUCoords_getY,
              Gen.ObsCoords.ENUCoords_getZ]
            rfl
          · simp only [if_neg hcd, Py.bind_error]
            rfl
      cases Resample.spatialLoop P S sini sfin ds (trunc ((sfin - sini) / ds)).toNat 1 0 with
      | error e => rfl
      | ok out => rfl
    · rw [if_neg hc, if_neg hc]; rfl

/-- `tie_resampleSpatial` when the zero test of a divisor is the model's for EVERY scalar (an ordered field) -/
theorem tie_resampleSpatial_of_zeroTest (sqrt : α → α) (pow : α → α → α) (trunc : α → Int) (fuel : Nat) (track : List (Rec α))
    (ds : α) (hsq : ∀ x : α, pow x 2 = x * x) (hcast : ∀ n : Nat, ((n : Int) : α) = (n : α))
    (hzero : ∀ x : α, ZeroTest x) (hfuel : track.length ≤ fuel) :
    Gen.Interpolation.resampleSpatial sqrt pow trunc fuel track ds
      = lift (Resample.resampleSpatial sqrt trunc (track.map toFix) ds) :=
  tie_resampleSpatial sqrt pow trunc fuel track ds hsq hcast (hzero ds) (fun a _ b _ => hzero (a - b)) hfuel

/-- the empty track with `ds == 0` (formerly a deviation of the model, corrected in `Model/Resample.lean`): the code computes
`S = [0]`, then `N = int((sfin - sini) / ds)` raises ZeroDivisionError BEFORE `track.getFirstObs()` can raise IndexError; the
model now tests `ds` before it reads the first observation: `zerodiv` on both sides (`hds`: `ds == 0` is the model's zero test) -/
theorem resampleSpatial_empty_zero (sqrt : α → α) (pow : α → α → α) (trunc : α → Int) (fuel : Nat) (ds : α)
    (hz : Py.feq ds 0 = true) (hds : ZeroTest ds) :
    Gen.Interpolation.resampleSpatial sqrt pow trunc fuel ([] : List (Rec α)) ds = .error .zerodiv ∧
    Resample.resampleSpatial sqrt trunc (([] : List (Rec α)).map toFix) ds = .error .zerodiv := by
  have hc : ¬ (ds < 0 ∨ 0 < ds) := hds.mp hz
  have hm : Resample.resampleSpatial sqrt trunc (([] : List (Rec α)).map toFix) ds = .error .zerodiv := by
    unfold Resample.resampleSpatial
    rw [resampleSpatialLegs_eq trunc _ _ ds 0 0 rfl rfl, if_neg hc]
  refine ⟨?_, hm⟩
  unfold Gen.Interpolation.resampleSpatial
  simp only []
  rw [Py.range_empty (show Py.len ([] : List (Rec α)) ≤ 1 by simp [Py.len])]
  simp only [Py.forList_nil, Py.bind_ok, Py.getItem_zero]
  rw [show Py.getIdx [(0 : α)] (Py.len [(0 : α)] - 1) = .ok 0 from rfl]
  simp only [Py.bind_ok, Py.fdiv, hz]
  rfl

end

/-- the hypotheses of `tie_resampleSpatial_of_zeroTest` are satisfiable (here: the integers, with `x ** 2 := x * x`) -/
example (sqrt : Int → Int) (trunc : Int → Int) (fuel : Nat) (track : List (Rec Int)) (ds : Int)
    (hfuel : track.length ≤ fuel) :
    Gen.Interpolation.resampleSpatial sqrt (fun x _ => x * x) trunc fuel track ds
      = lift (Resample.resampleSpatial sqrt trunc (track.map toFix) ds) :=
  tie_resampleSpatial_of_zeroTest sqrt (fun x _ => x * x) trunc fuel track ds (fun _ => rfl) (fun _ => rfl)
    (fun x => by unfold ZeroTest Py.feq; simp only [Bool.and_eq_true, decide_eq_true_eq]; omega) hfuel

end TV.Tie.C05Spatial
