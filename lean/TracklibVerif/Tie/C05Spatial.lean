import TracklibVerif.Model.Resample
import TracklibVerif.Gen.Interpolation
import TracklibVerif.Tie.C17
namespace TV.Tie.C05Spatial
open TV TV.Py
set_option linter.unusedSectionVars false
set_option linter.unusedSimpArgs false
set_option linter.unusedVariables false

/-- an observation: the record `(E, N, U, t)`, `t = timestamp.toAbsTime()` -/
abbrev Rec (α : Type) := α × α × α × α

/-- the model's fix of an observation record -/
def toFix {α : Type} (o : Rec α) : Resample.Fix α := ⟨o.1, o.2.1, o.2.2.1, o.2.2.2⟩
/-- the observation record of a model fix -/
def ofFix {α : Type} (p : Resample.Fix α) : Rec α := (p.x, p.y, p.z, p.t)

theorem ofFix_toFix {α : Type} (o : Rec α) : ofFix (toFix o) = o := rfl
theorem toFix_ofFix {α : Type} (p : Resample.Fix α) : toFix (ofFix p) = p := rfl

/-- the model's exceptions as Python exceptions (`nonterm` = the loop would still be running = out of fuel) -/
def liftErr : Resample.Err → Py.Err
  | .index => .index
  | .zerodiv => .zerodiv
  | .nonterm => .fuel
  | .type => .type

/-- the model's result as a result of the translated function -/
def lift {α : Type} : Except Resample.Err (List (Resample.Fix α)) → Py.M (List (Rec α))
  | .ok l => .ok (l.map ofFix)
  | .error e => .error (liftErr e)

/-! ### indexing -/

theorem getIdx_cur {β : Type} {l : List β} {r : Nat} {v : β} (h : l[r]? = some v) :
    Py.getIdx l (r : Int) = .ok v := by
  rw [getIdx_natCast]; exact getItem_eq_ok h

/-- `L[running_id - 1]`: Python's index `-1` is the last element — the model's `bwdIdx` -/
theorem getIdx_bwd {β : Type} {l : List β} {r : Nat} {v : β} (hr : r < l.length)
    (h : l[Resample.bwdIdx r l.length]? = some v) : Py.getIdx l ((r : Int) - 1) = .ok v := by
  unfold Resample.bwdIdx at h
  by_cases h0 : r = 0
  · subst h0
    rw [if_pos rfl] at h
    unfold Py.getIdx Py.len
    rw [if_neg (by omega), if_pos (by omega)]
    have : ((l.length : Int) + ((0 : Nat) - 1 : Int)).toNat = l.length - 1 := by omega
    rw [this]; exact getItem_eq_ok h
  · rw [if_neg h0] at h
    have : (r : Int) - 1 = ((r - 1 : Nat) : Int) := by omega
    rw [this]; exact getIdx_cur h

section
variable {α : Type} [Add α] [Sub α] [Mul α] [Div α] [LT α] [LE α] [DecidableLT α] [DecidableLE α]
  [IntCast α] [NatCast α] [OfNat α 0] [OfNat α 2]

/-- the 2D length of the leg from `a` to `b`, as the model's `legs2D` writes it -/
def leg (sqrt : α → α) (a b : Rec α) : α :=
  sqrt ((b.1 - a.1) * (b.1 - a.1) + (b.2.1 - a.2.1) * (b.2.1 - a.2.1))

/-- `a.position.distance2DTo(b.position)` is that leg (through `TV.Tie.C17.tie_distance2DTo`) -/
theorem dist_leg (sqrt : α → α) (pow : α → α → α) (hsq : ∀ x : α, pow x 2 = x * x) (a b : Rec α) :
    Gen.ObsCoords.ENUCoords_distance2DTo sqrt pow a.1 a.2.1 a.2.2.1 b.1 b.2.1 b.2.2.1 = .ok (leg sqrt a b) :=
  @TV.Tie.C17.tie_distance2DTo α _ _ _ _ _ _ ⟨fun _ _ => true⟩ sqrt pow hsq (a.1, a.2.1) (b.1, b.2.1) a.2.2.1 b.2.2.1

theorem legs2D_cons2 (sqrt : α → α) (a b : Rec α) (rest : List (Rec α)) :
    Resample.legs2D sqrt ((a :: b :: rest).map toFix) = leg sqrt a b :: Resample.legs2D sqrt ((b :: rest).map toFix) := rfl

theorem length_cumFrom (s : α) (l : List α) : (Resample.cumFrom s l).length = l.length + 1 := by
  induction l generalizing s with
  | nil => rfl
  | cons x xs ih => simp only [Resample.cumFrom, List.length_cons, ih]

theorem length_legs2D (sqrt : α → α) (P : List (Resample.Fix α)) : (Resample.legs2D sqrt P).length = P.length - 1 := by
  induction P with
  | nil => rfl
  | cons a r ih =>
    cases r with
    | nil => rfl
    | cons b r' =>
      simp only [Resample.legs2D, List.length_cons] at ih ⊢
      omega

/-- the table of curvilinear abscissas has one entry per observation (one entry for an empty track) -/
theorem length_cum (sqrt : α → α) (P : List (Resample.Fix α)) (h : P ≠ []) :
    (Resample.cum (Resample.legs2D sqrt P)).length = P.length := by
  unfold Resample.cum
  rw [length_cumFrom, length_legs2D]
  cases P with
  | nil => exact absurd rfl h
  | cons a r => simp only [List.length_cons]; omega

/-! ### first loop: `S = [0]; for i in range(1, n): S.append(S[i-1] + dl)` is `cum (legs2D …)` -/

/-- generalised over the part of the track already walked (`done`) and the part of `S` already built (`pre ++ [s]`) -/
theorem cumLoop_tie {ρ : Type} (sqrt : α → α) (track : List (Rec α)) (body : Int → List α → Py.M (Py.Ctl (List α) ρ))
    (h : ∀ (j : Nat) (a b : Rec α) (S : List α) (s : α), track[j]? = some a → track[j + 1]? = some b → S[j]? = some s →
      body ((j : Int) + 1) S = .ok (.cont (S ++ [s + leg sqrt a b])))
    (rest dn : List (Rec α)) (a : Rec α) (pre : List α) (s : α)
    (htr : track = dn ++ a :: rest) (hlen : pre.length = dn.length) :
    Py.forList body (Py.range ((dn.length : Int) + 1) (track.length : Int)) (pre ++ [s])
      = .ok (.done (pre ++ Resample.cumFrom s (Resample.legs2D sqrt ((a :: rest).map toFix)))) := by
  induction rest generalizing dn a pre s with
  | nil =>
    rw [Py.range_empty (by rw [htr, List.length_append]; simp only [List.length_cons, List.length_nil]; omega)]
    rfl
  | cons b rest ih =>
    have hl : track.length = dn.length + (rest.length + 2) := by
      rw [htr, List.length_append]; simp only [List.length_cons]
    have ha : track[dn.length]? = some a := by
      rw [htr, List.getElem?_append_right (Nat.le_refl _), Nat.sub_self]; rfl
    have hb : track[dn.length + 1]? = some b := by
      rw [htr, List.getElem?_append_right (by omega)]
      have : dn.length + 1 - dn.length = 1 := by omega
      rw [this]; rfl
    have hs : (pre ++ [s])[dn.length]? = some s := by
      rw [List.getElem?_append_right (by omega), hlen, Nat.sub_self]; rfl
    rw [Py.range_cons (by omega), Py.forList_cons_cont (h dn.length a b (pre ++ [s]) s ha hb hs)]
    have ih' := ih (dn ++ [a]) b (pre ++ [s]) (s + leg sqrt a b) (by rw [htr, List.append_assoc]; rfl)
      (by simp only [List.length_append, List.length_cons, List.length_nil]; omega)
    have e1 : (((dn ++ [a]).length : Nat) : Int) + 1 = (dn.length : Int) + 1 + 1 := by
      simp only [List.length_append, List.length_cons, List.length_nil]; omega
    rw [e1] at ih'
    rw [ih', legs2D_cons2, Resample.cumFrom, List.append_assoc]
    rfl

/-! ### the scan `while running_id < len(S) - 1 and S[running_id] < s: running_id += 1` -/

theorem scanB_tie {ρ : Type} (S : List α) (s : α) (body : Int → Py.M (Py.Ctl Int ρ))
    (h : ∀ (r : Nat) (w : α), S[r]? = some w → body (r : Int) =
      if r + 1 < S.length ∧ w < s then .ok (.cont ((r : Int) + 1)) else .ok (.brk (r : Int)))
    (suf pre : List α) (hS : S = pre ++ suf) (hne : suf ≠ []) (fuel : Nat) (hf : suf.length ≤ fuel) :
    ∃ r : Nat, Resample.scanB s suf pre.length = some r ∧ pre.length ≤ r ∧ r < S.length ∧
      Py.whileLoop body fuel (pre.length : Int) = .ok (.done (r : Int)) := by
  induction suf generalizing pre fuel with
  | nil => exact absurd rfl hne
  | cons w ws ih =>
    have hw : S[pre.length]? = some w := by
      rw [hS, List.getElem?_append_right (Nat.le_refl _), Nat.sub_self]; rfl
    have hl : S.length = pre.length + (ws.length + 1) := by rw [hS, List.length_append]; rfl
    cases fuel with
    | zero => simp only [List.length_cons] at hf; omega
    | succ f =>
      cases ws with
      | nil =>
        refine ⟨pre.length, rfl, Nat.le_refl _, by omega, ?_⟩
        have hb := h pre.length w hw
        rw [if_neg (by simp only [List.length_nil] at hl; omega)] at hb
        exact Py.whileLoop_brk hb
      | cons w' ws' =>
        have hb := h pre.length w hw
        by_cases hc : w < s
        · rw [if_pos ⟨by simp only [List.length_cons] at hl; omega, hc⟩] at hb
          obtain ⟨r, h1, h2, h3, h4⟩ := ih (pre ++ [w]) (by rw [hS, List.append_assoc]; rfl) (by simp) f
            (by simp only [List.length_cons] at hf ⊢; omega)
          have e : ((pre ++ [w]).length) = pre.length + 1 := by simp
          rw [e] at h1 h2 h4
          refine ⟨r, ?_, by omega, h3, ?_⟩
          · rw [Resample.scanB, if_pos hc]; exact h1
          · rw [Py.whileLoop_cont hb]
            have : ((pre.length + 1 : Nat) : Int) = (pre.length : Int) + 1 := by omega
            rw [← this]; exact h4
        · rw [if_neg (fun hh => hc hh.2)] at hb
          refine ⟨pre.length, ?_, Nat.le_refl _, by omega, Py.whileLoop_brk hb⟩
          rw [Resample.scanB, if_neg hc]

/-- the scan from `running_id = rid` inside the table: the model's `advanceB` finds an index, inside the table, and the
`while` loop — with fuel for `len(S) - rid` evaluations of its test — ends on it -/
theorem advanceB_tie {ρ : Type} (S : List α) (s : α) (body : Int → Py.M (Py.Ctl Int ρ))
    (h : ∀ (r : Nat) (w : α), S[r]? = some w → body (r : Int) =
      if r + 1 < S.length ∧ w < s then .ok (.cont ((r : Int) + 1)) else .ok (.brk (r : Int)))
    (rid fuel : Nat) (hrid : rid < S.length) (hf : S.length - rid ≤ fuel) :
    ∃ r : Nat, Resample.advanceB S s rid = some r ∧ r < S.length ∧
      Py.whileLoop body fuel (rid : Int) = .ok (.done (r : Int)) := by
  have hS : S = S.take rid ++ S.drop rid := (List.take_append_drop rid S).symm
  have hl : (S.take rid).length = rid := by rw [List.length_take]; omega
  have hne : S.drop rid ≠ [] := by
    intro hh
    have := congrArg List.length hh
    rw [List.length_drop] at this; simp only [List.length_nil] at this; omega
  obtain ⟨r, h1, h2, h3, h4⟩ := scanB_tie S s body h (S.drop rid) (S.take rid) hS hne fuel
    (by rw [List.length_drop]; exact hf)
  rw [hl] at h1 h4
  exact ⟨r, h1, h3, h4⟩

/-! ### the bracket and the weights -/

/-- "`x == 0` is the negation of `x < 0 or 0 < x`" for the value `x`: how the code (`Py.fdiv`: ZeroDivisionError iff `x == 0`)
and the model (`x < 0 ∨ 0 < x`, else `zerodiv`) test a divisor. True of every element of an ordered field and of every
double that is not NaN (for NaN the code divides, the model says `zerodiv`). -/
def ZeroTest (x : α) : Prop := Py.feq x 0 = true ↔ ¬ (x < 0 ∨ 0 < x)

theorem fdiv_eq {a x : α} (hx : ZeroTest x) :
    Py.fdiv a x = if x < 0 ∨ 0 < x then .ok (a / x) else .error .zerodiv := by
  unfold Py.fdiv
  by_cases hc : x < 0 ∨ 0 < x
  · rw [if_pos hc, ite_neg' (fun hh => (hx.mp hh) hc)]
  · rw [if_neg hc, ite_pos' (hx.mpr hc)]

theorem bracket_eq {P : List (Resample.Fix α)} {V : List α} {v : α} {r : Nat} {pb pf : Resample.Fix α} {vb vf : α}
    (h1 : P[Resample.bwdIdx r P.length]? = some pb) (h2 : P[r]? = some pf)
    (h3 : V[Resample.bwdIdx r V.length]? = some vb) (h4 : V[r]? = some vf) :
    Resample.bracket P V v r =
      if vf - vb < 0 ∨ 0 < vf - vb then .ok (pb, pf, (vf - v) / (vf - vb), (v - vb) / (vf - vb)) else .error .zerodiv := by
  unfold Resample.bracket Resample.weights
  rw [h1, h2, h3, h4]
  simp only []
  by_cases hc : vf - vb < 0 ∨ 0 < vf - vb
  · rw [if_pos hc, if_pos hc]
  · rw [if_neg hc, if_neg hc]

theorem fmin_eq_pmin (a b : α) : Py.fmin a b = Resample.pmin a b := rfl

/-- the observation the model's `spatialLoop` conses, as a record -/
def newPt (pb pf : Resample.Fix α) (wb wf : α) : Rec α :=
  (wb * pb.x + wf * pf.x, wb * pb.y + wf * pf.y, wb * pb.z + wf * pf.z, wb * pb.t + wf * pf.t)

/-! ### main loop `for k in range(1, N + 1)` against `spatialLoop` -/

/-- generalised over the list `acc` of points already appended (the model conses in front of the recursive result) -/
theorem spatialLoop_tie {ρ : Type} (P : List (Resample.Fix α)) (S : List α) (sini sfin ds : α)
    (body : Int → (List (Rec α) × Int) → Py.M (Py.Ctl (List (Rec α) × Int) ρ))
    (h : ∀ (k : Nat) (acc : List (Rec α)) (rid : Nat), rid < S.length →
      body (k : Int) (acc, (rid : Int)) =
        match Resample.advanceB S (Resample.pmin ((k : α) * ds + sini) sfin) rid with
        | none => .error .index
        | some r =>
          match Resample.bracket P S (Resample.pmin ((k : α) * ds + sini) sfin) r with
          | .error e => .error (liftErr e)
          | .ok (pb, pf, wb, wf) => .ok (.cont (acc ++ [newPt pb pf wb wf], (r : Int))))
    (hadv : ∀ (v : α) (rid r : Nat), rid < S.length → Resample.advanceB S v rid = some r → r < S.length)
    (n k rid : Nat) (acc : List (Rec α)) (hrid : rid < S.length) :
    match Resample.spatialLoop P S sini sfin ds n k rid with
    | .error e => Py.forList body (Py.range (k : Int) ((k : Int) + (n : Int))) (acc, (rid : Int)) = .error (liftErr e)
    | .ok out => ∃ r : Int,
        Py.forList body (Py.range (k : Int) ((k : Int) + (n : Int))) (acc, (rid : Int)) = .ok (.done (acc ++ out.map ofFix, r)) := by
  induction n generalizing k rid acc with
  | zero =>
    rw [Py.range_empty (by omega)]
    exact ⟨(rid : Int), by simp only [Resample.spatialLoop, Py.forList_nil, List.map_nil, List.append_nil]⟩
  | succ n ih =>
    rw [Py.range_cons (by omega), Py.forList_cons, h k acc rid hrid, Resample.spatialLoop]
    cases ha : Resample.advanceB S (Resample.pmin ((k : α) * ds + sini) sfin) rid with
    | none => rfl
    | some r =>
      have hr := hadv _ _ _ hrid ha
      simp only []
      cases hb : Resample.bracket P S (Resample.pmin ((k : α) * ds + sini) sfin) r with
      | error e => rfl
      | ok q =>
        obtain ⟨pb, pf, wb, wf⟩ := q
        simp only []
        have ih' := ih (k + 1) r (acc ++ [newPt pb pf wb wf]) hr
        have e1 : (((k + 1 : Nat) : Int)) = (k : Int) + 1 := by omega
        have e2 : (k : Int) + ((n + 1 : Nat) : Int) = (k : Int) + 1 + (n : Int) := by omega
        rw [e1] at ih'
        rw [e2]
        cases hl : Resample.spatialLoop P S sini sfin ds n (k + 1) r with
        | error e => rw [hl] at ih'; exact ih'
        | ok out =>
          rw [hl] at ih'
          obtain ⟨r', hr'⟩ := ih'
          refine ⟨r', ?_⟩
          rw [hr', List.append_assoc]
          rfl

end
end TV.Tie.C05Spatial
