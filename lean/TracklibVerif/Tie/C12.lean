import TracklibVerif.Gen.Segmentation
import TracklibVerif.Model.Partition
/-! Translation tie for C12: the D / M tables of `optimalPartition(cost_matrix, mode, verbose)` (tracklib/algo/segmentation.py),
generated as `TV.Gen.Segmentation.optimalPartition_tables`, against the table form of the hand-written model
(`TV.Partition.tables`: `init`, `stepK`, `cellLoop`, `diagLoop`, `fill`).

A numpy table is the list of its rows; `mk F N` is the `N × N` table whose entry `(i, j)` is `F i j`.
Main theorem: `tie_optimalPartition_tables` (and the `mode.toNat` corollary `tie_optimalPartition_tables_toNat`). -/
namespace TV.Tie.C12
open TV TV.Py TV.Partition

/-! ## Prelude lemmas (tables as lists of rows; general, could move to PyPrelude) -/

/-- the `N × N` table (list of rows) with entries `F i j` -/
def mk {β : Type} (F : Nat → Nat → β) (N : Nat) : List (List β) :=
  (List.range N).map fun i => (List.range N).map (F i)

/-- representation predicate: `T` is the `N × N` table of `F` -/
def Rep {β : Type} (T : List (List β)) (F : Nat → Nat → β) (N : Nat) : Prop := T = mk F N

theorem mk_congr {β : Type} {F G : Nat → Nat → β} {N : Nat} (h : ∀ i, i < N → ∀ j, j < N → F i j = G i j) :
    mk F N = mk G N := by
  unfold mk
  apply List.map_congr_left
  intro i hi
  apply List.map_congr_left
  intro j hj
  exact h i (List.mem_range.mp hi) j (List.mem_range.mp hj)

theorem zeros2_mk {β : Type} (N : Nat) (z : β) : Py.zeros2 (N : Int) (N : Int) z = .ok (mk (fun _ _ => z) N) := by
  unfold Py.zeros2 Py.replicate mk
  rw [if_neg (by omega), Int.toNat_natCast]
  simp only [List.map_const', List.length_range]

theorem zeros2_neg {β : Type} (r c : Int) (z : β) (h : r < 0) : Py.zeros2 r c z = .error .value := by
  unfold Py.zeros2; rw [if_pos (Or.inl h)]

theorem getIdx2_mk {β : Type} (F : Nat → Nat → β) (N i j : Nat) (hi : i < N) (hj : j < N) :
    Py.getIdx2 (mk F N) (i : Int) (j : Int) = .ok (F i j) := by
  unfold Py.getIdx2
  rw [getIdx_natCast, getItem_eq_ok (v := (List.range N).map (F i)) (by simp [mk, hi]), bind_ok, getIdx_natCast,
    getItem_eq_ok (v := F i j) (by simp [hj])]

theorem set_map_range {β : Type} (G : Nat → β) (N j : Nat) (v : β) :
    ((List.range N).map G).set j v = (List.range N).map (fun b => if b = j then v else G b) := by
  apply List.ext_getElem?
  intro k
  rw [List.getElem?_set]
  by_cases hk : k < N
  · by_cases hjk : j = k
    · subst hjk; simp [hk]
    · have : ¬ k = j := fun h => hjk h.symm
      simp [hjk, this, List.getElem?_range hk]
  · by_cases hjk : j = k
    · subst hjk; simp [hk]
    · simp [hjk, hk]

theorem setIdx2_mk {β : Type} (F : Nat → Nat → β) (N i j : Nat) (v : β) (hi : i < N) (hj : j < N) :
    Py.setIdx2 (mk F N) (i : Int) (j : Int) v = .ok (mk (upd F i j v) N) := by
  unfold Py.setIdx2
  rw [getIdx_natCast, getItem_eq_ok (v := (List.range N).map (F i)) (by simp [mk, hi]), bind_ok,
    setIdx_natCast _ _ _ (by simp [hj]), bind_ok, setIdx_natCast _ _ _ (by simp [mk, hi])]
  congr 1
  unfold mk
  rw [set_map_range, set_map_range]
  apply List.map_congr_left
  intro a _
  by_cases ha : a = i
  · subst ha
    rw [if_pos rfl]
    apply List.map_congr_left
    intro b _
    unfold upd
    by_cases hb : b = j
    · rw [if_pos hb, if_pos ⟨rfl, hb⟩]
    · rw [if_neg hb, if_neg (fun h => hb h.2)]
  · rw [if_neg ha]
    apply List.map_congr_left
    intro b _
    unfold upd
    rw [if_neg (fun h => ha h.1)]

/-- `T[i, j]` on a table given as a list of rows, as a function of two naturals (default `z` out of range) -/
def cmAt {β : Type} (cm : List (List β)) (z : β) (i j : Nat) : β := ((cm[i]?).bind (·[j]?)).getD z

theorem getIdx2_cm {β : Type} (cm : List (List β)) (z : β) (n i j : Nat) (hrow : ∀ r ∈ cm, n ≤ r.length)
    (hi : i < cm.length) (hj : j < n) : Py.getIdx2 cm (i : Int) (j : Int) = .ok (cmAt cm z i j) := by
  have hr : n ≤ (cm[i]).length := hrow _ (List.getElem_mem hi)
  have hj' : j < (cm[i]).length := by omega
  unfold Py.getIdx2 cmAt
  rw [getIdx_natCast, getItem_eq_ok (List.getElem?_eq_getElem hi), bind_ok, getIdx_natCast,
    getItem_eq_ok (List.getElem?_eq_getElem hj')]
  simp [List.getElem?_eq_getElem hi, List.getElem?_eq_getElem hj']

/-! ## `for x in range(a, b)` against the model's `loop` -/

theorem loop_head {σ : Type} (lo n : Nat) (body : Nat → σ → σ) (s : σ) :
    loop lo (n + 1) body s = loop (lo + 1) n body (body lo s) := by
  induction n with
  | zero => rfl
  | succ n ih =>
    show body (lo + (n + 1)) (loop lo (n + 1) body s) = body (lo + 1 + n) (loop (lo + 1) n body (body lo s))
    rw [ih, show lo + (n + 1) = lo + 1 + n by omega]

theorem forRangeFrom_loop {σ τ ρ : Type} (enc : τ → σ) (body : Int → σ → M (Ctl σ ρ)) (step : Nat → τ → τ)
    (n lo : Nat) (t : τ)
    (h : ∀ x, lo ≤ x → x < lo + n → ∀ t, body (x : Int) (enc t) = .ok (.cont (enc (step x t)))) :
    forList body (rangeFrom (lo : Int) 1 n) (enc t) = .ok (.done (enc (loop lo n step t))) := by
  induction n generalizing lo t with
  | zero => rfl
  | succ n ih =>
    rw [rangeFrom, forList_cons_cont (h lo (by omega) (by omega) t), loop_head,
      show ((lo : Int) + 1) = ((lo + 1 : Nat) : Int) by omega]
    exact ih (lo + 1) _ (fun x h1 h2 t => h x (by omega) (by omega) t)

/-- a generated `for x in range(a, b)` whose body, on encoded states, is the encoded `step` runs the model's `loop` -/
theorem forRange_loop {σ τ ρ : Type} (enc : τ → σ) (body : Int → σ → M (Ctl σ ρ)) (step : Nat → τ → τ)
    (n lo : Nat) (t : τ) (a b : Int) (s : σ) (hs : s = enc t) (ha : a = (lo : Int)) (hn : (b - a).toNat = n)
    (h : ∀ x, lo ≤ x → x < lo + n → ∀ t, body (x : Int) (enc t) = .ok (.cont (enc (step x t)))) :
    forList body (range a b) s = .ok (.done (enc (loop lo n step t))) := by
  subst hs ha
  unfold range
  rw [hn]
  exact forRangeFrom_loop enc body step n lo t h

/-! ## The two tables as one encoded state -/

variable {α : Type}

theorem tabs_ext (t t' : Tabs α) (hD : t.D = t'.D) (hM : t.M = t'.M) : t = t' := by
  cases t; cases t'; simp only [Tabs.mk.injEq]; exact ⟨hD, hM⟩

/-- the generated state `(D, M)`: both tables as lists of rows, `M` holding the model's integers cast to the scalar -/
def enc [IntCast α] (N : Nat) (t : Tabs α) : List (List α) × List (List α) :=
  (mk t.D N, mk (fun a b => ((t.M a b : Int) : α)) N)

theorem setIdx2_mkM [IntCast α] (Mt : Nat → Nat → Int) (N i j : Nat) (z : Int) (hi : i < N) (hj : j < N) :
    Py.setIdx2 (mk (fun a b => ((Mt a b : Int) : α)) N) (i : Int) (j : Int) ((z : Int) : α)
      = .ok (mk (fun a b => ((upd Mt i j z a b : Int) : α)) N) := by
  rw [setIdx2_mk _ _ _ _ _ hi hj]
  congr 2
  funext a b
  unfold upd
  by_cases h : a = i ∧ b = j
  · rw [if_pos h, if_pos h]
  · rw [if_neg h, if_neg h]

theorem upd_cast [IntCast α] (Mt : Nat → Nat → Int) (i j : Nat) (z : Int) :
    upd (fun a b => ((Mt a b : Int) : α)) i j ((z : Int) : α) = fun a b => ((upd Mt i j z a b : Int) : α) := by
  funext a b
  unfold upd
  by_cases h : a = i ∧ b = j
  · rw [if_pos h, if_pos h]
  · rw [if_neg h, if_neg h]

/-! ## The initialisation loops -/

/-- `D[i,j] = C[i,j]; M[i,j] = -1` -/
def initCell (C : Nat → Nat → α) (i j : Nat) (t : Tabs α) : Tabs α := ⟨upd t.D i j (C i j), upd t.M i j (-1)⟩
/-- `for j in range(i, N): …` -/
def initRow (N : Nat) (C : Nat → Nat → α) (i : Nat) (t : Tabs α) : Tabs α := loop i (N - i) (initCell C i) t
/-- `D = zeros; M = zeros; for i in range(N): for j in range(i, N): …` -/
def initL (zero : α) (N : Nat) (C : Nat → Nat → α) : Tabs α := loop 0 N (initRow N C) ⟨fun _ _ => zero, fun _ _ => 0⟩

theorem initRow_spec (C : Nat → Nat → α) (i n : Nat) (t : Tabs α) :
    (loop i n (initCell C i) t).D = (fun a b => if a = i ∧ i ≤ b ∧ b < i + n then C a b else t.D a b) ∧
    (loop i n (initCell C i) t).M = (fun a b => if a = i ∧ i ≤ b ∧ b < i + n then -1 else t.M a b) := by
  induction n with
  | zero =>
    constructor <;> funext a b <;> rw [if_neg (by omega)] <;> rfl
  | succ n ih =>
    obtain ⟨ihD, ihM⟩ := ih
    show (initCell C i (i + n) (loop i n (initCell C i) t)).D = _ ∧ (initCell C i (i + n) (loop i n (initCell C i) t)).M = _
    generalize loop i n (initCell C i) t = s at ihD ihM ⊢
    show upd s.D i (i + n) (C i (i + n)) = _ ∧ upd s.M i (i + n) (-1) = _
    rw [ihD, ihM]
    constructor <;> funext a b <;> unfold upd <;> simp only []
    · by_cases h : a = i ∧ b = i + n
      · rw [if_pos h, if_pos (by omega)]; rw [h.1, h.2]
      · rw [if_neg h]
        by_cases h2 : a = i ∧ i ≤ b ∧ b < i + n
        · rw [if_pos h2, if_pos (by omega)]
        · rw [if_neg h2, if_neg (by omega)]
    · by_cases h : a = i ∧ b = i + n
      · rw [if_pos h, if_pos (by omega)]
      · rw [if_neg h]
        by_cases h2 : a = i ∧ i ≤ b ∧ b < i + n
        · rw [if_pos h2, if_pos (by omega)]
        · rw [if_neg h2, if_neg (by omega)]

theorem initRows_spec (zero : α) (N : Nat) (C : Nat → Nat → α) (m : Nat) (hm : m ≤ N) :
    (loop 0 m (initRow N C) ⟨fun _ _ => zero, fun _ _ => 0⟩).D = (fun a b => if a < m ∧ a ≤ b ∧ b < N then C a b else zero) ∧
    (loop 0 m (initRow N C) ⟨fun _ _ => zero, fun _ _ => 0⟩).M = (fun a b => if a < m ∧ a ≤ b ∧ b < N then -1 else 0) := by
  induction m with
  | zero =>
    constructor <;> funext a b <;> rw [if_neg (by omega)] <;> rfl
  | succ m ih =>
    obtain ⟨ihD, ihM⟩ := ih (by omega)
    show (initRow N C (0 + m) (loop 0 m (initRow N C) _)).D = _ ∧ (initRow N C (0 + m) (loop 0 m (initRow N C) _)).M = _
    generalize loop 0 m (initRow N C) _ = s at ihD ihM ⊢
    show (loop (0 + m) (N - (0 + m)) (initCell C (0 + m)) s).D = _ ∧ (loop (0 + m) (N - (0 + m)) (initCell C (0 + m)) s).M = _
    rw [(initRow_spec C (0 + m) (N - (0 + m)) s).1, (initRow_spec C (0 + m) (N - (0 + m)) s).2, ihD, ihM]
    constructor <;> funext a b <;> simp only []
    · by_cases h : a = 0 + m ∧ 0 + m ≤ b ∧ b < 0 + m + (N - (0 + m))
      · rw [if_pos h, if_pos (by omega)]
      · rw [if_neg h]
        by_cases h2 : a < m ∧ a ≤ b ∧ b < N
        · rw [if_pos h2, if_pos (by omega)]
        · rw [if_neg h2, if_neg (by omega)]
    · by_cases h : a = 0 + m ∧ 0 + m ≤ b ∧ b < 0 + m + (N - (0 + m))
      · rw [if_pos h, if_pos (by omega)]
      · rw [if_neg h]
        by_cases h2 : a < m ∧ a ≤ b ∧ b < N
        · rw [if_pos h2, if_pos (by omega)]
        · rw [if_neg h2, if_neg (by omega)]

/-- the two initialisation loops build the model's `init` -/
theorem initL_eq (zero : α) (N : Nat) (C : Nat → Nat → α) : initL zero N C = init zero N C := by
  have h := initRows_spec zero N C N (Nat.le_refl N)
  apply tabs_ext
  · unfold initL; rw [h.1]; funext a b
    show (if a < N ∧ a ≤ b ∧ b < N then C a b else zero) = (if a ≤ b ∧ b < N then C a b else zero)
    by_cases h2 : a ≤ b ∧ b < N
    · rw [if_pos (by omega), if_pos h2]
    · rw [if_neg (by omega), if_neg h2]
  · unfold initL; rw [h.2]; funext a b
    show (if a < N ∧ a ≤ b ∧ b < N then (-1 : Int) else 0) = (if a ≤ b ∧ b < N then -1 else 0)
    by_cases h2 : a ≤ b ∧ b < N
    · rw [if_pos (by omega), if_pos h2]
    · rw [if_neg (by omega), if_neg h2]

/-! ## Main theorem -/

@[simp] theorem enc_fst [IntCast α] (N : Nat) (t : Tabs α) : (enc N t).fst = mk t.D N := rfl
@[simp] theorem enc_snd [IntCast α] (N : Nat) (t : Tabs α) : (enc N t).snd = mk (fun a b => ((t.M a b : Int) : α)) N := rfl

/-- MAIN TIE. For a cost matrix with `rows ≥ 1` rows, each of length `≥ rows − 1` (`N = rows − 1`; a square matrix
qualifies), any `verbose`, any int `mode` and any model mode `m` with `mode = 0 ↔ m = 0`, `mode = 1 ↔ m = 1`: the generated
`optimalPartition_tables` never raises and returns the `N × N` table of the model's `(tables 0 rows C m).M`, cast to the
scalar, `C i j` being `cost_matrix[i][j]`. Scalar hypotheses: `((0 : Int) : α) = 0`, `((-1 : Int) : α) = -(1 : α)`. -/
theorem tie_optimalPartition_tables [Add α] [Neg α] [LT α] [DecidableLT α] [IntCast α] [OfNat α 0] [OfNat α 1]
    (hc0 : ((0 : Int) : α) = (0 : α)) (hcm1 : ((-1 : Int) : α) = -(1 : α))
    (cost_matrix : List (List α)) (mode : Int) (verbose : Bool) (rows : Nat) (hrows : 1 ≤ rows)
    (hlen : cost_matrix.length = rows) (hrow : ∀ r ∈ cost_matrix, rows - 1 ≤ r.length)
    (m : Nat) (hm0 : mode = 0 ↔ m = 0) (hm1 : mode = 1 ↔ m = 1) :
    Gen.Segmentation.optimalPartition_tables cost_matrix mode verbose
      = .ok (mk (fun i j => (((tables (0 : α) rows (cmAt cost_matrix 0) m).M i j : Int) : α)) (rows - 1)) := by
  unfold Gen.Segmentation.optimalPartition_tables
  simp only []
  have hN : Py.len cost_matrix - 1 = ((rows - 1 : Nat) : Int) := by unfold Py.len; omega
  rw [hN]
  unfold tables
  generalize hNN : rows - 1 = N at *
  have hlen' : N < cost_matrix.length := by omega
  rw [zeros2_mk, bind_ok, bind_ok]
  have hz : (mk (fun _ _ => (0 : α)) N, mk (fun _ _ => (0 : α)) N) = enc N ⟨fun _ _ => (0 : α), fun _ _ => 0⟩ := by
    unfold enc; simp only [hc0]
  -- the initialisation loops
  have hInit : ∀ body : Int → List (List α) × List (List α) → M (Ctl (List (List α) × List (List α)) (List (List α))),
      (∀ x, x < N → ∀ t, body (x : Int) (enc N t) = .ok (.cont (enc N (initRow N (cmAt cost_matrix 0) x t)))) →
      forList body (range 0 (N : Int)) (mk (fun _ _ => (0 : α)) N, mk (fun _ _ => (0 : α)) N)
        = .ok (.done (enc N (init (0 : α) N (cmAt cost_matrix 0)))) := fun body h => by
    rw [← initL_eq]
    exact forRange_loop (enc N) body _ N 0 _ 0 N _ hz rfl (by omega) (fun x _ hx t => h x (by omega) t)
  rw [hInit _ ?specInit]
  case specInit =>
    intro x hx t
    simp only [enc_fst, enc_snd]
    have hRow : ∀ body : Int → List (List α) × List (List α) → M (Ctl (List (List α) × List (List α)) (List (List α))),
        (∀ j, x ≤ j → j < N → ∀ t, body (j : Int) (enc N t) = .ok (.cont (enc N (initCell (cmAt cost_matrix 0) x j t)))) →
        forList body (range (x : Int) (N : Int)) (mk t.D N, mk (fun a b => ((t.M a b : Int) : α)) N)
          = .ok (.done (enc N (initRow N (cmAt cost_matrix 0) x t))) := fun body h =>
      forRange_loop (enc N) body _ (N - x) x t x N _ rfl rfl (by omega) (fun j h1 h2 t => h j h1 (by omega) t)
    rw [hRow _ ?specRow]
    case specRow =>
      intro j hxj hj t
      simp only [enc_fst, enc_snd]
      rw [getIdx2_cm cost_matrix 0 N x j hrow (by omega) hj, bind_ok, setIdx2_mk _ N x j _ hx hj, bind_ok, ← hcm1,
        setIdx2_mkM _ N x j _ hx hj, bind_ok]
      rfl
    simp only [bind_ok, enc_fst, enc_snd]
    rfl
  simp only [bind_ok, ite_self, enc_fst, enc_snd]
  -- the dynamic programme
  generalize init (0 : α) N (cmAt cost_matrix 0) = t0
  have hFill : ∀ body : Int → List (List α) × List (List α) → M (Ctl (List (List α) × List (List α)) (List (List α))),
      (∀ d, 2 ≤ d → d < N → ∀ t, body (d : Int) (enc N t) = .ok (.cont (enc N (diagLoop m N d t)))) →
      forList body (range 2 (N : Int)) (mk t0.D N, mk (fun a b => ((t0.M a b : Int) : α)) N)
        = .ok (.done (enc N (fill m N t0))) := fun body h =>
    forRange_loop (enc N) body _ (N - 2) 2 t0 2 N _ rfl rfl (by omega) (fun d h1 h2 t => h d h1 (by omega) t)
  rw [hFill _ ?specFill]
  case specFill =>
    intro d hd2 hdN t
    simp only [enc_fst, enc_snd]
    have hDiag : ∀ body : Int → List (List α) × List (List α) → M (Ctl (List (List α) × List (List α)) (List (List α))),
        (∀ i, i + d < N → ∀ t, body (i : Int) (enc N t) = .ok (.cont (enc N (cellLoop m i (i + d) t)))) →
        forList body (range 0 ((N : Int) - (d : Int))) (mk t.D N, mk (fun a b => ((t.M a b : Int) : α)) N)
          = .ok (.done (enc N (diagLoop m N d t))) := fun body h =>
      forRange_loop (enc N) body _ (N - d) 0 t 0 _ _ rfl rfl (by omega) (fun i h1 h2 t => h i (by omega) t)
    rw [hDiag _ ?specDiag]
    case specDiag =>
      intro i hi t
      simp only [enc_fst, enc_snd, ← Int.natCast_add]
      have hCell : ∀ body : Int → List (List α) × List (List α) → M (Ctl (List (List α) × List (List α)) (List (List α))),
          (∀ k, i < k → k < i + d → ∀ t, body (k : Int) (enc N t) = .ok (.cont (enc N (stepK m i (i + d) k t)))) →
          forList body (range ((i : Int) + 1) ((i + d : Nat) : Int)) (mk t.D N, mk (fun a b => ((t.M a b : Int) : α)) N)
            = .ok (.done (enc N (cellLoop m i (i + d) t))) := fun body h =>
        forRange_loop (enc N) body _ (i + d - (i + 1)) (i + 1) t _ _ _ rfl (by omega) (by omega)
          (fun k h1 h2 t => h k (by omega) (by omega) t)
      rw [hCell _ ?specCell]
      case specCell =>
        intro k hik hkj t
        have hiN : i < N := by omega
        have hkN : k < N := by omega
        simp only [enc_fst, enc_snd, getIdx2_mk _ N i k hiN hkN, getIdx2_mk _ N k (i + d) hkN hi,
          getIdx2_mk _ N i (i + d) hiN hi, setIdx2_mk _ N i (i + d) _ hiN hi, bind_ok, upd_cast]
        have e0 : decide (mode = 0) = decide (m = 0) := decide_eq_decide.mpr hm0
        have e1 : decide (mode = 1) = decide (m = 1) := decide_eq_decide.mpr hm1
        rw [e0, e1]
        unfold stepK enc
        simp only []
        by_cases c0 : m = 0
        · have c1 : ¬ m = 1 := by omega
          by_cases ca : t.D i k + t.D k (i + d) < t.D i (i + d)
          · simp [c0, ca]
          · simp [c0, ca]
        · by_cases c1 : m = 1
          · by_cases cb : t.D i (i + d) < t.D i k + t.D k (i + d)
            · simp [c1, cb]
            · simp [c1, cb]
          · simp [c0, c1]
      simp only [bind_ok, enc_fst, enc_snd]
      rfl
    simp only [bind_ok, enc_fst, enc_snd]
    rfl
  simp only [bind_ok, enc_snd]

/-- The tie in the explicit list form, for a non-negative `mode` (the model's mode is `mode.toNat`): the generated
`optimalPartition_tables` never raises on a matrix with `rows ≥ 1` rows, each of length `≥ rows − 1`, and returns the
`(rows−1) × (rows−1)` table whose entry `(i, j)` is the model's `M i j` cast to the scalar.
Hypotheses on the scalar: `((0 : Int) : α) = 0` and `((-1 : Int) : α) = -(1 : α)` (the int-to-float conversion agrees with the
literals; true for IEEE doubles and for ordered fields). -/
theorem tie_optimalPartition_tables_toNat [Add α] [Neg α] [LT α] [DecidableLT α] [IntCast α] [OfNat α 0] [OfNat α 1]
    (hc0 : ((0 : Int) : α) = (0 : α)) (hcm1 : ((-1 : Int) : α) = -(1 : α))
    (cost_matrix : List (List α)) (mode : Int) (verbose : Bool) (rows : Nat) (hrows : 1 ≤ rows)
    (hlen : cost_matrix.length = rows) (hrow : ∀ r ∈ cost_matrix, rows - 1 ≤ r.length) (hmode : 0 ≤ mode) :
    Gen.Segmentation.optimalPartition_tables cost_matrix mode verbose
      = .ok ((List.range (rows - 1)).map (fun i => (List.range (rows - 1)).map (fun j =>
          (((tables (0 : α) rows (fun i j => ((cost_matrix[i]?).bind (·[j]?)).getD 0) mode.toNat).M i j : Int) : α)))) :=
  tie_optimalPartition_tables hc0 hcm1 cost_matrix mode verbose rows hrows hlen hrow mode.toNat (by omega) (by omega)

/-- The tie for EVERY int `mode`: only `mode == 0` / `mode == 1` matter (any other value, negative ones included, behaves
as the model's mode 2: no cell is ever updated). -/
theorem tie_optimalPartition_tables_anyMode [Add α] [Neg α] [LT α] [DecidableLT α] [IntCast α] [OfNat α 0] [OfNat α 1]
    (hc0 : ((0 : Int) : α) = (0 : α)) (hcm1 : ((-1 : Int) : α) = -(1 : α))
    (cost_matrix : List (List α)) (mode : Int) (verbose : Bool) (rows : Nat) (hrows : 1 ≤ rows)
    (hlen : cost_matrix.length = rows) (hrow : ∀ r ∈ cost_matrix, rows - 1 ≤ r.length) :
    Gen.Segmentation.optimalPartition_tables cost_matrix mode verbose
      = .ok (mk (fun i j => (((tables (0 : α) rows (cmAt cost_matrix 0)
          (if mode = 0 then 0 else if mode = 1 then 1 else 2)).M i j : Int) : α)) (rows - 1)) :=
  tie_optimalPartition_tables hc0 hcm1 cost_matrix mode verbose rows hrows hlen hrow _
    (by by_cases h0 : mode = 0 <;> by_cases h1 : mode = 1 <;> simp [h0, h1])
    (by by_cases h0 : mode = 0 <;> by_cases h1 : mode = 1 <;> simp [h0, h1] <;> omega)

/-- error correspondence: an empty cost matrix (`N = −1`) raises ValueError in `np.zeros((N, N))` -/
theorem tie_optimalPartition_tables_empty [Add α] [Neg α] [LT α] [DecidableLT α] [IntCast α] [OfNat α 0] [OfNat α 1]
    (mode : Int) (verbose : Bool) :
    Gen.Segmentation.optimalPartition_tables ([] : List (List α)) mode verbose = .error .value := by
  unfold Gen.Segmentation.optimalPartition_tables
  simp only []
  rw [zeros2_neg _ _ _ (by unfold Py.len; simp), bind_error]

end TV.Tie.C12
