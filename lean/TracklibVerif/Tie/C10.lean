import TracklibVerif.Tie.C20
/-! Tie for C10. The map-matching model (`Model/MapMatch`) projects on edge geometries with `TV.Proj.projSegment`
(through `projPolyligne` / `projOnTrack`); the functions of `tracklib/util/geometry.py` it stands for are tied in
`Tie/C20.lean`. This module restates, for C10's audit, the equalities C10 rests on. -/
namespace TV.Tie.C10
open TV TV.Py
set_option linter.unusedSectionVars false
section
variable {α : Type} [Add α] [Sub α] [Mul α] [Div α] [Neg α] [LT α] [LE α]
  [DecidableLT α] [DecidableLE α] [OfNat α 0]

/-- the translation of the current `proj_segment` is the model's `projSegment` (all arguments, exceptions included) -/
theorem tie_proj_segment (sqrt : α → α) (x1 y1 x2 y2 x y : α) (rest : List α) :
    Gen.Geometry.proj_segment sqrt (x1 :: y1 :: x2 :: y2 :: rest) x y =
      C20.lift (Proj.projSegment sqrt x1 y1 x2 y2 x y) :=
  C20.tie_proj_segment sqrt x1 y1 x2 y2 x y rest

/-- the translation of the current `projection_droite` is the model's `projectionDroite` -/
theorem tie_projection_droite (sqrt : α → α) (a b c x y : α) (rest : List α) :
    Gen.Geometry.projection_droite sqrt (a :: b :: c :: rest) x y = C20.lift (Proj.projectionDroite sqrt a b c x y) :=
  C20.tie_projection_droite sqrt a b c x y rest

/-- the translation of the current `proj_polyligne` (initial answer `Xp[0], Yp[0], 0`, loop over `range(len(Xp) - 1)`,
sentinel `1e400` = the parameter `inf`, `continue` on a near-zero-length segment, distance to the first vertex when nothing
was kept: the source since the `fix:` commit 563eeba) is the model's `projPolyligneXY` with Python numbers and
`eps = 1e-16`, exceptions included (`IndexError`, `ZeroDivisionError`), on all arguments on which every distance met is
`< inf` (`hinf`), for a sentinel with `d < inf → ¬ d == inf` and `inf == inf`, and `pow v 2 = v * v`; see `Tie/C20.lean`. -/
theorem tie_proj_polyligne [OfScientific α] [OfNat α 2] (inf : α) (sqrt : α → α) (pow : α → α → α) (Xp Yp : List α) (x y : α)
    (hinf : ∀ (j : Nat) (x1 y1 x2 y2 : α) (r : α × α × α), Xp[j]? = some x1 → Yp[j]? = some y1 → Xp[j + 1]? = some x2 →
      Yp[j + 1]? = some y2 → Proj.skipped (1e-16 : α) x1 y1 x2 y2 = false →
      Proj.projSegment sqrt x1 y1 x2 y2 x y = .ok r → r.1 < inf)
    (hne : ∀ d : α, d < inf → Proj.isEq d inf = false) (hii : Proj.isEq inf inf = true) (hpow : ∀ v : α, pow v 2 = v * v) :
    Gen.Geometry.proj_polyligne inf sqrt pow Xp Yp x y =
      C20.liftX ((Proj.projPolyligneXY false sqrt (1e-16 : α) Xp Yp x y).map C20.idx) :=
  C20.tie_proj_polyligne inf sqrt pow Xp Yp x y hinf hne hii hpow

/-- the same on the abscissas / ordinates of a vertex list (an edge geometry, a track): the kernel model `projPolyligne`
the map-matching model projects with — a geometry all of whose vertices coincide included (its first vertex) -/
theorem tie_proj_polyligne_pairs [OfScientific α] [OfNat α 2] (inf : α) (sqrt : α → α) (pow : α → α → α) (pts : List (α × α)) (x y : α)
    (hinf : ∀ (j : Nat) (p1 p2 : α × α) (r : α × α × α), pts[j]? = some p1 → pts[j + 1]? = some p2 →
      Proj.skipped (1e-16 : α) p1.1 p1.2 p2.1 p2.2 = false →
      Proj.projSegment sqrt p1.1 p1.2 p2.1 p2.2 x y = .ok r → r.1 < inf)
    (hne : ∀ d : α, d < inf → Proj.isEq d inf = false) (hii : Proj.isEq inf inf = true) (hpow : ∀ v : α, pow v 2 = v * v) :
    Gen.Geometry.proj_polyligne inf sqrt pow (pts.map Prod.fst) (pts.map Prod.snd) x y =
      C20.lift ((Proj.projPolyligne sqrt (1e-16 : α) pts x y).map C20.idx) :=
  C20.tie_proj_polyligne_pairs inf sqrt pow pts x y hinf hne hii hpow

/-- **exact**: the translation of the current `proj_polyligne` is the SENTINEL-FAITHFUL model `Proj.projPolyligneXYS` (the
sentinel `1e400` = the parameter `inf`, tested `dist < inf` and `distmin == inf` as in the code, `v ** 2` = `pow v 2`) with
Python numbers and `eps = 1e-16`, on ALL arguments, exceptions included (`IndexError`, `ZeroDivisionError`); NO hypothesis.
`Lemmas/ProjSentinel.lean` `Proj.projPolyligneXYS_eq_false` gives `projPolyligneXYS = projPolyligneXY` under the hypotheses
of `tie_proj_polyligne`. -/
theorem tie_proj_polyligne_exact [OfScientific α] [OfNat α 2] (inf : α) (sqrt : α → α) (pow : α → α → α) (Xp Yp : List α) (x y : α) :
    Gen.Geometry.proj_polyligne inf sqrt pow Xp Yp x y =
      C20.liftX ((Proj.projPolyligneXYS false inf sqrt (C20.sqPow pow) (1e-16 : α) Xp Yp x y).map C20.idx) :=
  C20.tie_proj_polyligne_exact inf sqrt pow Xp Yp x y

/-- **exact**, on the abscissas / ordinates of a vertex list (an edge geometry, a track): the sentinel-faithful kernel
model `Proj.projPolyligneS` (`= projPolyligne` under the hypotheses above: `Proj.projPolyligneS_eq`); NO hypothesis -/
theorem tie_proj_polyligne_pairs_exact [OfScientific α] [OfNat α 2] (inf : α) (sqrt : α → α) (pow : α → α → α) (pts : List (α × α)) (x y : α) :
    Gen.Geometry.proj_polyligne inf sqrt pow (pts.map Prod.fst) (pts.map Prod.snd) x y =
      C20.lift ((Proj.projPolyligneS inf sqrt (C20.sqPow pow) (1e-16 : α) pts x y).map C20.idx) :=
  C20.tie_proj_polyligne_pairs_exact inf sqrt pow pts x y

end
end TV.Tie.C10
