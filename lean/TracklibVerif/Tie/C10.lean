import TracklibVerif.Tie.C20
/-! Tie for C10. The map-matching model (`Model/MapMatch`) projects on edge geometries with `TV.Proj.projSegment`
(through `projPolyligne` / `projOnTrack`); the functions of `tracklib/util/geometry.py` it stands for are tied in
`Tie/C20.lean`. This module restates, for C10's audit, the equalities C10 rests on. -/
namespace TV.Tie.C10
open TV TV.Py
set_option linter.unusedSectionVars false
section
variable {α : Type} [Add α] [Sub α] [Mul α] [Div α] [Neg α] [LT α] [LE α]
  [DecidableLT α] [DecidableLE α] [OfNat α 0]

/-- the translation of the current `proj_segment` is the model's `projSegment` (all arguments, exceptions included) -/
theorem tie_proj_segment (sqrt : α → α) (x1 y1 x2 y2 x y : α) (rest : List α) :
    Gen.Geometry.proj_segment sqrt (x1 :: y1 :: x2 :: y2 :: rest) x y =
      C20.lift (Proj.projSegment sqrt x1 y1 x2 y2 x y) :=
  C20.tie_proj_segment sqrt x1 y1 x2 y2 x y rest

/-- the translation of the current `projection_droite` is the model's `projectionDroite` -/
theorem tie_projection_droite (sqrt : α → α) (a b c x y : α) (rest : List α) :
    Gen.Geometry.projection_droite sqrt (a :: b :: c :: rest) x y = C20.lift (Proj.projectionDroite sqrt a b c x y) :=
  C20.tie_projection_droite sqrt a b c x y rest

end
end TV.Tie.C10
