import TracklibVerif.Model.Proj
import TracklibVerif.Gen.Geometry
/-! Tie for C20: the definitions translated from the CURRENT `tracklib/util/geometry.py` by `tools/py2lean.py`
(`TV.Gen.Geometry.*`, regenerated on every run) are equal, on all arguments, to the hand-written model
`TV.Proj.*` the theorems of `Props/C20.lean` are about. Over bare operation classes: nothing is assumed of
the scalar type, so the equalities hold for IEEE doubles as well as for an ordered field. -/
namespace TV.Tie.C20
open TV TV.Py

/-- the model's exceptions as Python exceptions -/
def liftErr : Proj.Err → Py.Err
  | .zerodiv => .zerodiv
  | .unbound => .unbound

/-- a model result as a result of the translated code -/
def lift {β : Type} : Except Proj.Err β → Py.M β
  | .ok v => .ok v
  | .error e => .error (liftErr e)

set_option linter.unusedSectionVars false
set_option linter.unusedSimpArgs false
section
variable {α : Type} [Add α] [Sub α] [Mul α] [Div α] [Neg α] [LT α] [LE α]
  [DecidableLT α] [DecidableLE α] [OfNat α 0]

/-- `cartesienne(segment)` on a list of at least four numbers returns the list `[a, b, c]` of the model's triple
(only the first four elements are read). -/
theorem tie_cartesienne (x1 y1 x2 y2 : α) (rest : List α) :
    Gen.Geometry.cartesienne (x1 :: y1 :: x2 :: y2 :: rest) =
      .ok [(Proj.cartesienne x1 y1 x2 y2).1, (Proj.cartesienne x1 y1 x2 y2).2.1, (Proj.cartesienne x1 y1 x2 y2).2.2] := rfl

/-- on a shorter list `cartesienne` raises `IndexError` (so the model's four scalars are all there is) -/
theorem tie_cartesienne_short (segment : List α) (h : segment.length < 4) :
    Gen.Geometry.cartesienne segment = .error .index := by
  match segment, h with
  | [], _ => rfl
  | [_], _ => rfl
  | [_, _], _ => rfl
  | [_, _, _], _ => rfl

/-- `projection_droite([a, b, c], x, y)` is the model's `projectionDroite`, exceptions included -/
theorem tie_projection_droite (sqrt : α → α) (a b c x y : α) (rest : List α) :
    Gen.Geometry.projection_droite sqrt (a :: b :: c :: rest) x y = lift (Proj.projectionDroite sqrt a b c x y) := by
  simp only [Gen.Geometry.projection_droite, Proj.projectionDroite, Proj.foot, getItem_zero, getItem_succ, bind_ok, Py.fdiv]
  by_cases hb : Py.feq b 0 = true
  · have hb' : Proj.isZero b = true := hb
    simp only [ite_pos' hb, ite_pos' hb']; rfl
  · have hb' : ¬ Proj.isZero b = true := hb
    simp only [ite_neg' hb, ite_neg' hb', bind_ok]
    by_cases hn : Py.feq (sqrt (-b * -b + a * a)) 0 = true
    · have hn' : Proj.isZero (sqrt (-b * -b + a * a)) = true := hn
      simp only [ite_pos' hn, ite_pos' hn', bind_error]; rfl
    · have hn' : ¬ Proj.isZero (sqrt (-b * -b + a * a)) = true := hn
      simp only [ite_neg' hn, ite_neg' hn', bind_ok]; rfl

/-- `proj_segment([x1, y1, x2, y2], x, y)` is the model's `projSegment`, exceptions included -/
theorem tie_proj_segment (sqrt : α → α) (x1 y1 x2 y2 x y : α) (rest : List α) :
    Gen.Geometry.proj_segment sqrt (x1 :: y1 :: x2 :: y2 :: rest) x y = lift (Proj.projSegment sqrt x1 y1 x2 y2 x y) := by
  simp only [Gen.Geometry.proj_segment, tie_cartesienne, Proj.projSegment, bind_ok, getItem_zero, getItem_succ, tie_projection_droite]
  generalize Proj.cartesienne x1 y1 x2 y2 = p
  simp only [Py.fdiv]
  by_cases hn : Py.feq (sqrt (p.1 * p.1 + p.2.1 * p.2.1)) 0 = true
  · have hn' : Proj.isZero (sqrt (p.1 * p.1 + p.2.1 * p.2.1)) = true := hn
    simp only [ite_pos' hn, ite_pos' hn', bind_error]; rfl
  · have hn' : ¬ Proj.isZero (sqrt (p.1 * p.1 + p.2.1 * p.2.1)) = true := hn
    simp only [ite_neg' hn, ite_neg' hn', bind_ok]
    cases hp : Proj.projectionDroite sqrt p.1 p.2.1 p.2.2 x y with
    | error e => rfl
    | ok pr =>
      simp only [lift, bind_ok]
      by_cases hi : Proj.included x1 y1 x2 y2 pr.fst pr.snd = true
      · have hi' : ((decide (x1 ≤ pr.fst) && decide (pr.fst ≤ x2) || decide (pr.fst ≤ x1) && decide (x2 ≤ pr.fst)) &&
                (decide (y1 ≤ pr.snd) && decide (pr.snd ≤ y2) || decide (pr.snd ≤ y1) && decide (y2 ≤ pr.snd))) = true := hi
        simp only [ite_pos' hi, ite_pos' hi', Proj.foot]
        by_cases hb : Py.feq p.2.1 0 = true
        · have hb' : Proj.isZero p.2.1 = true := hb
          simp only [ite_pos' hb, ite_pos' hb', bind_error]; rfl
        · have hb' : ¬ Proj.isZero p.2.1 = true := hb
          simp only [ite_neg' hb, ite_neg' hb', bind_ok]
          by_cases hm : Py.feq (sqrt (-p.2.1 * -p.2.1 + p.1 * p.1)) 0 = true
          · have hm' : Proj.isZero (sqrt (-p.2.1 * -p.2.1 + p.1 * p.1)) = true := hm
            simp only [ite_pos' hm, ite_pos' hm', bind_error]; rfl
          · have hm' : ¬ Proj.isZero (sqrt (-p.2.1 * -p.2.1 + p.1 * p.1)) = true := hm
            simp only [ite_neg' hm, ite_neg' hm', bind_ok]; rfl
      · have hi' : ¬ ((decide (x1 ≤ pr.fst) && decide (pr.fst ≤ x2) || decide (pr.fst ≤ x1) && decide (x2 ≤ pr.fst)) &&
                (decide (y1 ≤ pr.snd) && decide (pr.snd ≤ y2) || decide (pr.snd ≤ y1) && decide (y2 ≤ pr.snd))) = true := hi
        simp only [ite_neg' hi, ite_neg' hi', Proj.nearestEnd]
        by_cases hd : sqrt ((x - x1) * (x - x1) + (y - y1) * (y - y1)) ≤ sqrt ((x - x2) * (x - x2) + (y - y2) * (y - y2))
        · have hd' := decide_eq_true hd
          simp only [ite_pos' hd, ite_pos' hd']
        · have hd' : ¬ decide (sqrt ((x - x1) * (x - x1) + (y - y1) * (y - y1)) ≤ sqrt ((x - x2) * (x - x2) + (y - y2) * (y - y2))) = true := by simpa using hd
          simp only [ite_neg' hd, ite_neg' hd']

end
end TV.Tie.C20
