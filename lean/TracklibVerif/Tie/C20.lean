import TracklibVerif.Model.Proj
import TracklibVerif.Lemmas.ProjSentinel
import TracklibVerif.Gen.Geometry
/-! Tie for C20: the definitions translated from the CURRENT `tracklib/util/geometry.py` by `tools/py2lean.py`
(`TV.Gen.Geometry.*`, regenerated on every run) are equal, on all arguments, to the hand-written model
`TV.Proj.*` the theorems of `Props/C20.lean` are about. Over bare operation classes: nothing is assumed of
the scalar type, so the equalities hold for IEEE doubles as well as for an ordered field. -/
namespace TV.Tie.C20
open TV TV.Py

/-- the model's exceptions as Python exceptions -/
def liftErr : Proj.Err → Py.Err
  | .zerodiv => .zerodiv
  | .unbound => .unbound

/-- a model result as a result of the translated code -/
def lift {β : Type} : Except Proj.Err β → Py.M β
  | .ok v => .ok v
  | .error e => .error (liftErr e)

set_option linter.unusedSectionVars false
set_option linter.unusedSimpArgs false
section
variable {α : Type} [Add α] [Sub α] [Mul α] [Div α] [Neg α] [LT α] [LE α]
  [DecidableLT α] [DecidableLE α] [OfNat α 0]

/-- `cartesienne(segment)` on a list of at least four numbers returns the list `[a, b, c]` of the model's triple
(only the first four elements are read). -/
theorem tie_cartesienne (x1 y1 x2 y2 : α) (rest : List α) :
    Gen.Geometry.cartesienne (x1 :: y1 :: x2 :: y2 :: rest) =
      .ok [(Proj.cartesienne x1 y1 x2 y2).1, (Proj.cartesienne x1 y1 x2 y2).2.1, (Proj.cartesienne x1 y1 x2 y2).2.2] := rfl

/-- on a shorter list `cartesienne` raises `IndexError` (so the model's four scalars are all there is) -/
theorem tie_cartesienne_short (segment : List α) (h : segment.length < 4) :
    Gen.Geometry.cartesienne segment = .error .index := by
  match segment, h with
  | [], _ => rfl
  | [_], _ => rfl
  | [_, _], _ => rfl
  | [_, _, _], _ => rfl

/-- `projection_droite([a, b, c], x, y)` is the model's `projectionDroite`, exceptions included -/
theorem tie_projection_droite (sqrt : α → α) (a b c x y : α) (rest : List α) :
    Gen.Geometry.projection_droite sqrt (a :: b :: c :: rest) x y = lift (Proj.projectionDroite sqrt a b c x y) := by
  simp only [Gen.Geometry.projection_droite, Proj.projectionDroite, Proj.foot, getItem_zero, getItem_succ, bind_ok, Py.fdiv]
  by_cases hb : Py.feq b 0 = true
  · have hb' : Proj.isZero b = true := hb
    simp only [ite_pos' hb, ite_pos' hb']; rfl
  · have hb' : ¬ Proj.isZero b = true := hb
    simp only [ite_neg' hb, ite_neg' hb', bind_ok]
    by_cases hn : Py.feq (sqrt (-b * -b + a * a)) 0 = true
    · have hn' : Proj.isZero (sqrt (-b * -b + a * a)) = true := hn
      simp only [ite_pos' hn, ite_pos' hn', bind_error]; rfl
    · have hn' : ¬ Proj.isZero (sqrt (-b * -b + a * a)) = true := hn
      simp only [ite_neg' hn, ite_neg' hn', bind_ok]; rfl

/-- `proj_segment([x1, y1, x2, y2], x, y)` is the model's `projSegment`, exceptions included -/
theorem tie_proj_segment (sqrt : α → α) (x1 y1 x2 y2 x y : α) (rest : List α) :
    Gen.Geometry.proj_segment sqrt (x1 :: y1 :: x2 :: y2 :: rest) x y = lift (Proj.projSegment sqrt x1 y1 x2 y2 x y) := by
  simp only [Gen.Geometry.proj_segment, tie_cartesienne, Proj.projSegment, bind_ok, getItem_zero, getItem_succ, tie_projection_droite]
  generalize Proj.cartesienne x1 y1 x2 y2 = p
  simp only [Py.fdiv]
  by_cases hn : Py.feq (sqrt (p.1 * p.1 + p.2.1 * p.2.1)) 0 = true
  · have hn' : Proj.isZero (sqrt (p.1 * p.1 + p.2.1 * p.2.1)) = true := hn
    simp only [ite_pos' hn, ite_pos' hn', bind_error]; rfl
  · have hn' : ¬ Proj.isZero (sqrt (p.1 * p.1 + p.2.1 * p.2.1)) = true := hn
    simp only [ite_neg' hn, ite_neg' hn', bind_ok]
    cases hp : Proj.projectionDroite sqrt p.1 p.2.1 p.2.2 x y with
    | error e => rfl
    | ok pr =>
      simp only [lift, bind_ok]
      by_cases hi : Proj.included x1 y1 x2 y2 pr.fst pr.snd = true
      · have hi' : ((decide (x1 ≤ pr.fst) && decide (pr.fst ≤ x2) || decide (pr.fst ≤ x1) && decide (x2 ≤ pr.fst)) &&
                (decide (y1 ≤ pr.snd) && decide (pr.snd ≤ y2) || decide (pr.snd ≤ y1) && decide (y2 ≤ pr.snd))) = true := hi
        simp only [ite_pos' hi, ite_pos' hi', Proj.foot]
        by_cases hb : Py.feq p.2.1 0 = true
        · have hb' : Proj.isZero p.2.1 = true := hb
          simp only [ite_pos' hb, ite_pos' hb', bind_error]; rfl
        · have hb' : ¬ Proj.isZero p.2.1 = true := hb
          simp only [ite_neg' hb, ite_neg' hb', bind_ok]
          by_cases hm : Py.feq (sqrt (-p.2.1 * -p.2.1 + p.1 * p.1)) 0 = true
          · have hm' : Proj.isZero (sqrt (-p.2.1 * -p.2.1 + p.1 * p.1)) = true := hm
            simp only [ite_pos' hm, ite_pos' hm', bind_error]; rfl
          · have hm' : ¬ Proj.isZero (sqrt (-p.2.1 * -p.2.1 + p.1 * p.1)) = true := hm
            simp only [ite_neg' hm, ite_neg' hm', bind_ok]; rfl
      · have hi' : ¬ ((decide (x1 ≤ pr.fst) && decide (pr.fst ≤ x2) || decide (pr.fst ≤ x1) && decide (x2 ≤ pr.fst)) &&
                (decide (y1 ≤ pr.snd) && decide (pr.snd ≤ y2) || decide (pr.snd ≤ y1) && decide (y2 ≤ pr.snd))) = true := hi
        simp only [ite_neg' hi, ite_neg' hi', Proj.nearestEnd]
        by_cases hd : sqrt ((x - x1) * (x - x1) + (y - y1) * (y - y1)) ≤ sqrt ((x - x2) * (x - x2) + (y - y2) * (y - y2))
        · have hd' := decide_eq_true hd
          simp only [ite_pos' hd, ite_pos' hd']
        · have hd' : ¬ decide (sqrt ((x - x1) * (x - x1) + (y - y1) * (y - y1)) ≤ sqrt ((x - x2) * (x - x2) + (y - y2) * (y - y2))) = true := by simpa using hd
          simp only [ite_neg' hd, ite_neg' hd']

end

/-! ## `proj_polyligne` (the `for i in range(len(Xp) - 1)` loop, the sentinel `1e400`, the possibly-unbound result)

The model (`Proj.polyLoopXY / projPolyligneXY`, and `polyLoop / projPolyligne` on pairs) represents the sentinel
`distmin = 1e400` by the state `none` ("every distance is `<` it"); the translated code compares with the uninterpreted
parameter `inf`. The two agree exactly when every distance the loop meets is `< inf`: this is the explicit hypothesis
`hinf` of the theorems below (true for finite distances when `inf = +∞` on doubles, satisfiable in an ordered field by
an `inf` above the distances; FALSE for a distance that is itself `inf`/NaN, where the code keeps nothing and the
model keeps the segment).

MODEL CORRECTION (last part of this file). `Model/Proj.lean` now also has the sentinel-faithful forms
`Proj.polyLoopXYS / projPolyligneXYS` (and `polyLoopS / projPolyligneS` on pairs), which take the sentinel `inf` as a
parameter and test `dist < inf` while nothing is kept, exactly as the code does. `tie_proj_polyligne_exact` /
`tie_proj_polyligne_pairs_exact` prove the translated code EQUAL to them on ALL inputs, with NO sentinel hypothesis
(exceptions included: on an input whose distances are all `inf`/NaN both raise `UnboundLocalError`). The `hinf` theorems
below are kept as they are; they also follow from the exact ones and the agreement lemmas of
`Lemmas/ProjSentinel.lean` (`Proj.projPolyligneXYS_eq_false`, `Proj.projPolyligneS_eq`). -/

/-- the front-end model's exceptions (`IndexError` added) as Python exceptions -/
def liftErrX : Proj.ErrX → Py.Err
  | .base e => liftErr e
  | .index => .index

/-- a front-end model result as a result of the translated code -/
def liftX {β : Type} : Except Proj.ErrX β → Py.M β
  | .ok v => .ok v
  | .error e => .error (liftErrX e)

/-- the model's answer `(distmin, xproj, yproj, iproj)` with its `Nat` index as the Python `int` the code returns -/
def idx {α : Type} (r : α × α × α × Nat) : α × α × α × Int := (r.1, r.2.1, r.2.2.1, (r.2.2.2 : Int))

/-- loop state of the translated `proj_polyligne`: `(distmin, iproj, xproj, yproj)`, the last three possibly unbound -/
abbrev St (α : Type) := α × Option Int × Option α × Option α

/-- the loop state of the code that corresponds to a model state: `none` ↦ `(inf, unbound, unbound, unbound)`,
`some (d, xp, yp, i)` ↦ `(d, i, xp, yp)` (injective: the two cases differ on the `Option`s) -/
def enc {α : Type} (inf : α) : Option (α × α × α × Nat) → St α
  | none => (inf, none, none, none)
  | some r => (r.1, some (r.2.2.2 : Int), some r.2.1, some r.2.2.1)

/-- the result of the model's loop as the result of the translated `for` -/
def liftLoop {α : Type} (inf : α) : Except Proj.ErrX (Option (α × α × α × Nat)) → Py.M (Py.Out (St α) (α × α × α × Int))
  | .error e => .error (liftErrX e)
  | .ok c => .ok (.done (enc inf c))

theorem getIdx_natCast_succ {β : Type} (l : List β) (k : Nat) : getIdx l ((k : Int) + 1) = getItem l (k + 1) := by
  rw [show (k : Int) + 1 = ((k + 1 : Nat) : Int) from by omega, getIdx_natCast]

theorem getItem_one_cons {β : Type} (a b : β) (l : List β) : getItem (a :: b :: l) 1 = .ok b := rfl
theorem getItem_one_single {β : Type} (a : β) : getItem [a] 1 = .error .index := rfl

section
variable {α : Type} [Add α] [Sub α] [Mul α] [Div α] [Neg α] [LT α] [LE α]
  [DecidableLT α] [DecidableLE α] [OfNat α 0]

/-- with Python numbers (`np = false`) the parametrised `projSegmentG` is `projSegment` (bare operation classes;
`Props/C20.lean` `projSegmentG_lists` is the same statement over an ordered field) -/
theorem projSegmentG_false (sqrt : α → α) (x1 y1 x2 y2 x y : α) :
    Proj.projSegmentG false sqrt x1 y1 x2 y2 x y = Proj.projSegment sqrt x1 y1 x2 y2 x y := by
  unfold Proj.projSegmentG Proj.projSegment Proj.projectionDroiteG Proj.projectionDroite Proj.footG Proj.foot
  simp only [Bool.not_false, Bool.true_and]

/-- one iteration of the loop of `proj_polyligne` once its four reads succeeded, written with the model's functions -/
def core (sqrt : α → α) (eps x y x1 y1 x2 y2 : α) (i : Int) (s : St α) : Py.M (Py.Ctl (St α) (α × α × α × Int)) :=
  if Proj.skipped eps x1 y1 x2 y2 then .ok (.cont s) else
  Py.bind (lift (Proj.projSegment sqrt x1 y1 x2 y2 x y)) fun r =>
    if decide (r.1 < s.1) then .ok (.cont (r.1, some i, some r.2.1, some r.2.2)) else .ok (.cont s)

/-- the `for` loop of `proj_polyligne` against the model's recursion, for an ARBITRARY body that reads `Xp[i]`, `Yp[i]`,
`Xp[i+1]`, `Yp[i+1]` in this order and then does `core`; `xs`, `ys` are the suffixes of `Xp`, `Yp` from index `i` on. -/
theorem polyLoopXY_tie (inf : α) (sqrt : α → α) (eps x y : α) (body : Int → St α → Py.M (Py.Ctl (St α) (α × α × α × Int))) :
    ∀ (xs ys : List α) (i : Nat) (cur : Option (α × α × α × Nat)) (lo hi : Int), lo = (i : Int) →
      hi = (i : Int) + (xs.length : Int) - 1 →
      (∀ (j : Nat) (s : St α), body ((i + j : Nat) : Int) s =
        Py.bind (getItem xs j) fun x1 => Py.bind (getItem ys j) fun y1 =>
        Py.bind (getItem xs (j + 1)) fun x2 => Py.bind (getItem ys (j + 1)) fun y2 =>
          core sqrt eps x y x1 y1 x2 y2 ((i + j : Nat) : Int) s) →
      (∀ (j : Nat) (x1 y1 x2 y2 : α) (r : α × α × α), xs[j]? = some x1 → ys[j]? = some y1 → xs[j + 1]? = some x2 →
        ys[j + 1]? = some y2 → Proj.skipped eps x1 y1 x2 y2 = false →
        Proj.projSegment sqrt x1 y1 x2 y2 x y = .ok r → r.1 < inf) →
      Py.forList body (Py.range lo hi) (enc inf cur) = liftLoop inf (Proj.polyLoopXY false sqrt eps x y xs ys i cur) := by
  intro xs
  induction xs with
  | nil =>
    intro ys i cur lo hi hlo hhi _ _
    rw [Py.range_empty (by simp only [List.length_nil] at hhi; omega)]; rfl
  | cons x1 tl ih =>
    cases tl with
    | nil =>
      intro ys i cur lo hi hlo hhi _ _
      rw [Py.range_empty (by simp only [List.length_cons, List.length_nil] at hhi; omega)]; rfl
    | cons x2 xs' =>
      intro ys i cur lo hi hlo hhi hb hinf
      have hr : Py.range lo hi = lo :: Py.range (lo + 1) hi :=
        Py.range_cons (by simp only [List.length_cons] at hhi; omega)
      have hb0 := hb 0 (enc inf cur)
      simp only [Nat.add_zero, Nat.zero_add, getItem_zero, getItem_one_cons, bind_ok] at hb0
      rw [← hlo] at hb0
      rw [hr]
      match ys with
      | [] =>
        simp only [getItem_nil, bind_error] at hb0
        rw [forList_cons_error hb0]; rfl
      | [y1] =>
        simp only [getItem_zero, getItem_one_single, bind_ok, bind_error] at hb0
        rw [forList_cons_error hb0]; rfl
      | y1 :: y2 :: ys' =>
        simp only [getItem_zero, getItem_one_cons, bind_ok, core] at hb0
        -- the loop on the tails
        have hb' : ∀ (j : Nat) (s : St α), body ((i + 1 + j : Nat) : Int) s =
            Py.bind (getItem (x2 :: xs') j) fun x1 => Py.bind (getItem (y2 :: ys') j) fun y1 =>
            Py.bind (getItem (x2 :: xs') (j + 1)) fun x2 => Py.bind (getItem (y2 :: ys') (j + 1)) fun y2 =>
              core sqrt eps x y x1 y1 x2 y2 ((i + 1 + j : Nat) : Int) s := by
          intro j s
          have e : i + 1 + j = i + (j + 1) := by omega
          rw [e, hb (j + 1) s]
          simp only [getItem_succ]
        have hinf' : ∀ (j : Nat) (a1 b1 a2 b2 : α) (r : α × α × α), (x2 :: xs')[j]? = some a1 → (y2 :: ys')[j]? = some b1 →
            (x2 :: xs')[j + 1]? = some a2 → (y2 :: ys')[j + 1]? = some b2 → Proj.skipped eps a1 b1 a2 b2 = false →
            Proj.projSegment sqrt a1 b1 a2 b2 x y = .ok r → r.1 < inf :=
          fun j a1 b1 a2 b2 r h1 h2 h3 h4 => hinf (j + 1) a1 b1 a2 b2 r h1 h2 h3 h4
        have htl : ∀ c, Py.forList body (Py.range (lo + 1) hi) (enc inf c) =
            liftLoop inf (Proj.polyLoopXY false sqrt eps x y (x2 :: xs') (y2 :: ys') (i + 1) c) :=
          fun c => ih (y2 :: ys') (i + 1) c (lo + 1) hi (by omega) (by simp only [List.length_cons] at hhi ⊢; omega) hb' hinf'
        by_cases hsk : Proj.skipped eps x1 y1 x2 y2 = true
        · rw [ite_pos' hsk] at hb0
          rw [forList_cons_cont hb0, htl cur]
          simp only [Proj.polyLoopXY, hsk, if_true]
        · rw [ite_neg' hsk] at hb0
          have hsk' : Proj.skipped eps x1 y1 x2 y2 = false := by simpa using hsk
          cases hp : Proj.projSegment sqrt x1 y1 x2 y2 x y with
          | error e =>
            rw [hp] at hb0
            simp only [lift, bind_error] at hb0
            rw [forList_cons_error hb0]
            simp only [Proj.polyLoopXY, hsk', projSegmentG_false, hp]
            rfl
          | ok r =>
            rw [hp] at hb0
            simp only [lift, bind_ok] at hb0
            have hm : Proj.polyLoopXY false sqrt eps x y (x1 :: x2 :: xs') (y1 :: y2 :: ys') i cur =
                Proj.polyLoopXY false sqrt eps x y (x2 :: xs') (y2 :: ys') (i + 1)
                  (if Proj.better r.1 cur then some (r.1, r.2.1, r.2.2, i) else cur) := by
              simp only [Proj.polyLoopXY, hsk', projSegmentG_false, hp]
              rfl
            rw [hm]
            cases cur with
            | none =>
              have hlt : r.1 < inf := hinf 0 x1 y1 x2 y2 r rfl rfl rfl rfl hsk' hp
              have hd : decide (r.1 < (enc inf (none : Option (α × α × α × Nat))).1) = true := decide_eq_true hlt
              rw [ite_pos' hd] at hb0
              rw [forList_cons_cont hb0]
              simp only [Proj.better, if_true]
              exact hlo ▸ htl (some (r.1, r.2.1, r.2.2, i))
            | some c =>
              by_cases hlt : r.1 < c.1
              · have hd : decide (r.1 < (enc inf (some c)).1) = true := decide_eq_true hlt
                rw [ite_pos' hd] at hb0
                rw [forList_cons_cont hb0]
                have hbt : Proj.better r.1 (some c) = true := decide_eq_true hlt
                rw [ite_pos' hbt]
                exact hlo ▸ htl (some (r.1, r.2.1, r.2.2, i))
              · have hd : ¬ decide (r.1 < (enc inf (some c)).1) = true := fun h => hlt (of_decide_eq_true h)
                rw [ite_neg' hd] at hb0
                rw [forList_cons_cont hb0]
                have hbt : ¬ Proj.better r.1 (some c) = true := fun h => hlt (of_decide_eq_true h)
                rw [ite_neg' hbt]
                exact htl (some c)

/-- **`proj_polyligne(Xp, Yp, x, y)`** (translated from the CURRENT source; `inf` is the sentinel `1e400`) is the model's
`projPolyligneXY` with Python numbers (`np = false`) and `eps = 1e-16`, on ALL arguments satisfying `hinf`, exceptions
included: `IndexError` for a `Yp` shorter than `Xp` (raised at `Yp[i]` or `Yp[i+1]`, before the zero-length test and
before `proj_segment`), `ZeroDivisionError` from `proj_segment`, `UnboundLocalError` when no segment is kept; the
returned index is the model's `Nat` index as an `int`.
Hypothesis `hinf` (explicit, input-dependent): on every segment `j` of the two sequences that is not skipped by the
`< 1e-16` test and on which `proj_segment` returns, the returned distance is `< inf` (the model's `none` state stands for
a sentinel above every distance). Nothing else is assumed of the scalar type. -/
theorem tie_proj_polyligne [OfScientific α] (inf : α) (sqrt : α → α) (Xp Yp : List α) (x y : α)
    (hinf : ∀ (j : Nat) (x1 y1 x2 y2 : α) (r : α × α × α), Xp[j]? = some x1 → Yp[j]? = some y1 → Xp[j + 1]? = some x2 →
      Yp[j + 1]? = some y2 → Proj.skipped (1e-16 : α) x1 y1 x2 y2 = false →
      Proj.projSegment sqrt x1 y1 x2 y2 x y = .ok r → r.1 < inf) :
    Gen.Geometry.proj_polyligne inf sqrt Xp Yp x y =
      liftX ((Proj.projPolyligneXY false sqrt (1e-16 : α) Xp Yp x y).map idx) := by
  unfold Gen.Geometry.proj_polyligne
  simp only []
  have hl : ∀ body, _ → Py.forList body (Py.range (0 : Int) (Py.len Xp - 1)) (inf, none, none, none) = _ :=
    fun body h => polyLoopXY_tie inf sqrt (1e-16 : α) x y body Xp Yp 0 none 0 (Py.len Xp - 1) rfl
      (by simp only [Py.len]; omega) h hinf
  rw [hl _ ?spec]
  case spec =>
    intro j s
    simp only [Nat.zero_add, getIdx_natCast, getIdx_natCast_succ, tie_proj_segment, core]
    rfl
  unfold Proj.projPolyligneXY
  cases Proj.polyLoopXY false sqrt (1e-16 : α) x y Xp Yp 0 none with
  | error e => rfl
  | ok c =>
    cases c with
    | none => rfl
    | some r => rfl

/-- the two-sequence loop on the abscissas and ordinates of a list of vertices is the loop on the vertices -/
theorem polyLoopXY_pairs (sqrt : α → α) (eps x y : α) :
    ∀ (pts : List (α × α)) (i : Nat) (cur : Option (α × α × α × Nat)),
      Proj.polyLoopXY false sqrt eps x y (pts.map Prod.fst) (pts.map Prod.snd) i cur =
        (Proj.polyLoop sqrt eps x y pts i cur).mapError Proj.ErrX.base := by
  intro pts
  induction pts with
  | nil => intro i cur; rfl
  | cons p1 tl ih =>
    cases tl with
    | nil => intro i cur; rfl
    | cons p2 rest =>
      intro i cur
      simp only [List.map_cons] at ih ⊢
      by_cases hsk : Proj.skipped eps p1.1 p1.2 p2.1 p2.2 = true
      · simp only [Proj.polyLoopXY, Proj.polyLoop, hsk, if_true]
        exact ih (i + 1) cur
      · have hsk' : Proj.skipped eps p1.1 p1.2 p2.1 p2.2 = false := by simpa using hsk
        cases hp : Proj.projSegment sqrt p1.1 p1.2 p2.1 p2.2 x y with
        | error e => simp only [Proj.polyLoopXY, Proj.polyLoop, hsk', projSegmentG_false, hp]; rfl
        | ok r =>
          simp only [Proj.polyLoopXY, Proj.polyLoop, hsk', projSegmentG_false, hp]
          exact ih (i + 1) _

/-- **`proj_polyligne`** on the abscissas and ordinates of a list of vertices (how `__projOnTrack` calls it:
`track.getX()`, `track.getY()`) is the kernel model `projPolyligne` on the vertices, exceptions included
(`ZeroDivisionError`, `UnboundLocalError`; no `IndexError`: the two sequences have the same length).
Hypothesis `hinf`: as in `tie_proj_polyligne`, on the segments of the vertex list. -/
theorem tie_proj_polyligne_pairs [OfScientific α] (inf : α) (sqrt : α → α) (pts : List (α × α)) (x y : α)
    (hinf : ∀ (j : Nat) (p1 p2 : α × α) (r : α × α × α), pts[j]? = some p1 → pts[j + 1]? = some p2 →
      Proj.skipped (1e-16 : α) p1.1 p1.2 p2.1 p2.2 = false →
      Proj.projSegment sqrt p1.1 p1.2 p2.1 p2.2 x y = .ok r → r.1 < inf) :
    Gen.Geometry.proj_polyligne inf sqrt (pts.map Prod.fst) (pts.map Prod.snd) x y =
      lift ((Proj.projPolyligne sqrt (1e-16 : α) pts x y).map idx) := by
  rw [tie_proj_polyligne inf sqrt _ _ x y ?h]
  case h =>
    intro j x1 y1 x2 y2 r h1 h2 h3 h4 hs hp
    simp only [List.getElem?_map] at h1 h2 h3 h4
    cases hj : pts[j]? with
    | none => rw [hj] at h1; exact nomatch h1
    | some p1 =>
      cases hj1 : pts[j + 1]? with
      | none => rw [hj1] at h3; exact nomatch h3
      | some p2 =>
        rw [hj] at h1 h2; rw [hj1] at h3 h4
        simp only [Option.map_some, Option.some.injEq] at h1 h2 h3 h4
        subst h1 h2 h3 h4
        exact hinf j p1 p2 r hj hj1 hs hp
  unfold Proj.projPolyligneXY Proj.projPolyligne
  rw [polyLoopXY_pairs]
  cases Proj.polyLoop sqrt (1e-16 : α) x y pts 0 none with
  | error e => cases e <;> rfl
  | ok c => cases c <;> rfl

/-- the hypothesis `hinf` cannot be dropped (the MODEL's rendering of the sentinel deviates from the code there): on a
single kept segment whose distance is NOT `< inf` (a distance that is `inf` or NaN on doubles, e.g.
`proj_polyligne([0, 1e308, 2], [0, 1e308, 0], -1e308, -1e308)`), the code keeps nothing and raises `UnboundLocalError`,
while the model returns that segment. -/
theorem proj_polyligne_sentinel_deviation [OfScientific α] (inf : α) (sqrt : α → α) (x1 y1 x2 y2 x y : α) (r : α × α × α)
    (hs : Proj.skipped (1e-16 : α) x1 y1 x2 y2 = false) (hp : Proj.projSegment sqrt x1 y1 x2 y2 x y = .ok r)
    (hn : ¬ r.1 < inf) :
    Gen.Geometry.proj_polyligne inf sqrt [x1, x2] [y1, y2] x y = .error .unbound ∧
      Proj.projPolyligneXY false sqrt (1e-16 : α) [x1, x2] [y1, y2] x y = .ok (r.1, r.2.1, r.2.2, 0) := by
  constructor
  · unfold Gen.Geometry.proj_polyligne
    simp only []
    have hr : Py.range (0 : Int) (Py.len [x1, x2] - 1) = [0] := rfl
    have h0 : Py.getIdx [x1, x2] (0 : Int) = .ok x1 := rfl
    have h1 : Py.getIdx [x1, x2] ((0 : Int) + 1) = .ok x2 := rfl
    have h2 : Py.getIdx [y1, y2] (0 : Int) = .ok y1 := rfl
    have h3 : Py.getIdx [y1, y2] ((0 : Int) + 1) = .ok y2 := rfl
    have hs' : ¬ decide (Py.fabs (x1 - x2) + Py.fabs (y1 - y2) < (1e-16 : α)) = true := by
      intro h; have : Proj.skipped (1e-16 : α) x1 y1 x2 y2 = true := h
      rw [hs] at this; exact nomatch this
    have hd : ¬ decide (r.1 < inf) = true := fun h => hn (of_decide_eq_true h)
    rw [hr, forList_cons]
    simp only [h0, h1, h2, h3, bind_ok, ite_neg' hs', tie_proj_segment, hp, lift, ite_neg' hd, forList_nil, getBound_none,
      bind_error]
  · simp only [Proj.projPolyligneXY, Proj.polyLoopXY, hs, projSegmentG_false, hp, Proj.better]
    rfl

/-! ### the exact tie: the sentinel-faithful model, no hypothesis -/

/-- the `for` loop of `proj_polyligne` against the SENTINEL-FAITHFUL model's recursion (`Proj.polyLoopXYS`), for an
arbitrary body that reads `Xp[i]`, `Yp[i]`, `Xp[i+1]`, `Yp[i+1]` in this order and then does `core`: no hypothesis on the
distances (in the state `none` both sides test `dist < inf`). -/
theorem polyLoopXYS_tie (inf : α) (sqrt : α → α) (eps x y : α) (body : Int → St α → Py.M (Py.Ctl (St α) (α × α × α × Int))) :
    ∀ (xs ys : List α) (i : Nat) (cur : Option (α × α × α × Nat)) (lo hi : Int), lo = (i : Int) →
      hi = (i : Int) + (xs.length : Int) - 1 →
      (∀ (j : Nat) (s : St α), body ((i + j : Nat) : Int) s =
        Py.bind (getItem xs j) fun x1 => Py.bind (getItem ys j) fun y1 =>
        Py.bind (getItem xs (j + 1)) fun x2 => Py.bind (getItem ys (j + 1)) fun y2 =>
          core sqrt eps x y x1 y1 x2 y2 ((i + j : Nat) : Int) s) →
      Py.forList body (Py.range lo hi) (enc inf cur) = liftLoop inf (Proj.polyLoopXYS false inf sqrt eps x y xs ys i cur) := by
  intro xs
  induction xs with
  | nil =>
    intro ys i cur lo hi hlo hhi _
    rw [Py.range_empty (by simp only [List.length_nil] at hhi; omega)]; rfl
  | cons x1 tl ih =>
    cases tl with
    | nil =>
      intro ys i cur lo hi hlo hhi _
      rw [Py.range_empty (by simp only [List.length_cons, List.length_nil] at hhi; omega)]; rfl
    | cons x2 xs' =>
      intro ys i cur lo hi hlo hhi hb
      have hr : Py.range lo hi = lo :: Py.range (lo + 1) hi :=
        Py.range_cons (by simp only [List.length_cons] at hhi; omega)
      have hb0 := hb 0 (enc inf cur)
      simp only [Nat.add_zero, Nat.zero_add, getItem_zero, getItem_one_cons, bind_ok] at hb0
      rw [← hlo] at hb0
      rw [hr]
      match ys with
      | [] =>
        simp only [getItem_nil, bind_error] at hb0
        rw [forList_cons_error hb0]; rfl
      | [y1] =>
        simp only [getItem_zero, getItem_one_single, bind_ok, bind_error] at hb0
        rw [forList_cons_error hb0]; rfl
      | y1 :: y2 :: ys' =>
        simp only [getItem_zero, getItem_one_cons, bind_ok, core] at hb0
        have hb' : ∀ (j : Nat) (s : St α), body ((i + 1 + j : Nat) : Int) s =
            Py.bind (getItem (x2 :: xs') j) fun x1 => Py.bind (getItem (y2 :: ys') j) fun y1 =>
            Py.bind (getItem (x2 :: xs') (j + 1)) fun x2 => Py.bind (getItem (y2 :: ys') (j + 1)) fun y2 =>
              core sqrt eps x y x1 y1 x2 y2 ((i + 1 + j : Nat) : Int) s := by
          intro j s
          have e : i + 1 + j = i + (j + 1) := by omega
          rw [e, hb (j + 1) s]
          simp only [getItem_succ]
        have htl : ∀ c, Py.forList body (Py.range (lo + 1) hi) (enc inf c) =
            liftLoop inf (Proj.polyLoopXYS false inf sqrt eps x y (x2 :: xs') (y2 :: ys') (i + 1) c) :=
          fun c => ih (y2 :: ys') (i + 1) c (lo + 1) hi (by omega) (by simp only [List.length_cons] at hhi ⊢; omega) hb'
        by_cases hsk : Proj.skipped eps x1 y1 x2 y2 = true
        · rw [ite_pos' hsk] at hb0
          rw [forList_cons_cont hb0, htl cur]
          simp only [Proj.polyLoopXYS, hsk, if_true]
        · rw [ite_neg' hsk] at hb0
          have hsk' : Proj.skipped eps x1 y1 x2 y2 = false := by simpa using hsk
          cases hp : Proj.projSegment sqrt x1 y1 x2 y2 x y with
          | error e =>
            rw [hp] at hb0
            simp only [lift, bind_error] at hb0
            rw [forList_cons_error hb0]
            simp only [Proj.polyLoopXYS, hsk', projSegmentG_false, hp]
            rfl
          | ok r =>
            rw [hp] at hb0
            simp only [lift, bind_ok] at hb0
            have hm : Proj.polyLoopXYS false inf sqrt eps x y (x1 :: x2 :: xs') (y1 :: y2 :: ys') i cur =
                Proj.polyLoopXYS false inf sqrt eps x y (x2 :: xs') (y2 :: ys') (i + 1)
                  (if Proj.betterS inf r.1 cur then some (r.1, r.2.1, r.2.2, i) else cur) := by
              simp only [Proj.polyLoopXYS, hsk', projSegmentG_false, hp]
              rfl
            rw [hm]
            -- the code's test `dist < distmin` on the encoded state IS the model's `betterS inf dist cur`
            have hbs : decide (r.1 < (enc inf cur).1) = Proj.betterS inf r.1 cur := by
              cases cur <;> rfl
            rw [hbs] at hb0
            by_cases hbt : Proj.betterS inf r.1 cur = true
            · rw [ite_pos' hbt] at hb0
              rw [forList_cons_cont hb0, ite_pos' hbt]
              exact hlo ▸ htl (some (r.1, r.2.1, r.2.2, i))
            · rw [ite_neg' hbt] at hb0
              rw [forList_cons_cont hb0, ite_neg' hbt]
              exact htl cur

/-- **`proj_polyligne(Xp, Yp, x, y)`, exact** (translated from the CURRENT source; `inf` is the sentinel `1e400`): it is
the SENTINEL-FAITHFUL model `Proj.projPolyligneXYS` with Python numbers (`np = false`), the same sentinel `inf` and
`eps = 1e-16`, on ALL arguments, exceptions included — `IndexError` for a `Yp` shorter than `Xp`, `ZeroDivisionError`
from `proj_segment`, `UnboundLocalError` when no segment is kept, which now includes the inputs on which no distance is
`< inf` (all distances `inf`/NaN on doubles). NO hypothesis: nothing is assumed of the scalar type, of `inf`, or of the
input. -/
theorem tie_proj_polyligne_exact [OfScientific α] (inf : α) (sqrt : α → α) (Xp Yp : List α) (x y : α) :
    Gen.Geometry.proj_polyligne inf sqrt Xp Yp x y =
      liftX ((Proj.projPolyligneXYS false inf sqrt (1e-16 : α) Xp Yp x y).map idx) := by
  unfold Gen.Geometry.proj_polyligne
  simp only []
  have hl : ∀ body, _ → Py.forList body (Py.range (0 : Int) (Py.len Xp - 1)) (inf, none, none, none) = _ :=
    fun body h => polyLoopXYS_tie inf sqrt (1e-16 : α) x y body Xp Yp 0 none 0 (Py.len Xp - 1) rfl
      (by simp only [Py.len]; omega) h
  rw [hl _ ?spec]
  case spec =>
    intro j s
    simp only [Nat.zero_add, getIdx_natCast, getIdx_natCast_succ, tie_proj_segment, core]
    rfl
  unfold Proj.projPolyligneXYS
  cases Proj.polyLoopXYS false inf sqrt (1e-16 : α) x y Xp Yp 0 none with
  | error e => rfl
  | ok c =>
    cases c with
    | none => rfl
    | some r => rfl

/-- the sentinel-faithful two-sequence loop on the abscissas and ordinates of a list of vertices is the
sentinel-faithful loop on the vertices -/
theorem polyLoopXYS_pairs (inf : α) (sqrt : α → α) (eps x y : α) :
    ∀ (pts : List (α × α)) (i : Nat) (cur : Option (α × α × α × Nat)),
      Proj.polyLoopXYS false inf sqrt eps x y (pts.map Prod.fst) (pts.map Prod.snd) i cur =
        (Proj.polyLoopS inf sqrt eps x y pts i cur).mapError Proj.ErrX.base := by
  intro pts
  induction pts with
  | nil => intro i cur; rfl
  | cons p1 tl ih =>
    cases tl with
    | nil => intro i cur; rfl
    | cons p2 rest =>
      intro i cur
      simp only [List.map_cons] at ih ⊢
      by_cases hsk : Proj.skipped eps p1.1 p1.2 p2.1 p2.2 = true
      · simp only [Proj.polyLoopXYS, Proj.polyLoopS, hsk, if_true]
        exact ih (i + 1) cur
      · have hsk' : Proj.skipped eps p1.1 p1.2 p2.1 p2.2 = false := by simpa using hsk
        cases hp : Proj.projSegment sqrt p1.1 p1.2 p2.1 p2.2 x y with
        | error e => simp only [Proj.polyLoopXYS, Proj.polyLoopS, hsk', projSegmentG_false, hp]; rfl
        | ok r =>
          simp only [Proj.polyLoopXYS, Proj.polyLoopS, hsk', projSegmentG_false, hp]
          exact ih (i + 1) _

/-- **`proj_polyligne`, exact, on the abscissas and ordinates of a list of vertices** (how `__projOnTrack` calls it) is
the sentinel-faithful kernel model `Proj.projPolyligneS` on the vertices, on ALL arguments, exceptions included
(`ZeroDivisionError`, `UnboundLocalError`). NO hypothesis. -/
theorem tie_proj_polyligne_pairs_exact [OfScientific α] (inf : α) (sqrt : α → α) (pts : List (α × α)) (x y : α) :
    Gen.Geometry.proj_polyligne inf sqrt (pts.map Prod.fst) (pts.map Prod.snd) x y =
      lift ((Proj.projPolyligneS inf sqrt (1e-16 : α) pts x y).map idx) := by
  rw [tie_proj_polyligne_exact]
  unfold Proj.projPolyligneXYS Proj.projPolyligneS
  rw [polyLoopXYS_pairs]
  cases Proj.polyLoopS inf sqrt (1e-16 : α) x y pts 0 none with
  | error e => cases e <;> rfl
  | ok c => cases c <;> rfl

/-- `tie_proj_polyligne` (the `hinf` theorem on the `none`-state model) is a corollary of the exact tie and the agreement
lemma `Proj.projPolyligneXYS_eq_false` of `Lemmas/ProjSentinel.lean`: the sentinel hypothesis is needed only to pass
from the sentinel-faithful model to the `none`-state model, not to tie the code. -/
theorem tie_proj_polyligne_from_exact [OfScientific α] (inf : α) (sqrt : α → α) (Xp Yp : List α) (x y : α)
    (hinf : ∀ (j : Nat) (x1 y1 x2 y2 : α) (r : α × α × α), Xp[j]? = some x1 → Yp[j]? = some y1 → Xp[j + 1]? = some x2 →
      Yp[j + 1]? = some y2 → Proj.skipped (1e-16 : α) x1 y1 x2 y2 = false →
      Proj.projSegment sqrt x1 y1 x2 y2 x y = .ok r → r.1 < inf) :
    Gen.Geometry.proj_polyligne inf sqrt Xp Yp x y =
      liftX ((Proj.projPolyligneXY false sqrt (1e-16 : α) Xp Yp x y).map idx) := by
  rw [tie_proj_polyligne_exact, Proj.projPolyligneXYS_eq_false inf sqrt (1e-16 : α) Xp Yp x y hinf]

end
end TV.Tie.C20
