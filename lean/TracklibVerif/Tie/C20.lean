import TracklibVerif.Model.Proj
import TracklibVerif.Lemmas.ProjSentinel
import TracklibVerif.Gen.Geometry
/-! Tie for C20: the definitions translated from the CURRENT `tracklib/util/geometry.py` by `tools/py2lean.py`
(`TV.Gen.Geometry.*`, regenerated on every run) are equal, on all arguments, to the hand-written model
`TV.Proj.*` the theorems of `Props/C20.lean` are about. Over bare operation classes: nothing is assumed of
the scalar type, so the equalities hold for IEEE doubles as well as for an ordered field. -/
namespace TV.Tie.C20
open TV TV.Py

/-- the model's exceptions as Python exceptions -/
def liftErr : Proj.Err → Py.Err
  | .zerodiv => .zerodiv
  | .index => .index
  | .overflow => .value   -- never met below: the translator's `pow` is total (see `tie_proj_polyligne_exact`)

/-- a model result as a result of the translated code -/
def lift {β : Type} : Except Proj.Err β → Py.M β
  | .ok v => .ok v
  | .error e => .error (liftErr e)

set_option linter.unusedSectionVars false
set_option linter.unusedSimpArgs false
section
variable {α : Type} [Add α] [Sub α] [Mul α] [Div α] [Neg α] [LT α] [LE α]
  [DecidableLT α] [DecidableLE α] [OfNat α 0]

/-- `cartesienne(segment)` on a list of at least four numbers returns the list `[a, b, c]` of the model's triple
(only the first four elements are read). -/
theorem tie_cartesienne (x1 y1 x2 y2 : α) (rest : List α) :
    Gen.Geometry.cartesienne (x1 :: y1 :: x2 :: y2 :: rest) =
      .ok [(Proj.cartesienne x1 y1 x2 y2).1, (Proj.cartesienne x1 y1 x2 y2).2.1, (Proj.cartesienne x1 y1 x2 y2).2.2] := rfl

/-- on a shorter list `cartesienne` raises `IndexError` (so the model's four scalars are all there is) -/
theorem tie_cartesienne_short (segment : List α) (h : segment.length < 4) :
    Gen.Geometry.cartesienne segment = .error .index := by
  match segment, h with
  | [], _ => rfl
  | [_], _ => rfl
  | [_, _], _ => rfl
  | [_, _, _], _ => rfl

/-- `projection_droite([a, b, c], x, y)` is the model's `projectionDroite`, exceptions included -/
theorem tie_projection_droite (sqrt : α → α) (a b c x y : α) (rest : List α) :
    Gen.Geometry.projection_droite sqrt (a :: b :: c :: rest) x y = lift (Proj.projectionDroite sqrt a b c x y) := by
  simp only [Gen.Geometry.projection_droite, Proj.projectionDroite, Proj.foot, getItem_zero, getItem_succ, bind_ok, Py.fdiv]
  by_cases hb : Py.feq b 0 = true
  · have hb' : Proj.isZero b = true := hb
    simp only [ite_pos' hb, ite_pos' hb']; rfl
  · have hb' : ¬ Proj.isZero b = true := hb
    simp only [ite_neg' hb, ite_neg' hb', bind_ok]
    by_cases hn : Py.feq (sqrt (-b * -b + a * a)) 0 = true
    · have hn' : Proj.isZero (sqrt (-b * -b + a * a)) = true := hn
      simp only [ite_pos' hn, ite_pos' hn', bind_error]; rfl
    · have hn' : ¬ Proj.isZero (sqrt (-b * -b + a * a)) = true := hn
      simp only [ite_neg' hn, ite_neg' hn', bind_ok]; rfl

/-- `proj_segment([x1, y1, x2, y2], x, y)` is the model's `projSegment`, exceptions included -/
theorem tie_proj_segment (sqrt : α → α) (x1 y1 x2 y2 x y : α) (rest : List α) :
    Gen.Geometry.proj_segment sqrt (x1 :: y1 :: x2 :: y2 :: rest) x y = lift (Proj.projSegment sqrt x1 y1 x2 y2 x y) := by
  simp only [Gen.Geometry.proj_segment, tie_cartesienne, Proj.projSegment, bind_ok, getItem_zero, getItem_succ, tie_projection_droite]
  generalize Proj.cartesienne x1 y1 x2 y2 = p
  simp only [Py.fdiv]
  by_cases hn : Py.feq (sqrt (p.1 * p.1 + p.2.1 * p.2.1)) 0 = true
  · have hn' : Proj.isZero (sqrt (p.1 * p.1 + p.2.1 * p.2.1)) = true := hn
    simp only [ite_pos' hn, ite_pos' hn', bind_error]; rfl
  · have hn' : ¬ Proj.isZero (sqrt (p.1 * p.1 + p.2.1 * p.2.1)) = true := hn
    simp only [ite_neg' hn, ite_neg' hn', bind_ok]
    cases hp : Proj.projectionDroite sqrt p.1 p.2.1 p.2.2 x y with
    | error e => rfl
    | ok pr =>
      simp only [lift, bind_ok]
      by_cases hi : Proj.included x1 y1 x2 y2 pr.fst pr.snd = true
      · have hi' : ((decide (x1 ≤ pr.fst) && decide (pr.fst ≤ x2) || decide (pr.fst ≤ x1) && decide (x2 ≤ pr.fst)) &&
                (decide (y1 ≤ pr.snd) && decide (pr.snd ≤ y2) || decide (pr.snd ≤ y1) && decide (y2 ≤ pr.snd))) = true := hi
        simp only [ite_pos' hi, ite_pos' hi', Proj.foot]
        by_cases hb : Py.feq p.2.1 0 = true
        · have hb' : Proj.isZero p.2.1 = true := hb
          simp only [ite_pos' hb, ite_pos' hb', bind_error]; rfl
        · have hb' : ¬ Proj.isZero p.2.1 = true := hb
          simp only [ite_neg' hb, ite_neg' hb', bind_ok]
          by_cases hm : Py.feq (sqrt (-p.2.1 * -p.2.1 + p.1 * p.1)) 0 = true
          · have hm' : Proj.isZero (sqrt (-p.2.1 * -p.2.1 + p.1 * p.1)) = true := hm
            simp only [ite_pos' hm, ite_pos' hm', bind_error]; rfl
          · have hm' : ¬ Proj.isZero (sqrt (-p.2.1 * -p.2.1 + p.1 * p.1)) = true := hm
            simp only [ite_neg' hm, ite_neg' hm', bind_ok]; rfl
      · have hi' : ¬ ((decide (x1 ≤ pr.fst) && decide (pr.fst ≤ x2) || decide (pr.fst ≤ x1) && decide (x2 ≤ pr.fst)) &&
                (decide (y1 ≤ pr.snd) && decide (pr.snd ≤ y2) || decide (pr.snd ≤ y1) && decide (y2 ≤ pr.snd))) = true := hi
        simp only [ite_neg' hi, ite_neg' hi', Proj.nearestEnd]
        by_cases hd : sqrt ((x - x1) * (x - x1) + (y - y1) * (y - y1)) ≤ sqrt ((x - x2) * (x - x2) + (y - y2) * (y - y2))
        · have hd' := decide_eq_true hd
          simp only [ite_pos' hd, ite_pos' hd']
        · have hd' : ¬ decide (sqrt ((x - x1) * (x - x1) + (y - y1) * (y - y1)) ≤ sqrt ((x - x2) * (x - x2) + (y - y2) * (y - y2))) = true := by simpa using hd
          simp only [ite_neg' hd, ite_neg' hd']

end

/-! ## `proj_polyligne` (the initial answer `Xp[0], Yp[0], 0`, the `for i in range(len(Xp) - 1)` loop, the sentinel `1e400`,
the lines after the loop) — the source since the `fix:` commit 563eeba

The translated function keeps the state `(distmin, xproj, yproj, iproj)`, initially `(inf, Xp[0], Yp[0], 0)`, and ends with
`if distmin == inf: distmin = sqrt(pow(x - xproj, 2) + pow(y - yproj, 2))`. The sentinel-faithful model
(`Proj.polyLoopXYS / projPolyligneXYS`, and `polyLoopS / projPolyligneS` on pairs) keeps `none` while nothing is kept;
`Proj.encS inf x0 y0` is the code's state for a model state and `Proj.finishS` the lines after the loop, literally.
`tie_proj_polyligne_exact` / `tie_proj_polyligne_pairs_exact` prove the translated code EQUAL to the model on ALL inputs,
with NO hypothesis, the model's squaring `sq` being `fun v => .ok (pow v 2)` (the translator renders `v ** 2` by an
uninterpreted TOTAL `pow`: Python's `OverflowError` on a float whose square leaves the double range is outside the
translated subset; the driver's instance of `sq` has it and the correspondence check compares it).

The theorems of `Props/C20.lean` are about the `none`-state forms (`Proj.projPolyligneXY / projPolyligne`): every distance
beats the sentinel, squares are `v * v`. `tie_proj_polyligne` / `tie_proj_polyligne_pairs` tie the code to them under the
explicit hypotheses that separate the two forms (`Lemmas/ProjSentinel.lean`): every distance met is `< inf` (`hinf`), a
value `< inf` is not `== inf` (`hne`), `inf == inf` (`hii`), `pow v 2 = v * v` (`hpow`) — all true of an ordered field with
`inf` above the distances, and of doubles with finite distances away from overflow. -/

/-- the front-end model's exceptions (`IndexError` added) as Python exceptions -/
def liftErrX : Proj.ErrX → Py.Err
  | .base e => liftErr e
  | .index => .index

/-- a front-end model result as a result of the translated code -/
def liftX {β : Type} : Except Proj.ErrX β → Py.M β
  | .ok v => .ok v
  | .error e => .error (liftErrX e)

/-- the model's answer `(distmin, xproj, yproj, iproj)` with its `Nat` index as the Python `int` the code returns -/
def idx {α : Type} (r : α × α × α × Nat) : α × α × α × Int := (r.1, r.2.1, r.2.2.1, (r.2.2.2 : Int))

/-- loop state of the translated `proj_polyligne`: `(distmin, xproj, yproj, iproj)` -/
abbrev St (α : Type) := α × α × α × Int

/-- the loop state of the code that corresponds to a model state: `none` ↦ `(inf, Xp[0], Yp[0], 0)`,
`some (d, xp, yp, i)` ↦ `(d, xp, yp, i)` -/
def enc {α : Type} (inf x0 y0 : α) (c : Option (α × α × α × Nat)) : St α := idx (Proj.encS inf x0 y0 c)

/-- the result of the model's loop as the result of the translated `for` -/
def liftLoop {α : Type} (inf x0 y0 : α) :
    Except Proj.ErrX (Option (α × α × α × Nat)) → Py.M (Py.Out (St α) (α × α × α × Int))
  | .error e => .error (liftErrX e)
  | .ok c => .ok (.done (enc inf x0 y0 c))

theorem getIdx_natCast_succ {β : Type} (l : List β) (k : Nat) : getIdx l ((k : Int) + 1) = getItem l (k + 1) := by
  rw [show (k : Int) + 1 = ((k + 1 : Nat) : Int) from by omega, getIdx_natCast]

theorem getItem_one_cons {β : Type} (a b : β) (l : List β) : getItem (a :: b :: l) 1 = .ok b := rfl
theorem getItem_one_single {β : Type} (a : β) : getItem [a] 1 = .error .index := rfl

section
variable {α : Type} [Add α] [Sub α] [Mul α] [Div α] [Neg α] [LT α] [LE α]
  [DecidableLT α] [DecidableLE α] [OfNat α 0]

/-- with Python numbers (`np = false`) the parametrised `projSegmentG` is `projSegment` (bare operation classes;
`Props/C20.lean` `projSegmentG_lists` is the same statement over an ordered field) -/
theorem projSegmentG_false (sqrt : α → α) (x1 y1 x2 y2 x y : α) :
    Proj.projSegmentG false sqrt x1 y1 x2 y2 x y = Proj.projSegment sqrt x1 y1 x2 y2 x y := by
  unfold Proj.projSegmentG Proj.projSegment Proj.projectionDroiteG Proj.projectionDroite Proj.footG Proj.foot
  simp only [Bool.not_false, Bool.true_and]

/-- one iteration of the loop of `proj_polyligne` once its four reads succeeded, written with the model's functions -/
def core (sqrt : α → α) (eps x y x1 y1 x2 y2 : α) (i : Int) (s : St α) : Py.M (Py.Ctl (St α) (α × α × α × Int)) :=
  if Proj.skipped eps x1 y1 x2 y2 then .ok (.cont s) else
  Py.bind (lift (Proj.projSegment sqrt x1 y1 x2 y2 x y)) fun r =>
    if decide (r.1 < s.1) then .ok (.cont (r.1, r.2.1, r.2.2, i)) else .ok (.cont s)

/-- the `for` loop of `proj_polyligne` against the SENTINEL-FAITHFUL model's recursion (`Proj.polyLoopXYS`), for an
arbitrary body that reads `Xp[i]`, `Yp[i]`, `Xp[i+1]`, `Yp[i+1]` in this order and then does `core`: no hypothesis on the
distances (in the state `none` both sides test `dist < inf`); `x0`, `y0` (the initial answer) are arbitrary. -/
theorem polyLoopXYS_tie (inf x0 y0 : α) (sqrt : α → α) (eps x y : α) (body : Int → St α → Py.M (Py.Ctl (St α) (α × α × α × Int))) :
    ∀ (xs ys : List α) (i : Nat) (cur : Option (α × α × α × Nat)) (lo hi : Int), lo = (i : Int) →
      hi = (i : Int) + (xs.length : Int) - 1 →
      (∀ (j : Nat) (s : St α), body ((i + j : Nat) : Int) s =
        Py.bind (getItem xs j) fun x1 => Py.bind (getItem ys j) fun y1 =>
        Py.bind (getItem xs (j + 1)) fun x2 => Py.bind (getItem ys (j + 1)) fun y2 =>
          core sqrt eps x y x1 y1 x2 y2 ((i + j : Nat) : Int) s) →
      Py.forList body (Py.range lo hi) (enc inf x0 y0 cur) =
        liftLoop inf x0 y0 (Proj.polyLoopXYS false inf sqrt eps x y xs ys i cur) := by
  intro xs
  induction xs with
  | nil =>
    intro ys i cur lo hi hlo hhi _
    rw [Py.range_empty (by simp only [List.length_nil] at hhi; omega)]; rfl
  | cons x1 tl ih =>
    cases tl with
    | nil =>
      intro ys i cur lo hi hlo hhi _
      rw [Py.range_empty (by simp only [List.length_cons, List.length_nil] at hhi; omega)]; rfl
    | cons x2 xs' =>
      intro ys i cur lo hi hlo hhi hb
      have hr : Py.range lo hi = lo :: Py.range (lo + 1) hi :=
        Py.range_cons (by simp only [List.length_cons] at hhi; omega)
      have hb0 := hb 0 (enc inf x0 y0 cur)
      simp only [Nat.add_zero, Nat.zero_add, getItem_zero, getItem_one_cons, bind_ok] at hb0
      rw [← hlo] at hb0
      rw [hr]
      match ys with
      | [] =>
        simp only [getItem_nil, bind_error] at hb0
        rw [forList_cons_error hb0]; rfl
      | [y1] =>
        simp only [getItem_zero, getItem_one_single, bind_ok, bind_error] at hb0
        rw [forList_cons_error hb0]; rfl
      | y1 :: y2 :: ys' =>
        simp only [getItem_zero, getItem_one_cons, bind_ok, core] at hb0
        have hb' : ∀ (j : Nat) (s : St α), body ((i + 1 + j : Nat) : Int) s =
            Py.bind (getItem (x2 :: xs') j) fun x1 => Py.bind (getItem (y2 :: ys') j) fun y1 =>
            Py.bind (getItem (x2 :: xs') (j + 1)) fun x2 => Py.bind (getItem (y2 :: ys') (j + 1)) fun y2 =>
              core sqrt eps x y x1 y1 x2 y2 ((i + 1 + j : Nat) : Int) s := by
          intro j s
          have e : i + 1 + j = i + (j + 1) := by omega
          rw [e, hb (j + 1) s]
          simp only [getItem_succ]
        have htl : ∀ c, Py.forList body (Py.range (lo + 1) hi) (enc inf x0 y0 c) =
            liftLoop inf x0 y0 (Proj.polyLoopXYS false inf sqrt eps x y (x2 :: xs') (y2 :: ys') (i + 1) c) :=
          fun c => ih (y2 :: ys') (i + 1) c (lo + 1) hi (by omega) (by simp only [List.length_cons] at hhi ⊢; omega) hb'
        by_cases hsk : Proj.skipped eps x1 y1 x2 y2 = true
        · rw [ite_pos' hsk] at hb0
          rw [forList_cons_cont hb0, htl cur]
          simp only [Proj.polyLoopXYS, hsk, if_true]
        · rw [ite_neg' hsk] at hb0
          have hsk' : Proj.skipped eps x1 y1 x2 y2 = false := by simpa using hsk
          cases hp : Proj.projSegment sqrt x1 y1 x2 y2 x y with
          | error e =>
            rw [hp] at hb0
            simp only [lift, bind_error] at hb0
            rw [forList_cons_error hb0]
            simp only [Proj.polyLoopXYS, hsk', projSegmentG_false, hp]
            rfl
          | ok r =>
            rw [hp] at hb0
            simp only [lift, bind_ok] at hb0
            have hm : Proj.polyLoopXYS false inf sqrt eps x y (x1 :: x2 :: xs') (y1 :: y2 :: ys') i cur =
                Proj.polyLoopXYS false inf sqrt eps x y (x2 :: xs') (y2 :: ys') (i + 1)
                  (if Proj.betterS inf r.1 cur then some (r.1, r.2.1, r.2.2, i) else cur) := by
              simp only [Proj.polyLoopXYS, hsk', projSegmentG_false, hp]
              rfl
            rw [hm]
            -- the code's test `dist < distmin` on the encoded state IS the model's `betterS inf dist cur`
            have hbs : decide (r.1 < (enc inf x0 y0 cur).1) = Proj.betterS inf r.1 cur := by
              cases cur <;> rfl
            rw [hbs] at hb0
            by_cases hbt : Proj.betterS inf r.1 cur = true
            · rw [ite_pos' hbt] at hb0
              rw [forList_cons_cont hb0, ite_pos' hbt]
              exact hlo ▸ htl (some (r.1, r.2.1, r.2.2, i))
            · rw [ite_neg' hbt] at hb0
              rw [forList_cons_cont hb0, ite_neg' hbt]
              exact htl cur

/-- the squaring of the translated code as the model's `sq`: `v ** 2` is `pow v 2`, total -/
def sqPow [OfNat α 2] (pow : α → α → α) : α → Except Proj.Err α := fun v => .ok (pow v 2)

/-- the lines after the loop: the translated `if distmin == inf: ...; return distmin, xproj, yproj, iproj` on the code's
state of a model state is the model's `finishS` -/
theorem finish_tie [OfNat α 2] (inf : α) (sqrt : α → α) (pow : α → α → α) (x y : α) (s : α × α × α × Nat) :
    (if Py.feq (idx s).1 inf then
        (.ok (sqrt (pow (x - (idx s).2.1) 2 + pow (y - (idx s).2.2.1) 2), (idx s).2.1, (idx s).2.2.1, (idx s).2.2.2) : Py.M (α × α × α × Int))
      else .ok ((idx s).1, (idx s).2.1, (idx s).2.2.1, (idx s).2.2.2)) =
      liftX (((Proj.finishS inf sqrt (sqPow pow) x y s).mapError Proj.ErrX.base).map idx) := by
  unfold Proj.finishS sqPow
  by_cases h : Proj.isEq s.1 inf = true
  · have h' : Py.feq (idx s).1 inf = true := h
    rw [ite_pos' h, ite_pos' h']; rfl
  · have h' : ¬ Py.feq (idx s).1 inf = true := h
    rw [ite_neg' h, ite_neg' h']; rfl

/-- **`proj_polyligne(Xp, Yp, x, y)`, exact** (translated from the CURRENT source; `inf` is the sentinel `1e400`, `pow` the
translator's rendering of `**`): it is the SENTINEL-FAITHFUL model `Proj.projPolyligneXYS` with Python numbers
(`np = false`), the same sentinel `inf`, `sq v = pow v 2` and `eps = 1e-16`, on ALL arguments, exceptions included —
`IndexError` for an empty `Xp` / `Yp` (`Xp[0]`, `Yp[0]`) and for a `Yp` shorter than `Xp`, `ZeroDivisionError` from
`proj_segment`; when no segment is kept (every segment skipped, or no distance `< inf`: all distances `inf`/NaN on
doubles) the first vertex and the distance to it. NO hypothesis: nothing is assumed of the scalar type, of `inf`, of `pow`
or of the input. -/
theorem tie_proj_polyligne_exact [OfScientific α] [OfNat α 2] (inf : α) (sqrt : α → α) (pow : α → α → α) (Xp Yp : List α) (x y : α) :
    Gen.Geometry.proj_polyligne inf sqrt pow Xp Yp x y =
      liftX ((Proj.projPolyligneXYS false inf sqrt (sqPow pow) (1e-16 : α) Xp Yp x y).map idx) := by
  unfold Gen.Geometry.proj_polyligne Proj.projPolyligneXYS
  match Xp, Yp with
  | [], _ => rfl
  | x0 :: xs, [] => rfl
  | x0 :: xs, y0 :: ys =>
    simp only [getItem_zero, bind_ok]
    have hl : ∀ body, _ → Py.forList body (Py.range (0 : Int) (Py.len (x0 :: xs) - 1)) (inf, x0, y0, (0 : Int)) = _ :=
      fun body h => polyLoopXYS_tie inf x0 y0 sqrt (1e-16 : α) x y body (x0 :: xs) (y0 :: ys) 0 none 0 (Py.len (x0 :: xs) - 1) rfl
        (by simp only [Py.len]; omega) h
    rw [hl _ ?spec]
    case spec =>
      intro j s
      simp only [Nat.zero_add, getIdx_natCast, getIdx_natCast_succ, tie_proj_segment, core]
      rfl
    cases Proj.polyLoopXYS false inf sqrt (1e-16 : α) x y (x0 :: xs) (y0 :: ys) 0 none with
    | error e => rfl
    | ok c =>
      simp only [liftLoop, bind_ok, enc]
      exact finish_tie inf sqrt pow x y (Proj.encS inf x0 y0 c)

/-- the sentinel-faithful two-sequence loop on the abscissas and ordinates of a list of vertices is the
sentinel-faithful loop on the vertices -/
theorem polyLoopXYS_pairs (inf : α) (sqrt : α → α) (eps x y : α) :
    ∀ (pts : List (α × α)) (i : Nat) (cur : Option (α × α × α × Nat)),
      Proj.polyLoopXYS false inf sqrt eps x y (pts.map Prod.fst) (pts.map Prod.snd) i cur =
        (Proj.polyLoopS inf sqrt eps x y pts i cur).mapError Proj.ErrX.base := by
  intro pts
  induction pts with
  | nil => intro i cur; rfl
  | cons p1 tl ih =>
    cases tl with
    | nil => intro i cur; rfl
    | cons p2 rest =>
      intro i cur
      simp only [List.map_cons] at ih ⊢
      by_cases hsk : Proj.skipped eps p1.1 p1.2 p2.1 p2.2 = true
      · simp only [Proj.polyLoopXYS, Proj.polyLoopS, hsk, if_true]
        exact ih (i + 1) cur
      · have hsk' : Proj.skipped eps p1.1 p1.2 p2.1 p2.2 = false := by simpa using hsk
        cases hp : Proj.projSegment sqrt p1.1 p1.2 p2.1 p2.2 x y with
        | error e => simp only [Proj.polyLoopXYS, Proj.polyLoopS, hsk', projSegmentG_false, hp]; rfl
        | ok r =>
          simp only [Proj.polyLoopXYS, Proj.polyLoopS, hsk', projSegmentG_false, hp]
          exact ih (i + 1) _

/-- the two-sequence form on the abscissas / ordinates of a vertex list is the kernel form on the vertices (sentinel-faithful) -/
theorem projPolyligneXYS_pairs (inf : α) (sqrt : α → α) (sq : α → Except Proj.Err α) (eps : α) (pts : List (α × α)) (x y : α) :
    Proj.projPolyligneXYS false inf sqrt sq eps (pts.map Prod.fst) (pts.map Prod.snd) x y =
      (Proj.projPolyligneS inf sqrt sq eps pts x y).mapError Proj.ErrX.base := by
  unfold Proj.projPolyligneXYS Proj.projPolyligneS
  match pts with
  | [] => rfl
  | p0 :: rest =>
    simp only [List.map_cons]
    have h := polyLoopXYS_pairs inf sqrt eps x y (p0 :: rest) 0 none
    simp only [List.map_cons] at h
    rw [h]
    cases Proj.polyLoopS inf sqrt eps x y (p0 :: rest) 0 none with
    | error e => rfl
    | ok c => rfl

/-- **`proj_polyligne`, exact, on the abscissas and ordinates of a list of vertices** (how `__projOnTrack` calls it) is
the sentinel-faithful kernel model `Proj.projPolyligneS` on the vertices, on ALL arguments, exceptions included
(`ZeroDivisionError`; `IndexError` on an empty track). NO hypothesis. -/
theorem tie_proj_polyligne_pairs_exact [OfScientific α] [OfNat α 2] (inf : α) (sqrt : α → α) (pow : α → α → α) (pts : List (α × α)) (x y : α) :
    Gen.Geometry.proj_polyligne inf sqrt pow (pts.map Prod.fst) (pts.map Prod.snd) x y =
      lift ((Proj.projPolyligneS inf sqrt (sqPow pow) (1e-16 : α) pts x y).map idx) := by
  rw [tie_proj_polyligne_exact, projPolyligneXYS_pairs]
  cases Proj.projPolyligneS inf sqrt (sqPow pow) (1e-16 : α) pts x y with
  | error e => cases e <;> rfl
  | ok c => rfl

/-- **`proj_polyligne(Xp, Yp, x, y)`** against the `none`-state model `projPolyligneXY` the theorems of `Props/C20.lean`
are about (Python numbers, `eps = 1e-16`), exceptions included (`IndexError`, `ZeroDivisionError`), under the explicit
hypotheses that separate the two renderings of the sentinel: `hinf` — on every segment `j` of the two sequences that is
not skipped and on which `proj_segment` returns, the returned distance is `< inf`; `hne` — a value `< inf` is not `== inf`;
`hii` — `inf == inf`; `hpow` — `pow v 2 = v * v`. A corollary of the exact tie and of the agreement lemma
`Proj.projPolyligneXYS_eq_false` (`Lemmas/ProjSentinel.lean`): the hypotheses serve only to pass from the sentinel-faithful
model to the `none`-state model, not to tie the code. -/
theorem tie_proj_polyligne [OfScientific α] [OfNat α 2] (inf : α) (sqrt : α → α) (pow : α → α → α) (Xp Yp : List α) (x y : α)
    (hinf : ∀ (j : Nat) (x1 y1 x2 y2 : α) (r : α × α × α), Xp[j]? = some x1 → Yp[j]? = some y1 → Xp[j + 1]? = some x2 →
      Yp[j + 1]? = some y2 → Proj.skipped (1e-16 : α) x1 y1 x2 y2 = false →
      Proj.projSegment sqrt x1 y1 x2 y2 x y = .ok r → r.1 < inf)
    (hne : ∀ d : α, d < inf → Proj.isEq d inf = false) (hii : Proj.isEq inf inf = true) (hpow : ∀ v : α, pow v 2 = v * v) :
    Gen.Geometry.proj_polyligne inf sqrt pow Xp Yp x y =
      liftX ((Proj.projPolyligneXY false sqrt (1e-16 : α) Xp Yp x y).map idx) := by
  rw [tie_proj_polyligne_exact,
    Proj.projPolyligneXYS_eq_false inf sqrt (sqPow pow) (1e-16 : α) Xp Yp x y hinf hne hii (fun v => by simp only [sqPow, hpow])]

/-- the two-sequence `none`-state loop on the abscissas and ordinates of a list of vertices is the loop on the vertices -/
theorem polyLoopXY_pairs (sqrt : α → α) (eps x y : α) :
    ∀ (pts : List (α × α)) (i : Nat) (cur : Option (α × α × α × Nat)),
      Proj.polyLoopXY false sqrt eps x y (pts.map Prod.fst) (pts.map Prod.snd) i cur =
        (Proj.polyLoop sqrt eps x y pts i cur).mapError Proj.ErrX.base := by
  intro pts
  induction pts with
  | nil => intro i cur; rfl
  | cons p1 tl ih =>
    cases tl with
    | nil => intro i cur; rfl
    | cons p2 rest =>
      intro i cur
      simp only [List.map_cons] at ih ⊢
      by_cases hsk : Proj.skipped eps p1.1 p1.2 p2.1 p2.2 = true
      · simp only [Proj.polyLoopXY, Proj.polyLoop, hsk, if_true]
        exact ih (i + 1) cur
      · have hsk' : Proj.skipped eps p1.1 p1.2 p2.1 p2.2 = false := by simpa using hsk
        cases hp : Proj.projSegment sqrt p1.1 p1.2 p2.1 p2.2 x y with
        | error e => simp only [Proj.polyLoopXY, Proj.polyLoop, hsk', projSegmentG_false, hp]; rfl
        | ok r =>
          simp only [Proj.polyLoopXY, Proj.polyLoop, hsk', projSegmentG_false, hp]
          exact ih (i + 1) _

/-- **`proj_polyligne`** on the abscissas and ordinates of a list of vertices (how `__projOnTrack` calls it:
`track.getX()`, `track.getY()`) is the kernel model `projPolyligne` on the vertices, exceptions included
(`ZeroDivisionError`; `IndexError` on an empty track), under the hypotheses of `tie_proj_polyligne` stated on the
segments of the vertex list. -/
theorem tie_proj_polyligne_pairs [OfScientific α] [OfNat α 2] (inf : α) (sqrt : α → α) (pow : α → α → α) (pts : List (α × α)) (x y : α)
    (hinf : ∀ (j : Nat) (p1 p2 : α × α) (r : α × α × α), pts[j]? = some p1 → pts[j + 1]? = some p2 →
      Proj.skipped (1e-16 : α) p1.1 p1.2 p2.1 p2.2 = false →
      Proj.projSegment sqrt p1.1 p1.2 p2.1 p2.2 x y = .ok r → r.1 < inf)
    (hne : ∀ d : α, d < inf → Proj.isEq d inf = false) (hii : Proj.isEq inf inf = true) (hpow : ∀ v : α, pow v 2 = v * v) :
    Gen.Geometry.proj_polyligne inf sqrt pow (pts.map Prod.fst) (pts.map Prod.snd) x y =
      lift ((Proj.projPolyligne sqrt (1e-16 : α) pts x y).map idx) := by
  rw [tie_proj_polyligne_pairs_exact,
    Proj.projPolyligneS_eq inf sqrt (sqPow pow) (1e-16 : α) pts x y hinf hne hii (fun v => by simp only [sqPow, hpow])]

/-- the hypothesis `hinf` cannot be dropped (the `none`-state MODEL's rendering of the sentinel deviates from the code
there): on a single kept segment whose distance is NOT `< inf` (a distance that is `inf` or NaN on doubles, e.g.
`proj_polyligne([0, 1e308], [0, 1e308], -1e308, -1e308)`), the code keeps nothing and answers from its initial state — the
FIRST VERTEX, index 0, `distmin` recomputed by the lines after the loop if `inf == inf` (before 563eeba it raised
`UnboundLocalError`) — while the `none`-state model returns that segment. -/
theorem proj_polyligne_sentinel_deviation [OfScientific α] [OfNat α 2] (inf : α) (sqrt : α → α) (pow : α → α → α)
    (x1 y1 x2 y2 x y : α) (r : α × α × α)
    (hs : Proj.skipped (1e-16 : α) x1 y1 x2 y2 = false) (hp : Proj.projSegment sqrt x1 y1 x2 y2 x y = .ok r)
    (hn : ¬ r.1 < inf) :
    Gen.Geometry.proj_polyligne inf sqrt pow [x1, x2] [y1, y2] x y =
        liftX (((Proj.finishS inf sqrt (sqPow pow) x y (inf, x1, y1, 0)).mapError Proj.ErrX.base).map idx) ∧
      Proj.projPolyligneXY false sqrt (1e-16 : α) [x1, x2] [y1, y2] x y = .ok (r.1, r.2.1, r.2.2, 0) := by
  have hp' : Proj.projSegmentG false sqrt x1 y1 x2 y2 x y = .ok r := by rw [projSegmentG_false]; exact hp
  obtain ⟨h1, h2⟩ := Proj.projPolyligneXYS_single_not_lt false inf sqrt (sqPow pow) (1e-16 : α) x1 y1 x2 y2 x y r hs hp' hn
  exact ⟨by rw [tie_proj_polyligne_exact, h1], h2⟩

end
end TV.Tie.C20
