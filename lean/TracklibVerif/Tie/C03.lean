import TracklibVerif.Model.ObsTimeG
import TracklibVerif.Gen.ObsTime
/-! Tie for C03: the functions of `tracklib/core/obs_time.py` translated from the CURRENT source (tools/py2lean.py →
`Gen/ObsTime.lean`) against the hand-written models.

* `tie_isLeapYear`  — `ObsTime.isLeapYear(year)` = `ObsTime.isLeap` on every year ≥ 0 (Python's `%` is `Int.fmod`).
* `tie_toAbsTime`   — `ObsTime.toAbsTime` (two `for` loops over `range`, table lookup `__day_per_month[m - 1]`, the integer
  accumulator `seconds`, the final float operation) = `ObsTimeG.toAbsG`, on every stamp with `month ≤ 13`;
  `tie_toAbsTime_index`: for `month ≥ 14` the code raises `IndexError`; `tie_toAbsTime_total`: both, against `ObsTimeG.toAbsGE`.
* `tie_readUnixTime_modelFuel`, `tie_readUnixTime` — `ObsTime.readUnixTime` on a float (the `while True` year loop with
  `break`, the `for i in range(12)` month loop with `break`, the five truncations) = `ObsTimeG.readUnixG`: with the model's
  own fuel the two agree including "out of fuel", and for EVERY larger fuel the translated function returns the model's stamp.
  An `ObsTime` is the tuple of its attributes in constructor order `(year, month, day, hour, min, sec, ms, zone)`.

The loop lemmas (`yearLoop_tie`, `monthLoop_tie`) are stated for an arbitrary body satisfying a pointwise equation; the
equation is then proved of the generated body, so nothing of the generated text is copied here. -/
namespace TV.Tie.C03
open TV TV.Py
set_option linter.unusedSectionVars false
set_option linter.unusedSimpArgs false

theorem fmod_natCast (n k : Nat) : Int.fmod (n : Int) (k : Int) = ((n % k : Nat) : Int) := by
  rw [Int.fmod_eq_emod_of_nonneg _ (Int.natCast_nonneg k)]
  exact (Int.natCast_emod n k).symm

theorem dec_eq (m : Nat) : decide (((m : Nat) : Int) = (0 : Int)) = (m == 0) := by
  cases m with
  | zero => rfl
  | succ k => 
    have h : ¬ (((k + 1 : Nat) : Int) = 0) := by omega
    rw [decide_eq_false h]; rfl

/-- `ObsTime.isLeapYear(year)` for `year ≥ 0` is the model's `isLeap` -/
theorem tie_isLeapYear (y : Nat) : Gen.ObsTime.isLeapYear (y : Int) = .ok (ObsTime.isLeap y) := by
  have h4 := fmod_natCast y 4
  have h100 := fmod_natCast y 100
  have h400 := fmod_natCast y 400
  simp only [Gen.ObsTime.isLeapYear, ObsTime.isLeap]
  rw [show (4 : Int) = ((4 : Nat) : Int) from rfl, show (100 : Int) = ((100 : Nat) : Int) from rfl, show (400 : Int) = ((400 : Nat) : Int) from rfl, h4, h100, h400, dec_eq, dec_eq, dec_eq]
  rfl

/-- the year loop of `toAbsTime` as a fold -/
theorem years_fold (k : Nat) (s : Int) :
    (Py.range 1970 (1970 + (k : Int))).foldl (fun (t : Int) (y : Int) => t + 86400 * 365 + (if ObsTime.isLeap y.toNat then 86400 else 0)) s
      = s + (ObsTime.daysBeforeYear k : Int) * 86400 := by
  induction k generalizing s with
  | zero => simp [Py.range_empty, ObsTime.daysBeforeYear]
  | succ k ih =>
    have : (1970 : Int) + ((k + 1 : Nat) : Int) = (1970 + (k : Int)) + 1 := by omega
    rw [this, Py.range_snoc (by omega), List.foldl_append, ih]
    simp only [List.foldl_cons, List.foldl_nil, ObsTime.daysBeforeYear, ObsTime.yearDays]
    have h2 : (1970 + (k : Int)).toNat = 1970 + k := by omega
    rw [h2]
    by_cases hl : ObsTime.isLeap (1970 + k) = true
    · simp only [hl, if_true]; omega
    · simp only [hl]; simp; omega

theorem months_fold (y : Nat) (k : Nat) (s : Int) :
    (Py.range 1 (1 + (k : Int))).foldl (fun (t : Int) (m : Int) => t + (ObsTime.monthDays y (m - 1).toNat : Int) * 86400) s
      = s + (ObsTime.daysBeforeMonth y k : Int) * 86400 := by
  induction k generalizing s with
  | zero => simp [Py.range_empty, ObsTime.daysBeforeMonth]
  | succ k ih =>
    have : (1 : Int) + ((k + 1 : Nat) : Int) = (1 + (k : Int)) + 1 := by omega
    rw [this, Py.range_snoc (by omega), List.foldl_append, ih]
    simp only [List.foldl_cons, List.foldl_nil, ObsTime.daysBeforeMonth]
    have h2 : (1 + (k : Int) - 1).toNat = k := by omega
    rw [h2]; omega

theorem years_fold' (y : Nat) (s : Int) :
    (Py.range 1970 (y : Int)).foldl (fun (t : Int) (y : Int) => t + 86400 * 365 + (if ObsTime.isLeap y.toNat then 86400 else 0)) s
      = s + (ObsTime.daysBeforeYear (y - 1970) : Int) * 86400 := by
  by_cases h : 1970 ≤ y
  · have : (y : Int) = 1970 + ((y - 1970 : Nat) : Int) := by omega
    rw [this, years_fold]
  · have h0 : y - 1970 = 0 := by omega
    rw [Py.range_empty (by omega), h0]; simp [ObsTime.daysBeforeYear]

theorem months_fold' (y m : Nat) (s : Int) :
    (Py.range 1 (m : Int)).foldl (fun (t : Int) (m : Int) => t + (ObsTime.monthDays y (m - 1).toNat : Int) * 86400) s
      = s + (ObsTime.daysBeforeMonth y (m - 1) : Int) * 86400 := by
  by_cases h : 1 ≤ m
  · have : (m : Int) = 1 + ((m - 1 : Nat) : Int) := by omega
    rw [this, months_fold]
  · have h0 : m - 1 = 0 := by omega
    rw [Py.range_empty (by omega), h0]; simp [ObsTime.daysBeforeMonth]

theorem yd_cast (y : Nat) : ((ObsTime.yearDays y * 86400 : Nat) : Int) = if ObsTime.isLeap y then 86400 * 365 + 86400 else 86400 * 365 := by
  unfold ObsTime.yearDays; split <;> rfl

section
variable {α : Type} [Add α] [Sub α] [Mul α] [Div α] [LT α] [DecidableLT α] [IntCast α] [OfScientific α]

theorem dpm_idx (y : Nat) (m : Int) (h1 : 1 ≤ m) (h2 : m ≤ 12) :
    Py.getIdx [(31 : Int), 28, 31, 30, 31, 30, 31, 31, 30, 31, 30, 31] (m - 1) = .ok (if m = 2 then 28 else (ObsTime.monthDays y (m - 1).toNat : Int)) := by
  have : m = 1 ∨ m = 2 ∨ m = 3 ∨ m = 4 ∨ m = 5 ∨ m = 6 ∨ m = 7 ∨ m = 8 ∨ m = 9 ∨ m = 10 ∨ m = 11 ∨ m = 12 := by omega
  rcases this with h | h | h | h | h | h | h | h | h | h | h | h <;> subst h <;> rfl

theorem tie_toAbsTime (t : ObsTime.StampZ) (hm : t.month ≤ 13)
    (h1000 : (1000.0 : α) = ((1000 : Int) : α)) :
    Gen.ObsTime.ObsTime_toAbsTime (α := α) (t.year : Int) (t.month : Int) t.day t.hour t.min t.sec t.ms
      = .ok (ObsTime.toAbsG t) := by
  unfold Gen.ObsTime.ObsTime_toAbsTime
  simp only []
  rw [Py.forList_eq_foldl _ (fun (t : Int) (y : Int) => t + 86400 * 365 + (if ObsTime.isLeap y.toNat then 86400 else 0))]
  · simp only [Py.bind_ok]
    rw [Py.forList_eq_foldl _ (fun (s : Int) (m : Int) => s + (ObsTime.monthDays t.year (m - 1).toNat : Int) * 86400)]
    · simp only [Py.bind_ok]
      rw [years_fold', months_fold', h1000]
      have key : ∀ a b c d e f : Int, 0 + a * 86400 + b * 86400 + c + d + e + f = (a + b) * 86400 + c + d + e + f := by
        intros; omega
      rw [key]
      simp only [ObsTime.toAbsG, ObsTime.secondsZ, Int.natCast_add]
    · intro m hm' s
      have hr := Py.mem_range hm'
      rw [dpm_idx t.year m (by omega) (by omega), tie_isLeapYear]
      simp only [Py.bind_ok]
      by_cases h2 : m = 2
      · subst h2
        by_cases hl : ObsTime.isLeap t.year = true
        · simp [hl, ObsTime.monthDays]; omega
        · simp [hl, ObsTime.monthDays]
      · simp [h2]
  · intro y hy s
    have hr := Py.mem_range hy
    have : y = ((y.toNat : Nat) : Int) := by omega
    rw [this, tie_isLeapYear]
    simp only [Py.bind_ok, Int.toNat_natCast]
    by_cases hl : ObsTime.isLeap y.toNat = true
    · simp [hl]
    · simp [hl]

/-- error correspondence for `toAbsTime`: the model's `toAbsG` is total (a month beyond the table counts 31 days), the
code reads `__day_per_month[m - 1]` for `m` up to `month - 1` and raises `IndexError` as soon as `month ≥ 14` -/
theorem tie_toAbsTime_index (t : ObsTime.StampZ) (hm : 14 ≤ t.month) :
    Gen.ObsTime.ObsTime_toAbsTime (α := α) (t.year : Int) (t.month : Int) t.day t.hour t.min t.sec t.ms
      = .error .index := by
  unfold Gen.ObsTime.ObsTime_toAbsTime
  simp only []
  rw [Py.forList_eq_foldl _ (fun (t : Int) (y : Int) => t + 86400 * 365 + (if ObsTime.isLeap y.toNat then 86400 else 0))]
  · simp only [Py.bind_ok]
    rw [Py.range_append (a := 1) (b := 13) (c := (t.month : Int)) (by omega) (by omega),
      Py.forList_append _ _ _ _ _ (Py.forList_eq_foldl _ (fun (s : Int) (m : Int) => s + (ObsTime.monthDays t.year (m - 1).toNat : Int) * 86400) _ _ ?h1) ?h2,
      Py.range_cons (by omega)]
    · rfl
    case h1 =>
      intro m hm' s
      have hr := Py.mem_range hm'
      rw [dpm_idx t.year m (by omega) (by omega), tie_isLeapYear]
      simp only [Py.bind_ok]
      by_cases h2 : m = 2
      · subst h2
        by_cases hl : ObsTime.isLeap t.year = true
        · simp [hl, ObsTime.monthDays]; omega
        · simp [hl, ObsTime.monthDays]
      · simp [h2]
    case h2 =>
      intro m hm' s s'
      have hr := Py.mem_range hm'
      rw [dpm_idx t.year m (by omega) (by omega), tie_isLeapYear]
      simp only [Py.bind_ok]
      by_cases h2 : m = 2 <;> by_cases hl : ObsTime.isLeap t.year = true <;> simp [h2, hl]
  · intro y hy s
    have hr := Py.mem_range hy
    have : y = ((y.toNat : Nat) : Int) := by omega
    rw [this, tie_isLeapYear]
    simp only [Py.bind_ok, Int.toNat_natCast]
    by_cases hl : ObsTime.isLeap y.toNat = true
    · simp [hl]
    · simp [hl]

/-- **`ObsTime.toAbsTime`, all stamps**: the translation of the CURRENT source returns the model's value where the model has one and
raises `IndexError` exactly where the model's `toAbsGE` is `none` (month ≥ 14) -/
theorem tie_toAbsTime_total (t : ObsTime.StampZ) (h1000 : (1000.0 : α) = ((1000 : Int) : α)) :
    Gen.ObsTime.ObsTime_toAbsTime (α := α) (t.year : Int) (t.month : Int) t.day t.hour t.min t.sec t.ms
      = match ObsTime.toAbsGE t with
        | some v => .ok v
        | none => .error .index := by
  unfold ObsTime.toAbsGE
  by_cases hm : t.month ≤ 13
  · rw [if_pos hm]; exact tie_toAbsTime t hm h1000
  · rw [if_neg hm]; exact tie_toAbsTime_index t (by omega)

/-- the `while True` year loop of `readUnixTime` against `yearLoopG`: same fuel, same result, "out of fuel" for `none` -/
theorem yearLoop_tie {ρ : Type} (e : α) (body : Int × Int → Py.M (Py.Ctl (Int × Int) ρ))
    (h : ∀ (y sec : Nat), body ((sec : Int), (y : Int)) =
      if e - (((sec : Nat) : Int) : α) < (((ObsTime.yearDays y * 86400 : Nat) : Int) : α) then .ok (.brk ((sec : Int), (y : Int)))
      else .ok (.cont (((sec + ObsTime.yearDays y * 86400 : Nat) : Int), ((y + 1 : Nat) : Int))))
    (f y sec : Nat) :
    Py.whileLoop body f ((sec : Int), (y : Int)) =
      match ObsTime.yearLoopG e f y sec with
      | some r => .ok (.done ((r.2 : Int), (r.1 : Int)))
      | none => .error .fuel := by
  induction f generalizing y sec with
  | zero => rfl
  | succ f ih =>
    rw [Py.whileLoop_succ, h, ObsTime.yearLoopG]
    by_cases hc : e - (((sec : Nat) : Int) : α) < (((ObsTime.yearDays y * 86400 : Nat) : Int) : α)
    · simp only [hc, if_true]
    · simp only [hc, if_false]; exact ih _ _

/-- the `for i in range(12)` month loop of `readUnixTime` against `monthLoopG` -/
theorem monthLoop_tie {ρ : Type} (y : Nat) (body : Int → α × Int → Py.M (Py.Ctl (α × Int) ρ))
    (h : ∀ (i : Int) (e : α) (m : Nat), m < 12 → body i (e, (m : Int)) =
      if e < (((ObsTime.monthDays y m * 86400 : Nat) : Int) : α) then .ok (.brk (e, (m : Int)))
      else .ok (.cont (e - (((ObsTime.monthDays y m * 86400 : Nat) : Int) : α), ((m + 1 : Nat) : Int))))
    (f m : Nat) (e : α) (hf : m + f ≤ 12) (i0 : Int) :
    Py.forList body (Py.range i0 (i0 + (f : Int))) (e, (m : Int)) =
      .ok (.done ((ObsTime.monthLoopG y f m e).2, ((ObsTime.monthLoopG y f m e).1 : Int))) := by
  induction f generalizing m e i0 with
  | zero => rw [Py.range_empty (by omega)]; rfl
  | succ f ih =>
    rw [Py.range_cons (by omega), Py.forList_cons, h _ _ _ (by omega), ObsTime.monthLoopG]
    by_cases hc : e < (((ObsTime.monthDays y m * 86400 : Nat) : Int) : α)
    · simp only [hc, if_true]
    · simp only [hc, if_false]
      have : i0 + ((f + 1 : Nat) : Int) = (i0 + 1) + (f : Int) := by omega
      rw [this]
      exact ih (m + 1) _ (by omega) (i0 + 1)

theorem dpm_idx0 (m : Nat) (h : m < 12) :
    Py.getIdx [(31 : Int), 28, 31, 30, 31, 30, 31, 31, 30, 31, 30, 31] (m : Int) = .ok ((ObsTime.monthDays 1 m : Nat) : Int) := by
  have : m = 0 ∨ m = 1 ∨ m = 2 ∨ m = 3 ∨ m = 4 ∨ m = 5 ∨ m = 6 ∨ m = 7 ∨ m = 8 ∨ m = 9 ∨ m = 10 ∨ m = 11 := by omega
  rcases this with h | h | h | h | h | h | h | h | h | h | h | h <;> subst h <;> rfl

theorem som_cast (y m : Nat) (h : m < 12) :
    ((ObsTime.monthDays y m * 86400 : Nat) : Int) =
      if m = 1 ∧ ObsTime.isLeap y = true then ((ObsTime.monthDays 1 m : Nat) : Int) * 86400 + 86400 else ((ObsTime.monthDays 1 m : Nat) : Int) * 86400 := by
  by_cases h1 : m = 1
  · subst h1
    by_cases hl : ObsTime.isLeap y = true
    · simp only [ObsTime.monthDays, hl, if_true, true_and]; rfl
    · simp only [ObsTime.monthDays, hl, and_false, if_false]; rfl
  · have : ObsTime.monthDays y m = ObsTime.monthDays 1 m := by
      unfold ObsTime.monthDays; split <;> first | rfl | omega
    rw [this, if_neg (by simp [h1]), Int.natCast_mul]; rfl

theorem monthDays_ne1 (y m : Nat) (h : m ≠ 1) : ObsTime.monthDays y m = ObsTime.monthDays 1 m := by
  unfold ObsTime.monthDays; split <;> first | rfl | omega
theorem monthDays_feb (y : Nat) : ObsTime.monthDays y 1 = if ObsTime.isLeap y then 29 else 28 := rfl


/-- an `ObsTime` as the tuple of its attributes in constructor order (year, month, day, hour, min, sec, ms, zone) -/
def stampTuple (t : ObsTime.StampZ) : Int × Int × Int × Int × Int × Int × Int × Int :=
  ((t.year : Int), (t.month : Int), t.day, t.hour, t.min, t.sec, t.ms, 0)

variable [OfNat α 60] [OfNat α 1000] [OfNat α 3600] [OfNat α 86400]

/-- `readUnixG` after its year loop (the text of `Model/ObsTimeG.lean`; `readUnixG_eq` checks it is) -/
def restG (trunc : α → Int) (e0 : α) (y sec : Nat) : ObsTime.StampZ :=
    let e1 := e0 - (((sec : Nat) : Int) : α)
    let (m, e2) := ObsTime.monthLoopG y 12 0 e1
    let day : Int := trunc (e2 / ((86400 : Int) : α)) + 1
    let e3 := e2 - (((day - 1) * 86400 : Int) : α)
    let hour : Int := trunc (e3 / ((3600 : Int) : α))
    let e4 := e3 - ((hour * 3600 : Int) : α)
    let mn : Int := trunc (e4 / ((60 : Int) : α))
    let e5 := e4 - ((mn * 60 : Int) : α)
    let sc : Int := trunc e5
    let e6 := e5 - ((sc : Int) : α)
    let ms : Int := trunc (e6 * ((1000 : Int) : α))
    ⟨y, m + 1, day, hour, mn, sc, ms⟩

theorem readUnixG_eq (trunc : α → Int) (e0 : α) :
    ObsTime.readUnixG trunc e0 =
      match ObsTime.yearLoopG e0 ((trunc (e0 / ((31536000 : Int) : α))).toNat + 1) 1970 0 with
      | none => none
      | some r => some (restG trunc e0 r.1 r.2) := by
  unfold ObsTime.readUnixG restG
  cases ObsTime.yearLoopG e0 ((trunc (e0 / ((31536000 : Int) : α))).toNat + 1) 1970 0 with
  | none => rfl
  | some r => rfl

theorem readUnix_core (trunc : α → Int) (e0 : α) (fuel : Nat)
    (h60 : (60 : α) = ((60 : Int) : α)) (h1000 : (1000 : α) = ((1000 : Int) : α))
    (h3600 : (3600 : α) = ((3600 : Int) : α)) (h86400 : (86400 : α) = ((86400 : Int) : α)) :
    Gen.ObsTime.ObsTime_readUnixTime trunc fuel e0 =
      match ObsTime.yearLoopG e0 fuel 1970 0 with
      | none => .error .fuel
      | some r => .ok (stampTuple (restG trunc e0 r.1 r.2)) := by
  unfold Gen.ObsTime.ObsTime_readUnixTime
  simp only []
  have hy : ∀ body : Int × Int → Py.M (Py.Ctl (Int × Int) (Int × Int × Int × Int × Int × Int × Int × Int)), _ →
      Py.whileLoop body fuel (0, 1970) = _ := fun body h => yearLoop_tie e0 body h fuel 1970 0
  rw [hy _ ?spec]
  case spec =>
    intro y sec
    simp only [tie_isLeapYear, Py.bind_ok, Int.natCast_add, yd_cast, Int.natCast_one]
    by_cases hl : ObsTime.isLeap y = true
    · simp only [hl, if_true, decide_eq_true_eq]
    · simp only [hl, decide_eq_true_eq]; rfl
  cases ObsTime.yearLoopG e0 fuel 1970 0 with
  | none => rfl
  | some r =>
    obtain ⟨y, sec⟩ := r
    simp only [Py.bind_ok]
    have hm : ∀ body : Int → α × Int → Py.M (Py.Ctl (α × Int) (Int × Int × Int × Int × Int × Int × Int × Int)), _ →
      Py.forList body (Py.range 0 12) (e0 - (((sec : Nat) : Int) : α), 0) = _ :=
        fun body h => monthLoop_tie y body h 12 0 (e0 - (((sec : Nat) : Int) : α)) (by omega) 0
    rw [hm _ ?spec2]
    case spec2 =>
      intro i e m hm12
      rw [dpm_idx0 m hm12, tie_isLeapYear]
      rw [som_cast y m hm12]
      by_cases h1 : m = 1
      · subst h1
        by_cases hl : ObsTime.isLeap y = true
        · simp only [hl, and_self, if_true, Int.natCast_one, decide_true, Py.bind_ok, decide_eq_true_eq, Int.natCast_add]
        · simp only [hl, and_false, if_false, Int.natCast_one, decide_true, if_true, Py.bind_ok, decide_eq_true_eq, Bool.false_eq_true, Int.natCast_add]
      · have h1' : ¬ ((m : Int) = 1) := by omega
        simp only [h1, h1', false_and, decide_false, Py.bind_ok, decide_eq_true_eq, Bool.false_eq_true, if_false, Int.natCast_add, Int.natCast_one]
    simp only [Py.bind_ok, stampTuple, restG, h86400, h3600, h60, h1000]
    rfl


theorem yearLoopG_mono (e : α) (f g y sec : Nat) (r : Nat × Nat) (hfg : f ≤ g)
    (h : ObsTime.yearLoopG e f y sec = some r) : ObsTime.yearLoopG e g y sec = some r := by
  induction f generalizing g y sec with
  | zero => exact nomatch h
  | succ f ih =>
    cases g with
    | zero => omega
    | succ g =>
      rw [ObsTime.yearLoopG] at h ⊢
      by_cases hc : e - (((sec : Nat) : Int) : α) < (((ObsTime.yearDays y * 86400 : Nat) : Int) : α)
      · simp only [hc, if_true] at h ⊢; exact h
      · simp only [hc, if_false] at h ⊢; exact ih g _ _ (by omega) h

/-- **`ObsTime.readUnixTime` (float path), with the model's own fuel**: the translation of the CURRENT source, run with the fuel
`int(e / 31536000) + 1` that `readUnixG` gives its year loop, returns the attributes of the model's stamp (zone 0), and is
out of fuel exactly when the model's loop is (`none`). Hypotheses: the four float literals of the source are the converted
integers (true for doubles and in every ordered field). -/
theorem tie_readUnixTime_modelFuel (trunc : α → Int) (e0 : α)
    (h60 : (60 : α) = ((60 : Int) : α)) (h1000 : (1000 : α) = ((1000 : Int) : α))
    (h3600 : (3600 : α) = ((3600 : Int) : α)) (h86400 : (86400 : α) = ((86400 : Int) : α)) :
    Gen.ObsTime.ObsTime_readUnixTime trunc ((trunc (e0 / ((31536000 : Int) : α))).toNat + 1) e0 =
      match ObsTime.readUnixG trunc e0 with
      | some t => .ok (stampTuple t)
      | none => .error .fuel := by
  rw [readUnix_core trunc e0 _ h60 h1000 h3600 h86400, readUnixG_eq]
  cases ObsTime.yearLoopG e0 ((trunc (e0 / ((31536000 : Int) : α))).toNat + 1) 1970 0 <;> rfl

/-- **`ObsTime.readUnixTime` (float path), every sufficient fuel**: whenever the model returns a stamp, the translated function
returns its attributes for EVERY fuel at least the model's bound. -/
theorem tie_readUnixTime (trunc : α → Int) (e0 : α) (t : ObsTime.StampZ) (fuel : Nat)
    (h60 : (60 : α) = ((60 : Int) : α)) (h1000 : (1000 : α) = ((1000 : Int) : α))
    (h3600 : (3600 : α) = ((3600 : Int) : α)) (h86400 : (86400 : α) = ((86400 : Int) : α))
    (hfuel : (trunc (e0 / ((31536000 : Int) : α))).toNat + 1 ≤ fuel)
    (hmodel : ObsTime.readUnixG trunc e0 = some t) :
    Gen.ObsTime.ObsTime_readUnixTime trunc fuel e0 = .ok (stampTuple t) := by
  rw [readUnixG_eq] at hmodel
  rw [readUnix_core trunc e0 _ h60 h1000 h3600 h86400]
  cases hy : ObsTime.yearLoopG e0 ((trunc (e0 / ((31536000 : Int) : α))).toNat + 1) 1970 0 with
  | none => rw [hy] at hmodel; exact nomatch hmodel
  | some r =>
    rw [hy] at hmodel
    rw [yearLoopG_mono e0 _ fuel 1970 0 r hfuel hy]
    simp only [Option.some.injEq] at hmodel
    simp only [hmodel]

end
end TV.Tie.C03
