import TracklibVerif.Model.ObsTime
import TracklibVerif.Gen.ObsTime
/-! Tie for C03: `ObsTime.isLeapYear` translated from the CURRENT `tracklib/core/obs_time.py` equals the model's
`TV.ObsTime.isLeap` on every non-negative year (the model's years are `Nat`; Python's `%` is the floor modulo,
`Int.fmod`). -/
namespace TV.Tie.C03
open TV TV.Py

theorem fmod_natCast (n k : Nat) : Int.fmod (n : Int) (k : Int) = ((n % k : Nat) : Int) := by
  rw [Int.fmod_eq_emod_of_nonneg _ (Int.natCast_nonneg k)]
  exact (Int.natCast_emod n k).symm

theorem dec_eq (m : Nat) : decide (((m : Nat) : Int) = (0 : Int)) = (m == 0) := by
  cases m with
  | zero => rfl
  | succ k => 
    have h : ¬ (((k + 1 : Nat) : Int) = 0) := by omega
    rw [decide_eq_false h]; rfl

/-- `ObsTime.isLeapYear(year)` for `year ≥ 0` is the model's `isLeap` -/
theorem tie_isLeapYear (y : Nat) : Gen.ObsTime.isLeapYear (y : Int) = .ok (ObsTime.isLeap y) := by
  have h4 := fmod_natCast y 4
  have h100 := fmod_natCast y 100
  have h400 := fmod_natCast y 400
  simp only [Gen.ObsTime.isLeapYear, ObsTime.isLeap]
  rw [show (4 : Int) = ((4 : Nat) : Int) from rfl, show (100 : Int) = ((100 : Nat) : Int) from rfl, show (400 : Int) = ((400 : Nat) : Int) from rfl, h4, h100, h400, dec_eq, dec_eq, dec_eq]
  rfl

end TV.Tie.C03
