import TracklibVerif.Model.Cinematics
import TracklibVerif.Gen.ObsCoords
import TracklibVerif.Gen.Analytics
/-! Tie for C17: the planimetric distance between two fixes — `ENUCoords.distance2DTo` with the operator
`ENUCoords.__sub__` and `ENUCoords.norm2D` it is made of — translated from the CURRENT `tracklib/core/obs_coords.py`
equals the model's `TV.Cinematics.dist2D` (the quantity `ds`, `computeAbsCurv` and `speed` accumulate).

`norm2D` squares with `** 2` (C's `pow`, a parameter), the model with `x * x`: `hsq` says these agree (true of the
real power; for doubles it is what C17's correspondence check observes). The `U` components are read by `__sub__` but
do not reach the result. -/
namespace TV.Tie.C17
open TV TV.Py
set_option linter.unusedSectionVars false
section
variable {α : Type} [Add α] [Sub α] [Mul α] [Div α] [OfNat α 0] [OfNat α 2] [BEq α]

/-- `p - q` on ENU coordinates is the component-wise difference -/
theorem tie_sub (e1 n1 u1 e2 n2 u2 : α) :
    Gen.ObsCoords.ENUCoords_sub e1 n1 u1 e2 n2 u2 = .ok (e1 - e2, n1 - n2, u1 - u2) := rfl

/-- `self.distance2DTo(point)` is the model's `dist2D sqrt self point` -/
theorem tie_distance2DTo (sqrt : α → α) (pow : α → α → α) (hsq : ∀ x : α, pow x 2 = x * x)
    (self point : α × α) (us up : α) :
    Gen.ObsCoords.ENUCoords_distance2DTo sqrt pow self.1 self.2 us point.1 point.2 up
      = .ok (Cinematics.dist2D sqrt self point) := by
  simp only [Gen.ObsCoords.ENUCoords_distance2DTo, Gen.ObsCoords.ENUCoords_sub, Gen.ObsCoords.ENUCoords_norm2D,
    bind_ok, hsq, Cinematics.dist2D]

end

/-! ## `ds(track, i)` and `speed(track, i)` of `tracklib/algo/analytics.py`

The track is seen through the declared view of an observation, `(E, N, U, t)` with `t = timestamp.toAbsTime()`;
the model reads the planimetric positions `xyOf track` and the times `tsOf track`. The index is a Python `int`
(`Int`), the model's a `Nat`: the theorems take `i = (k : Int)`, `k : Nat` — every index `addAnalyticalFeature`
passes. The model's `none` stands both for `NAN` and for the `IndexError` that `addAnalyticalFeature` turns into
`NAN`: the theorems say which of the two the code produces, and when.

Hypotheses: `hsq` — `x ** 2 = x * x` (as for `tie_distance2DTo`); `hbeq` — the model's `==` on scalars is Python's
`==` on floats, `Py.feq` (true of IEEE doubles and of an ordered field). -/
section analytics
variable {α : Type} [Add α] [Sub α] [Mul α] [Div α] [OfNat α 0] [OfNat α 2] [BEq α] [LE α] [DecidableLE α]

/-- the planimetric positions of the observations (what the model calls `xy`) -/
def xyOf (track : List (α × α × α × α)) : List (α × α) := track.map (fun o => (o.1, o.2.1))
/-- the times `timestamp.toAbsTime()` of the observations (what the model calls `ts`) -/
def tsOf (track : List (α × α × α × α)) : List α := track.map (fun o => o.2.2.2)

theorem xyOf_eq (track : List (α × α × α × α)) : xyOf track = track.map (fun o => (o.1, o.2.1)) := rfl
theorem tsOf_eq (track : List (α × α × α × α)) : tsOf track = track.map (fun o => o.2.2.2) := rfl

/-- `tie_distance2DTo` on components -/
theorem dist_comp (sqrt : α → α) (pow : α → α → α) (hsq : ∀ x : α, pow x 2 = x * x) (e1 n1 u1 e2 n2 u2 : α) :
    Gen.ObsCoords.ENUCoords_distance2DTo sqrt pow e1 n1 u1 e2 n2 u2
      = .ok (Cinematics.dist2D sqrt (e1, n1) (e2, n2)) :=
  tie_distance2DTo sqrt pow hsq (e1, n1) (e2, n2) u1 u2

/-- `L[i]` for an `i` that is the natural number `k < len(L)` -/
theorem getIdx_ok {β : Type} {l : List β} {i : Int} (k : Nat) (hi : i = (k : Int)) (h : k < l.length) :
    Py.getIdx l i = .ok l[k] := by
  subst hi; rw [getIdx_natCast]; exact getItem_eq_ok (List.getElem?_eq_getElem h)
/-- `L[i]` for an `i` that is the natural number `k ≥ len(L)` -/
theorem getIdx_err {β : Type} {l : List β} {i : Int} (k : Nat) (hi : i = (k : Int)) (h : l.length ≤ k) :
    Py.getIdx l i = .error .index := by
  subst hi; rw [getIdx_natCast]; exact getItem_eq_error (List.getElem?_eq_none h)

/-- the model's `ds` at an index `k ≥ 1`, on the view -/
theorem dsAt_succ (sqrt : α → α) (track : List (α × α × α × α)) (j : Nat) :
    Cinematics.dsAt sqrt (xyOf track) (j + 1)
      = if h : j + 1 < track.length then
          some (Cinematics.dist2D sqrt (track[j + 1].1, track[j + 1].2.1) (track[j].1, track[j].2.1))
        else none := by
  unfold Cinematics.dsAt xyOf
  rw [if_neg (by omega), Nat.add_sub_cancel, List.getElem?_map, List.getElem?_map]
  by_cases h : j + 1 < track.length
  · rw [dif_pos h, List.getElem?_eq_getElem h, List.getElem?_eq_getElem (by omega : j < track.length)]; rfl
  · rw [dif_neg h, List.getElem?_eq_none (by omega)]; rfl

/-- **`ds(track, k)`, every track, every index `k ≥ 0`**: the code returns the model's value when the model has one,
and raises `IndexError` exactly when the model says `none` (the model's `none` is never a `NAN` of `ds`) -/
theorem tie_ds (sqrt : α → α) (pow : α → α → α) (hsq : ∀ x : α, pow x 2 = x * x)
    (track : List (α × α × α × α)) (k : Nat) :
    Gen.Analytics.analytics_ds sqrt pow track (k : Int)
      = match Cinematics.dsAt sqrt (xyOf track) k with
        | some v => .ok v
        | none => .error .index := by
  unfold Gen.Analytics.analytics_ds
  cases k with
  | zero => rfl
  | succ j =>
    rw [ite_neg' (by simp only [decide_eq_true_eq]; omega), dsAt_succ]
    by_cases h : j + 1 < track.length
    · rw [getIdx_ok (j + 1) rfl h, getIdx_ok j (by omega) (by omega), dif_pos h]
      simp only [bind_ok, Gen.Obs.Obs_distance2DTo, dist_comp sqrt pow hsq]
    · rw [getIdx_err (j + 1) rfl (by omega), dif_neg h]; rfl

/-- when the model's `ds` is `none`: the index is `≥ 1` and past the end -/
theorem dsAt_eq_none_iff (sqrt : α → α) (track : List (α × α × α × α)) (k : Nat) :
    Cinematics.dsAt sqrt (xyOf track) k = none ↔ k ≠ 0 ∧ track.length ≤ k := by
  cases k with
  | zero => simp [Cinematics.dsAt]
  | succ j =>
    rw [dsAt_succ]
    by_cases h : j + 1 < track.length
    · rw [dif_pos h]; simp; omega
    · rw [dif_neg h]; simp; omega

/-- `ds(track, k)` in the shape "value ⇒ value" -/
theorem tie_ds_some (sqrt : α → α) (pow : α → α → α) (hsq : ∀ x : α, pow x 2 = x * x)
    (track : List (α × α × α × α)) (k : Nat) (v : α) (h : Cinematics.dsAt sqrt (xyOf track) k = some v) :
    Gen.Analytics.analytics_ds sqrt pow track (k : Int) = .ok v := by
  rw [tie_ds sqrt pow hsq, h]

/-- `ds(track, k)` for `k` in `range(len(track))` (the indices `addAnalyticalFeature` passes) never raises and is the
model's value -/
theorem tie_ds_inrange (sqrt : α → α) (pow : α → α → α) (hsq : ∀ x : α, pow x 2 = x * x)
    (track : List (α × α × α × α)) (k : Nat) (hk : k < track.length) :
    ∃ v, Cinematics.dsAt sqrt (xyOf track) k = some v ∧ Gen.Analytics.analytics_ds sqrt pow track (k : Int) = .ok v := by
  cases hd : Cinematics.dsAt sqrt (xyOf track) k with
  | none => have := (dsAt_eq_none_iff sqrt track k).mp hd; omega
  | some v => exact ⟨v, rfl, tie_ds_some sqrt pow hsq track k v hd⟩

/-- Python's negative indices (NOT covered by the model, whose index is a `Nat`): `ds(track, -j)` for
`1 ≤ j < len(track)` is `ds(track, len(track) - j)` -/
theorem ds_neg (sqrt : α → α) (pow : α → α → α) (track : List (α × α × α × α)) (j : Nat)
    (h1 : 1 ≤ j) (h2 : j < track.length) :
    Gen.Analytics.analytics_ds sqrt pow track (-(j : Int))
      = Gen.Analytics.analytics_ds sqrt pow track ((track.length - j : Nat) : Int) := by
  have hg : ∀ i : Int, i < 0 → 0 ≤ (track.length : Int) + i →
      Py.getIdx track i = Py.getIdx track ((track.length : Int) + i) := by
    intro i hi hi'
    unfold Py.getIdx
    rw [if_neg (by omega), if_pos (by exact hi'), if_pos (by exact hi')]
    rfl
  unfold Gen.Analytics.analytics_ds
  rw [ite_neg' (by simp only [decide_eq_true_eq]; omega), ite_neg' (by simp only [decide_eq_true_eq]; omega),
    hg (-(j : Int)) (by omega) (by omega), hg (-(j : Int) - 1) (by omega) (by omega)]
  have e1 : (track.length : Int) + -(j : Int) = ((track.length - j : Nat) : Int) := by omega
  have e2 : (track.length : Int) + (-(j : Int) - 1) = ((track.length - j : Nat) : Int) - 1 := by omega
  rw [e1, e2]

/-- the model's `speedBetween` on the view, both fixes present -/
theorem speedBetween_ok (sqrt : α → α) (track : List (α × α × α × α)) (a b : Nat)
    (ha : a < track.length) (hb : b < track.length) :
    Cinematics.speedBetween sqrt (xyOf track) (tsOf track) a b
      = Cinematics.quot (Cinematics.dist2D sqrt (track[a].1, track[a].2.1) (track[b].1, track[b].2.1))
          (track[a].2.2.2 - track[b].2.2.2) := by
  unfold Cinematics.speedBetween xyOf tsOf
  simp only [List.getElem?_map, List.getElem?_eq_getElem ha, List.getElem?_eq_getElem hb, Option.map_some]
/-- the model's `speedBetween` on the view, the later fix missing -/
theorem speedBetween_none (sqrt : α → α) (track : List (α × α × α × α)) (a b : Nat) (ha : track.length ≤ a) :
    Cinematics.speedBetween sqrt (xyOf track) (tsOf track) a b = none := by
  unfold Cinematics.speedBetween xyOf tsOf
  simp only [List.getElem?_map, List.getElem?_eq_none ha, Option.map_none]

/-- the end of the three branches of `speed`: `NAN` if `dt == 0` else `ds / dt`, against the model's `quot` -/
theorem quot_tie (nan : α) (hbeq : ∀ a b : α, (a == b) = Py.feq a b) (d dt : α) :
    (if Py.feq dt (0 : α) then (.ok nan : Py.M α) else Py.bind (Py.fdiv d dt) fun x => .ok x)
      = .ok ((Cinematics.quot d dt).getD nan) := by
  unfold Cinematics.quot
  rw [hbeq]
  by_cases hz : Py.feq dt (0 : α) = true
  · rw [ite_pos' hz, ite_pos' hz]; rfl
  · rw [ite_neg' hz, ite_neg' hz, Py.fdiv, ite_neg' hz]; rfl

/-- **`speed(track, k)`, every track, every index `k ≥ 0`**: the code raises `IndexError` exactly when `k` is past the
end or the track has fewer than two observations (the model then says `none`, see `speedAt_out`); otherwise it returns
the model's value, `NAN` standing for the model's `none` (which then means: elapsed time `== 0`) -/
theorem tie_speed (nan : α) (sqrt : α → α) (pow : α → α → α) (hsq : ∀ x : α, pow x 2 = x * x)
    (hbeq : ∀ a b : α, (a == b) = Py.feq a b) (track : List (α × α × α × α)) (k : Nat) :
    Gen.Analytics.analytics_speed nan sqrt pow track (k : Int)
      = if k < track.length ∧ 2 ≤ track.length then
          .ok ((Cinematics.speedAt sqrt (xyOf track) (tsOf track) k).getD nan)
        else .error .index := by
  have hlen : (xyOf track).length = track.length := by rw [xyOf_eq, List.length_map]
  have hN : Py.len track = (track.length : Int) := rfl
  unfold Gen.Analytics.analytics_speed Cinematics.speedAt
  simp only [hlen]
  by_cases h0 : k = 0
  · subst h0
    rw [ite_pos' (by simp only [decide_eq_true_eq]; rfl), if_pos rfl]
    by_cases h : 2 ≤ track.length
    · rw [if_pos ⟨by omega, h⟩, getIdx_ok (l := track) (i := 1) 1 rfl (by omega),
        getIdx_ok (l := track) (i := 0) 0 rfl (by omega), speedBetween_ok sqrt track 1 0 (by omega) (by omega)]
      simp only [bind_ok, dist_comp sqrt pow hsq, Gen.ObsTime.ObsTime_sub]
      exact quot_tie nan hbeq _ _
    · rw [if_neg (by omega), getIdx_err (l := track) (i := 1) 1 rfl (by omega)]; rfl
  · rw [ite_neg' (by simp only [decide_eq_true_eq]; omega), if_neg h0]
    by_cases h1 : k = track.length - 1
    · have h2 : 2 ≤ track.length := by omega
      rw [ite_pos' (by simp only [decide_eq_true_eq]; omega), if_pos h1, if_pos ⟨by omega, h2⟩,
        getIdx_ok (l := track) (i := Py.len track - 1) (track.length - 1) (by omega) (by omega),
        getIdx_ok (l := track) (i := Py.len track - 2) (track.length - 2) (by omega) (by omega),
        speedBetween_ok sqrt track _ _ (by omega) (by omega)]
      simp only [bind_ok, dist_comp sqrt pow hsq, Gen.ObsTime.ObsTime_sub]
      exact quot_tie nan hbeq _ _
    · rw [ite_neg' (by simp only [decide_eq_true_eq]; omega), if_neg h1]
      by_cases h : k + 1 < track.length
      · rw [if_pos ⟨by omega, by omega⟩, getIdx_ok (l := track) (i := (k : Int) + 1) (k + 1) (by omega) h,
          getIdx_ok (l := track) (i := (k : Int) - 1) (k - 1) (by omega) (by omega),
          speedBetween_ok sqrt track _ _ h (by omega)]
        simp only [bind_ok, dist_comp sqrt pow hsq, Gen.ObsTime.ObsTime_sub]
        exact quot_tie nan hbeq _ _
      · rw [if_neg (by omega), getIdx_err (l := track) (i := (k : Int) + 1) (k + 1) (by omega) (by omega)]; rfl

/-- where `speed` raises `IndexError` (index past the end, or fewer than two observations) the model says `none` -/
theorem speedAt_out (sqrt : α → α) (track : List (α × α × α × α)) (k : Nat)
    (h : ¬ (k < track.length ∧ 2 ≤ track.length)) :
    Cinematics.speedAt sqrt (xyOf track) (tsOf track) k = none := by
  have hlen : (xyOf track).length = track.length := by rw [xyOf_eq, List.length_map]
  unfold Cinematics.speedAt
  simp only [hlen]
  by_cases h0 : k = 0
  · rw [if_pos h0]; exact speedBetween_none sqrt track 1 0 (by omega)
  · rw [if_neg h0, if_neg (by omega)]; exact speedBetween_none sqrt track (k + 1) (k - 1) (by omega)

/-- `speed(track, k)` in the shape "value ⇒ value" -/
theorem tie_speed_some (nan : α) (sqrt : α → α) (pow : α → α → α) (hsq : ∀ x : α, pow x 2 = x * x)
    (hbeq : ∀ a b : α, (a == b) = Py.feq a b) (track : List (α × α × α × α)) (k : Nat) (v : α)
    (h : Cinematics.speedAt sqrt (xyOf track) (tsOf track) k = some v) :
    Gen.Analytics.analytics_speed nan sqrt pow track (k : Int) = .ok v := by
  rw [tie_speed nan sqrt pow hsq hbeq]
  by_cases hr : k < track.length ∧ 2 ≤ track.length
  · rw [if_pos hr, h]; rfl
  · rw [speedAt_out sqrt track k hr] at h; exact nomatch h

/-- `speed(track, k)` where the model says `none`: `NAN` in range (and at least two observations), `IndexError` otherwise -/
theorem tie_speed_none (nan : α) (sqrt : α → α) (pow : α → α → α) (hsq : ∀ x : α, pow x 2 = x * x)
    (hbeq : ∀ a b : α, (a == b) = Py.feq a b) (track : List (α × α × α × α)) (k : Nat)
    (h : Cinematics.speedAt sqrt (xyOf track) (tsOf track) k = none) :
    Gen.Analytics.analytics_speed nan sqrt pow track (k : Int)
      = if k < track.length ∧ 2 ≤ track.length then .ok nan else .error .index := by
  rw [tie_speed nan sqrt pow hsq hbeq, h]; rfl

end analytics
end TV.Tie.C17
