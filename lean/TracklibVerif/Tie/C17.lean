import TracklibVerif.Model.Cinematics
import TracklibVerif.Gen.ObsCoords
/-! Tie for C17: the planimetric distance between two fixes — `ENUCoords.distance2DTo` with the operator
`ENUCoords.__sub__` and `ENUCoords.norm2D` it is made of — translated from the CURRENT `tracklib/core/obs_coords.py`
equals the model's `TV.Cinematics.dist2D` (the quantity `ds`, `computeAbsCurv` and `speed` accumulate).

`norm2D` squares with `** 2` (C's `pow`, a parameter), the model with `x * x`: `hsq` says these agree (true of the
real power; for doubles it is what C17's correspondence check observes). The `U` components are read by `__sub__` but
do not reach the result. -/
namespace TV.Tie.C17
open TV TV.Py
set_option linter.unusedSectionVars false
section
variable {α : Type} [Add α] [Sub α] [Mul α] [Div α] [OfNat α 0] [OfNat α 2] [BEq α]

/-- `p - q` on ENU coordinates is the component-wise difference -/
theorem tie_sub (e1 n1 u1 e2 n2 u2 : α) :
    Gen.ObsCoords.ENUCoords_sub e1 n1 u1 e2 n2 u2 = .ok (e1 - e2, n1 - n2, u1 - u2) := rfl

/-- `self.distance2DTo(point)` is the model's `dist2D sqrt self point` -/
theorem tie_distance2DTo (sqrt : α → α) (pow : α → α → α) (hsq : ∀ x : α, pow x 2 = x * x)
    (self point : α × α) (us up : α) :
    Gen.ObsCoords.ENUCoords_distance2DTo sqrt pow self.1 self.2 us point.1 point.2 up
      = .ok (Cinematics.dist2D sqrt self point) := by
  simp only [Gen.ObsCoords.ENUCoords_distance2DTo, Gen.ObsCoords.ENUCoords_sub, Gen.ObsCoords.ENUCoords_norm2D,
    bind_ok, hsq, Cinematics.dist2D]

end
end TV.Tie.C17
