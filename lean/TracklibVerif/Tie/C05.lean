import TracklibVerif.Model.Resample
import TracklibVerif.Gen.Interpolation
/-! Tie for C05, temporal half: `prepareTimeSampling` and `__resampleTemporal` of `tracklib/algo/interpolation.py` translated from
the CURRENT source (tools/py2lean.py → `Gen/Interpolation.lean`, three variants each: the `input` / `reference` argument declared
a number, a list of instants, a track) against the hand-written model `Model/Resample.lean`.

An observation is the record `(E, N, U, t)`, `t = timestamp.toAbsTime()` (`toFix` / `ofFix` to the model's `Fix`); the model's exceptions
`index`, `zerodiv`, `nonterm`, `type` are `IndexError`, `ZeroDivisionError`, "out of fuel" (`Py.Err.fuel`), `TypeError` (`liftErr`, `lift`, `liftT`).

* `tie_prepareTimeSampling_list`, `_track` — equal to the model's `prepareTimes` on every argument.
* `tie_prepareTimeSampling_number_fuel` — the `while 1` loop with fuel `f` IS the model's `prepareNumber … f` (out of fuel ⇔ `none`), no
  hypothesis; `tie_prepareTimeSampling_number` — = `prepareTimes` for every fuel ≥ the model's whenever the model does not say `nonterm`;
  `tie_prepareTimeSampling_number_nonpos` — a non-positive step: = `prepareTimes` for every fuel ≥ 1 (`[tini]` when `tini + δ > tfin`,
  `prepareTimeSampling_number_first_round`; else out of fuel for EVERY fuel = the model's `nonterm`).
* `temporalLoop_tie` — the `for k in range(len(REF))` loop (skip tests, `rewind_tie`, `scan_tie`, `bracket_tie`/`weights_tie`, the new
  observation appended) against `temporalLoop`, for an arbitrary body satisfying a pointwise equation.
* `tie_resampleTemporal_list`, `_track` — equal to `lift (resampleTemporal …)` on EVERY track and reference, every fuel > `len(track)`,
  under `htri` (`Tri`: the model's `den < 0 ∨ 0 < den` is Python's `den != 0` on the differences of two stamps).
* `tie_resampleTemporal_number_fuel` (same fuel as `prepareNumber`, no hypothesis on the step), `tie_resampleTemporal_number` (every fuel
  above the bounds, whenever the model does not say `nonterm`), `tie_resampleTemporal_number_nonpos`.

The general lemmas `getIdx_nat`, `getIdx_pred` (`L[r - 1]` is the model's `bwdIdx`), `getIdx_last`, `weights_tie`, `bracket_tie` (any table `V`),
`forList_collect` are also what the spatial half needs. Core Lean only. -/
namespace TV.Tie.C05
open TV TV.Py
set_option linter.unusedSectionVars false
set_option linter.unusedSimpArgs false
set_option linter.unusedVariables false

/-! ### general lemmas (loops over `range(len(l))`, Python indices) -/

/-- `for i in range(len(l)): v = l[i]; f v` is `for v in l: f v` (same statement as `TV.Tie.C19.forList_range_getIdx`) -/
theorem forList_range_getIdx_aux {β σ ρ : Type} (l : List β) (f : β → σ → M (Ctl σ ρ)) (body : Int → σ → M (Ctl σ ρ))
    (h : ∀ i s, body i s = Py.bind (Py.getIdx l i) (fun v => f v s)) (suf pre : List β) (hl : l = pre ++ suf) (s : σ) :
    Py.forList body (Py.range (pre.length : Int) (Py.len l)) s = Py.forList f suf s := by
  induction suf generalizing pre s with
  | nil =>
    rw [Py.range_empty (by subst hl; simp [Py.len])]; rfl
  | cons x xs ih =>
    have hlt : (pre.length : Int) < Py.len l := by subst hl; simp [Py.len]; omega
    have hget : l[pre.length]? = some x := by subst hl; simp
    rw [Py.range_cons hlt, Py.forList_cons, Py.forList_cons, h, Py.getIdx_natCast, Py.getItem_eq_ok hget, Py.bind_ok]
    cases hb : f x s with
    | error e => rfl
    | ok c =>
      cases c with
      | cont s1 =>
        have := ih (pre ++ [x]) (by rw [hl]; simp) s1
        simp only [List.length_append, List.length_cons, List.length_nil, Int.natCast_add] at this
        exact this
      | brk s1 => rfl
      | ret r => rfl

theorem forList_range_getIdx {β σ ρ : Type} (l : List β) (f : β → σ → M (Ctl σ ρ)) (body : Int → σ → M (Ctl σ ρ))
    (h : ∀ i s, body i s = Py.bind (Py.getIdx l i) (fun v => f v s)) (s : σ) :
    Py.forList body (Py.range 0 (Py.len l)) s = Py.forList f l s :=
  forList_range_getIdx_aux l f body h l [] rfl s

theorem foldl_snoc_map {β γ : Type} (g : β → γ) (l : List β) (acc : List γ) :
    l.foldl (fun a p => a ++ [g p]) acc = acc ++ l.map g := by
  induction l generalizing acc with
  | nil => simp
  | cons x xs ih => rw [List.foldl_cons, ih]; simp

/-- `out = []; for i in range(len(l)): out.append(g(l[i]))` is `map g l` -/
theorem forList_collect {β γ ρ : Type} (l : List β) (g : β → γ) (body : Int → List γ → M (Ctl (List γ) ρ))
    (h : ∀ i s, body i s = Py.bind (Py.getIdx l i) (fun v => .ok (.cont (s ++ [g v])))) :
    Py.forList body (Py.range 0 (Py.len l)) [] = .ok (.done (l.map g)) := by
  rw [forList_range_getIdx l (fun v s => .ok (.cont (s ++ [g v]))) body h,
    Py.forList_eq_foldl _ (fun a p => a ++ [g p]) l [] (fun _ _ _ => rfl), foldl_snoc_map, List.nil_append]

/-- an optional element as the result of a subscript: `IndexError` when there is none -/
def optM {β : Type} : Option β → M β
  | some v => .ok v
  | none => .error .index

theorem getItem_eq_optM {β : Type} (l : List β) (k : Nat) : Py.getItem l k = optM l[k]? := by
  unfold Py.getItem optM; cases l[k]? <;> rfl

/-- `L[r]` for a natural number `r` -/
theorem getIdx_nat {β : Type} (l : List β) (r : Nat) : Py.getIdx l (r : Int) = optM l[r]? := by
  rw [Py.getIdx_natCast, getItem_eq_optM]

/-- `L[r - 1]` for a natural number `r`: Python reads the LAST element when `r = 0` — the model's `bwdIdx` -/
theorem getIdx_pred {β : Type} (l : List β) (r : Nat) :
    Py.getIdx l ((r : Int) - 1) = optM l[Resample.bwdIdx r l.length]? := by
  unfold Resample.bwdIdx
  by_cases h0 : r = 0
  · subst h0
    rw [if_pos rfl]
    unfold Py.getIdx Py.len
    rw [if_neg (by omega)]
    by_cases hl : l.length = 0
    · rw [if_neg (by omega)]
      have : l[l.length - 1]? = none := by rw [List.getElem?_eq_none]; omega
      rw [this]; rfl
    · rw [if_pos (by omega), getItem_eq_optM]
      have : ((l.length : Int) + (((0 : Nat) : Int) - 1)).toNat = l.length - 1 := by omega
      rw [this]
  · rw [if_neg h0]
    have : (r : Int) - 1 = ((r - 1 : Nat) : Int) := by omega
    rw [this, getIdx_nat]

/-- `L[len(L) - 1]` -/
theorem getIdx_last {β : Type} (l : List β) : Py.getIdx l (Py.len l - 1) = optM l.getLast? := by
  have h := getIdx_pred l l.length
  unfold Py.len
  rw [h, List.getLast?_eq_getElem?]
  unfold Resample.bwdIdx
  by_cases h0 : l.length = 0
  · rw [if_pos h0]
  · rw [if_neg h0]

theorem getItem_zero_eq {β : Type} (l : List β) : Py.getItem l 0 = optM l.head? := by
  cases l <;> rfl

/-! ### observations, errors -/

section
variable {α : Type}

/-- an observation as the translator sees it, the record `(E, N, U, t)`, as the model's `Fix` -/
def toFix (p : α × α × α × α) : Resample.Fix α := ⟨p.1, p.2.1, p.2.2.1, p.2.2.2⟩
def ofFix (p : Resample.Fix α) : α × α × α × α := (p.x, p.y, p.z, p.t)
@[simp] theorem ofFix_toFix (p : α × α × α × α) : ofFix (toFix p) = p := rfl
@[simp] theorem toFix_ofFix (p : Resample.Fix α) : toFix (ofFix p) = p := rfl
@[simp] theorem toFix_t (p : α × α × α × α) : (toFix p).t = p.2.2.2 := rfl

/-- the model's exceptions as the translator's: `nonterm` (the `while 1` loop never ends) is "out of fuel for every fuel" -/
def liftErr : Resample.Err → Py.Err
  | .index => .index
  | .zerodiv => .zerodiv
  | .nonterm => .fuel
  | .type => .type

/-- a result of the model (a track) as a result of the translated function -/
def lift : Except Resample.Err (List (Resample.Fix α)) → Py.M (List (α × α × α × α))
  | .ok l => .ok (l.map ofFix)
  | .error e => .error (liftErr e)

/-- a result of the model's `prepareTimes` (a list of instants) as a result of the translated `prepareTimeSampling` -/
def liftT : Except Resample.Err (List α) → Py.M (List α)
  | .ok l => .ok l
  | .error e => .error (liftErr e)

theorem map_toFix_t (l : List (α × α × α × α)) : (l.map toFix).map (·.t) = l.map (·.2.2.2) := by
  rw [List.map_map]; rfl

end

/-! ### the pieces of the loop body: weights, bracket, scan, rewind -/

section
variable {α : Type} [Add α] [Sub α] [Mul α] [Div α] [LT α] [LE α] [DecidableLT α] [DecidableLE α]
  [OfNat α 0] [NatCast α]

/-- how the model's test "the denominator is not zero" (`den < 0 ∨ 0 < den`) relates to Python's `den == 0` (`Py.feq den 0`,
i.e. `den ≤ 0 ∧ 0 ≤ den`): true in every ordered field and for every double that is not NaN -/
def Tri (den : α) : Prop := (den < 0 ∨ 0 < den) ↔ ¬ (den ≤ 0 ∧ 0 ≤ den)

/-- `Tri` holds wherever `<` is the negation of the reversed `≤` (every linear order; the doubles without NaN) -/
theorem Tri_of_lt_iff_not_le (den : α) (h1 : den < 0 ↔ ¬ 0 ≤ den) (h2 : 0 < den ↔ ¬ den ≤ 0) : Tri den := by
  unfold Tri
  rw [h1, h2]
  constructor
  · intro h hc; rcases h with h | h
    · exact h hc.2
    · exact h hc.1
  · intro h
    by_cases hc : 0 ≤ den
    · exact Or.inr (fun h' => h ⟨h', hc⟩)
    · exact Or.inl hc

/-- the two divisions `wbwd = (vf - v) / (vf - vb)`, `wfwd = (v - vb) / (vf - vb)` are the model's `weights` -/
theorem weights_tie {γ : Type} (vb vf v : α) (htri : Tri (vf - vb)) (K : α → α → M γ) :
    Py.bind (Py.fdiv (vf - v) (vf - vb)) (fun wb => Py.bind (Py.fdiv (v - vb) (vf - vb)) (fun wf => K wb wf)) =
      match Resample.weights vb vf v with
      | .ok (wb, wf) => K wb wf
      | .error e => .error (liftErr e) := by
  unfold Resample.weights Py.fdiv Py.feq
  simp only []
  by_cases hd : (vf - vb < 0 ∨ 0 < vf - vb)
  · have hn := htri.mp hd
    rw [if_pos hd]
    have : (decide (vf - vb ≤ 0) && decide (0 ≤ vf - vb)) = false := by
      simpa only [Bool.and_eq_false_imp, decide_eq_true_eq, decide_eq_false_iff_not, not_and] using hn
    simp only [this, Bool.false_eq_true, if_false, Py.bind_ok]
  · have hn : (vf - vb ≤ 0 ∧ 0 ≤ vf - vb) := Decidable.of_not_not (fun h => hd (htri.mpr h))
    rw [if_neg hd]
    have : (decide (vf - vb ≤ 0) && decide (0 ≤ vf - vb)) = true := by
      simp only [Bool.and_eq_true, decide_eq_true_eq]; exact hn
    simp only [this, if_true, Py.bind_error]
    rfl

/-- the six reads/divisions after the scan — `pt_bwd = track.getObs(r-1); pt_fwd = track.getObs(r); vb = V[r-1]; vf = V[r]` and the two
weights — are the model's `bracket` (for ANY table `V`: the temporal loop uses the instants, the spatial loop the abscissas) -/
theorem bracket_tie {γ : Type} (track : List (α × α × α × α)) (V : List α) (v : α) (r : Nat)
    (htri : ∀ vb ∈ V, ∀ vf ∈ V, Tri (vf - vb)) (K : α × α × α × α → α × α × α × α → α → α → M γ) :
    Py.bind (Py.getIdx track ((r : Int) - 1)) (fun pb => Py.bind (Py.getIdx track (r : Int)) (fun pf =>
      Py.bind (Py.getIdx V ((r : Int) - 1)) (fun vb => Py.bind (Py.getIdx V (r : Int)) (fun vf =>
        Py.bind (Py.fdiv (vf - v) (vf - vb)) (fun wb => Py.bind (Py.fdiv (v - vb) (vf - vb)) (fun wf => K pb pf wb wf)))))) =
      match Resample.bracket (track.map toFix) V v r with
      | .ok (pb, pf, wb, wf) => K (ofFix pb) (ofFix pf) wb wf
      | .error e => .error (liftErr e) := by
  rw [getIdx_pred, getIdx_nat]
  unfold Resample.bracket
  rw [List.length_map, List.getElem?_map, List.getElem?_map]
  cases h1 : track[Resample.bwdIdx r track.length]? with
  | none => rfl
  | some pb =>
    cases h2 : track[r]? with
    | none => rfl
    | some pf =>
      simp only [optM, Py.bind_ok, Option.map_some]
      rw [getIdx_pred, getIdx_nat]
      cases h3 : V[Resample.bwdIdx r V.length]? with
      | none => rfl
      | some vb =>
        cases h4 : V[r]? with
        | none => rfl
        | some vf =>
          simp only [optM, Py.bind_ok]
          rw [weights_tie vb vf v (htri vb (List.mem_of_getElem? h3) vf (List.mem_of_getElem? h4))]
          cases Resample.weights vb vf v with
          | error e => rfl
          | ok w => rfl

/-- `while V[running_id] < v: running_id += 1` against the model's `advance`: `IndexError` past the end; the loop needs
`len(V) - running_id + 1` evaluations of its body at most -/
theorem scan_tie {ρ : Type} (V : List α) (v : α) (body : Int → M (Ctl Int ρ))
    (h : ∀ r : Nat, body (r : Int) = Py.bind (Py.getIdx V (r : Int)) (fun w =>
      if w < v then .ok (.cont ((r : Int) + 1)) else .ok (.brk (r : Int))))
    (n : Nat) (fuel r : Nat) (hn : V.length ≤ r + n) (hfuel : n + 1 ≤ fuel) :
    Py.whileLoop body fuel (r : Int) =
      match Resample.advance V v r with
      | some r1 => .ok (.done (r1 : Int))
      | none => .error .index := by
  unfold Resample.advance
  induction n generalizing fuel r with
  | zero =>
    obtain ⟨f, rfl⟩ : ∃ f, fuel = f + 1 := ⟨fuel - 1, by omega⟩
    have hd : V.drop r = [] := List.drop_eq_nil_iff.mpr (by omega)
    have hg : V[r]? = none := by rw [List.getElem?_eq_none]; omega
    rw [hd, Py.whileLoop_succ, h, getIdx_nat, hg]
    rfl
  | succ n ih =>
    obtain ⟨f, rfl⟩ : ∃ f, fuel = f + 1 := ⟨fuel - 1, by omega⟩
    by_cases hr : r < V.length
    · have hd : V.drop r = V[r] :: V.drop (r + 1) := List.drop_eq_getElem_cons hr
      have hg : V[r]? = some V[r] := List.getElem?_eq_getElem hr
      rw [hd, Py.whileLoop_succ, h, getIdx_nat, hg, Resample.scan]
      simp only [optM, Py.bind_ok]
      by_cases hc : V[r] < v
      · rw [if_pos hc, if_pos hc]
        have := ih f (r + 1) (by omega) (by omega)
        rw [Int.natCast_add, Int.natCast_one] at this
        exact this
      · rw [if_neg hc, if_neg hc]
    · have hd : V.drop r = [] := List.drop_eq_nil_iff.mpr (by omega)
      have hg : V[r]? = none := by rw [List.getElem?_eq_none]; omega
      rw [hd, Py.whileLoop_succ, h, getIdx_nat, hg]
      rfl

/-- `if running_id > 0 and T[running_id - 1] >= t: running_id = 0` (translated with a join) against the model's `rewind` -/
theorem rewind_tie {γ : Type} (T : List α) (t : α) (r : Nat) (K : Int → M γ) :
    Py.bind (if decide ((0 : Int) < (r : Int)) then Py.bind (Py.getIdx T ((r : Int) - 1)) (fun w => .ok (decide (t ≤ w))) else .ok false)
      (fun c => Py.bind (if c then .ok (0 : Int) else .ok (r : Int)) K) =
      match Resample.rewind T t r with
      | some r0 => K (r0 : Int)
      | none => .error .index := by
  unfold Resample.rewind
  by_cases h0 : r = 0
  · subst h0
    simp only [Int.natCast_zero, Int.lt_irrefl, decide_false, Bool.false_eq_true, if_false, Py.bind_ok, if_true]
  · have hp : (0 : Int) < (r : Int) := by omega
    rw [if_neg h0]
    simp only [hp, decide_true, if_true]
    have : (r : Int) - 1 = ((r - 1 : Nat) : Int) := by omega
    rw [this, getIdx_nat]
    cases T[r - 1]? with
    | none => rfl
    | some w =>
      simp only [optM, Py.bind_ok]
      by_cases hc : t ≤ w
      · simp only [hc, decide_true, if_true, Py.bind_ok, Int.natCast_zero]
      · simp only [hc, decide_false, Bool.false_eq_true, if_false, Py.bind_ok]

end

/-! ### `prepareTimeSampling` -/

section
variable {α : Type} [Add α] [Sub α] [Mul α] [Div α] [LT α] [LE α] [DecidableLT α] [DecidableLE α]
  [OfNat α 0] [NatCast α]

/-- the `while 1: output.append(time); time += δ; if time > tfin: break` loop against `prepareNumber`, SAME fuel: the accumulated
prefix `out` in front of the model's list; out of fuel exactly when the model's loop is (`none`) -/
theorem prepareLoop_tie {ρ : Type} (δ tfin : α) (body : List α × α → M (Ctl (List α × α) ρ))
    (h : ∀ out time, body (out, time) =
      if tfin < time + δ then .ok (.brk (out ++ [time], time + δ)) else .ok (.cont (out ++ [time], time + δ)))
    (fin : Out (List α × α) ρ → M (List α)) (hfin : ∀ s, fin (.done s) = .ok s.1)
    (fuel : Nat) (out : List α) (time : α) :
    Py.bind (Py.whileLoop body fuel (out, time)) fin =
      match Resample.prepareNumber δ tfin fuel time with
      | some l => .ok (out ++ l)
      | none => .error .fuel := by
  induction fuel generalizing out time with
  | zero => rfl
  | succ f ih =>
    rw [Py.whileLoop_succ, h, Resample.prepareNumber]
    by_cases hc : tfin < time + δ
    · simp only [hc, if_true, Py.bind_ok, hfin]
    · simp only [hc, if_false]
      rw [ih]
      cases Resample.prepareNumber δ tfin f (time + δ) with
      | none => rfl
      | some l => simp only [List.append_assoc, List.singleton_append]

/-- **`prepareTimeSampling(δ, tini, tfin)`, `δ` a number, every fuel**: the translated function run with `fuel` returns the list of
the model's `prepareNumber` run with the SAME fuel, and is out of fuel exactly when the model's loop is. No hypothesis. -/
theorem tie_prepareTimeSampling_number_fuel (fuel : Nat) (δ tini tfin : α) :
    Gen.Interpolation.prepareTimeSampling_number fuel δ tini tfin =
      match Resample.prepareNumber δ tfin fuel tini with
      | some l => .ok l
      | none => .error .fuel := by
  unfold Gen.Interpolation.prepareTimeSampling_number
  simp only []
  have hw : ∀ (body : List α × α → M (Ctl (List α × α) (List α))) (fin : Out (List α × α) (List α) → M (List α)), _ → _ →
      Py.bind (Py.whileLoop body fuel ([], tini)) fin = _ :=
    fun body fin h hfin => prepareLoop_tie δ tfin body h fin hfin fuel [] tini
  rw [hw _ _ ?spec ?specfin]
  case spec =>
    intro out time
    by_cases hc : tfin < time + δ
    · simp only [hc, decide_true, if_true]
    · simp only [hc, decide_false, Bool.false_eq_true, if_false]
  case specfin => intro s; rfl
  cases Resample.prepareNumber δ tfin fuel tini <;> simp only [List.nil_append]

theorem prepareNumber_mono (δ tfin : α) (f g : Nat) (time : α) (l : List α) (hfg : f ≤ g)
    (h : Resample.prepareNumber δ tfin f time = some l) : Resample.prepareNumber δ tfin g time = some l := by
  induction f generalizing g time l with
  | zero => exact nomatch h
  | succ f ih =>
    cases g with
    | zero => omega
    | succ g =>
      rw [Resample.prepareNumber] at h ⊢
      by_cases hc : tfin < time + δ
      · simp only [hc, if_true] at h ⊢; exact h
      · simp only [hc, if_false] at h ⊢
        cases hp : Resample.prepareNumber δ tfin f (time + δ) with
        | none => rw [hp] at h; exact nomatch h
        | some l' => rw [hp] at h; rw [ih g _ l' (by omega) hp]; exact h

/-- a step that never carries an instant `≤ tfin` past `tfin` (every non-positive step of an ordered field; every non-positive or NaN
double step) keeps the `while 1` loop running for ever: the model's `prepareNumber` is `none` for every fuel -/
theorem prepareNumber_none (δ tfin : α) (hstay : ∀ x : α, ¬ tfin < x → ¬ tfin < x + δ) (f : Nat) (time : α) (h0 : ¬ tfin < time) :
    Resample.prepareNumber δ tfin f time = none := by
  induction f generalizing time with
  | zero => rfl
  | succ f ih =>
    rw [Resample.prepareNumber, if_neg (hstay time h0), ih _ (hstay time h0)]

/-- **`prepareTimeSampling(δ, tini, tfin)`, `δ` a number**: whenever the model `prepareTimes` returns a list (the step is positive and the
model's own fuel `int((tfin - tini)/δ) + 2` is enough for its loop, or the step is not positive and the first round already ends the
loop), the translated function returns that list for EVERY fuel at least `int((tfin - tini)/δ) + 2`. -/
theorem tie_prepareTimeSampling_number (trunc : α → Int) (fuel : Nat) (δ tini tfin : α)
    (hmodel : Resample.prepareTimes trunc (.number δ) tini tfin ≠ .error .nonterm)
    (hfuel : (trunc ((tfin - tini) / δ)).toNat + 2 ≤ fuel) :
    Gen.Interpolation.prepareTimeSampling_number fuel δ tini tfin = liftT (Resample.prepareTimes trunc (.number δ) tini tfin) := by
  rw [tie_prepareTimeSampling_number_fuel]
  unfold Resample.prepareTimes at hmodel ⊢
  simp only [] at hmodel ⊢
  by_cases hδ : 0 < δ
  · rw [if_pos hδ] at hmodel ⊢
    cases hp : Resample.prepareNumber δ tfin ((trunc ((tfin - tini) / δ)).toNat + 2) tini with
    | none => rw [hp] at hmodel; exact absurd rfl hmodel
    | some l => rw [prepareNumber_mono δ tfin _ fuel tini l hfuel hp]; rfl
  · rw [if_neg hδ] at hmodel ⊢
    by_cases h1 : tfin < tini + δ
    · obtain ⟨f, rfl⟩ : ∃ f, fuel = f + 1 := ⟨fuel - 1, by omega⟩
      rw [if_pos h1, Resample.prepareNumber, if_pos h1]; rfl
    · rw [if_neg h1] at hmodel; exact absurd rfl hmodel

/-- whatever the sign of the step, when `tini + δ > tfin` the Python loop stops after its first round and returns `[tini]` -/
theorem prepareTimeSampling_number_first_round (fuel : Nat) (δ tini tfin : α) (h : tfin < tini + δ) :
    Gen.Interpolation.prepareTimeSampling_number (fuel + 1) δ tini tfin = .ok [tini] := by
  rw [tie_prepareTimeSampling_number_fuel, Resample.prepareNumber, if_pos h]

/-- **`prepareTimeSampling(δ, tini, tfin)`, a step that is not positive**: for EVERY fuel ≥ 1 the translated function is the model's
`prepareTimes` — `[tini]` when `tini + δ > tfin` (the first round ends the loop: a track whose last stamp is before its first), else
"never ends": out of fuel for every fuel = the model's `nonterm`. Hypothesis `hstay`: the step never carries an instant that is not
past `tfin` past `tfin` (true for every `δ ≤ 0` of an ordered field, for every double `δ ≤ 0` and for NaN); it is used only in the
second case. -/
theorem tie_prepareTimeSampling_number_nonpos (trunc : α → Int) (fuel : Nat) (δ tini tfin : α) (hδ : ¬ 0 < δ)
    (hfuel : 1 ≤ fuel) (hstay : ∀ x : α, ¬ tfin < x → ¬ tfin < x + δ) :
    Gen.Interpolation.prepareTimeSampling_number fuel δ tini tfin = liftT (Resample.prepareTimes trunc (.number δ) tini tfin) := by
  obtain ⟨f, rfl⟩ : ∃ f, fuel = f + 1 := ⟨fuel - 1, by omega⟩
  unfold Resample.prepareTimes
  simp only []
  rw [if_neg hδ]
  by_cases h1 : tfin < tini + δ
  · rw [prepareTimeSampling_number_first_round f δ tini tfin h1, if_pos h1]; rfl
  · rw [tie_prepareTimeSampling_number_fuel, Resample.prepareNumber, if_neg h1, if_neg h1,
      prepareNumber_none δ tfin hstay f (tini + δ) h1]
    rfl

/-- **`prepareTimeSampling(l, tini, tfin)`, `l` a list of `ObsTime`** (seen through `toAbsTime()`): the list itself, as in the model -/
theorem tie_prepareTimeSampling_list (trunc : α → Int) (l : List α) (tini tfin : α) :
    Gen.Interpolation.prepareTimeSampling_list l tini tfin = liftT (Resample.prepareTimes trunc (.instants l) tini tfin) := by
  unfold Gen.Interpolation.prepareTimeSampling_list
  simp only []
  have hc : ∀ (body : Int → List α → M (Ctl (List α) (List α))), _ → Py.forList body (Py.range 0 (Py.len l)) [] = _ :=
    fun body h => forList_collect l (fun v => v) body h
  rw [hc _ (fun i s => rfl), List.map_id']
  rfl

/-- **`prepareTimeSampling(Q, tini, tfin)`, `Q` a track**: the instants of its observations, as in the model -/
theorem tie_prepareTimeSampling_track (trunc : α → Int) (Q : List (α × α × α × α)) (tini tfin : α) :
    Gen.Interpolation.prepareTimeSampling_track Q tini tfin =
      liftT (Resample.prepareTimes trunc (.track (Q.map toFix)) tini tfin) := by
  unfold Gen.Interpolation.prepareTimeSampling_track
  simp only []
  have hc : ∀ (body : Int → List α → M (Ctl (List α) (List α))), _ → Py.forList body (Py.range 0 (Py.len Q)) [] = _ :=
    fun body h => forList_collect Q (fun v => v.2.2.2) body h
  rw [hc _ (fun i s => rfl)]
  unfold Resample.prepareTimes
  simp only [map_toFix_t]
  rfl

end

/-! ### the `for k in range(len(REF))` loop of `__resampleTemporal` -/

section
variable {α : Type} [Add α] [Sub α] [Mul α] [Div α] [LT α] [LE α] [DecidableLT α] [DecidableLE α]
  [OfNat α 0] [NatCast α]

/-- one round of the model's `temporalLoop` that is not skipped: the new fix and the new `running_id`
(the text of `Model/Resample.lean`; `temporalLoop_cons` checks it is) -/
def iter (P : List (Resample.Fix α)) (T : List α) (t : α) (rid : Nat) : Except Resample.Err (Resample.Fix α × Nat) :=
  match Resample.rewind T t rid with
  | none => .error .index
  | some r0 =>
    match Resample.advance T t r0 with
    | none => .error .index
    | some r =>
      match Resample.bracket P T t r with
      | .error e => .error e
      | .ok (pb, pf, wb, wf) =>
        .ok (⟨wb * pb.x + wf * pf.x, wb * pb.y + wf * pf.y, wb * pb.z + wf * pf.z, t⟩, r)

theorem temporalLoop_cons (P : List (Resample.Fix α)) (T : List α) (tini tfin t : α) (rest : List α) (rid : Nat) :
    Resample.temporalLoop P T tini tfin (t :: rest) rid =
      if t ≤ tini then Resample.temporalLoop P T tini tfin rest rid
      else if tfin < t then Resample.temporalLoop P T tini tfin rest rid
      else match iter P T t rid with
        | .error e => .error e
        | .ok (p, r) =>
          match Resample.temporalLoop P T tini tfin rest r with
          | .error e => .error e
          | .ok out => .ok (p :: out) := by
  rw [Resample.temporalLoop]
  unfold iter
  by_cases h1 : t ≤ tini
  · rw [if_pos h1, if_pos h1]
  · rw [if_neg h1, if_neg h1]
    by_cases h2 : tfin < t
    · rw [if_pos h2, if_pos h2]
    · rw [if_neg h2, if_neg h2]
      cases Resample.rewind T t rid with
      | none => rfl
      | some r0 =>
        simp only []
        cases Resample.advance T t r0 with
        | none => rfl
        | some r =>
          simp only []
          cases Resample.bracket P T t r with
          | error e => rfl
          | ok b => rfl

/-- what one round of the translated loop does, in the model's terms -/
def roundG (P : List (Resample.Fix α)) (T : List α) (tini tfin : α) (t : α) (ip : List (α × α × α × α)) (r : Nat) :
    M (Ctl (List (α × α × α × α) × Int) (List (α × α × α × α))) :=
  if t ≤ tini then .ok (.cont (ip, (r : Int)))
  else if tfin < t then .ok (.cont (ip, (r : Int)))
  else match iter P T t r with
    | .error e => .error (liftErr e)
    | .ok (p, r1) => .ok (.cont (ip ++ [ofFix p], (r1 : Int)))

/-- the loop against `temporalLoop`, for an arbitrary body that reads `t = REF[k]` and then does `roundG`: the points accumulated so far
(`ip`, the code APPENDS) in front of the model's list (the model CONSES) -/
theorem temporalLoop_tie_aux (P : List (Resample.Fix α)) (T : List α) (tini tfin : α) (REF : List α)
    (body : Int → List (α × α × α × α) × Int → M (Ctl (List (α × α × α × α) × Int) (List (α × α × α × α))))
    (h : ∀ (i : Int) (ip : List (α × α × α × α)) (r : Nat),
      body i (ip, (r : Int)) = Py.bind (Py.getIdx REF i) (fun t => roundG P T tini tfin t ip r))
    (fin : Out (List (α × α × α × α) × Int) (List (α × α × α × α)) → M (List (α × α × α × α)))
    (hfin : ∀ s, fin (.done s) = .ok s.1)
    (suf pre : List α) (hl : REF = pre ++ suf) (ip : List (α × α × α × α)) (r : Nat) :
    Py.bind (Py.forList body (Py.range (pre.length : Int) (Py.len REF)) (ip, (r : Int))) fin =
      match Resample.temporalLoop P T tini tfin suf r with
      | .ok out => .ok (ip ++ out.map ofFix)
      | .error e => .error (liftErr e) := by
  induction suf generalizing pre ip r with
  | nil =>
    rw [Py.range_empty (by subst hl; simp [Py.len]), Py.forList_nil, Py.bind_ok, hfin, Resample.temporalLoop]
    simp only [List.map_nil, List.append_nil]
  | cons t rest ih =>
    have hlt : (pre.length : Int) < Py.len REF := by subst hl; simp [Py.len]; omega
    have hget : REF[pre.length]? = some t := by subst hl; simp
    have hnext : ∀ ip' (r' : Nat), Py.bind (Py.forList body (Py.range ((pre.length : Int) + 1) (Py.len REF)) (ip', (r' : Int))) fin =
        match Resample.temporalLoop P T tini tfin rest r' with
        | .ok out => .ok (ip' ++ out.map ofFix)
        | .error e => .error (liftErr e) := by
      intro ip' r'
      have := ih (pre ++ [t]) (by rw [hl]; simp) ip' r'
      simp only [List.length_append, List.length_cons, List.length_nil, Int.natCast_add] at this
      exact this
    rw [Py.range_cons hlt, Py.forList_cons, h, Py.getIdx_natCast, Py.getItem_eq_ok hget, Py.bind_ok, temporalLoop_cons]
    unfold roundG
    by_cases h1 : t ≤ tini
    · simp only [h1, if_true]; exact hnext ip r
    · simp only [h1, if_false]
      by_cases h2 : tfin < t
      · simp only [h2, if_true]; exact hnext ip r
      · simp only [h2, if_false]
        cases iter P T t r with
        | error e => rfl
        | ok pr =>
          obtain ⟨p, r1⟩ := pr
          simp only []
          rw [hnext]
          cases Resample.temporalLoop P T tini tfin rest r1 with
          | error e => rfl
          | ok out => simp only [List.map_cons, List.append_assoc, List.singleton_append]

theorem temporalLoop_tie (P : List (Resample.Fix α)) (T : List α) (tini tfin : α) (REF : List α)
    (body : Int → List (α × α × α × α) × Int → M (Ctl (List (α × α × α × α) × Int) (List (α × α × α × α))))
    (h : ∀ (i : Int) (ip : List (α × α × α × α)) (r : Nat),
      body i (ip, (r : Int)) = Py.bind (Py.getIdx REF i) (fun t => roundG P T tini tfin t ip r))
    (fin : Out (List (α × α × α × α) × Int) (List (α × α × α × α)) → M (List (α × α × α × α)))
    (hfin : ∀ s, fin (.done s) = .ok s.1) :
    Py.bind (Py.forList body (Py.range 0 (Py.len REF)) ([], (0 : Int))) fin = lift (Resample.temporalLoop P T tini tfin REF 0) := by
  have := temporalLoop_tie_aux P T tini tfin REF body h fin hfin REF [] rfl [] 0
  simp only [List.length_nil, Int.natCast_zero, List.nil_append] at this
  rw [this]
  cases Resample.temporalLoop P T tini tfin REF 0 <;> rfl

end

/-! ### `__resampleTemporal` -/

section
variable {α : Type} [Add α] [Sub α] [Mul α] [Div α] [LT α] [LE α] [DecidableLT α] [DecidableLE α]
  [OfNat α 0] [NatCast α]

/-- **`__resampleTemporal(track, l)`, `l` a list of `ObsTime`** (seen through `toAbsTime()`): for EVERY fuel greater than the number of
observations (the `while T[running_id] < t` scan evaluates its body at most `len(T) + 1` times), the translated function returns the
model's track (`lift`: the observations as records `(E, N, U, t)`, the model's `index` / `zerodiv` as `IndexError` / `ZeroDivisionError`) on
EVERY track and list — empty track, instants in any order, instants outside `(tini, tfin]`, repeated stamps included.
Hypothesis `htri`: on every difference `den` of two stamps of the track, the model's test `den < 0 ∨ 0 < den` is the negation of Python's
`den == 0` (`den ≤ 0 ∧ 0 ≤ den`): true in an ordered field; true for doubles unless `den` is NaN (two infinite stamps), where the model
says `zerodiv` and Python divides. `trunc` is not used (it only sets the model's fuel for a numeric step). -/
theorem tie_resampleTemporal_list (trunc : α → Int) (fuel : Nat) (track : List (α × α × α × α)) (l : List α)
    (hfuel : track.length + 1 ≤ fuel)
    (htri : ∀ vb ∈ track.map (·.2.2.2), ∀ vf ∈ track.map (·.2.2.2), Tri (vf - vb)) :
    Gen.Interpolation.resampleTemporal_list fuel track l =
      lift (Resample.resampleTemporal trunc (track.map toFix) (.instants l)) := by
  unfold Gen.Interpolation.resampleTemporal_list Resample.resampleTemporal
  simp only []
  have hc : ∀ (body : Int → List α → M (Ctl (List α) (List (α × α × α × α)))), _ → Py.forList body (Py.range 0 (Py.len track)) [] = _ :=
    fun body h => forList_collect track (fun v => v.2.2.2) body h
  rw [hc _ (fun i s => rfl), map_toFix_t]
  simp only [Py.bind_ok]
  generalize hT : track.map (·.2.2.2) = T at htri
  have hTl : T.length = track.length := by rw [← hT, List.length_map]
  rw [getItem_zero_eq, getIdx_last]
  cases T.head? with
  | none => rfl
  | some tini =>
    cases T.getLast? with
    | none => rfl
    | some tfin =>
      simp only [optM, Py.bind_ok]
      rw [tie_prepareTimeSampling_list trunc]
      cases Resample.prepareTimes trunc (.instants l) tini tfin with
      | error e => rfl
      | ok REF =>
        simp only [liftT, Py.bind_ok]
        have hloop : ∀ body fin, _ → _ → Py.bind (Py.forList body (Py.range 0 (Py.len REF)) ([], (0 : Int))) fin = _ :=
          fun body fin h hfin => temporalLoop_tie (track.map toFix) T tini tfin REF body h fin hfin
        rw [hloop _ _ ?spec ?specfin]
        case specfin => intro s; rfl
        case spec =>
          intro i ip r
          simp only []
          cases Py.getIdx REF i with
          | error e => rfl
          | ok t =>
            simp only [Py.bind_ok]
            unfold roundG
            by_cases h1 : t ≤ tini
            · simp only [h1, decide_true, if_true]
            · simp only [h1, decide_false, Bool.false_eq_true, if_false]
              by_cases h2 : tfin < t
              · simp only [h2, decide_true, if_true]
              · simp only [h2, decide_false, Bool.false_eq_true, if_false]
                rw [rewind_tie]
                unfold iter
                cases Resample.rewind T t r with
                | none => rfl
                | some r0 =>
                  simp only []
                  have hw : ∀ wbody : Int → M (Ctl Int (List (α × α × α × α))), _ → Py.whileLoop wbody fuel (r0 : Int) = _ :=
                    fun wbody h => scan_tie T t wbody h T.length fuel r0 (by omega) (by omega)
                  rw [hw _ ?wspec]
                  case wspec =>
                    intro r'
                    simp only [decide_eq_true_eq]
                  cases Resample.advance T t r0 with
                  | none => rfl
                  | some r1 =>
                    simp only [Py.bind_ok]
                    rw [bracket_tie track T t r1 htri]
                    cases Resample.bracket (track.map toFix) T t r1 with
                    | error e => rfl
                    | ok b =>
                      obtain ⟨pb, pf, wb, wf⟩ := b
                      simp only [Gen.ObsCoords.ENUCoords_getX, Gen.ObsCoords.ENUCoords_getY, Gen.ObsCoords.ENUCoords_getZ,
                        Py.bind_ok, ofFix]

/-- the model's `resampleTemporal` unfolded -/
theorem resampleTemporal_eq (trunc : α → Int) (P : List (Resample.Fix α)) (step : Resample.Step α) :
    Resample.resampleTemporal trunc P step =
      match (P.map (·.t)).head?, (P.map (·.t)).getLast? with
      | some tini, some tfin =>
        match Resample.prepareTimes trunc step tini tfin with
        | .error e => .error e
        | .ok ref => Resample.temporalLoop P (P.map (·.t)) tini tfin ref 0
      | _, _ => .error .index := rfl

/-- the three translated variants differ only in the call of `prepareTimeSampling`: the variant "number" is the variant "list" run on
the list `prepareTimeSampling` returns -/
theorem number_eq_list (fuel : Nat) (track : List (α × α × α × α)) (δ : α) :
    Gen.Interpolation.resampleTemporal_number fuel track δ =
      match (track.map (·.2.2.2)).head?, (track.map (·.2.2.2)).getLast? with
      | some tini, some tfin => Py.bind (Gen.Interpolation.prepareTimeSampling_number fuel δ tini tfin)
          (fun REF => Gen.Interpolation.resampleTemporal_list fuel track REF)
      | _, _ => .error .index := by
  unfold Gen.Interpolation.resampleTemporal_number Gen.Interpolation.resampleTemporal_list
  simp only []
  have hc : ∀ (body : Int → List α → M (Ctl (List α) (List (α × α × α × α)))), _ → Py.forList body (Py.range 0 (Py.len track)) [] = _ :=
    fun body h => forList_collect track (fun v => v.2.2.2) body h
  rw [hc _ (fun i s => rfl)]
  simp only [Py.bind_ok]
  generalize track.map (·.2.2.2) = T
  rw [getItem_zero_eq, getIdx_last]
  cases T.head? with
  | none => rfl
  | some tini =>
    cases T.getLast? with
    | none => rfl
    | some tfin =>
      simp only [optM, Py.bind_ok]
      cases Gen.Interpolation.prepareTimeSampling_number fuel δ tini tfin with
      | error e => rfl
      | ok REF =>
        simp only [Py.bind_ok]
        rw [tie_prepareTimeSampling_list (fun _ => 0)]
        rfl

/-- the variant "track" is the variant "list" run on the list `prepareTimeSampling` returns -/
theorem track_eq_list (fuel : Nat) (track Q : List (α × α × α × α)) :
    Gen.Interpolation.resampleTemporal_track fuel track Q =
      match (track.map (·.2.2.2)).head?, (track.map (·.2.2.2)).getLast? with
      | some tini, some tfin => Py.bind (Gen.Interpolation.prepareTimeSampling_track Q tini tfin)
          (fun REF => Gen.Interpolation.resampleTemporal_list fuel track REF)
      | _, _ => .error .index := by
  unfold Gen.Interpolation.resampleTemporal_track Gen.Interpolation.resampleTemporal_list
  simp only []
  have hc : ∀ (body : Int → List α → M (Ctl (List α) (List (α × α × α × α)))), _ → Py.forList body (Py.range 0 (Py.len track)) [] = _ :=
    fun body h => forList_collect track (fun v => v.2.2.2) body h
  rw [hc _ (fun i s => rfl)]
  simp only [Py.bind_ok]
  generalize track.map (·.2.2.2) = T
  rw [getItem_zero_eq, getIdx_last]
  cases T.head? with
  | none => rfl
  | some tini =>
    cases T.getLast? with
    | none => rfl
    | some tfin =>
      simp only [optM, Py.bind_ok]
      cases Gen.Interpolation.prepareTimeSampling_track Q tini tfin with
      | error e => rfl
      | ok REF =>
        simp only [Py.bind_ok]
        rw [tie_prepareTimeSampling_list (fun _ => 0)]
        rfl

/-- the model on a step whose `prepareTimes` is the list `REF` is the model on `.instants REF` -/
theorem model_via_instants (trunc : α → Int) (P : List (Resample.Fix α)) (step : Resample.Step α) (tini tfin : α) (REF : List α)
    (h1 : (P.map (·.t)).head? = some tini) (h2 : (P.map (·.t)).getLast? = some tfin)
    (hp : Resample.prepareTimes trunc step tini tfin = .ok REF) :
    Resample.resampleTemporal trunc P step = Resample.resampleTemporal trunc P (.instants REF) := by
  rw [resampleTemporal_eq, resampleTemporal_eq, h1, h2]
  simp only [hp]
  rfl

/-- **`__resampleTemporal(track, Q)`, `Q` a reference track** (only the stamps of `Q` are read): as `tie_resampleTemporal_list`, same
hypotheses, on every `track` and `Q`. -/
theorem tie_resampleTemporal_track (trunc : α → Int) (fuel : Nat) (track Q : List (α × α × α × α))
    (hfuel : track.length + 1 ≤ fuel)
    (htri : ∀ vb ∈ track.map (·.2.2.2), ∀ vf ∈ track.map (·.2.2.2), Tri (vf - vb)) :
    Gen.Interpolation.resampleTemporal_track fuel track Q =
      lift (Resample.resampleTemporal trunc (track.map toFix) (.track (Q.map toFix))) := by
  rw [track_eq_list]
  cases h1 : (track.map (·.2.2.2)).head? with
  | none => rw [resampleTemporal_eq, map_toFix_t, h1]; rfl
  | some tini =>
    cases h2 : (track.map (·.2.2.2)).getLast? with
    | none => rw [resampleTemporal_eq, map_toFix_t, h1, h2]; rfl
    | some tfin =>
      simp only []
      rw [tie_prepareTimeSampling_track trunc]
      have hp : Resample.prepareTimes trunc (.track (Q.map toFix)) tini tfin = .ok ((Q.map toFix).map (·.t)) := rfl
      rw [model_via_instants trunc (track.map toFix) _ tini tfin _ (by rw [map_toFix_t]; exact h1) (by rw [map_toFix_t]; exact h2) hp, hp]
      simp only [liftT, Py.bind_ok]
      exact tie_resampleTemporal_list trunc fuel track _ hfuel htri

/-- **`__resampleTemporal(track, δ)`, `δ` a number of seconds, every fuel**: for EVERY fuel greater than the number of observations the
translated function is: `IndexError` on an empty track; out of fuel when the model's `prepareNumber`, run with the SAME fuel, is (`none`);
else the model's `temporalLoop` on the list `prepareNumber` returns. Hypothesis `htri` as in `tie_resampleTemporal_list`; no hypothesis
on `δ` (positive or not), no `trunc`. -/
theorem tie_resampleTemporal_number_fuel (fuel : Nat) (track : List (α × α × α × α)) (δ : α)
    (hfuel : track.length + 1 ≤ fuel)
    (htri : ∀ vb ∈ track.map (·.2.2.2), ∀ vf ∈ track.map (·.2.2.2), Tri (vf - vb)) :
    Gen.Interpolation.resampleTemporal_number fuel track δ =
      match (track.map (·.2.2.2)).head?, (track.map (·.2.2.2)).getLast? with
      | some tini, some tfin =>
        match Resample.prepareNumber δ tfin fuel tini with
        | none => .error .fuel
        | some REF => lift (Resample.temporalLoop (track.map toFix) (track.map (·.2.2.2)) tini tfin REF 0)
      | _, _ => .error .index := by
  rw [number_eq_list]
  cases h1 : (track.map (·.2.2.2)).head? with
  | none => rfl
  | some tini =>
    cases h2 : (track.map (·.2.2.2)).getLast? with
    | none => rfl
    | some tfin =>
      simp only []
      rw [tie_prepareTimeSampling_number_fuel]
      cases Resample.prepareNumber δ tfin fuel tini with
      | none => rfl
      | some REF =>
        simp only [Py.bind_ok]
        rw [tie_resampleTemporal_list (fun _ => 0) fuel track REF hfuel htri, resampleTemporal_eq, map_toFix_t, h1, h2]
        rfl

/-- the model's fuel for the `while 1` loop of `prepareTimeSampling` on this track: `int((tfin - tini)/δ) + 2` -/
def numberFuel (trunc : α → Int) (track : List (α × α × α × α)) (δ : α) : Nat :=
  match (track.map (·.2.2.2)).head?, (track.map (·.2.2.2)).getLast? with
  | some tini, some tfin => (trunc ((tfin - tini) / δ)).toNat + 2
  | _, _ => 0

/-- the variant "number" from a tie of its `prepareTimeSampling` call -/
theorem number_of_prepare (trunc : α → Int) (fuel : Nat) (track : List (α × α × α × α)) (δ : α)
    (hfuel : track.length + 1 ≤ fuel)
    (htri : ∀ vb ∈ track.map (·.2.2.2), ∀ vf ∈ track.map (·.2.2.2), Tri (vf - vb))
    (hprep : ∀ tini tfin, (track.map (·.2.2.2)).head? = some tini → (track.map (·.2.2.2)).getLast? = some tfin →
      Gen.Interpolation.prepareTimeSampling_number fuel δ tini tfin = liftT (Resample.prepareTimes trunc (.number δ) tini tfin)) :
    Gen.Interpolation.resampleTemporal_number fuel track δ =
      lift (Resample.resampleTemporal trunc (track.map toFix) (.number δ)) := by
  rw [number_eq_list, resampleTemporal_eq, map_toFix_t]
  cases h1 : (track.map (·.2.2.2)).head? with
  | none => rfl
  | some tini =>
    cases h2 : (track.map (·.2.2.2)).getLast? with
    | none => rfl
    | some tfin =>
      simp only []
      rw [hprep tini tfin h1 h2]
      cases hp : Resample.prepareTimes trunc (.number δ) tini tfin with
      | error e => cases e <;> rfl
      | ok REF =>
        simp only [liftT, Py.bind_ok]
        rw [tie_resampleTemporal_list trunc fuel track REF hfuel htri, resampleTemporal_eq, map_toFix_t, h1, h2]
        rfl

/-- **`__resampleTemporal(track, δ)`, `δ` a number of seconds**: whenever the model does not say "never ends" (`nonterm`: the step is not
positive and the first round does not end the loop, or the model's own fuel `int((tfin - tini)/δ) + 2` is too small for its `while 1`
loop), the translated function returns the model's result — track or `IndexError` / `ZeroDivisionError` — for EVERY fuel greater than
the number of observations and at least `int((tfin - tini)/δ) + 2`. Hypothesis `htri` as in `tie_resampleTemporal_list`. -/
theorem tie_resampleTemporal_number (trunc : α → Int) (fuel : Nat) (track : List (α × α × α × α)) (δ : α)
    (hfuel : track.length + 1 ≤ fuel) (hfuel2 : numberFuel trunc track δ ≤ fuel)
    (htri : ∀ vb ∈ track.map (·.2.2.2), ∀ vf ∈ track.map (·.2.2.2), Tri (vf - vb))
    (hmodel : Resample.resampleTemporal trunc (track.map toFix) (.number δ) ≠ .error .nonterm) :
    Gen.Interpolation.resampleTemporal_number fuel track δ =
      lift (Resample.resampleTemporal trunc (track.map toFix) (.number δ)) := by
  apply number_of_prepare trunc fuel track δ hfuel htri
  intro tini tfin h1 h2
  rw [resampleTemporal_eq, map_toFix_t, h1, h2] at hmodel
  unfold numberFuel at hfuel2
  rw [h1, h2] at hfuel2
  simp only [] at hmodel hfuel2
  have hm : Resample.prepareTimes trunc (.number δ) tini tfin ≠ .error .nonterm := by
    intro h; rw [h] at hmodel; exact hmodel rfl
  exact tie_prepareTimeSampling_number trunc fuel δ tini tfin hm hfuel2

/-- **`__resampleTemporal(track, δ)`, a step that is not positive**: for EVERY fuel greater than the number of observations the translated
function is `lift` of the model's result on EVERY track: `IndexError` on an empty track; when `tini + δ > tfin` (last stamp before the first)
the loop over `[tini]`, i.e. the empty track; else out of fuel for every fuel = the model's `nonterm`. Hypotheses: `htri` as in
`tie_resampleTemporal_list`; `hstay` (the step never carries an instant that is not past the last stamp past it: every `δ ≤ 0` of an ordered
field, every double `δ ≤ 0`, NaN). -/
theorem tie_resampleTemporal_number_nonpos (trunc : α → Int) (fuel : Nat) (track : List (α × α × α × α)) (δ : α)
    (hδ : ¬ 0 < δ) (hfuel : track.length + 1 ≤ fuel)
    (htri : ∀ vb ∈ track.map (·.2.2.2), ∀ vf ∈ track.map (·.2.2.2), Tri (vf - vb))
    (hstay : ∀ tfin, (track.map (·.2.2.2)).getLast? = some tfin → ∀ x : α, ¬ tfin < x → ¬ tfin < x + δ) :
    Gen.Interpolation.resampleTemporal_number fuel track δ =
      lift (Resample.resampleTemporal trunc (track.map toFix) (.number δ)) := by
  apply number_of_prepare trunc fuel track δ hfuel htri
  intro tini tfin h1 h2
  exact tie_prepareTimeSampling_number_nonpos trunc fuel δ tini tfin hδ (by omega) (hstay tfin h2)

end

end TV.Tie.C05
