import TracklibVerif.Model.Resample
import TracklibVerif.Gen.Interpolation
/-! Tie for C05, temporal half: `prepareTimeSampling` and `__resampleTemporal` of `tracklib/algo/interpolation.py` translated from
the CURRENT source (tools/py2lean.py → `Gen/Interpolation.lean`, three variants each: the `input` / `reference` argument declared
a number, a list of instants, a track) against the hand-written model `Model/Resample.lean`. -/
namespace TV.Tie.C05
open TV TV.Py
set_option linter.unusedSectionVars false
set_option linter.unusedSimpArgs false
set_option linter.unusedVariables false

/-! ### general lemmas (loops over `range(len(l))`, Python indices) -/

/-- `for i in range(len(l)): v = l[i]; f v` is `for v in l: f v` (same statement as `TV.Tie.C19.forList_range_getIdx`) -/
theorem forList_range_getIdx_aux {β σ ρ : Type} (l : List β) (f : β → σ → M (Ctl σ ρ)) (body : Int → σ → M (Ctl σ ρ))
    (h : ∀ i s, body i s = Py.bind (Py.getIdx l i) (fun v => f v s)) (suf pre : List β) (hl : l = pre ++ suf) (s : σ) :
    Py.forList body (Py.range (pre.length : Int) (Py.len l)) s = Py.forList f suf s := by
  induction suf generalizing pre s with
  | nil =>
    rw [Py.range_empty (by subst hl; simp [Py.len])]; rfl
  | cons x xs ih =>
    have hlt : (pre.length : Int) < Py.len l := by subst hl; simp [Py.len]; omega
    have hget : l[pre.length]? = some x := by subst hl; simp
    rw [Py.range_cons hlt, Py.forList_cons, Py.forList_cons, h, Py.getIdx_natCast, Py.getItem_eq_ok hget, Py.bind_ok]
    cases hb : f x s with
    | error e => rfl
    | ok c =>
      cases c with
      | cont s1 =>
        have := ih (pre ++ [x]) (by rw [hl]; simp) s1
        simp only [List.length_append, List.length_cons, List.length_nil, Int.natCast_add] at this
        exact this
      | brk s1 => rfl
      | ret r => rfl

theorem forList_range_getIdx {β σ ρ : Type} (l : List β) (f : β → σ → M (Ctl σ ρ)) (body : Int → σ → M (Ctl σ ρ))
    (h : ∀ i s, body i s = Py.bind (Py.getIdx l i) (fun v => f v s)) (s : σ) :
    Py.forList body (Py.range 0 (Py.len l)) s = Py.forList f l s :=
  forList_range_getIdx_aux l f body h l [] rfl s

theorem foldl_snoc_map {β γ : Type} (g : β → γ) (l : List β) (acc : List γ) :
    l.foldl (fun a p => a ++ [g p]) acc = acc ++ l.map g := by
  induction l generalizing acc with
  | nil => simp
  | cons x xs ih => rw [List.foldl_cons, ih]; simp

/-- `out = []; for i in range(len(l)): out.append(g(l[i]))` is `map g l` -/
theorem forList_collect {β γ ρ : Type} (l : List β) (g : β → γ) (body : Int → List γ → M (Ctl (List γ) ρ))
    (h : ∀ i s, body i s = Py.bind (Py.getIdx l i) (fun v => .ok (.cont (s ++ [g v])))) :
    Py.forList body (Py.range 0 (Py.len l)) [] = .ok (.done (l.map g)) := by
  rw [forList_range_getIdx l (fun v s => .ok (.cont (s ++ [g v]))) body h,
    Py.forList_eq_foldl _ (fun a p => a ++ [g p]) l [] (fun _ _ _ => rfl), foldl_snoc_map, List.nil_append]

/-- an optional element as the result of a subscript: `IndexError` when there is none -/
def optM {β : Type} : Option β → M β
  | some v => .ok v
  | none => .error .index

theorem getItem_eq_optM {β : Type} (l : List β) (k : Nat) : Py.getItem l k = optM l[k]? := by
  unfold Py.getItem optM; cases l[k]? <;> rfl

/-- `L[r]` for a natural number `r` -/
theorem getIdx_nat {β : Type} (l : List β) (r : Nat) : Py.getIdx l (r : Int) = optM l[r]? := by
  rw [Py.getIdx_natCast, getItem_eq_optM]

/-- `L[r - 1]` for a natural number `r`: Python reads the LAST element when `r = 0` — the model's `bwdIdx` -/
theorem getIdx_pred {β : Type} (l : List β) (r : Nat) :
    Py.getIdx l ((r : Int) - 1) = optM l[Resample.bwdIdx r l.length]? := by
  unfold Resample.bwdIdx
  by_cases h0 : r = 0
  · subst h0
    rw [if_pos rfl]
    unfold Py.getIdx Py.len
    rw [if_neg (by omega)]
    by_cases hl : l.length = 0
    · rw [if_neg (by omega)]
      have : l[l.length - 1]? = none := by rw [List.getElem?_eq_none]; omega
      rw [this]; rfl
    · rw [if_pos (by omega), getItem_eq_optM]
      have : ((l.length : Int) + (((0 : Nat) : Int) - 1)).toNat = l.length - 1 := by omega
      rw [this]
  · rw [if_neg h0]
    have : (r : Int) - 1 = ((r - 1 : Nat) : Int) := by omega
    rw [this, getIdx_nat]

/-- `L[len(L) - 1]` -/
theorem getIdx_last {β : Type} (l : List β) : Py.getIdx l (Py.len l - 1) = optM l.getLast? := by
  have h := getIdx_pred l l.length
  unfold Py.len
  rw [h, List.getLast?_eq_getElem?]
  unfold Resample.bwdIdx
  by_cases h0 : l.length = 0
  · rw [if_pos h0]
  · rw [if_neg h0]

theorem getItem_zero_eq {β : Type} (l : List β) : Py.getItem l 0 = optM l.head? := by
  cases l <;> rfl

/-! ### observations, errors -/

section
variable {α : Type}

/-- an observation as the translator sees it, the record `(E, N, U, t)`, as the model's `Fix` -/
def toFix (p : α × α × α × α) : Resample.Fix α := ⟨p.1, p.2.1, p.2.2.1, p.2.2.2⟩
def ofFix (p : Resample.Fix α) : α × α × α × α := (p.x, p.y, p.z, p.t)
@[simp] theorem ofFix_toFix (p : α × α × α × α) : ofFix (toFix p) = p := rfl
@[simp] theorem toFix_ofFix (p : Resample.Fix α) : toFix (ofFix p) = p := rfl
@[simp] theorem toFix_t (p : α × α × α × α) : (toFix p).t = p.2.2.2 := rfl

/-- the model's exceptions as the translator's: `nonterm` (the `while 1` loop never ends) is "out of fuel for every fuel" -/
def liftErr : Resample.Err → Py.Err
  | .index => .index
  | .zerodiv => .zerodiv
  | .nonterm => .fuel
  | .type => .type

/-- a result of the model (a track) as a result of the translated function -/
def lift : Except Resample.Err (List (Resample.Fix α)) → Py.M (List (α × α × α × α))
  | .ok l => .ok (l.map ofFix)
  | .error e => .error (liftErr e)

/-- a result of the model's `prepareTimes` (a list of instants) as a result of the translated `prepareTimeSampling` -/
def liftT : Except Resample.Err (List α) → Py.M (List α)
  | .ok l => .ok l
  | .error e => .error (liftErr e)

theorem map_toFix_t (l : List (α × α × α × α)) : (l.map toFix).map (·.t) = l.map (·.2.2.2) := by
  rw [List.map_map]; rfl

end

/-! ### the pieces of the loop body: weights, bracket, scan, rewind -/

section
variable {α : Type} [Add α] [Sub α] [Mul α] [Div α] [LT α] [LE α] [DecidableLT α] [DecidableLE α]
  [OfNat α 0] [NatCast α]

/-- how the model's test "the denominator is not zero" (`den < 0 ∨ 0 < den`) relates to Python's `den == 0` (`Py.feq den 0`,
i.e. `den ≤ 0 ∧ 0 ≤ den`): true in every ordered field and for every double that is not NaN -/
def Tri (den : α) : Prop := (den < 0 ∨ 0 < den) ↔ ¬ (den ≤ 0 ∧ 0 ≤ den)

/-- the two divisions `wbwd = (vf - v) / (vf - vb)`, `wfwd = (v - vb) / (vf - vb)` are the model's `weights` -/
theorem weights_tie {γ : Type} (vb vf v : α) (htri : Tri (vf - vb)) (K : α → α → M γ) :
    Py.bind (Py.fdiv (vf - v) (vf - vb)) (fun wb => Py.bind (Py.fdiv (v - vb) (vf - vb)) (fun wf => K wb wf)) =
      match Resample.weights vb vf v with
      | .ok (wb, wf) => K wb wf
      | .error e => .error (liftErr e) := by
  unfold Resample.weights Py.fdiv Py.feq
  simp only []
  by_cases hd : (vf - vb < 0 ∨ 0 < vf - vb)
  · have hn := htri.mp hd
    rw [if_pos hd]
    have : (decide (vf - vb ≤ 0) && decide (0 ≤ vf - vb)) = false := by
      simpa only [Bool.and_eq_false_imp, decide_eq_true_eq, decide_eq_false_iff_not, not_and] using hn
    simp only [this, Bool.false_eq_true, if_false, Py.bind_ok]
  · have hn : (vf - vb ≤ 0 ∧ 0 ≤ vf - vb) := Decidable.of_not_not (fun h => hd (htri.mpr h))
    rw [if_neg hd]
    have : (decide (vf - vb ≤ 0) && decide (0 ≤ vf - vb)) = true := by
      simp only [Bool.and_eq_true, decide_eq_true_eq]; exact hn
    simp only [this, if_true, Py.bind_error]
    rfl

/-- the six reads/divisions after the scan — `pt_bwd = track.getObs(r-1); pt_fwd = track.getObs(r); vb = V[r-1]; vf = V[r]` and the two
weights — are the model's `bracket` (for ANY table `V`: the temporal loop uses the instants, the spatial loop the abscissas) -/
theorem bracket_tie {γ : Type} (track : List (α × α × α × α)) (V : List α) (v : α) (r : Nat)
    (htri : ∀ vb ∈ V, ∀ vf ∈ V, Tri (vf - vb)) (K : α × α × α × α → α × α × α × α → α → α → M γ) :
    Py.bind (Py.getIdx track ((r : Int) - 1)) (fun pb => Py.bind (Py.getIdx track (r : Int)) (fun pf =>
      Py.bind (Py.getIdx V ((r : Int) - 1)) (fun vb => Py.bind (Py.getIdx V (r : Int)) (fun vf =>
        Py.bind (Py.fdiv (vf - v) (vf - vb)) (fun wb => Py.bind (Py.fdiv (v - vb) (vf - vb)) (fun wf => K pb pf wb wf)))))) =
      match Resample.bracket (track.map toFix) V v r with
      | .ok (pb, pf, wb, wf) => K (ofFix pb) (ofFix pf) wb wf
      | .error e => .error (liftErr e) := by
  rw [getIdx_pred, getIdx_nat]
  unfold Resample.bracket
  rw [List.length_map, List.getElem?_map, List.getElem?_map]
  cases h1 : track[Resample.bwdIdx r track.length]? with
  | none => rfl
  | some pb =>
    cases h2 : track[r]? with
    | none => rfl
    | some pf =>
      simp only [optM, Py.bind_ok, Option.map_some]
      rw [getIdx_pred, getIdx_nat]
      cases h3 : V[Resample.bwdIdx r V.length]? with
      | none => rfl
      | some vb =>
        cases h4 : V[r]? with
        | none => rfl
        | some vf =>
          simp only [optM, Py.bind_ok]
          rw [weights_tie vb vf v (htri vb (List.mem_of_getElem? h3) vf (List.mem_of_getElem? h4))]
          cases Resample.weights vb vf v with
          | error e => rfl
          | ok w => rfl

/-- `while V[running_id] < v: running_id += 1` against the model's `advance`: `IndexError` past the end; the loop needs
`len(V) - running_id + 1` evaluations of its body at most -/
theorem scan_tie {ρ : Type} (V : List α) (v : α) (body : Int → M (Ctl Int ρ))
    (h : ∀ r : Nat, body (r : Int) = Py.bind (Py.getIdx V (r : Int)) (fun w =>
      if w < v then .ok (.cont ((r : Int) + 1)) else .ok (.brk (r : Int))))
    (n : Nat) (fuel r : Nat) (hn : V.length ≤ r + n) (hfuel : n + 1 ≤ fuel) :
    Py.whileLoop body fuel (r : Int) =
      match Resample.advance V v r with
      | some r1 => .ok (.done (r1 : Int))
      | none => .error .index := by
  unfold Resample.advance
  induction n generalizing fuel r with
  | zero =>
    obtain ⟨f, rfl⟩ : ∃ f, fuel = f + 1 := ⟨fuel - 1, by omega⟩
    have hd : V.drop r = [] := List.drop_eq_nil_iff.mpr (by omega)
    have hg : V[r]? = none := by rw [List.getElem?_eq_none]; omega
    rw [hd, Py.whileLoop_succ, h, getIdx_nat, hg]
    rfl
  | succ n ih =>
    obtain ⟨f, rfl⟩ : ∃ f, fuel = f + 1 := ⟨fuel - 1, by omega⟩
    by_cases hr : r < V.length
    · have hd : V.drop r = V[r] :: V.drop (r + 1) := List.drop_eq_getElem_cons hr
      have hg : V[r]? = some V[r] := List.getElem?_eq_getElem hr
      rw [hd, Py.whileLoop_succ, h, getIdx_nat, hg, Resample.scan]
      simp only [optM, Py.bind_ok]
      by_cases hc : V[r] < v
      · rw [if_pos hc, if_pos hc]
        have := ih f (r + 1) (by omega) (by omega)
        rw [Int.natCast_add, Int.natCast_one] at this
        exact this
      · rw [if_neg hc, if_neg hc]
    · have hd : V.drop r = [] := List.drop_eq_nil_iff.mpr (by omega)
      have hg : V[r]? = none := by rw [List.getElem?_eq_none]; omega
      rw [hd, Py.whileLoop_succ, h, getIdx_nat, hg]
      rfl

/-- `if running_id > 0 and T[running_id - 1] >= t: running_id = 0` (translated with a join) against the model's `rewind` -/
theorem rewind_tie {γ : Type} (T : List α) (t : α) (r : Nat) (K : Int → M γ) :
    Py.bind (if decide ((0 : Int) < (r : Int)) then Py.bind (Py.getIdx T ((r : Int) - 1)) (fun w => .ok (decide (t ≤ w))) else .ok false)
      (fun c => Py.bind (if c then .ok (0 : Int) else .ok (r : Int)) K) =
      match Resample.rewind T t r with
      | some r0 => K (r0 : Int)
      | none => .error .index := by
  unfold Resample.rewind
  by_cases h0 : r = 0
  · subst h0
    simp only [Int.natCast_zero, Int.lt_irrefl, decide_false, Bool.false_eq_true, if_false, Py.bind_ok, if_true]
  · have hp : (0 : Int) < (r : Int) := by omega
    rw [if_neg h0]
    simp only [hp, decide_true, if_true]
    have : (r : Int) - 1 = ((r - 1 : Nat) : Int) := by omega
    rw [this, getIdx_nat]
    cases T[r - 1]? with
    | none => rfl
    | some w =>
      simp only [optM, Py.bind_ok]
      by_cases hc : t ≤ w
      · simp only [hc, decide_true, if_true, Py.bind_ok, Int.natCast_zero]
      · simp only [hc, decide_false, Bool.false_eq_true, if_false, Py.bind_ok]

end

/-! ### `prepareTimeSampling` -/

section
variable {α : Type} [Add α] [Sub α] [Mul α] [Div α] [LT α] [LE α] [DecidableLT α] [DecidableLE α]
  [OfNat α 0] [NatCast α]

/-- the `while 1: output.append(time); time += δ; if time > tfin: break` loop against `prepareNumber`, SAME fuel: the accumulated
prefix `out` in front of the model's list; out of fuel exactly when the model's loop is (`none`) -/
theorem prepareLoop_tie {ρ : Type} (δ tfin : α) (body : List α × α → M (Ctl (List α × α) ρ))
    (h : ∀ out time, body (out, time) =
      if tfin < time + δ then .ok (.brk (out ++ [time], time + δ)) else .ok (.cont (out ++ [time], time + δ)))
    (fin : Out (List α × α) ρ → M (List α)) (hfin : ∀ s, fin (.done s) = .ok s.1)
    (fuel : Nat) (out : List α) (time : α) :
    Py.bind (Py.whileLoop body fuel (out, time)) fin =
      match Resample.prepareNumber δ tfin fuel time with
      | some l => .ok (out ++ l)
      | none => .error .fuel := by
  induction fuel generalizing out time with
  | zero => rfl
  | succ f ih =>
    rw [Py.whileLoop_succ, h, Resample.prepareNumber]
    by_cases hc : tfin < time + δ
    · simp only [hc, if_true, Py.bind_ok, hfin]
    · simp only [hc, if_false]
      rw [ih]
      cases Resample.prepareNumber δ tfin f (time + δ) with
      | none => rfl
      | some l => simp only [List.append_assoc, List.singleton_append]

/-- **`prepareTimeSampling(δ, tini, tfin)`, `δ` a number, every fuel**: the translated function run with `fuel` returns the list of
the model's `prepareNumber` run with the SAME fuel, and is out of fuel exactly when the model's loop is. No hypothesis. -/
theorem tie_prepareTimeSampling_number_fuel (fuel : Nat) (δ tini tfin : α) :
    Gen.Interpolation.prepareTimeSampling_number fuel δ tini tfin =
      match Resample.prepareNumber δ tfin fuel tini with
      | some l => .ok l
      | none => .error .fuel := by
  unfold Gen.Interpolation.prepareTimeSampling_number
  simp only []
  have hw : ∀ (body : List α × α → M (Ctl (List α × α) (List α))) (fin : Out (List α × α) (List α) → M (List α)), _ → _ →
      Py.bind (Py.whileLoop body fuel ([], tini)) fin = _ :=
    fun body fin h hfin => prepareLoop_tie δ tfin body h fin hfin fuel [] tini
  rw [hw _ _ ?spec ?specfin]
  case spec =>
    intro out time
    by_cases hc : tfin < time + δ
    · simp only [hc, decide_true, if_true]
    · simp only [hc, decide_false, Bool.false_eq_true, if_false]
  case specfin => intro s; rfl
  cases Resample.prepareNumber δ tfin fuel tini <;> simp only [List.nil_append]

theorem prepareNumber_mono (δ tfin : α) (f g : Nat) (time : α) (l : List α) (hfg : f ≤ g)
    (h : Resample.prepareNumber δ tfin f time = some l) : Resample.prepareNumber δ tfin g time = some l := by
  induction f generalizing g time l with
  | zero => exact nomatch h
  | succ f ih =>
    cases g with
    | zero => omega
    | succ g =>
      rw [Resample.prepareNumber] at h ⊢
      by_cases hc : tfin < time + δ
      · simp only [hc, if_true] at h ⊢; exact h
      · simp only [hc, if_false] at h ⊢
        cases hp : Resample.prepareNumber δ tfin f (time + δ) with
        | none => rw [hp] at h; exact nomatch h
        | some l' => rw [hp] at h; rw [ih g _ l' (by omega) hp]; exact h

/-- a step that never carries an instant `≤ tfin` past `tfin` (every non-positive step of an ordered field; every non-positive or NaN
double step) keeps the `while 1` loop running for ever: the model's `prepareNumber` is `none` for every fuel -/
theorem prepareNumber_none (δ tfin : α) (hstay : ∀ x : α, ¬ tfin < x → ¬ tfin < x + δ) (f : Nat) (time : α) (h0 : ¬ tfin < time) :
    Resample.prepareNumber δ tfin f time = none := by
  induction f generalizing time with
  | zero => rfl
  | succ f ih =>
    rw [Resample.prepareNumber, if_neg (hstay time h0), ih _ (hstay time h0)]

/-- **`prepareTimeSampling(δ, tini, tfin)`, `δ` a number**: whenever the model `prepareTimes` returns a list (the step is positive and the
model's own fuel `int((tfin - tini)/δ) + 2` is enough for its loop), the translated function returns that list for EVERY fuel at least
the model's. -/
theorem tie_prepareTimeSampling_number (trunc : α → Int) (fuel : Nat) (δ tini tfin : α)
    (hmodel : Resample.prepareTimes trunc (.number δ) tini tfin ≠ .error .nonterm)
    (hfuel : (trunc ((tfin - tini) / δ)).toNat + 2 ≤ fuel) :
    Gen.Interpolation.prepareTimeSampling_number fuel δ tini tfin = liftT (Resample.prepareTimes trunc (.number δ) tini tfin) := by
  rw [tie_prepareTimeSampling_number_fuel]
  unfold Resample.prepareTimes at hmodel ⊢
  simp only [] at hmodel ⊢
  by_cases hδ : 0 < δ
  · rw [if_pos hδ] at hmodel ⊢
    cases hp : Resample.prepareNumber δ tfin ((trunc ((tfin - tini) / δ)).toNat + 2) tini with
    | none => rw [hp] at hmodel; exact absurd rfl hmodel
    | some l => rw [prepareNumber_mono δ tfin _ fuel tini l hfuel hp]; rfl
  · rw [if_neg hδ] at hmodel; exact absurd rfl hmodel

/-- **`prepareTimeSampling(δ, tini, tfin)`, a step that is not positive**: the model says "never ends" (`nonterm`); the translated
function is out of fuel for EVERY fuel (it never returns), provided `tini ≤ tfin` in the sense `¬ tfin < tini` and the step never
carries an instant past `tfin` (`hstay`: true for every `δ ≤ 0` of an ordered field, for every double `δ ≤ 0` and for NaN).
Without `¬ tfin < tini` the equality is FALSE (a track whose last stamp is before its first: the Python loop stops after one round
and returns `[tini]`, the model says `nonterm`). -/
theorem tie_prepareTimeSampling_number_nonpos (trunc : α → Int) (fuel : Nat) (δ tini tfin : α) (hδ : ¬ 0 < δ)
    (h0 : ¬ tfin < tini) (hstay : ∀ x : α, ¬ tfin < x → ¬ tfin < x + δ) :
    Gen.Interpolation.prepareTimeSampling_number fuel δ tini tfin = liftT (Resample.prepareTimes trunc (.number δ) tini tfin) := by
  rw [tie_prepareTimeSampling_number_fuel, prepareNumber_none δ tfin hstay fuel tini h0]
  unfold Resample.prepareTimes
  simp only []
  rw [if_neg hδ]; rfl

/-- **`prepareTimeSampling(l, tini, tfin)`, `l` a list of `ObsTime`** (seen through `toAbsTime()`): the list itself, as in the model -/
theorem tie_prepareTimeSampling_list (trunc : α → Int) (l : List α) (tini tfin : α) :
    Gen.Interpolation.prepareTimeSampling_list l tini tfin = liftT (Resample.prepareTimes trunc (.instants l) tini tfin) := by
  unfold Gen.Interpolation.prepareTimeSampling_list
  simp only []
  have hc : ∀ (body : Int → List α → M (Ctl (List α) (List α))), _ → Py.forList body (Py.range 0 (Py.len l)) [] = _ :=
    fun body h => forList_collect l (fun v => v) body h
  rw [hc _ (fun i s => rfl), List.map_id']
  rfl

/-- **`prepareTimeSampling(Q, tini, tfin)`, `Q` a track**: the instants of its observations, as in the model -/
theorem tie_prepareTimeSampling_track (trunc : α → Int) (Q : List (α × α × α × α)) (tini tfin : α) :
    Gen.Interpolation.prepareTimeSampling_track Q tini tfin =
      liftT (Resample.prepareTimes trunc (.track (Q.map toFix)) tini tfin) := by
  unfold Gen.Interpolation.prepareTimeSampling_track
  simp only []
  have hc : ∀ (body : Int → List α → M (Ctl (List α) (List α))), _ → Py.forList body (Py.range 0 (Py.len Q)) [] = _ :=
    fun body h => forList_collect Q (fun v => v.2.2.2) body h
  rw [hc _ (fun i s => rfl)]
  unfold Resample.prepareTimes
  simp only [map_toFix_t]
  rfl

end

end TV.Tie.C05
