import TracklibVerif.Model.Raster
import TracklibVerif.Gen.Raster
/-! Tie for C19: `Raster.getCell` translated from the CURRENT `tracklib/core/raster.py` equals the model's
`TV.Raster.getCell`.

Hypotheses (all true of Python's floats and of an ordered field with its floor): `hbeq` — the model's `BEq` instance
is Python's `==` on numbers; `htr` — `int(v)` (truncation, the parameter `trunc`) is `math.floor(v)` whenever
`v.is_integer()` (the model writes `floor` where the code, under that guard, writes `int`); `hrx`, `hry` — the
resolution is not `== 0` (the model divides with the plain `/`, the code would raise `ZeroDivisionError`). -/
namespace TV.Tie.C19
open TV TV.Py
set_option linter.unusedSectionVars false
set_option linter.unusedSimpArgs false
section
variable {α : Type} [Add α] [Sub α] [Mul α] [Div α] [OfNat α 0] [OfNat α 1] [OfNat α 2] [IntCast α] [NatCast α]
  [LT α] [DecidableLT α] [LE α] [DecidableLE α] [BEq α]

/-- `Raster.getCell(coord)` is the model's `getCell` (column, line), `None` outside the extent -/
theorem tie_getCell (floor trunc : α → Int) (g : Raster.Grid α) (x y : α)
    (hbeq : ∀ a b : α, (a == b) = Py.feq a b)
    (htr : ∀ v : α, Py.isInteger floor v = true → trunc v = floor v)
    (hrx : ¬ Py.feq g.rx 0 = true) (hry : ¬ Py.feq g.ry 0 = true) :
    Gen.Raster.Raster_getCell floor trunc g.xmin g.xmax g.ymin g.ymax (g.rx, g.ry) g.nrow g.ncol x y
      = .ok (Raster.getCell floor g x y) := by
  simp only [Gen.Raster.Raster_getCell, Raster.getCell, Py.fdiv, ite_neg' hrx, ite_neg' hry, bind_ok, hbeq]
  by_cases h1 : x < g.xmin
  · simp [h1]
  · by_cases h2 : g.xmax < x
    · simp [h2]
    · by_cases h3 : y < g.ymin
      · simp [h1, h2, h3]
      · by_cases h4 : g.ymax < y
        · simp [h1, h2, h4]
        · simp only [h1, h2, h3, h4, decide_false, Bool.or_false, Bool.false_eq_true, ite_false, or_self, if_false]
          generalize (x - g.xmin) / g.rx = idx
          generalize ((g.nrow - 1 : Int) : α) - (y - g.ymin) / g.ry = idy
          have hI : Py.feq ((floor idy : Int) : α) idy = Py.isInteger floor idy := rfl
          by_cases hi : Py.isInteger floor idy = true
          · rw [htr idy hi, hI, hi]
            by_cases hc : Py.feq idx ((g.ncol : Int) : α) = true <;> by_cases hp : floor idy > -1 <;> by_cases hm : floor idy = -1 <;>
              simp [hc, hp, hm]
          · rw [hI]
            have hi' : Py.isInteger floor idy = false := by simpa using hi
            by_cases hc : Py.feq idx ((g.ncol : Int) : α) = true <;> simp [hc, hi']
end

end TV.Tie.C19
