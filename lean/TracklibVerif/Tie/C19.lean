import TracklibVerif.Model.Raster
import TracklibVerif.Gen.Raster
import TracklibVerif.Gen.Utils
/-! Tie for C19: `Raster.getCell` translated from the CURRENT `tracklib/core/raster.py` equals the model's
`TV.Raster.getCell`.

Hypotheses (all true of Python's floats and of an ordered field with its floor): `hbeq` — the model's `BEq` instance
is Python's `==` on numbers; `htr` — `int(v)` (truncation, the parameter `trunc`) is `math.floor(v)` whenever
`v.is_integer()` (the model writes `floor` where the code, under that guard, writes `int`); `hrx`, `hry` — the
resolution is not `== 0` (the model divides with the plain `/`, the code would raise `ZeroDivisionError`). -/
namespace TV.Tie.C19
open TV TV.Py
set_option linter.unusedSectionVars false
set_option linter.unusedSimpArgs false
section
variable {α : Type} [Add α] [Sub α] [Mul α] [Div α] [OfNat α 0] [OfNat α 1] [OfNat α 2] [IntCast α] [NatCast α]
  [LT α] [DecidableLT α] [LE α] [DecidableLE α] [BEq α]

/-- `Raster.getCell(coord)` is the model's `getCell` (column, line), `None` outside the extent -/
theorem tie_getCell (floor trunc : α → Int) (g : Raster.Grid α) (x y : α)
    (hbeq : ∀ a b : α, (a == b) = Py.feq a b)
    (htr : ∀ v : α, Py.isInteger floor v = true → trunc v = floor v)
    (hrx : ¬ Py.feq g.rx 0 = true) (hry : ¬ Py.feq g.ry 0 = true) :
    Gen.Raster.Raster_getCell floor trunc g.xmin g.xmax g.ymin g.ymax (g.rx, g.ry) g.nrow g.ncol x y
      = .ok (Raster.getCell floor g x y) := by
  simp only [Gen.Raster.Raster_getCell, Raster.getCell, Py.fdiv, ite_neg' hrx, ite_neg' hry, bind_ok, hbeq]
  by_cases h1 : x < g.xmin
  · simp [h1]
  · by_cases h2 : g.xmax < x
    · simp [h2]
    · by_cases h3 : y < g.ymin
      · simp [h1, h2, h3]
      · by_cases h4 : g.ymax < y
        · simp [h1, h2, h4]
        · simp only [h1, h2, h3, h4, decide_false, Bool.or_false, Bool.false_eq_true, ite_false, or_self, if_false]
          generalize (x - g.xmin) / g.rx = idx
          generalize ((g.nrow - 1 : Int) : α) - (y - g.ymin) / g.ry = idy
          have hI : Py.feq ((floor idy : Int) : α) idy = Py.isInteger floor idy := rfl
          by_cases hi : Py.isInteger floor idy = true
          · rw [htr idy hi, hI, hi]
            by_cases hc : Py.feq idx ((g.ncol : Int) : α) = true <;> by_cases hp : floor idy > -1 <;> by_cases hm : floor idy = -1 <;>
              simp [hc, hp, hm]
          · rw [hI]
            have hi' : Py.isInteger floor idy = false := by simpa using hi
            by_cases hc : Py.feq idx ((g.ncol : Int) : α) = true <;> simp [hc, hi']
end

/-! ## The cell operators of `core/utils.py` (`co_sum`, `co_min`, `co_max`, `co_count`, `co_avg`, `co_median`)

The generated definitions `Gen.Utils.co_*` are polymorphic in the scalar and test NaN by `isnan x = !(x == x)`. The model
(`Model/Raster.lean`) represents the values of a cell as a `List (Option α)`, `none` standing for NaN. The ties instantiate
the generated definitions at the NaN-EXTENDED scalar `Nan α` (`Option α` with IEEE-like operations: arithmetic with a NaN
operand is NaN, every comparison with a NaN operand is false), so that `isnan none = true` and, for `a ≤ a`,
`isnan (some a) = false`; the result of the code is then the model's value on ALL lists (no exception is raised).
Common hypothesis `hle : ∀ x : α, x ≤ x`: `α` is the NON-NaN part of the scalar (true of the non-NaN doubles and of an
ordered field). -/

/-- GENERAL (could live in the prelude): `for i in range(len(l)): v = l[i]; f v` is `for v in l: f v`, for every body
that starts by reading `l[i]` and does not use `i` otherwise -/
theorem forList_range_getIdx_aux {β σ ρ : Type} (l : List β) (f : β → σ → M (Ctl σ ρ)) (body : Int → σ → M (Ctl σ ρ))
    (h : ∀ i s, body i s = Py.bind (Py.getIdx l i) (fun v => f v s)) (suf pre : List β) (hl : l = pre ++ suf) (s : σ) :
    Py.forList body (Py.range (pre.length : Int) (Py.len l)) s = Py.forList f suf s := by
  induction suf generalizing pre s with
  | nil =>
    rw [Py.range_empty (by subst hl; simp [Py.len])]; rfl
  | cons x xs ih =>
    have hlt : (pre.length : Int) < Py.len l := by subst hl; simp [Py.len]; omega
    have hget : l[pre.length]? = some x := by subst hl; simp
    rw [Py.range_cons hlt, Py.forList_cons, Py.forList_cons, h, Py.getIdx_natCast, Py.getItem_eq_ok hget, Py.bind_ok]
    cases hb : f x s with
    | error e => rfl
    | ok c =>
      cases c with
      | cont s1 =>
        have := ih (pre ++ [x]) (by rw [hl]; simp) s1
        simp only [List.length_append, List.length_cons, List.length_nil, Int.natCast_add] at this
        exact this
      | brk s1 => rfl
      | ret r => rfl

/-- GENERAL (could live in the prelude): `for i in range(len(l)): v = l[i]; …` is the loop over the elements of `l` -/
theorem forList_range_getIdx {β σ ρ : Type} (l : List β) (f : β → σ → M (Ctl σ ρ)) (body : Int → σ → M (Ctl σ ρ))
    (h : ∀ i s, body i s = Py.bind (Py.getIdx l i) (fun v => f v s)) (s : σ) :
    Py.forList body (Py.range 0 (Py.len l)) s = Py.forList f l s :=
  forList_range_getIdx_aux l f body h l [] rfl s

/-- the scalar `α` extended with one NaN (`none`): arithmetic with a NaN operand is NaN, every comparison with a NaN
operand is false -/
def Nan (α : Type) := Option α

namespace Nan
variable {α : Type}
def lift2 (f : α → α → α) : Nan α → Nan α → Nan α
  | some x, some y => some (f x y)
  | some _, none => none
  | none, _ => none
def rel (r : α → α → Prop) : Nan α → Nan α → Prop
  | some x, some y => r x y
  | some _, none => False
  | none, _ => False
def decRel (r : α → α → Prop) [d : ∀ a b, Decidable (r a b)] : ∀ a b, Decidable (rel r a b)
  | some x, some y => d x y
  | some _, none => isFalse (fun h => h)
  | none, _ => isFalse (fun h => h)
instance [Add α] : Add (Nan α) := ⟨lift2 (· + ·)⟩
instance [Sub α] : Sub (Nan α) := ⟨lift2 (· - ·)⟩
instance [Mul α] : Mul (Nan α) := ⟨lift2 (· * ·)⟩
instance [Div α] : Div (Nan α) := ⟨lift2 (· / ·)⟩
instance [LE α] : LE (Nan α) := ⟨rel (· ≤ ·)⟩
instance [LT α] : LT (Nan α) := ⟨rel (· < ·)⟩
instance [LE α] [d : DecidableLE α] : DecidableLE (Nan α) := decRel (· ≤ ·) (d := d)
instance [LT α] [d : DecidableLT α] : DecidableLT (Nan α) := decRel (· < ·) (d := d)
instance {n : Nat} [OfNat α n] : OfNat (Nan α) n := ⟨some (OfNat.ofNat n)⟩
instance [IntCast α] : IntCast (Nan α) := ⟨fun k => some (k : α)⟩
instance [OfScientific α] : OfScientific (Nan α) := ⟨fun m s e => some (OfScientific.ofScientific m s e)⟩

/-- `some a` / `none` with the type `Nan α` (for the elaborator; they unfold reducibly) -/
abbrev num (a : α) : Nan α := Option.some a
abbrev nan : Nan α := Option.none
@[elab_as_elim] theorem casesOn' {motive : Nan α → Prop} (v : Nan α) (nan : motive nan) (num : ∀ a, motive (num a)) : motive v :=
  match v with
  | none => nan
  | some a => num a
theorem feq_num [LE α] [DecidableLE α] (a b : α) : Py.feq (num a) (num b) = Py.feq a b := rfl
theorem feq_nan_left [LE α] [DecidableLE α] (b : Nan α) : Py.feq nan b = false := rfl
theorem isnan_nan [LE α] [DecidableLE α] : Gen.Utils.isnan (nan : Nan α) = .ok true := rfl
theorem isnan_num [LE α] [DecidableLE α] (a : α) (h : a ≤ a) : Gen.Utils.isnan (num a) = .ok false := by
  show Except.ok (!(decide (a ≤ a) && decide (a ≤ a))) = _
  simp [h]
theorem lt_num [LT α] [DecidableLT α] (a b : α) : decide (num a < num b) = decide (a < b) := rfl
theorem le_num [LE α] [DecidableLE α] (a b : α) : decide (num a ≤ num b) = decide (a ≤ b) := rfl
theorem zero_eq [OfNat α 0] : (0 : Nan α) = num 0 := rfl
theorem add_num [Add α] (a b : α) : num a + num b = num (a + b) := rfl
end Nan

/-- GENERAL (could live in the prelude): a `for i in range(len(l)): val = l[i]; …` loop whose body always ends normally is a left fold over `l` -/
theorem forList_range_getIdx_foldl {β σ ρ : Type} (l : List β) (step : σ → β → σ) (body : Int → σ → M (Ctl σ ρ))
    (h : ∀ i s, body i s = Py.bind (Py.getIdx l i) (fun v => .ok (.cont (step s v)))) (s : σ) :
    Py.forList body (Py.range 0 (Py.len l)) s = .ok (.done (l.foldl step s)) := by
  rw [forList_range_getIdx l (fun v s => .ok (.cont (step s v))) body h s]
  exact Py.forList_eq_foldl _ step l s (fun _ _ _ => rfl)

section
variable {α : Type}
open Nan

/-- `co_sum(tarray)` on a list with NaNs is `some (coSum l)` (never NaN, never an exception).
Hypothesis: `hle` — `≤` is reflexive on the non-NaN scalars. -/
theorem tie_co_sum [Add α] [OfNat α 0] [LE α] [DecidableLE α] (l : List (Option α)) (hle : ∀ x : α, x ≤ x) :
    Gen.Utils.co_sum (α := Nan α) l = .ok (some (Raster.coSum l)) := by
  revert l; intro (l : List (Nan α))
  unfold Gen.Utils.co_sum
  simp only []
  have h1 : ∀ body : Int → Nan α → Py.M (Py.Ctl (Nan α) (Nan α)), _ → Py.forList body (Py.range 0 (Py.len l)) 0 = _ :=
    fun body h => forList_range_getIdx_foldl l
      (fun (t : Nan α) (v : Nan α) => match v with | none => t | some a => t + num a) body h 0
  rw [h1 _ ?spec]
  case spec =>
    intro i s
    cases Py.getIdx l i with
    | error e => rfl
    | ok v =>
      cases v using Nan.casesOn' with
      | nan => simp only [Nan.isnan_nan, Py.bind_ok, if_true]
      | num a => simp only [Nan.isnan_num a (hle a), Py.bind_ok, Bool.false_eq_true, if_false]
  simp only [Py.bind_ok]
  unfold Raster.coSum
  show Except.ok (List.foldl _ (num 0) l) = _
  rw [List.foldl_hom (f := (num : α → Nan α)) (g₁ := fun s (v : Nan α) => match v with | none => s | some a => s + a)]
  · rfl
  · intro x y; cases y using Nan.casesOn' <;> rfl


/-- `co_min(tarray)` is the model's `coMin` (`none` = the function returns NaN: empty list or only NaNs).
Hypothesis: `hle` — `≤` is reflexive on the non-NaN scalars. -/
theorem tie_co_min [LT α] [DecidableLT α] [LE α] [DecidableLE α] (l : List (Option α)) (hle : ∀ x : α, x ≤ x) :
    Gen.Utils.co_min (α := Nan α) (nan := none) l = .ok (Raster.coMin l) := by
  revert l; intro (l : List (Nan α))
  unfold Gen.Utils.co_min
  simp only []
  have h1 : ∀ body : Int → Nan α → Py.M (Py.Ctl (Nan α) (Nan α)), _ → Py.forList body (Py.range 0 (Py.len l)) nan = _ :=
    fun body h => forList_range_getIdx_foldl l
      (fun (m : Nan α) (v : Nan α) => match v with
        | none => m
        | some a => match m with
          | none => num a
          | some b => if a < b then num a else num b) body h nan
  rw [h1 _ ?spec]
  case spec =>
    intro i s
    cases Py.getIdx l i with
    | error e => rfl
    | ok v =>
      cases v using Nan.casesOn' with
      | nan => simp only [Nan.isnan_nan, Py.bind_ok, if_true]
      | num a =>
        simp only [Nan.isnan_num a (hle a), Py.bind_ok, Bool.false_eq_true, if_false]
        cases s using Nan.casesOn' with
        | nan => simp only [Nan.isnan_nan, Py.bind_ok, Bool.true_or, if_true]
        | num b =>
          simp only [Nan.isnan_num b (hle b), Py.bind_ok, Bool.false_or, Nan.lt_num, decide_eq_true_eq]
          by_cases hab : a < b
          · simp only [hab, if_true]
          · simp only [hab, if_false]
  simp only [Py.bind_ok]
  by_cases h0 : Py.len l ≤ 0
  · have : l = [] := by
      cases l with
      | nil => rfl
      | cons x xs => simp [Py.len] at h0; omega
    subst this; rfl
  · simp only [h0, decide_false, Bool.false_eq_true, if_false]
    rfl


/-- `co_max(tarray)` is the model's `coMax` (`none` = NaN). Hypothesis: `hle`. -/
theorem tie_co_max [LT α] [DecidableLT α] [LE α] [DecidableLE α] (l : List (Option α)) (hle : ∀ x : α, x ≤ x) :
    Gen.Utils.co_max (α := Nan α) (nan := none) l = .ok (Raster.coMax l) := by
  revert l; intro (l : List (Nan α))
  unfold Gen.Utils.co_max
  simp only []
  have h1 : ∀ body : Int → Nan α → Py.M (Py.Ctl (Nan α) (Nan α)), _ → Py.forList body (Py.range 0 (Py.len l)) nan = _ :=
    fun body h => forList_range_getIdx_foldl l
      (fun (m : Nan α) (v : Nan α) => match v with
        | none => m
        | some a => match m with
          | none => num a
          | some b => if b < a then num a else num b) body h nan
  rw [h1 _ ?spec]
  case spec =>
    intro i s
    cases Py.getIdx l i with
    | error e => rfl
    | ok v =>
      cases v using Nan.casesOn' with
      | nan => simp only [Nan.isnan_nan, Py.bind_ok, if_true]
      | num a =>
        simp only [Nan.isnan_num a (hle a), Py.bind_ok, Bool.false_eq_true, if_false]
        cases s using Nan.casesOn' with
        | nan => simp only [Nan.isnan_nan, Py.bind_ok, Bool.true_or, if_true]
        | num b =>
          simp only [Nan.isnan_num b (hle b), Py.bind_ok, Bool.false_or, Nan.lt_num, decide_eq_true_eq]
          by_cases hab : b < a
          · simp only [hab, if_true]
          · simp only [hab, if_false]
  simp only [Py.bind_ok]
  by_cases h0 : Py.len l ≤ 0
  · have : l = [] := by
      cases l with
      | nil => rfl
      | cons x xs => simp [Py.len] at h0; omega
    subst this; rfl
  · simp only [h0, decide_false, Bool.false_eq_true, if_false]
    rfl

/-- the counting fold is `coCount` -/
theorem foldl_count (l : List (Nan α)) (c : Int) :
    l.foldl (fun (c : Int) (v : Nan α) => match v with | none => c | some _ => c + 1) c = c + (Raster.coCount l : Nat) := by
  induction l generalizing c with
  | nil => simp [Raster.coCount]
  | cons x xs ih =>
    cases x using Nan.casesOn' with
    | nan => exact ih c
    | num a =>
      rw [List.foldl_cons]
      show List.foldl _ (c + 1) xs = c + ((Raster.coCount xs + 1 : Nat) : Int)
      rw [ih]; omega

/-- `co_count(tarray)` is the model's `coCount` (number of non-NaN values), as a Python int. Hypothesis: `hle`. -/
theorem tie_co_count [LE α] [DecidableLE α] (l : List (Option α)) (hle : ∀ x : α, x ≤ x) :
    Gen.Utils.co_count (α := Nan α) l = .ok ((Raster.coCount l : Nat) : Int) := by
  revert l; intro (l : List (Nan α))
  unfold Gen.Utils.co_count
  simp only []
  have h1 : ∀ body : Int → Int → Py.M (Py.Ctl Int Int), _ → Py.forList body (Py.range 0 (Py.len l)) 0 = _ :=
    fun body h => forList_range_getIdx_foldl l
      (fun (c : Int) (v : Nan α) => match v with | none => c | some _ => c + 1) body h 0
  rw [h1 _ ?spec]
  case spec =>
    intro i s
    cases Py.getIdx l i with
    | error e => rfl
    | ok v =>
      cases v using Nan.casesOn' with
      | nan => simp only [Nan.isnan_nan, Py.bind_ok, if_true]
      | num a => simp only [Nan.isnan_num a (hle a), Py.bind_ok, Bool.false_eq_true, if_false]
  simp only [Py.bind_ok, foldl_count, Int.zero_add]


/-- the (sum, count) fold of `co_avg` -/
theorem foldl_avg [Add α] (l : List (Nan α)) (s : α) (c : Int) :
    l.foldl (fun (p : Nan α × Int) (v : Nan α) => match v with | none => p | some a => (p.1 + num a, p.2 + 1)) (num s, c)
      = (num (l.foldl (fun s (v : Nan α) => match v with | none => s | some a => s + a) s), c + (Raster.coCount l : Nat)) := by
  induction l generalizing s c with
  | nil => simp [Raster.coCount]
  | cons x xs ih =>
    cases x using Nan.casesOn' with
    | nan => exact ih s c
    | num a =>
      rw [List.foldl_cons, List.foldl_cons]
      show List.foldl _ (num (s + a), c + 1) xs = (_, c + ((Raster.coCount xs + 1 : Nat) : Int))
      rw [ih]; congr 1; omega

/-- `co_avg(tarray)` is the model's `coAvg` (`none` = NaN: empty list or only NaNs); no `ZeroDivisionError`.
Hypotheses: `hle`; `hcast` — converting a non-negative Python int to a float (`IntCast`, what the code does with `count`)
is the model's `NatCast`; `hnz` — a positive count converted to a float is not `== 0` (both true of doubles and of an
ordered field of characteristic 0). -/
theorem tie_co_avg [Add α] [Div α] [OfNat α 0] [IntCast α] [NatCast α] [LE α] [DecidableLE α] (l : List (Option α))
    (hle : ∀ x : α, x ≤ x) (hcast : ∀ n : Nat, ((n : Int) : α) = (n : α))
    (hnz : ∀ n : Nat, n ≠ 0 → ¬ Py.feq (((n : Int) : α)) 0 = true) :
    Gen.Utils.co_avg (α := Nan α) (nan := none) l = .ok (Raster.coAvg l) := by
  revert l; intro (l : List (Nan α))
  unfold Gen.Utils.co_avg
  simp only []
  have h1 : ∀ body : Int → Nan α × Int → Py.M (Py.Ctl (Nan α × Int) (Nan α)), _ → Py.forList body (Py.range 0 (Py.len l)) (num 0, 0) = _ :=
    fun body h => forList_range_getIdx_foldl l
      (fun (p : Nan α × Int) (v : Nan α) => match v with | none => p | some a => (p.1 + num a, p.2 + 1)) body h (num 0, 0)
  rw [Nan.zero_eq, h1 _ ?spec]
  case spec =>
    intro i s
    cases Py.getIdx l i with
    | error e => rfl
    | ok v =>
      cases v using Nan.casesOn' with
      | nan => simp only [Nan.isnan_nan, Py.bind_ok, if_true]
      | num a => simp only [Nan.isnan_num a (hle a), Py.bind_ok, Bool.false_eq_true, if_false]
  simp only [Py.bind_ok, foldl_avg, Int.zero_add]
  unfold Raster.coAvg
  by_cases h0 : Py.len l ≤ 0
  · have : l = [] := by
      cases l with
      | nil => rfl
      | cons x xs => simp [Py.len] at h0; omega
    subst this; rfl
  · have hl : ¬ @List.length (Option α) l = 0 := by
      intro h; apply h0; show ((@List.length (Option α) l : Nat) : Int) ≤ 0; omega
    simp only [h0, decide_false, Bool.false_eq_true, if_false]
    rw [if_neg hl]
    by_cases hc : Raster.coCount l = 0
    · rw [hc]; simp only [Int.natCast_zero, decide_true, if_true]
    · have hc' : ¬ ((Raster.coCount l : Nat) : Int) = 0 := by omega
      simp only [hc', decide_false, Bool.false_eq_true, if_false]
      rw [if_neg hc]
      show Py.bind (if Py.feq (((Raster.coCount l : Nat) : Int) : α) 0 = true then _ else _) _ = _
      rw [if_neg (hnz _ hc)]
      show Except.ok (some (_ / (((Raster.coCount l : Nat) : Int) : α))) = _
      rw [hcast]; rfl

end

/-! ### `co_median` -/
section
variable {α : Type}
open Nan

theorem foldl_nonNaN (l : List (Nan α)) (acc : List (Nan α)) :
    l.foldl (fun (acc : List (Nan α)) (v : Nan α) => match v with | none => acc | some a => acc ++ [num a]) acc
      = acc ++ (Raster.nonNaN l).map num := by
  induction l generalizing acc with
  | nil => show acc = acc ++ List.map num []; simp
  | cons x xs ih =>
    cases x using Nan.casesOn' with
    | nan => exact ih acc
    | num a =>
      rw [List.foldl_cons]
      show List.foldl _ (acc ++ [num a]) xs = acc ++ List.map num (a :: Raster.nonNaN xs)
      rw [ih]; simp

theorem innerMin [LE α] [DecidableLE α] {ρ : Type} (body : Nan α → Nan α → M (Ctl (Nan α) ρ))
    (h : ∀ v m, body (num v) (num m) = .ok (.cont (if v ≤ m then num v else num m))) (arr : List α) (a : α) :
    Py.forList body (arr.map num) (num a) = .ok (.done (num (Raster.lastMin a arr))) := by
  induction arr generalizing a with
  | nil => rfl
  | cons x xs ih =>
    rw [List.map_cons, Py.forList_cons_cont (h x a)]
    by_cases hx : x ≤ a
    · rw [if_pos hx, ih]; simp [Raster.lastMin, hx]
    · rw [if_neg hx, ih]; simp [Raster.lastMin, hx]

theorem lastMin_mem [LE α] [DecidableLE α] (a : α) (l : List α) : Raster.lastMin a l = a ∨ Raster.lastMin a l ∈ l := by
  induction l generalizing a with
  | nil => exact .inl rfl
  | cons x xs ih =>
    have e : Raster.lastMin a (x :: xs) = Raster.lastMin (if x ≤ a then x else a) xs := rfl
    rw [e]
    rcases ih (if x ≤ a then x else a) with h | h
    · rw [h]
      by_cases hx : x ≤ a
      · rw [if_pos hx]; exact .inr List.mem_cons_self
      · rw [if_neg hx]; exact .inl rfl
    · exact .inr (List.mem_cons_of_mem _ h)

theorem removeFirst_erase [LE α] [DecidableLE α] [BEq α] (hbeq : ∀ a b : α, (a == b) = Py.feq a b) (hle : ∀ x : α, x ≤ x)
    (arr : List α) (m : α) (hm : m ∈ arr) :
    Py.removeFirst Py.feq (arr.map num) (num m) = .ok ((arr.erase m).map num) ∧ (arr.erase m).length + 1 = arr.length := by
  induction arr with
  | nil => exact nomatch hm
  | cons x xs ih =>
    rw [List.map_cons, List.erase_cons, hbeq]
    by_cases hx : Py.feq x m = true
    · simp only [Py.removeFirst, Nan.feq_num, hx, if_true, List.length_cons, and_self]
    · have hne : m ≠ x := by
        intro e; subst e; apply hx; simp [Py.feq, hle]
      have hm' : m ∈ xs := by
        rcases List.mem_cons.mp hm with h | h
        · exact absurd h hne
        · exact h
      obtain ⟨h1, h2⟩ := ih hm'
      simp only [Py.removeFirst, Nan.feq_num, hx, h1, List.map_cons, List.length_cons, h2, if_false, Bool.false_eq_true, and_self]


/-- what is left of the array after `k` rounds of the selection sort -/
def selRest [LE α] [DecidableLE α] [BEq α] : Nat → List α → List α
  | 0, l => l
  | _ + 1, [] => []
  | k + 1, a :: r => selRest k ((a :: r).erase (Raster.lastMin a (a :: r)))

theorem lastMin_mem_self [LE α] [DecidableLE α] (a : α) (r : List α) : Raster.lastMin a (a :: r) ∈ a :: r := by
  rcases lastMin_mem a (a :: r) with h | h
  · rw [h]; exact List.mem_cons_self
  · exact h

/-- the selection-sort loop of `co_median` (the loop index is not used by the body) -/
theorem sortLoop [LE α] [DecidableLE α] [BEq α] {ρ : Type} (hbeq : ∀ a b : α, (a == b) = Py.feq a b) (hle : ∀ x : α, x ≤ x)
    (body : Int → List (Nan α) × List (Nan α) → M (Ctl (List (Nan α) × List (Nan α)) ρ))
    (h : ∀ i a r tab, body i ((a :: r).map num, tab) =
      .ok (.cont (((a :: r).erase (Raster.lastMin a (a :: r))).map num, tab ++ [num (Raster.lastMin a (a :: r))])))
    (is : List Int) (arr : List α) (tab : List (Nan α)) (hlen : is.length ≤ arr.length) :
    Py.forList body is (arr.map num, tab)
      = .ok (.done ((selRest is.length arr).map num, tab ++ (Raster.selSort is.length arr).map num)) := by
  induction is generalizing arr tab with
  | nil => simp [selRest, Raster.selSort]
  | cons i is ih =>
    cases arr with
    | nil => simp at hlen
    | cons a r =>
      rw [Py.forList_cons_cont (h i a r tab)]
      have hl := (removeFirst_erase hbeq hle (a :: r) _ (lastMin_mem_self a r)).2
      rw [ih _ _ (by simp only [List.length_cons] at hlen hl; omega)]
      simp [selRest, Raster.selSort]

theorem length_selSort [LE α] [DecidableLE α] [BEq α] (hbeq : ∀ a b : α, (a == b) = Py.feq a b) (hle : ∀ x : α, x ≤ x)
    (k : Nat) (arr : List α) (hk : k ≤ arr.length) : (Raster.selSort k arr).length = k := by
  induction k generalizing arr with
  | zero => rfl
  | succ k ih =>
    cases arr with
    | nil => simp at hk
    | cons a r =>
      have hl := (removeFirst_erase hbeq hle (a :: r) _ (lastMin_mem_self a r)).2
      simp only [Raster.selSort, List.length_cons]
      rw [ih _ (by simp only [List.length_cons] at hk hl; omega)]

theorem length_range0 (n : Nat) : (Py.range 0 (n : Int)).length = n := by
  unfold Py.range; rw [Py.length_rangeFrom]; omega

theorem getIdx_map_num (tab : List α) (k : Nat) (hk : k < tab.length) :
    Py.getIdx (tab.map num) (k : Int) = .ok (num tab[k]) := by
  rw [Py.getIdx_natCast]
  apply Py.getItem_eq_ok
  simp [hk]


theorem getItem_map_cons (a : α) (r : List α) : Py.getItem ((a :: r).map num) 0 = .ok (num a) := rfl

/-- `int(x)` on the NaN-extended scalar (`int(nan)` raises in Python; it is never evaluated on a NaN by `co_median`) -/
def truncNan (trunc0 : α → Int) : Nan α → Int
  | some x => trunc0 x
  | none => 0

/-- `co_median(tarray)` is the model's `coMedian` (`none` = NaN); no `IndexError` / `ValueError` (`list.remove`).
`int(·)` on the NaN-extended scalar is `truncNan trunc0` (it is only ever applied to non-NaN values here).
Hypotheses: `hbeq` — the model's `==` (used by `List.erase`) is Python's float `==` (`Py.feq`); `hle` — `≤` reflexive on the
non-NaN scalars (so that `valmin` is found by `remove`); `htr` — `int(float(k) / 2) = k // 2` for a natural `k`;
`htr1` — `int(float(k) / 2 - 1) = k // 2 - 1` for an EVEN natural `k` (for `k = 1` truncation gives `0`, not `-1`; the code
only evaluates it for even `n`); `hhalf` — the literal `0.5` is `1 / 2` (the model writes `1 / 2`). -/
theorem tie_co_median [Add α] [Sub α] [Mul α] [Div α] [LE α] [DecidableLE α] [IntCast α] [OfScientific α] [OfNat α 1] [OfNat α 2]
    [BEq α] (trunc0 : α → Int) (l : List (Option α))
    (hbeq : ∀ a b : α, (a == b) = Py.feq a b) (hle : ∀ x : α, x ≤ x)
    (htr : ∀ k : Nat, trunc0 (((k : Int) : α) / 2) = ((k / 2 : Nat) : Int))
    (htr1 : ∀ k : Nat, k % 2 = 0 → trunc0 (((k : Int) : α) / 2 - 1) = ((k / 2 : Nat) : Int) - 1)
    (hhalf : (0.5 : α) = 1 / 2) :
    Gen.Utils.co_median (α := Nan α) (nan := none) (trunc := truncNan trunc0) l = .ok (Raster.coMedian l) := by
  revert l; intro (l : List (Nan α))
  unfold Gen.Utils.co_median
  simp only []
  have h1 : ∀ body : Int → List (Nan α) → Py.M (Py.Ctl (List (Nan α)) (Nan α)), _ → Py.forList body (Py.range 0 (Py.len l)) [] = _ :=
    fun body h => forList_range_getIdx_foldl l
      (fun (acc : List (Nan α)) (v : Nan α) => match v with | none => acc | some a => acc ++ [num a]) body h []
  rw [h1 _ ?spec]
  case spec =>
    intro i s
    cases Py.getIdx l i with
    | error e => rfl
    | ok v =>
      cases v using Nan.casesOn' with
      | nan => simp only [Nan.isnan_nan, Py.bind_ok, if_true]
      | num a => simp only [Nan.isnan_num a (hle a), Py.bind_ok, Bool.false_eq_true, if_false]
  simp only [Py.bind_ok, foldl_nonNaN, List.nil_append]
  unfold Raster.coMedian
  by_cases h0 : Py.len l ≤ 0
  · have : l = [] := by
      cases l with
      | nil => rfl
      | cons x xs => simp [Py.len] at h0; omega
    subst this; rfl
  · have hl : ¬ @List.length (Option α) l = 0 := by
      intro h; apply h0; show ((@List.length (Option α) l : Nat) : Int) ≤ 0; omega
    simp only [h0, decide_false, Bool.false_eq_true, if_false]
    rw [if_neg hl]
    generalize Raster.nonNaN l = arr
    clear h1 h0 hl l
    have hlen : Py.len (List.map num arr) = (arr.length : Int) := by simp [Py.len]
    rw [hlen]
    by_cases hn : arr.length = 0
    · simp [hn]
    · have hn' : ¬ (arr.length : Int) = 0 := by omega
      simp only [hn', decide_false, Bool.false_eq_true, if_false]
      rw [if_neg hn]
      have hs : ∀ body : Int → List (Nan α) × List (Nan α) → Py.M (Py.Ctl (List (Nan α) × List (Nan α)) (Nan α)), _ →
          Py.forList body (Py.range 0 (arr.length : Int)) (List.map num arr, []) = _ :=
        fun body h => sortLoop hbeq hle body h (Py.range 0 (arr.length : Int)) arr []
          (by rw [length_range0]; exact Nat.le_refl _)
      rw [hs _ ?spec2]
      case spec2 =>
        intro i a r tab
        simp only [getItem_map_cons, Py.bind_ok]
        have hi : ∀ body' : Nan α → Nan α → Py.M (Py.Ctl (Nan α) (Nan α)), _ →
            Py.forList body' (List.map num (a :: r)) (num a) = _ := fun body' h => innerMin body' h (a :: r) a
        rw [hi _ ?spec3]
        case spec3 =>
          intro v m
          simp only [Nan.le_num]
          by_cases hvm : v ≤ m
          · simp only [hvm, decide_true, if_true]
          · simp only [hvm, decide_false, Bool.false_eq_true, if_false]
        simp only [(removeFirst_erase hbeq hle (a :: r) _ (lastMin_mem_self a r)).1, Py.bind_ok]
      simp only [Py.bind_ok, length_range0, List.nil_append]
      clear hs
      have hlen2 := length_selSort hbeq hle arr.length arr (Nat.le_refl _)
      generalize Raster.selSort arr.length arr = tab at hlen2 ⊢
      generalize arr.length = n at *
      rw [Int.fmod_eq_emod_of_nonneg _ (by omega)]
      by_cases hodd : n % 2 = 1
      · have ho : (n : Int) % 2 = 1 := by omega
        have e1 : (n : Int) - 1 = ((n - 1 : Nat) : Int) := by omega
        have e2 : truncNan trunc0 ((((n : Int) - 1 : Int) : Nan α) / 2) = (((n - 1) / 2 : Nat) : Int) := by
          rw [e1]; exact htr (n - 1)
        simp only [ho, decide_true, if_true]
        rw [if_pos hodd, e2, getIdx_map_num tab _ (by omega), Py.bind_ok, List.getElem?_eq_getElem (by omega)]
      · have ho : ¬ (n : Int) % 2 = 1 := by omega
        have e2 : truncNan trunc0 (((n : Int) : Nan α) / 2) = ((n / 2 : Nat) : Int) := htr n
        have e3 : truncNan trunc0 (((n : Int) : Nan α) / 2 - 1) = ((n / 2 - 1 : Nat) : Int) := by
          show trunc0 (((n : Int) : α) / 2 - 1) = _
          rw [htr1 n (by omega)]; omega
        simp only [ho, decide_false, Bool.false_eq_true, if_false]
        rw [if_neg hodd, e2, e3, getIdx_map_num tab _ (by omega), Py.bind_ok, getIdx_map_num tab _ (by omega), Py.bind_ok,
          List.getElem?_eq_getElem (by omega), List.getElem?_eq_getElem (by omega)]
        show Except.ok (some ((0.5 : α) * _)) = _
        rw [hhalf]; rfl

end
end TV.Tie.C19
