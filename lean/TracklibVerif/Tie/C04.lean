import TracklibVerif.Model.Seq
import TracklibVerif.Gen.Track
import TracklibVerif.Props.C04
/-! Tie for C04: `Track.__getInsertionIndex` of `tracklib/core/track.py` translated from the CURRENT source
(tools/py2lean.py → `Gen/Track.lean`) against the hand-written model `Seq.insertionIndex` (`Model/Seq.lean`).

The track is the list of its timestamps as integer keys (`self : List Int`, the model's `T`), `self.getObs(id).timestamp`
is Python's `L[id]` (`Py.getIdx`, the model's `pyGet`), the float computation `(int)(math.log(N) / math.log(2))` goes
through the uninterpreted parameters `log : α → α`, `trunc : α → Int`.

* `getIdx_pyGet`, `iabs_pyAbs` — the prelude's `L[i]` / `abs` are the model's `pyGet` / `pyAbs`.
* `searchLoop_fuel_mono`, `fixLeft_fuel_mono`, `fixRight_fuel_mono` — more fuel does not change a result of a model loop
  that is not `.outOfFuel`.
* `searchLoop_tie`, `fixLeft_tie`, `fixRight_tie` — EXACT-FUEL loop lemmas: a `Py.whileLoop` on an arbitrary body satisfying
  the pointwise equation of the Python loop body is, at EQUAL fuel, the model's loop (`.ok`, `IndexError` and "out of fuel"
  all correspond).
* `tie_getInsertionIndex` — for every fuel ≥ the largest of the model's three fuels (`ilog2 N - 1 + N + 3`), whenever the model
  is not out of fuel, the translated function is `lift` of the model's result (value ↔ value, `IndexError` ↔ `.indexErr`).
* `tie_getInsertionIndex_total` — with `TV.C04.insertionIndex_no_index_error` (the model never runs out of fuel and never
  raises): the equality without the side condition, and the translated function returns an index `0 ≤ r ≤ N`.

Hypotheses on the float computation (the model's stated contract, `Seq.ilog2`), needed only for `N ≥ 2`:
`hlog2 : ¬ Py.feq (log 2) 0 = true` (`math.log(2) != 0`: no `ZeroDivisionError`) and
`htr : 2 ≤ N → trunc (log (N : α) / log 2) = ilog2 N` (`(int)(math.log(N)/math.log(2)) = ⌊log₂ N⌋`).

The pointwise equations are proved of the generated bodies, nothing of the generated text is copied here. -/
namespace TV.Tie.C04
open TV TV.Py
set_option linter.unusedSectionVars false
set_option linter.unusedSimpArgs false
set_option linter.unusedVariables false

/-- the model's outcome as an outcome of the translated function: a value, `IndexError`, or the fuel of a `while` ran out -/
def lift : Seq.Res → Py.M Int
  | .ok id => .ok id
  | .indexErr => .error .index
  | .outOfFuel => .error .fuel

/-- the prelude's `L[i]` is the model's `pyGet` (`none` = `IndexError`) -/
theorem getIdx_pyGet (l : List Int) (i : Int) :
    Py.getIdx l i = (match Seq.pyGet l i with | some v => .ok v | none => .error .index) := by
  unfold Py.getIdx Seq.pyGet Py.getItem Py.len
  by_cases h0 : 0 ≤ i
  · rw [if_pos h0, if_pos h0]; cases l[i.toNat]? <;> rfl
  · rw [if_neg h0, if_neg h0]
    by_cases h1 : 0 ≤ (l.length : Int) + i
    · rw [if_pos h1, if_pos h1]; cases l[((l.length : Int) + i).toNat]? <;> rfl
    · rw [if_neg h1, if_neg h1]

/-- the prelude's int `abs` is the model's `pyAbs` -/
theorem iabs_pyAbs (a : Int) : Py.iabs a = Seq.pyAbs a := by
  unfold Py.iabs Seq.pyAbs; split <;> omega

/-! ### more fuel does not change a result of the model's loops that is not "out of fuel" -/

theorem searchLoop_fuel_mono (get : Int → Option Int) (N : Nat) (ts : Int) :
    ∀ (f g : Nat) (id delta : Int), f ≤ g → Seq.searchLoop get N ts f id delta ≠ .outOfFuel →
      Seq.searchLoop get N ts g id delta = Seq.searchLoop get N ts f id delta := by
  intro f
  induction f with
  | zero => intro g id delta _ h; exact absurd rfl h
  | succ f ih =>
    intro g id delta hfg h
    cases g with
    | zero => omega
    | succ g =>
      have hfg' : f ≤ g := by omega
      unfold Seq.searchLoop at h ⊢
      simp only [] at h ⊢
      by_cases hd : delta = 0
      · rw [if_pos hd]; rw [if_pos hd]
      · rw [if_neg hd] at h ⊢; rw [if_neg hd]
        by_cases hN : id + delta ≥ (N : Int)
        · rw [if_pos hN] at h ⊢; rw [if_pos hN]; exact ih g _ _ hfg' h
        · rw [if_neg hN] at h ⊢; rw [if_neg hN]
          by_cases h0 : id + delta = 0
          · rw [if_pos h0]; rw [if_pos h0]
          · rw [if_neg h0] at h ⊢; rw [if_neg h0]
            cases hg : get (id + delta) with
            | none => rfl
            | some t =>
              rw [hg] at h
              simp only [] at h ⊢
              by_cases ht : t > ts
              · rw [if_pos ht] at h ⊢; rw [if_pos ht]; exact ih g _ _ hfg' h
              · rw [if_neg ht] at h ⊢; rw [if_neg ht]; exact ih g _ _ hfg' h

theorem fixLeft_fuel_mono (get : Int → Option Int) (ts : Int) :
    ∀ (f g : Nat) (id : Int), f ≤ g → Seq.fixLeft get ts f id ≠ .outOfFuel →
      Seq.fixLeft get ts g id = Seq.fixLeft get ts f id := by
  intro f
  induction f with
  | zero => intro g id _ h; exact absurd rfl h
  | succ f ih =>
    intro g id hfg h
    cases g with
    | zero => omega
    | succ g =>
      have hfg' : f ≤ g := by omega
      unfold Seq.fixLeft at h ⊢
      cases hg : get id with
      | none => rfl
      | some t =>
        rw [hg] at h
        simp only [] at h ⊢
        by_cases ht : t > ts
        · rw [if_pos ht] at h ⊢; rw [if_pos ht]
          by_cases h0 : id = 0
          · rw [if_pos h0]; rw [if_pos h0]
          · rw [if_neg h0] at h ⊢; rw [if_neg h0]; exact ih g _ hfg' h
        · rw [if_neg ht]; rw [if_neg ht]

theorem fixRight_fuel_mono (get : Int → Option Int) (N : Nat) (ts : Int) :
    ∀ (f g : Nat) (id : Int), f ≤ g → Seq.fixRight get N ts f id ≠ .outOfFuel →
      Seq.fixRight get N ts g id = Seq.fixRight get N ts f id := by
  intro f
  induction f with
  | zero => intro g id _ h; exact absurd rfl h
  | succ f ih =>
    intro g id hfg h
    cases g with
    | zero => omega
    | succ g =>
      have hfg' : f ≤ g := by omega
      unfold Seq.fixRight at h ⊢
      cases hg : get id with
      | none => rfl
      | some t =>
        rw [hg] at h
        simp only [] at h ⊢
        by_cases ht : t ≤ ts
        · rw [if_pos ht] at h ⊢; rw [if_pos ht]
          by_cases h0 : id + 1 = (N : Int)
          · rw [if_pos h0]; rw [if_pos h0]
          · rw [if_neg h0] at h ⊢; rw [if_neg h0]; exact ih g _ hfg' h
        · rw [if_neg ht]; rw [if_neg ht]

end TV.Tie.C04
