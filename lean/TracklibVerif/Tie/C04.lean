import TracklibVerif.Model.Seq
import TracklibVerif.Gen.Track
import TracklibVerif.Props.C04
/-! Tie for C04: `Track.__getInsertionIndex` of `tracklib/core/track.py` translated from the CURRENT source
(tools/py2lean.py → `Gen/Track.lean`) against the hand-written model `Seq.insertionIndex` (`Model/Seq.lean`).

The track is the list of its timestamps as integer keys (`self : List Int`, the model's `T`), `self.getObs(id).timestamp`
is Python's `L[id]` (`Py.getIdx`, the model's `pyGet`), the float computation `(int)(math.log(N) / math.log(2))` goes
through the uninterpreted parameters `log : α → α`, `trunc : α → Int`.

* `getIdx_pyGet`, `iabs_pyAbs` — the prelude's `L[i]` / `abs` are the model's `pyGet` / `pyAbs`.
* `searchLoop_fuel_mono`, `fixLeft_fuel_mono`, `fixRight_fuel_mono` — more fuel does not change a result of a model loop
  that is not `.outOfFuel`.
* `searchLoop_tie`, `fixLeft_tie`, `fixRight_tie` — EXACT-FUEL loop lemmas: a `Py.whileLoop` on an arbitrary body satisfying
  the pointwise equation of the Python loop body is, at EQUAL fuel, the model's loop (`.ok`, `IndexError` and "out of fuel"
  all correspond).
* `tie_getInsertionIndex_exactFuel` — `N ≥ 2`, EVERY fuel: the translated function (ONE fuel shared by its three `while` loops) is
  `lift` of the model's three loops each run with that fuel (`loopsAt`), "out of fuel" included.
* `tie_getInsertionIndex` — for every fuel ≥ the largest of the model's three fuels (`ilog2 N - 1 + N + 3`), whenever the model
  is not out of fuel, the translated function is `lift` of the model's result (value ↔ value, `IndexError` ↔ `.indexErr`).
* `tie_getInsertionIndex_total` — with `TV.C04.insertionIndex_no_index_error` (the model never runs out of fuel and never
  raises): the equality without the side condition, and the translated function returns an index `0 ≤ r ≤ N`.
* `tie_getInsertionIndex_sorted` — with `TV.C04.insertionIndex_spec`: on sorted timestamps the translated function returns the
  number of timestamps `≤ ts` (`< ts` when `N = 1`).

Hypotheses on the float computation (the model's stated contract, `Seq.ilog2`), needed only for `N ≥ 2`:
`hlog2 : ¬ Py.feq (log 2) 0 = true` (`math.log(2) != 0`: no `ZeroDivisionError`) and
`htr : 2 ≤ N → trunc (log (N : α) / log 2) = ilog2 N` (`(int)(math.log(N)/math.log(2)) = ⌊log₂ N⌋`).

The pointwise equations are proved of the generated bodies, nothing of the generated text is copied here. -/
namespace TV.Tie.C04
open TV TV.Py
set_option linter.unusedSectionVars false
set_option linter.unusedSimpArgs false
set_option linter.unusedVariables false

/-- the model's outcome as an outcome of the translated function: a value, `IndexError`, or the fuel of a `while` ran out -/
def lift : Seq.Res → Py.M Int
  | .ok id => .ok id
  | .indexErr => .error .index
  | .outOfFuel => .error .fuel

/-- the prelude's `L[i]` is the model's `pyGet` (`none` = `IndexError`) -/
theorem getIdx_pyGet (l : List Int) (i : Int) :
    Py.getIdx l i = (match Seq.pyGet l i with | some v => .ok v | none => .error .index) := by
  unfold Py.getIdx Seq.pyGet Py.getItem Py.len
  by_cases h0 : 0 ≤ i
  · rw [if_pos h0, if_pos h0]; cases l[i.toNat]? <;> rfl
  · rw [if_neg h0, if_neg h0]
    by_cases h1 : 0 ≤ (l.length : Int) + i
    · rw [if_pos h1, if_pos h1]; cases l[((l.length : Int) + i).toNat]? <;> rfl
    · rw [if_neg h1, if_neg h1]

/-- the prelude's int `abs` is the model's `pyAbs` -/
theorem iabs_pyAbs (a : Int) : Py.iabs a = Seq.pyAbs a := by
  unfold Py.iabs Seq.pyAbs; split <;> omega

theorem shr_eq (a : Int) : Int.shiftRight a 1 = a >>> 1 := rfl

/-! ### more fuel does not change a result of the model's loops that is not "out of fuel" -/

theorem searchLoop_fuel_mono (get : Int → Option Int) (N : Nat) (ts : Int) :
    ∀ (f g : Nat) (id delta : Int), f ≤ g → Seq.searchLoop get N ts f id delta ≠ .outOfFuel →
      Seq.searchLoop get N ts g id delta = Seq.searchLoop get N ts f id delta := by
  intro f
  induction f with
  | zero => intro g id delta _ h; exact absurd rfl h
  | succ f ih =>
    intro g id delta hfg h
    cases g with
    | zero => omega
    | succ g =>
      have hfg' : f ≤ g := by omega
      unfold Seq.searchLoop at h ⊢
      simp only [] at h ⊢
      by_cases hd : delta = 0
      · rw [if_pos hd]; rw [if_pos hd]
      · rw [if_neg hd] at h ⊢; rw [if_neg hd]
        by_cases hN : id + delta ≥ (N : Int)
        · rw [if_pos hN] at h ⊢; rw [if_pos hN]; exact ih g _ _ hfg' h
        · rw [if_neg hN] at h ⊢; rw [if_neg hN]
          by_cases h0 : id + delta = 0
          · rw [if_pos h0]; rw [if_pos h0]
          · rw [if_neg h0] at h ⊢; rw [if_neg h0]
            cases hg : get (id + delta) with
            | none => rfl
            | some t =>
              rw [hg] at h
              simp only [] at h ⊢
              by_cases ht : t > ts
              · rw [if_pos ht] at h ⊢; rw [if_pos ht]; exact ih g _ _ hfg' h
              · rw [if_neg ht] at h ⊢; rw [if_neg ht]; exact ih g _ _ hfg' h

theorem fixLeft_fuel_mono (get : Int → Option Int) (ts : Int) :
    ∀ (f g : Nat) (id : Int), f ≤ g → Seq.fixLeft get ts f id ≠ .outOfFuel →
      Seq.fixLeft get ts g id = Seq.fixLeft get ts f id := by
  intro f
  induction f with
  | zero => intro g id _ h; exact absurd rfl h
  | succ f ih =>
    intro g id hfg h
    cases g with
    | zero => omega
    | succ g =>
      have hfg' : f ≤ g := by omega
      unfold Seq.fixLeft at h ⊢
      cases hg : get id with
      | none => rfl
      | some t =>
        rw [hg] at h
        simp only [] at h ⊢
        by_cases ht : t > ts
        · rw [if_pos ht] at h ⊢; rw [if_pos ht]
          by_cases h0 : id = 0
          · rw [if_pos h0]; rw [if_pos h0]
          · rw [if_neg h0] at h ⊢; rw [if_neg h0]; exact ih g _ hfg' h
        · rw [if_neg ht]; rw [if_neg ht]

theorem fixRight_fuel_mono (get : Int → Option Int) (N : Nat) (ts : Int) :
    ∀ (f g : Nat) (id : Int), f ≤ g → Seq.fixRight get N ts f id ≠ .outOfFuel →
      Seq.fixRight get N ts g id = Seq.fixRight get N ts f id := by
  intro f
  induction f with
  | zero => intro g id _ h; exact absurd rfl h
  | succ f ih =>
    intro g id hfg h
    cases g with
    | zero => omega
    | succ g =>
      have hfg' : f ≤ g := by omega
      unfold Seq.fixRight at h ⊢
      cases hg : get id with
      | none => rfl
      | some t =>
        rw [hg] at h
        simp only [] at h ⊢
        by_cases ht : t ≤ ts
        · rw [if_pos ht] at h ⊢; rw [if_pos ht]
          by_cases h0 : id + 1 = (N : Int)
          · rw [if_pos h0]; rw [if_pos h0]
          · rw [if_neg h0] at h ⊢; rw [if_neg h0]; exact ih g _ hfg' h
        · rw [if_neg ht]; rw [if_neg ht]

/-! ### the three `while` loops at EQUAL fuel -/

/-- the model's outcome as the outcome of a `while` loop whose state is `id` -/
def liftOut : Seq.Res → Py.M (Py.Out Int Int)
  | .ok id => .ok (.done id)
  | .indexErr => .error .index
  | .outOfFuel => .error .fuel

/-- the dichotomy loop (state `(delta, id)`): a body that is, point by point, the Python loop body (written with the model's `get`,
`pyAbs`, `>>>`) runs, at equal fuel, as the model's `searchLoop` — same `id` at the exit (with SOME final `delta`, which the
code does not read afterwards), `IndexError` ↔ `.indexErr`, out of fuel ↔ `.outOfFuel`. -/
theorem searchLoop_tie (get : Int → Option Int) (N : Nat) (ts : Int)
    (body : Int × Int → Py.M (Py.Ctl (Int × Int) Int))
    (h : ∀ delta id : Int, body (delta, id) =
      if delta = 0 then .ok (.brk (delta, id))
      else if (N : Int) ≤ id + delta then .ok (.cont (-(Seq.pyAbs (delta >>> 1)), id + delta))
      else if id + delta = 0 then .ok (.brk (delta, id + delta))
      else match get (id + delta) with
        | none => .error .index
        | some t => if ts < t then .ok (.cont (-(Seq.pyAbs (delta >>> 1)), id + delta))
                    else .ok (.cont (Seq.pyAbs (delta >>> 1), id + delta))) :
    ∀ (fuel : Nat) (id delta : Int), ∃ d : Int, Py.whileLoop body fuel (delta, id) =
      (match Seq.searchLoop get N ts fuel id delta with
       | .ok r => .ok (.done (d, r))
       | .indexErr => .error .index
       | .outOfFuel => .error .fuel) := by
  intro fuel
  induction fuel with
  | zero => intro id delta; exact ⟨0, rfl⟩
  | succ f ih =>
    intro id delta
    have hb := h delta id
    unfold Seq.searchLoop
    simp only []
    by_cases hd : delta = 0
    · rw [if_pos hd] at hb; rw [if_pos hd]
      exact ⟨delta, Py.whileLoop_brk hb⟩
    · rw [if_neg hd] at hb; rw [if_neg hd]
      by_cases hN : id + delta ≥ (N : Int)
      · rw [if_pos (show (N : Int) ≤ id + delta from hN)] at hb; rw [if_pos hN]
        obtain ⟨d, hd'⟩ := ih (id + delta) (-(Seq.pyAbs (delta >>> 1)))
        exact ⟨d, by rw [Py.whileLoop_cont hb]; exact hd'⟩
      · rw [if_neg (show ¬ (N : Int) ≤ id + delta from hN)] at hb; rw [if_neg hN]
        by_cases h0 : id + delta = 0
        · rw [if_pos h0] at hb; rw [if_pos h0]
          exact ⟨delta, Py.whileLoop_brk hb⟩
        · rw [if_neg h0] at hb; rw [if_neg h0]
          cases hg : get (id + delta) with
          | none =>
            rw [hg] at hb
            exact ⟨0, Py.whileLoop_error hb⟩
          | some t =>
            rw [hg] at hb
            simp only [] at hb ⊢
            by_cases ht : t > ts
            · rw [if_pos (show ts < t from ht)] at hb; rw [if_pos ht]
              obtain ⟨d, hd'⟩ := ih (id + delta) (-(Seq.pyAbs (delta >>> 1)))
              exact ⟨d, by rw [Py.whileLoop_cont hb]; exact hd'⟩
            · rw [if_neg (show ¬ ts < t from ht)] at hb; rw [if_neg ht]
              obtain ⟨d, hd'⟩ := ih (id + delta) (Seq.pyAbs (delta >>> 1))
              exact ⟨d, by rw [Py.whileLoop_cont hb]; exact hd'⟩

/-- the first correction loop (`while self.getObs(id).timestamp > timestamp`) at equal fuel -/
theorem fixLeft_tie (get : Int → Option Int) (ts : Int) (body : Int → Py.M (Py.Ctl Int Int))
    (h : ∀ id : Int, body id =
      match get id with
      | none => .error .index
      | some t => if ts < t then (if id = 0 then .ok (.brk id) else .ok (.cont (id - 1))) else .ok (.brk id)) :
    ∀ (fuel : Nat) (id : Int), Py.whileLoop body fuel id = liftOut (Seq.fixLeft get ts fuel id) := by
  intro fuel
  induction fuel with
  | zero => intro id; rfl
  | succ f ih =>
    intro id
    have hb := h id
    unfold Seq.fixLeft
    cases hg : get id with
    | none => rw [hg] at hb; exact Py.whileLoop_error hb
    | some t =>
      rw [hg] at hb
      simp only [] at hb ⊢
      by_cases ht : t > ts
      · rw [if_pos (show ts < t from ht)] at hb; rw [if_pos ht]
        by_cases h0 : id = 0
        · rw [if_pos h0] at hb; rw [if_pos h0]; exact Py.whileLoop_brk hb
        · rw [if_neg h0] at hb; rw [if_neg h0, Py.whileLoop_cont hb]; exact ih _
      · rw [if_neg (show ¬ ts < t from ht)] at hb; rw [if_neg ht]; exact Py.whileLoop_brk hb

/-- the second correction loop (`while self.getObs(id).timestamp <= timestamp`) at equal fuel -/
theorem fixRight_tie (get : Int → Option Int) (N : Nat) (ts : Int) (body : Int → Py.M (Py.Ctl Int Int))
    (h : ∀ id : Int, body id =
      match get id with
      | none => .error .index
      | some t => if t ≤ ts then (if id + 1 = (N : Int) then .ok (.brk (id + 1)) else .ok (.cont (id + 1))) else .ok (.brk id)) :
    ∀ (fuel : Nat) (id : Int), Py.whileLoop body fuel id = liftOut (Seq.fixRight get N ts fuel id) := by
  intro fuel
  induction fuel with
  | zero => intro id; rfl
  | succ f ih =>
    intro id
    have hb := h id
    unfold Seq.fixRight
    cases hg : get id with
    | none => rw [hg] at hb; exact Py.whileLoop_error hb
    | some t =>
      rw [hg] at hb
      simp only [] at hb ⊢
      by_cases ht : t ≤ ts
      · rw [if_pos ht] at hb; rw [if_pos ht]
        by_cases h0 : id + 1 = (N : Int)
        · rw [if_pos h0] at hb; rw [if_pos h0]; exact Py.whileLoop_brk hb
        · rw [if_neg h0] at hb; rw [if_neg h0, Py.whileLoop_cont hb]; exact ih _
      · rw [if_neg ht] at hb; rw [if_neg ht]; exact Py.whileLoop_brk hb

/-- `searchLoop_tie` for the loop followed by code `k` that does not read the final `delta` -/
theorem searchLoop_tie_bind {γ : Type} (get : Int → Option Int) (N : Nat) (ts : Int)
    (body : Int × Int → Py.M (Py.Ctl (Int × Int) Int))
    (h : ∀ delta id : Int, body (delta, id) =
      if delta = 0 then .ok (.brk (delta, id))
      else if (N : Int) ≤ id + delta then .ok (.cont (-(Seq.pyAbs (delta >>> 1)), id + delta))
      else if id + delta = 0 then .ok (.brk (delta, id + delta))
      else match get (id + delta) with
        | none => .error .index
        | some t => if ts < t then .ok (.cont (-(Seq.pyAbs (delta >>> 1)), id + delta))
                    else .ok (.cont (Seq.pyAbs (delta >>> 1), id + delta)))
    (k : Py.Out (Int × Int) Int → Py.M γ) (hk : ∀ d d' r : Int, k (.done (d, r)) = k (.done (d', r)))
    (fuel : Nat) (id delta : Int) :
    Py.bind (Py.whileLoop body fuel (delta, id)) k =
      (match Seq.searchLoop get N ts fuel id delta with
       | .ok r => k (.done (0, r))
       | .indexErr => .error .index
       | .outOfFuel => .error .fuel) := by
  obtain ⟨d, hd⟩ := searchLoop_tie get N ts body h fuel id delta
  rw [hd]
  cases Seq.searchLoop get N ts fuel id delta with
  | ok r => exact hk d 0 r
  | indexErr => rfl
  | outOfFuel => rfl

/-! ### the whole function -/

/-- the model's three loops on `T` (element access `pyGet T`, first step `2^j`) run with ONE fuel `f` each, as the translated
function does (the model `Seq.insertionIndexWith` gives them `j + N + 3`, `N + 2`, `N + 2`) -/
def loopsAt (T : List Int) (ts : Int) (j f : Nat) : Seq.Res :=
  ((Seq.searchLoop (Seq.pyGet T) T.length ts f 0 ((2 : Int) ^ j)).bind
    (Seq.fixLeft (Seq.pyGet T) ts f)).bind (Seq.fixRight (Seq.pyGet T) T.length ts f)

/-- with at least the model's fuels, and when the model is not out of fuel, the three loops at one fuel give the model's result -/
theorem loopsAt_eq_model (T : List Int) (ts : Int) (j fuel : Nat) (hN : 2 ≤ T.length)
    (hfuel : j + T.length + 3 ≤ fuel) (hm : Seq.insertionIndexFrom j T ts ≠ .outOfFuel) :
    loopsAt T ts j fuel = Seq.insertionIndexFrom j T ts := by
  unfold Seq.insertionIndexFrom at hm ⊢
  rw [Seq.insertionIndexWith_ge2 _ hN] at hm ⊢
  unfold loopsAt
  cases h0 : Seq.searchLoop (Seq.pyGet T) T.length ts (j + T.length + 3) 0 (2 ^ j) with
  | outOfFuel => rw [h0] at hm; exact absurd rfl hm
  | indexErr =>
    rw [searchLoop_fuel_mono _ _ _ (j + T.length + 3) fuel _ _ hfuel (by rw [h0]; exact fun h => nomatch h), h0]; rfl
  | ok r0 =>
    rw [searchLoop_fuel_mono _ _ _ (j + T.length + 3) fuel _ _ hfuel (by rw [h0]; exact fun h => nomatch h), h0]
    rw [h0] at hm
    simp only [Seq.Res.bind] at hm ⊢
    cases h1 : Seq.fixLeft (Seq.pyGet T) ts (T.length + 2) r0 with
    | outOfFuel => rw [h1] at hm; exact absurd rfl hm
    | indexErr =>
      rw [fixLeft_fuel_mono _ _ (T.length + 2) fuel _ (by omega) (by rw [h1]; exact fun h => nomatch h), h1]
    | ok r1 =>
      rw [fixLeft_fuel_mono _ _ (T.length + 2) fuel _ (by omega) (by rw [h1]; exact fun h => nomatch h), h1]
      rw [h1] at hm
      simp only [] at hm ⊢
      exact fixRight_fuel_mono _ _ _ (T.length + 2) fuel _ (by omega) hm

section
variable {α : Type} [Div α] [LE α] [DecidableLE α] [IntCast α] [OfNat α 0] [OfNat α 2]

/-- EXACT FUEL, `N ≥ 2`. For EVERY `fuel`, the translation of the CURRENT source of `Track.__getInsertionIndex` on the timestamps `T`
is the composition of the model's three loops each run with that fuel (`loopsAt`): same index, `IndexError` ↔ `.indexErr`,
and `.error .fuel` exactly when one of the model's loops is out of fuel.
Hypotheses: `hlog2` — `math.log(2) != 0` (no `ZeroDivisionError`); `htr` — the model's contract of the float computation,
`(int)(math.log(N) / math.log(2)) = ⌊log₂ N⌋ = Seq.ilog2 N` (so that the exponent `… - 1` is `≥ 0` and `2 ** …` is an int). -/
theorem tie_getInsertionIndex_exactFuel (log : α → α) (trunc : α → Int) (fuel : Nat) (T : List Int) (ts : Int)
    (hN : 2 ≤ T.length)
    (hlog2 : ¬ Py.feq (log (2 : α)) 0 = true)
    (htr : trunc (log ((T.length : Int) : α) / log (2 : α)) = (Seq.ilog2 T.length : Int)) :
    Gen.Track.Track_getInsertionIndex log trunc fuel T ts = lift (loopsAt T ts (Seq.ilog2 T.length - 1) fuel) := by
  unfold Gen.Track.Track_getInsertionIndex
  simp only []
  have hl : Py.len T = (T.length : Int) := rfl
  have hj1 : 1 ≤ Seq.ilog2 T.length := (Nat.le_log2 (by omega)).mpr (by omega)
  rw [Py.ite_neg' (by rw [decide_eq_true_eq, hl]; omega), Py.ite_neg' (by rw [decide_eq_true_eq, hl]; omega)]
  unfold Py.fdiv Py.ipow
  rw [Py.ite_neg' hlog2, Py.bind_ok, hl, htr, if_neg (by omega), Py.bind_ok]
  have hpow : (2 : Int) ^ ((Seq.ilog2 T.length : Int) - 1).toNat = (2 : Int) ^ (Seq.ilog2 T.length - 1) := by
    congr 1; omega
  rw [hpow]
  unfold loopsAt
  generalize Seq.ilog2 T.length - 1 = j
  rw [searchLoop_tie_bind (Seq.pyGet T) T.length ts _ ?spec1 _ ?hk1]
  case spec1 =>
    intro delta id
    simp only []
    rw [getIdx_pyGet, iabs_pyAbs, shr_eq]
    by_cases hd : delta = 0
    · simp [hd]
    · by_cases hN' : (T.length : Int) ≤ id + delta
      · simp [hd, hN']
      · by_cases h0 : id + delta = 0
        · simp [hd, hN', h0]
        · cases hg : Seq.pyGet T (id + delta) with
          | none => simp [hd, hN', h0]
          | some t => by_cases ht : ts < t <;> simp [hd, hN', h0, ht]
  case hk1 => intro d d' r; rfl
  cases Seq.searchLoop (Seq.pyGet T) T.length ts fuel 0 (2 ^ j) with
  | outOfFuel => rfl
  | indexErr => rfl
  | ok r0 =>
    simp only [Seq.Res.bind]
    rw [fixLeft_tie (Seq.pyGet T) ts _ ?spec2]
    case spec2 =>
      intro id
      rw [getIdx_pyGet]
      cases hg : Seq.pyGet T id with
      | none => rfl
      | some t => by_cases ht : ts < t <;> by_cases hi : id = 0 <;> simp [ht, hi]
    cases Seq.fixLeft (Seq.pyGet T) ts fuel r0 with
    | outOfFuel => rfl
    | indexErr => rfl
    | ok r1 =>
      simp only [liftOut, Py.bind_ok]
      rw [fixRight_tie (Seq.pyGet T) T.length ts _ ?spec3]
      case spec3 =>
        intro id
        rw [getIdx_pyGet]
        cases hg : Seq.pyGet T id with
        | none => rfl
        | some t => by_cases ht : t ≤ ts <;> by_cases hi : id + 1 = (T.length : Int) <;> simp [ht, hi]
      cases Seq.fixRight (Seq.pyGet T) T.length ts fuel r1 <;> rfl

/-- `Track.__getInsertionIndex` ↔ `Seq.insertionIndex`. For EVERY `fuel` ≥ the largest of the model's three fuels
(`ilog2 N - 1 + N + 3`), whenever the model is not out of fuel (it never is: `tie_getInsertionIndex_total`), the translation of the
CURRENT source on the timestamps `T` (integer keys) returns the model's index and raises `IndexError` exactly when the model says
`.indexErr`.
Hypotheses: `hlog2` — `math.log(2) != 0`; `htr` — for `N ≥ 2` (the only sizes for which the code evaluates it),
`(int)(math.log(N) / math.log(2)) = Seq.ilog2 N = ⌊log₂ N⌋`, the model's stated contract of the float computation. -/
theorem tie_getInsertionIndex (log : α → α) (trunc : α → Int) (fuel : Nat) (T : List Int) (ts : Int)
    (hlog2 : ¬ Py.feq (log (2 : α)) 0 = true)
    (htr : 2 ≤ T.length → trunc (log ((T.length : Int) : α) / log (2 : α)) = (Seq.ilog2 T.length : Int))
    (hfuel : Seq.ilog2 T.length - 1 + T.length + 3 ≤ fuel)
    (hm : Seq.insertionIndex T ts ≠ .outOfFuel) :
    Gen.Track.Track_getInsertionIndex log trunc fuel T ts = lift (Seq.insertionIndex T ts) := by
  match T, htr, hfuel, hm with
  | [], _, _, _ => rfl
  | [t0], _, _, _ =>
    by_cases h : t0 < ts <;>
      simp [Gen.Track.Track_getInsertionIndex, Seq.insertionIndex, Seq.insertionIndexFrom, Seq.insertionIndexWith, lift, h,
        Py.len, Py.getIdx, Py.getItem]
  | a :: b :: rest, htr, hfuel, hm =>
    have hN : 2 ≤ (a :: b :: rest).length := by simp
    rw [tie_getInsertionIndex_exactFuel log trunc fuel _ ts hN hlog2 (htr hN)]
    exact congrArg lift (loopsAt_eq_model _ ts _ fuel hN hfuel hm)

/-- unconditional form, with `TV.C04.insertionIndex_no_index_error` (on EVERY list of timestamps the model returns an index
`0 ≤ r ≤ N`: no `IndexError`, never out of fuel): for every `fuel ≥ ilog2 N - 1 + N + 3` the translated function returns the
model's index, which is in `0..N`. Hypotheses `hlog2`, `htr` as in `tie_getInsertionIndex`. -/
theorem tie_getInsertionIndex_total (log : α → α) (trunc : α → Int) (fuel : Nat) (T : List Int) (ts : Int)
    (hlog2 : ¬ Py.feq (log (2 : α)) 0 = true)
    (htr : 2 ≤ T.length → trunc (log ((T.length : Int) : α) / log (2 : α)) = (Seq.ilog2 T.length : Int))
    (hfuel : Seq.ilog2 T.length - 1 + T.length + 3 ≤ fuel) :
    Gen.Track.Track_getInsertionIndex log trunc fuel T ts = lift (Seq.insertionIndex T ts) ∧
    ∃ r : Nat, r ≤ T.length ∧ Seq.insertionIndex T ts = .ok (r : Int) ∧
      Gen.Track.Track_getInsertionIndex log trunc fuel T ts = .ok (r : Int) := by
  obtain ⟨r, hr, _, hi⟩ := TV.C04.insertionIndex_no_index_error T ts
  have h := tie_getInsertionIndex log trunc fuel T ts hlog2 htr hfuel (by rw [hi]; exact fun h => nomatch h)
  exact ⟨h, r, hr, hi, by rw [h, hi]; rfl⟩

/-- end to end on a time-sorted track (`TV.C04.insertionIndex_spec`): for every `fuel ≥ ilog2 N - 1 + N + 3` the translated
`__getInsertionIndex` returns the number of timestamps `≤ ts` (`< ts` on a single observation: the code's special case). -/
theorem tie_getInsertionIndex_sorted (log : α → α) (trunc : α → Int) (fuel : Nat) (T : List Int) (ts : Int)
    (hlog2 : ¬ Py.feq (log (2 : α)) 0 = true)
    (htr : 2 ≤ T.length → trunc (log ((T.length : Int) : α) / log (2 : α)) = (Seq.ilog2 T.length : Int))
    (hfuel : Seq.ilog2 T.length - 1 + T.length + 3 ≤ fuel) (hs : T.Pairwise (· ≤ ·)) :
    Gen.Track.Track_getInsertionIndex log trunc fuel T ts =
      .ok ((if T.length = 1 then T.countP (fun t => decide (t < ts)) else T.countP (fun t => decide (t ≤ ts)) : Nat) : Int) := by
  rw [(tie_getInsertionIndex_total log trunc fuel T ts hlog2 htr hfuel).1, TV.C04.insertionIndex_spec T ts hs]; rfl

end

end TV.Tie.C04
