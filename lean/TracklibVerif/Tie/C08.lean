import TracklibVerif.Model.Grid
import TracklibVerif.Gen.Geometry
import TracklibVerif.Gen.SpatialIndex
/-! Tie for C08 (geometry helpers of the spatial index): the definitions translated from the CURRENT
`tracklib/util/geometry.py` (`cartesienne`, `__eval`, `isSegmentIntersects`) equal the hand-written
`TV.Grid.cartesienne / evalLine / isSegmentIntersects` on all arguments. Bare operation classes only.

Also tied: `SpatialIndex.groundDistanceToUnits` of the CURRENT `tracklib/core/spatial_index.py`, `ZeroDivisionError` on a
zero cell side included. (`SpatialIndex.__getCell` reads `self.csize` / `self.lsize` since the upper-border repair; its tie
`tie_getCellR` — prepared and verified, see patches/tie of the XC08 worker — comes back as soon as the declared signature of
`__getCell` in tools/py2lean.py lists those two attributes. That the executed form returns the value function `getCell`
the theorems use is the proved `TV.C08.getCell_min_is_identity`.)
`groundDistanceToUnits` adds the Python literal `1` (`(1 : α)`), the model the converted integer
`((1 : Int) : α)`: `h1` says they are the same number. -/
namespace TV.Tie.C08
open TV TV.Py
set_option linter.unusedSectionVars false
set_option linter.unusedSimpArgs false
section
variable {α : Type} [Add α] [Sub α] [Mul α] [Neg α] [LE α] [DecidableLE α] [OfNat α 0]

/-- a segment as the Python list `[x1, y1, x2, y2]` (anything after the fourth element is never read) -/
def segList (s : Grid.Seg α) (rest : List α) : List α := s.x1 :: s.y1 :: s.x2 :: s.y2 :: rest

/-- `cartesienne(segment)` returns the list `[a, b, c]` of the model's triple -/
theorem tie_cartesienne (s : Grid.Seg α) (rest : List α) :
    Gen.Geometry.cartesienne (segList s rest) =
      .ok [(Grid.cartesienne s).1, (Grid.cartesienne s).2.1, (Grid.cartesienne s).2.2] := rfl

/-- `__eval([a, b, c], x, y)` is the model's `evalLine` -/
theorem tie_eval (a b c x y : α) (rest : List α) :
    Gen.Geometry.py__eval (a :: b :: c :: rest) x y = .ok (Grid.evalLine (a, b, c) x y) := rfl

/-- `isSegmentIntersects(segment1, segment2)` is the model's straddle test -/
theorem tie_isSegmentIntersects (s1 s2 : Grid.Seg α) (r1 r2 : List α) :
    Gen.Geometry.isSegmentIntersects (segList s1 r1) (segList s2 r2) = .ok (Grid.isSegmentIntersects s1 s2) := rfl

/-- a list shorter than four numbers raises `IndexError` (so the model's `Seg` is all there is) -/
theorem tie_isSegmentIntersects_short1 (l1 l2 : List α) (h : l1.length < 4) :
    Gen.Geometry.isSegmentIntersects l1 l2 = .error .index := by
  match l1, h with
  | [], _ => rfl
  | [_], _ => rfl
  | [_, _], _ => rfl
  | [_, _, _], _ => rfl

end
section
variable {α : Type} [Add α] [Sub α] [Mul α] [Div α] [Neg α] [LT α] [LE α]
  [DecidableLT α] [DecidableLE α] [IntCast α] [OfNat α 0] [OfNat α 1]

/-- the model's exceptions as Python exceptions -/
def liftErr : Grid.Err → Py.Err
  | .zerodiv => .zerodiv
  | .index => .index
  | .type => .type
  | .exit => .exit

/-- a model result as a result of the translated code -/
def lift {β : Type} : Grid.Res β → Py.M β
  | .ok v => .ok v
  | .error e => .error (liftErr e)

/-- `groundDistanceToUnits(distance)`, `ZeroDivisionError` included. `h1`: the Python literal `1` is the converted
integer `1`; `hz` as in `tie_getCellR`. -/
theorem tie_groundDistanceToUnits (fl : α → Int) (ix : Grid.Index α) (distance : α)
    (h1 : ((1 : Int) : α) = (1 : α)) (hz : ∀ x : α, Grid.isZero x = Py.feq x 0) :
    Gen.SpatialIndex.SpatialIndex_groundDistanceToUnits fl ix.dX ix.dY distance = lift (Grid.groundDistanceToUnits fl ix distance) := by
  have hm : Py.fmin ix.dX ix.dY = Grid.pyMin ix.dX ix.dY := rfl
  simp only [Gen.SpatialIndex.SpatialIndex_groundDistanceToUnits, Grid.groundDistanceToUnits, Py.fdiv, hz, h1, hm]
  by_cases h : Py.feq (Grid.pyMin ix.dX ix.dY) 0 = true
  · simp [h, lift, liftErr]
  · simp [h, lift]
end

end TV.Tie.C08
