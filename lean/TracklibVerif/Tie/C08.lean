import TracklibVerif.Model.Grid
import TracklibVerif.Gen.Geometry
import TracklibVerif.Gen.SpatialIndex
/-! Tie for C08 (geometry helpers of the spatial index): the definitions translated from the CURRENT
`tracklib/util/geometry.py` (`cartesienne`, `__eval`, `isSegmentIntersects`) equal the hand-written
`TV.Grid.cartesienne / evalLine / isSegmentIntersects` on all arguments. Bare operation classes only.

Also tied: `SpatialIndex.__getCell` and `SpatialIndex.groundDistanceToUnits` of the CURRENT
`tracklib/core/spatial_index.py`. `tie_getCellR` / `tie_groundDistanceToUnits` are about the model's executed forms (`ZeroDivisionError` on a zero
cell side and the caps `min(index, size)` included); that the executed form returns the value function `getCell` the
theorems use is the proved `TV.C08.getCell_min_is_identity`.
`groundDistanceToUnits` adds the Python literal `1` (`(1 : α)`), the model the converted integer
`((1 : Int) : α)`: `h1` says they are the same number. -/
namespace TV.Tie.C08
open TV TV.Py
set_option linter.unusedSectionVars false
set_option linter.unusedSimpArgs false
section
variable {α : Type} [Add α] [Sub α] [Mul α] [Neg α] [LE α] [DecidableLE α] [OfNat α 0]

/-- a segment as the Python list `[x1, y1, x2, y2]` (anything after the fourth element is never read) -/
def segList (s : Grid.Seg α) (rest : List α) : List α := s.x1 :: s.y1 :: s.x2 :: s.y2 :: rest

/-- `cartesienne(segment)` returns the list `[a, b, c]` of the model's triple -/
theorem tie_cartesienne (s : Grid.Seg α) (rest : List α) :
    Gen.Geometry.cartesienne (segList s rest) =
      .ok [(Grid.cartesienne s).1, (Grid.cartesienne s).2.1, (Grid.cartesienne s).2.2] := rfl

/-- `__eval([a, b, c], x, y)` is the model's `evalLine` -/
theorem tie_eval (a b c x y : α) (rest : List α) :
    Gen.Geometry.py__eval (a :: b :: c :: rest) x y = .ok (Grid.evalLine (a, b, c) x y) := rfl

/-- `isSegmentIntersects(segment1, segment2)` is the model's straddle test -/
theorem tie_isSegmentIntersects (s1 s2 : Grid.Seg α) (r1 r2 : List α) :
    Gen.Geometry.isSegmentIntersects (segList s1 r1) (segList s2 r2) = .ok (Grid.isSegmentIntersects s1 s2) := rfl

/-- a list shorter than four numbers raises `IndexError` (so the model's `Seg` is all there is) -/
theorem tie_isSegmentIntersects_short1 (l1 l2 : List α) (h : l1.length < 4) :
    Gen.Geometry.isSegmentIntersects l1 l2 = .error .index := by
  match l1, h with
  | [], _ => rfl
  | [_], _ => rfl
  | [_, _], _ => rfl
  | [_, _, _], _ => rfl

end
section
variable {α : Type} [Add α] [Sub α] [Mul α] [Div α] [Neg α] [LT α] [LE α]
  [DecidableLT α] [DecidableLE α] [IntCast α] [OfNat α 0] [OfNat α 1]

/-- the model's exceptions as Python exceptions -/
def liftErr : Grid.Err → Py.Err
  | .zerodiv => .zerodiv
  | .index => .index
  | .type => .type
  | .exit => .exit

/-- a model result as a result of the translated code -/
def lift {β : Type} : Grid.Res β → Py.M β
  | .ok v => .ok v
  | .error e => .error (liftErr e)

/-- `__getCell(coord)` as executed — the two range tests, the two divisions (`ZeroDivisionError` included) and the
caps `min(index, csize)`, `min(index, lsize)` — is the model's `getCellR`. `hz`: the model's `x == 0`
(`¬ x < 0 ∧ ¬ 0 < x`) is Python's (`x ≤ 0 ∧ 0 ≤ x`) — true in every linear order and of every double that is not NaN.
(That `getCellR` returns the affine value function `getCell` the theorems use is `TV.C08.getCell_min_is_identity`.) -/
theorem tie_getCellR (hz : ∀ x : α, Grid.isZero x = Py.feq x 0) (ix : Grid.Index α) (p : α × α) :
    Gen.SpatialIndex.SpatialIndex_getCell ix.xmin ix.xmax ix.ymin ix.ymax ix.dX ix.dY ix.csize ix.lsize p.1 p.2
      = lift (Grid.getCellR ix p) := by
  have hm : ∀ a b : α, Py.fmin a b = Grid.pyMin a b := fun _ _ => rfl
  simp only [Gen.SpatialIndex.SpatialIndex_getCell, Grid.getCellR, Py.fdiv, hz, hm]
  by_cases h1 : p.1 < ix.xmin
  · simp [h1, lift]
  · by_cases h2 : ix.xmax < p.1
    · simp [h2, lift]
    · by_cases h3 : p.2 < ix.ymin
      · simp [h1, h2, h3, lift]
      · by_cases h4 : ix.ymax < p.2
        · simp [h1, h2, h4, lift]
        · by_cases hx : Py.feq ix.dX 0 = true
          · simp [h1, h2, h3, h4, hx, lift, liftErr]
          · by_cases hy : Py.feq ix.dY 0 = true
            · simp [h1, h2, h3, h4, hx, hy, lift, liftErr]
            · simp [h1, h2, h3, h4, hx, hy, lift]

/-- `groundDistanceToUnits(distance)`, `ZeroDivisionError` included. `h1`: the Python literal `1` is the converted
integer `1`; `hz` as in `tie_getCellR`. -/
theorem tie_groundDistanceToUnits (fl : α → Int) (ix : Grid.Index α) (distance : α)
    (h1 : ((1 : Int) : α) = (1 : α)) (hz : ∀ x : α, Grid.isZero x = Py.feq x 0) :
    Gen.SpatialIndex.SpatialIndex_groundDistanceToUnits fl ix.dX ix.dY distance = lift (Grid.groundDistanceToUnits fl ix distance) := by
  have hm : Py.fmin ix.dX ix.dY = Grid.pyMin ix.dX ix.dY := rfl
  simp only [Gen.SpatialIndex.SpatialIndex_groundDistanceToUnits, Grid.groundDistanceToUnits, Py.fdiv, hz, h1, hm]
  by_cases h : Py.feq (Grid.pyMin ix.dX ix.dY) 0 = true
  · simp [h, lift, liftErr]
  · simp [h, lift]
end

/-! ### `SpatialIndex.__cellsCrossSegment` (two nested `for … in range(…)` loops) ↔ `Grid.cellsCross`

No hypothesis on the scalar is needed: the model converts `i + 1` as the code does (`float(i + 1)` of the integer sum),
the eight comparisons are the same strict `<` on the same operands in the same order, the four straddle tests are
`tie_isSegmentIntersects`, and the int `min` / `max`, `range`, `in` of the prelude are proved equal to the model's. -/
section
/-- the prelude's `range(lo, hi)` with step 1 is the model's `rangeI lo hi` -/
theorem rangeFrom_one_eq_map (a : Int) (n : Nat) :
    Py.rangeFrom a 1 n = (List.range n).map (fun (k : Nat) => a + (k : Int)) := by
  induction n with
  | zero => rfl
  | succ n ih => rw [Py.rangeFrom_snoc, ih, List.range_succ, List.map_append]; simp
theorem range_eq_rangeI (lo hi : Int) : Py.range lo hi = Grid.rangeI lo hi := rangeFrom_one_eq_map _ _
/-- CPython's `min(a, b)` / `max(a, b)` on ints (`b if b < a else a`, `b if a < b else a`) are `min` / `max` of `Int` -/
theorem imin_eq_min (a b : Int) : Py.imin a b = min a b := by
  unfold Py.imin; rw [Int.min_def]; split <;> split <;> omega
theorem imax_eq_max (a b : Int) : Py.imax a b = max a b := by
  unfold Py.imax; rw [Int.max_def]; split <;> split <;> omega
/-- `x in L` on pairs of ints: the prelude tests with the `BEq` of decidable equality, the model's `addNew` with the
componentwise `BEq` of pairs; both are membership -/
theorem contains_eq (l : List (Int × Int)) (x : Int × Int) : Py.contains l x = l.contains x := by
  rw [Bool.eq_iff_iff]
  have h1 : Py.contains l x = true ↔ x ∈ l := by
    unfold Py.contains; exact @List.elem_iff (Int × Int) instBEqOfDecidableEq inferInstance x l
  have h2 : l.contains x = true ↔ x ∈ l := List.contains_iff_mem
  rw [h1, h2]
/-- one link of a translated `a and b` chain -/
theorem ite_ok_and (c a : Bool) :
    (if c = true then (Except.ok a : Py.M Bool) else Except.ok false) = Except.ok (c && a) := by
  cases c <;> rfl
/-- the shape of the loop body after the eight comparisons: `if A: add elif B1: add elif … elif B4: add` (each `add` is
`if cell not in CELLS: CELLS.append(cell)`, every branch ends the iteration normally) is one step of the model's fold -/
theorem hit_shape {σ ρ : Type} (A B1 B2 B3 B4 C : Bool) (s s' : σ) :
    (if A = true then (if (!C) = true then (Except.ok (Ctl.cont s') : Py.M (Ctl σ ρ)) else Except.ok (Ctl.cont s))
     else Py.bind (Except.ok B1 : Py.M Bool) fun b1 =>
      if b1 = true then (if (!C) = true then Except.ok (Ctl.cont s') else Except.ok (Ctl.cont s))
     else Py.bind (Except.ok B2 : Py.M Bool) fun b2 =>
      if b2 = true then (if (!C) = true then Except.ok (Ctl.cont s') else Except.ok (Ctl.cont s))
     else Py.bind (Except.ok B3 : Py.M Bool) fun b3 =>
      if b3 = true then (if (!C) = true then Except.ok (Ctl.cont s') else Except.ok (Ctl.cont s))
     else Py.bind (Except.ok B4 : Py.M Bool) fun b4 =>
      if b4 = true then (if (!C) = true then Except.ok (Ctl.cont s') else Except.ok (Ctl.cont s))
     else Except.ok (Ctl.cont s))
    = Except.ok (Ctl.cont (if (if A = true then true else if B1 = true then true else if B2 = true then true
        else if B3 = true then true else if B4 = true then true else false) = true
        then (if C = true then s else s') else s)) := by
  cases A <;> cases B1 <;> cases B2 <;> cases B3 <;> cases B4 <;> cases C <;> rfl

variable {α : Type} [Add α] [Sub α] [Mul α] [Neg α] [LT α] [LE α] [DecidableLT α] [DecidableLE α] [IntCast α]
  [OfNat α 0]

/-- `tie_isSegmentIntersects` on two four-element list literals -/
theorem isSegmentIntersects_lit (a b c d e f g h : α) :
    Gen.Geometry.isSegmentIntersects [a, b, c, d] [e, f, g, h]
      = .ok (Grid.isSegmentIntersects ⟨a, b, c, d⟩ ⟨e, f, g, h⟩) := rfl

/-- `__cellsCrossSegment(coord1, coord2)` of the CURRENT source — bounds `min(floor, floor, size - 1)` …
`min(max(floor, floor), size - 1)`, the two nested loops over `range(xmin, xmax + 1)`, `range(ymin, ymax + 1)`, the
eight strict comparisons, the four straddle tests in the order bottom, left, top, right, `if (i, j) not in CELLS:
CELLS.append((i, j))` — returns the model's `cellsCross` on ALL arguments (any scalar with the bare operations, any
`floor`, any `csize`, `lsize`; whatever follows the second coordinate in the lists is never read). No hypothesis. -/
theorem tie_cellsCrossSegment (floor : α → Int) (cs ls : Int) (x1 y1 x2 y2 : α) (r1 r2 : List α) :
    Gen.SpatialIndex.SpatialIndex_cellsCrossSegment floor cs ls (x1 :: y1 :: r1) (x2 :: y2 :: r2)
      = .ok (Grid.cellsCross floor cs ls (x1, y1) (x2, y2)) := by
  unfold Gen.SpatialIndex.SpatialIndex_cellsCrossSegment
  simp only [Py.getItem_zero, Py.getItem_succ, Py.bind_ok, imin_eq_min, imax_eq_max, range_eq_rangeI]
  rw [Py.forList_eq_foldl _ (fun cells i =>
      (Grid.rangeI (min (min (floor y1) (floor y2)) (ls - 1)) (min (max (floor y1) (floor y2)) (ls - 1) + 1)).foldl
        (fun cells j => if Grid.cellHit (x1, y1) (x2, y2) i j then Grid.addNew cells (i, j) else cells) cells) _ _ ?h]
  · rfl
  · intro i _ t
    rw [Py.forList_eq_foldl _
      (fun cells j => if Grid.cellHit (x1, y1) (x2, y2) i j then Grid.addNew cells (i, j) else cells) _ _ ?h2]
    · rfl
    · intro j _ cells
      simp only [ite_ok_and, Py.bind_ok, List.map_cons, List.map_nil, isSegmentIntersects_lit, contains_eq]
      exact hit_shape _ _ _ _ _ _ _ _

/-- a first coordinate list with fewer than two numbers raises `IndexError` -/
theorem tie_cellsCrossSegment_short1 (floor : α → Int) (cs ls : Int) (l1 l2 : List α) (h : l1.length < 2) :
    Gen.SpatialIndex.SpatialIndex_cellsCrossSegment floor cs ls l1 l2 = .error .index := by
  match l1, h with
  | [], _ => rfl
  | [_], _ => rfl

/-- so does a second coordinate list with fewer than two numbers (the first one being long enough) -/
theorem tie_cellsCrossSegment_short2 (floor : α → Int) (cs ls : Int) (x1 y1 : α) (r1 l2 : List α)
    (h : l2.length < 2) :
    Gen.SpatialIndex.SpatialIndex_cellsCrossSegment floor cs ls (x1 :: y1 :: r1) l2 = .error .index := by
  match l2, h with
  | [], _ => rfl
  | [_], _ => rfl
end

end TV.Tie.C08
