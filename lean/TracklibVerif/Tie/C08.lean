import TracklibVerif.Model.Grid
import TracklibVerif.Gen.Geometry
/-! Tie for C08 (geometry helpers of the spatial index): the definitions translated from the CURRENT
`tracklib/util/geometry.py` (`cartesienne`, `__eval`, `isSegmentIntersects`) equal the hand-written
`TV.Grid.cartesienne / evalLine / isSegmentIntersects` on all arguments. Bare operation classes only. -/
namespace TV.Tie.C08
open TV TV.Py
set_option linter.unusedSectionVars false
set_option linter.unusedSimpArgs false
section
variable {α : Type} [Add α] [Sub α] [Mul α] [Neg α] [LE α] [DecidableLE α] [OfNat α 0]

/-- a segment as the Python list `[x1, y1, x2, y2]` (anything after the fourth element is never read) -/
def segList (s : Grid.Seg α) (rest : List α) : List α := s.x1 :: s.y1 :: s.x2 :: s.y2 :: rest

/-- `cartesienne(segment)` returns the list `[a, b, c]` of the model's triple -/
theorem tie_cartesienne (s : Grid.Seg α) (rest : List α) :
    Gen.Geometry.cartesienne (segList s rest) =
      .ok [(Grid.cartesienne s).1, (Grid.cartesienne s).2.1, (Grid.cartesienne s).2.2] := rfl

/-- `__eval([a, b, c], x, y)` is the model's `evalLine` -/
theorem tie_eval (a b c x y : α) (rest : List α) :
    Gen.Geometry.py__eval (a :: b :: c :: rest) x y = .ok (Grid.evalLine (a, b, c) x y) := rfl

/-- `isSegmentIntersects(segment1, segment2)` is the model's straddle test -/
theorem tie_isSegmentIntersects (s1 s2 : Grid.Seg α) (r1 r2 : List α) :
    Gen.Geometry.isSegmentIntersects (segList s1 r1) (segList s2 r2) = .ok (Grid.isSegmentIntersects s1 s2) := rfl

/-- a list shorter than four numbers raises `IndexError` (so the model's `Seg` is all there is) -/
theorem tie_isSegmentIntersects_short1 (l1 l2 : List α) (h : l1.length < 4) :
    Gen.Geometry.isSegmentIntersects l1 l2 = .error .index := by
  match l1, h with
  | [], _ => rfl
  | [_], _ => rfl
  | [_, _], _ => rfl
  | [_, _, _], _ => rfl

end
end TV.Tie.C08
