import TracklibVerif.Model.Grid
import TracklibVerif.Gen.Geometry
import TracklibVerif.Gen.SpatialIndex
/-! Tie for C08 (geometry helpers of the spatial index): the definitions translated from the CURRENT
`tracklib/util/geometry.py` (`cartesienne`, `__eval`, `isSegmentIntersects`) equal the hand-written
`TV.Grid.cartesienne / evalLine / isSegmentIntersects` on all arguments. Bare operation classes only.

Also tied: `SpatialIndex.__getCell` and `SpatialIndex.groundDistanceToUnits` of the CURRENT
`tracklib/core/spatial_index.py`. `tie_getCellR` / `tie_groundDistanceToUnits` are about the model's executed forms (`ZeroDivisionError` on a zero
cell side and the caps `min(index, size)` included); that the executed form returns the value function `getCell` the
theorems use is the proved `TV.C08.getCell_min_is_identity`.
`groundDistanceToUnits` adds the Python literal `1` (`(1 : α)`), the model the converted integer
`((1 : Int) : α)`: `h1` says they are the same number. -/
namespace TV.Tie.C08
open TV TV.Py
set_option linter.unusedSectionVars false
set_option linter.unusedSimpArgs false
section
variable {α : Type} [Add α] [Sub α] [Mul α] [Neg α] [LE α] [DecidableLE α] [OfNat α 0]

/-- a segment as the Python list `[x1, y1, x2, y2]` (anything after the fourth element is never read) -/
def segList (s : Grid.Seg α) (rest : List α) : List α := s.x1 :: s.y1 :: s.x2 :: s.y2 :: rest

/-- `cartesienne(segment)` returns the list `[a, b, c]` of the model's triple -/
theorem tie_cartesienne (s : Grid.Seg α) (rest : List α) :
    Gen.Geometry.cartesienne (segList s rest) =
      .ok [(Grid.cartesienne s).1, (Grid.cartesienne s).2.1, (Grid.cartesienne s).2.2] := rfl

/-- `__eval([a, b, c], x, y)` is the model's `evalLine` -/
theorem tie_eval (a b c x y : α) (rest : List α) :
    Gen.Geometry.py__eval (a :: b :: c :: rest) x y = .ok (Grid.evalLine (a, b, c) x y) := rfl

/-- `isSegmentIntersects(segment1, segment2)` is the model's straddle test -/
theorem tie_isSegmentIntersects (s1 s2 : Grid.Seg α) (r1 r2 : List α) :
    Gen.Geometry.isSegmentIntersects (segList s1 r1) (segList s2 r2) = .ok (Grid.isSegmentIntersects s1 s2) := rfl

/-- a list shorter than four numbers raises `IndexError` (so the model's `Seg` is all there is) -/
theorem tie_isSegmentIntersects_short1 (l1 l2 : List α) (h : l1.length < 4) :
    Gen.Geometry.isSegmentIntersects l1 l2 = .error .index := by
  match l1, h with
  | [], _ => rfl
  | [_], _ => rfl
  | [_, _], _ => rfl
  | [_, _, _], _ => rfl

end
section
variable {α : Type} [Add α] [Sub α] [Mul α] [Div α] [Neg α] [LT α] [LE α]
  [DecidableLT α] [DecidableLE α] [IntCast α] [OfNat α 0] [OfNat α 1]

/-- the model's exceptions as Python exceptions -/
def liftErr : Grid.Err → Py.Err
  | .zerodiv => .zerodiv
  | .index => .index
  | .type => .type
  | .exit => .exit

/-- a model result as a result of the translated code -/
def lift {β : Type} : Grid.Res β → Py.M β
  | .ok v => .ok v
  | .error e => .error (liftErr e)

/-- `__getCell(coord)` as executed — the two range tests, the two divisions (`ZeroDivisionError` included) and the
caps `min(index, csize)`, `min(index, lsize)` — is the model's `getCellR`. `hz`: the model's `x == 0`
(`¬ x < 0 ∧ ¬ 0 < x`) is Python's (`x ≤ 0 ∧ 0 ≤ x`) — true in every linear order and of every double that is not NaN.
(That `getCellR` returns the affine value function `getCell` the theorems use is `TV.C08.getCell_min_is_identity`.) -/
theorem tie_getCellR (hz : ∀ x : α, Grid.isZero x = Py.feq x 0) (ix : Grid.Index α) (p : α × α) :
    Gen.SpatialIndex.SpatialIndex_getCell ix.xmin ix.xmax ix.ymin ix.ymax ix.dX ix.dY ix.csize ix.lsize p.1 p.2
      = lift (Grid.getCellR ix p) := by
  have hm : ∀ a b : α, Py.fmin a b = Grid.pyMin a b := fun _ _ => rfl
  simp only [Gen.SpatialIndex.SpatialIndex_getCell, Grid.getCellR, Py.fdiv, hz, hm]
  by_cases h1 : p.1 < ix.xmin
  · simp [h1, lift]
  · by_cases h2 : ix.xmax < p.1
    · simp [h2, lift]
    · by_cases h3 : p.2 < ix.ymin
      · simp [h1, h2, h3, lift]
      · by_cases h4 : ix.ymax < p.2
        · simp [h1, h2, h4, lift]
        · by_cases hx : Py.feq ix.dX 0 = true
          · simp [h1, h2, h3, h4, hx, lift, liftErr]
          · by_cases hy : Py.feq ix.dY 0 = true
            · simp [h1, h2, h3, h4, hx, hy, lift, liftErr]
            · simp [h1, h2, h3, h4, hx, hy, lift]

/-- `groundDistanceToUnits(distance)`, `ZeroDivisionError` included. `h1`: the Python literal `1` is the converted
integer `1`; `hz` as in `tie_getCellR`. -/
theorem tie_groundDistanceToUnits (fl : α → Int) (ix : Grid.Index α) (distance : α)
    (h1 : ((1 : Int) : α) = (1 : α)) (hz : ∀ x : α, Grid.isZero x = Py.feq x 0) :
    Gen.SpatialIndex.SpatialIndex_groundDistanceToUnits fl ix.dX ix.dY distance = lift (Grid.groundDistanceToUnits fl ix distance) := by
  have hm : Py.fmin ix.dX ix.dY = Grid.pyMin ix.dX ix.dY := rfl
  simp only [Gen.SpatialIndex.SpatialIndex_groundDistanceToUnits, Grid.groundDistanceToUnits, Py.fdiv, hz, h1, hm]
  by_cases h : Py.feq (Grid.pyMin ix.dX ix.dY) 0 = true
  · simp [h, lift, liftErr]
  · simp [h, lift]
end

end TV.Tie.C08
