import TracklibVerif.Model.Filter
import TracklibVerif.Gen.Kernel
import Mathlib.Algebra.Order.Field.Basic
/-! Tie for C15 (kernel part): `Kernel.evaluate` and `Kernel.toSlidingWindow` of `tracklib/core/kernel.py` translated from the
CURRENT source (tools/py2lean.py → `Gen/Kernel.lean`) against the hand-written model `Model/Filter.lean`, section `kernel`.

* `tie_evaluate` — `Kernel.evaluate(x)` = `Filter.evaluate f support x`, under the hypothesis that `abs(x) <= support` has the
  same truth value with Python's `abs` (`Py.fabs`) and with the model's `absv`; `fabs_le_iff_field`: the hypothesis holds in every
  ordered field (there `Py.fabs = absv`, `fabs_eq_absv_field`). At IEEE doubles the two differ only in the sign of zero
  (`abs(-0.0)` is `0.0`, `absv (-0.0)` is `-0.0`) and on no comparison.
* `tie_toSlidingWindow` — `Kernel.toSlidingWindow()` (`raise KernelError` on `support < 1`, the sampling loop writing `values[i]`
  and accumulating `norm`, the normalisation loop `values[i] /= norm`) = `lift (Filter.slidingWindow f support S)` with
  `S = int(self.support) ≥ 0`: equality on every result, errors included (`lift`: `support ↦ raised`, `zeroDiv ↦ ZeroDivisionError`);
  `slidingWindow_error`: the model raises no other error; `tie_toSlidingWindow_field`: the same in an ordered field, where only
  the reading of the literals `2.0`, `0.5` remains a hypothesis.

The loop lemmas (`loop1_tie`, `loop2_tie`, `loop2_err`) are stated for an arbitrary body satisfying a pointwise equation; the
equation is then proved of the generated body, so nothing of the generated text is copied here. -/
namespace TV.Tie.C15
open TV TV.Py
set_option linter.unusedSectionVars false
set_option linter.unusedSimpArgs false
set_option linter.unusedVariables false

/-! ## Prelude lemmas (general facts about `Py.getIdx` / `Py.setIdx`; could move to Model/PyPrelude.lean) -/
section prelude
variable {β : Type}

theorem getElem?_append_cons (pre : List β) (x : β) (post : List β) : (pre ++ x :: post)[pre.length]? = some x := by
  induction pre with
  | nil => rfl
  | cons a p ih => simp only [List.cons_append, List.length_cons, List.getElem?_cons_succ, ih]

theorem set_append_cons (pre : List β) (x v : β) (post : List β) : (pre ++ x :: post).set pre.length v = pre ++ v :: post := by
  induction pre with
  | nil => rfl
  | cons a p ih => simp only [List.cons_append, List.length_cons, List.set_cons_succ, ih]

/-- `L[i]` at the position just after `pre` -/
theorem getIdx_append_cons (pre : List β) (x : β) (post : List β) :
    Py.getIdx (pre ++ x :: post) (pre.length : Int) = .ok x := by
  rw [Py.getIdx_natCast]
  exact Py.getItem_eq_ok (getElem?_append_cons pre x post)

/-- `L[i] = v` at the position just after `pre` -/
theorem setIdx_append_cons (pre : List β) (x v : β) (post : List β) :
    Py.setIdx (pre ++ x :: post) (pre.length : Int) v = .ok (pre ++ v :: post) := by
  rw [Py.setIdx_natCast _ _ _ (by simp only [List.length_append, List.length_cons]; omega), set_append_cons]
theorem getIdx_cons_zero (x : β) (post : List β) : Py.getIdx (x :: post) (0 : Int) = .ok x :=
  getIdx_append_cons [] x post
end prelude

/-! ## `Kernel.evaluate` -/
section evaluate
variable {α : Type} [Sub α] [Mul α] [Neg α] [LT α] [LE α] [DecidableLT α] [DecidableLE α] [OfNat α 0] [OfNat α 1]

/-- `Kernel.evaluate(x)` returns the model's `evaluate f support x` (and never raises), provided `abs(x) <= support` has the same
truth value for Python's `abs` (`Py.fabs x = if 0 < x then x else 0 - x`) and for the model's `absv x = if x < 0 then -x else x`.
True in every ordered field (`fabs_le_iff_field`); at IEEE doubles `abs(-0.0)` is `0.0` for Python and `-0.0` for `absv` (and NaN
stays NaN for both), which no comparison with `support` distinguishes. The bool-times-float `f(x) * (abs(x) <= support)` of the
source and the model's `f x * ind (…)` unfold to the same term. -/
theorem tie_evaluate (support : α) (f : α → α) (x : α)
    (h : decide (Py.fabs x ≤ support) = decide (Filter.absv x ≤ support)) :
    Gen.Kernel.Kernel_evaluate support f x = .ok (Filter.evaluate f support x) := by
  unfold Gen.Kernel.Kernel_evaluate Filter.evaluate Filter.ind
  simp only [Py.bind_ok]      -- also when the lambda's parameter has another name than the argument (`Py.bind (.ok x) fun u => …`)
  rw [h]
  by_cases hc : Filter.absv x ≤ support
  · simp only [hc, decide_true, if_true]
  · simp only [hc, decide_false, if_false, Bool.false_eq_true]
end evaluate

section field
variable {α : Type} [Field α] [LinearOrder α] [IsStrictOrderedRing α]

/-- in an ordered field Python's `abs` and the model's `absv` are the same function -/
theorem fabs_eq_absv_field (x : α) : Py.fabs x = Filter.absv x := by
  unfold Py.fabs Filter.absv
  by_cases h1 : 0 < x
  · rw [if_pos h1, if_neg (not_lt.mpr h1.le)]
  · rw [if_neg h1, zero_sub]
    by_cases h2 : x < 0
    · rw [if_pos h2]
    · rw [if_neg h2]
      have : x = 0 := le_antisymm (not_lt.mp h1) (not_lt.mp h2)
      rw [this, neg_zero]

/-- the hypothesis of `tie_evaluate` holds in every ordered field -/
theorem fabs_le_iff_field (x s : α) : decide (Py.fabs x ≤ s) = decide (Filter.absv x ≤ s) := by
  rw [fabs_eq_absv_field]
end field

/-! ## `Kernel.toSlidingWindow` -/
section window
variable {α : Type} [Add α] [Sub α] [Mul α] [Div α] [Neg α] [LT α] [LE α] [DecidableLT α] [DecidableLE α]
  [OfNat α 0] [OfNat α 1] [NatCast α] [IntCast α] [OfScientific α]

/-- the model's errors as Python exceptions: `support` is the `raise KernelError`, `zeroDiv` the `ZeroDivisionError` of
`values[i] /= norm`; `slidingWindow` produces no other error (`slidingWindow_error`) -/
def lift : Except Filter.Err (List α) → Py.M (List α)
  | .ok w => .ok w
  | .error .support => .error .raised
  | .error .zeroDiv => .error .zerodiv
  | .error _ => .error .type

/-- the only errors of the model's `slidingWindow` are `support` and `zeroDiv` -/
theorem slidingWindow_error [BEq α] (f : α → α) (support : α) (S : Nat) (e : Filter.Err)
    (h : Filter.slidingWindow f support S = .error e) : e = .support ∨ e = .zeroDiv := by
  unfold Filter.slidingWindow at h
  simp only [] at h
  split at h
  · left; injection h with h; exact h.symm
  · split at h
    · right; injection h with h; exact h.symm
    · exact nomatch h

/-- first loop (`values[i] = self.evaluate(x); norm += values[i]`), for an arbitrary body that at position `k = len(pre) < N`
overwrites item `k` with `g k` and adds `g k` to the accumulator: from `pre ++ [0]*m` (`len(pre) + m = N`) the loop over
`range(len(pre), N)` ends with `pre ++ [g k, …, g (N-1)]` and the accumulator folded over these values -/
theorem loop1_tie {ρ : Type} (g : Nat → α) (N : Nat) (body : Int → List α × α → Py.M (Py.Ctl (List α × α) ρ))
    (h : ∀ (pre : List α) (x : α) (post : List α) (nrm : α), pre.length < N →
      body (pre.length : Int) (pre ++ x :: post, nrm) = .ok (.cont (pre ++ g pre.length :: post, nrm + g pre.length)))
    (m : Nat) : ∀ (pre : List α) (nrm : α), pre.length + m = N →
      Py.forList body (Py.range (pre.length : Int) (N : Int)) (pre ++ List.replicate m (0 : α), nrm)
        = .ok (.done (pre ++ (List.range' pre.length m).map g, ((List.range' pre.length m).map g).foldl (· + ·) nrm)) := by
  induction m with
  | zero =>
    intro pre nrm hl
    rw [Py.range_empty (by omega)]
    simp only [List.replicate_zero, List.range'_zero, List.map_nil, List.foldl_nil, Py.forList_nil]
  | succ m ih =>
    intro pre nrm hl
    rw [Py.range_cons (by omega), List.replicate_succ, Py.forList_cons_cont (h pre 0 _ nrm (by omega))]
    have h3 := ih (pre ++ [g pre.length]) (nrm + g pre.length)
      (by simp only [List.length_append, List.length_singleton]; omega)
    simp only [List.length_append, List.length_singleton, List.append_assoc, List.singleton_append, Int.natCast_add,
      Int.natCast_one] at h3
    rw [h3]
    simp only [List.range'_succ, List.map_cons, List.foldl_cons]

/-- first loop from the start: `[0]*N` becomes `[g 0, …, g (N-1)]`, the accumulator their left-to-right sum -/
theorem loop1_tie0 {ρ : Type} (g : Nat → α) (N : Nat) (body : Int → List α × α → Py.M (Py.Ctl (List α × α) ρ))
    (h : ∀ (pre : List α) (x : α) (post : List α) (nrm : α), pre.length < N →
      body (pre.length : Int) (pre ++ x :: post, nrm) = .ok (.cont (pre ++ g pre.length :: post, nrm + g pre.length)))
    (nrm : α) :
    Py.forList body (Py.range (0 : Int) (N : Int)) (List.replicate N (0 : α), nrm)
      = .ok (.done ((List.range N).map g, ((List.range N).map g).foldl (· + ·) nrm)) := by
  have h3 := loop1_tie g N body h N [] nrm (by simp only [List.length_nil]; omega)
  simp only [List.length_nil, List.nil_append, Int.natCast_zero] at h3
  rw [List.range_eq_range', h3]

/-- second loop (`values[i] /= norm`) when the division does not raise, for an arbitrary body that divides the item at
position `len(pre)` by `nrm`: every item of `rest` is divided -/
theorem loop2_tie {ρ : Type} (nrm : α) (N : Nat) (body : Int → List α → Py.M (Py.Ctl (List α) ρ))
    (h : ∀ (pre : List α) (x : α) (post : List α),
      body (pre.length : Int) (pre ++ x :: post) = .ok (.cont (pre ++ (x / nrm) :: post)))
    (rest : List α) : ∀ (pre : List α), pre.length + rest.length = N →
      Py.forList body (Py.range (pre.length : Int) (N : Int)) (pre ++ rest) = .ok (.done (pre ++ rest.map (· / nrm))) := by
  induction rest with
  | nil =>
    intro pre hl
    simp only [List.length_nil] at hl
    rw [Py.range_empty (by omega)]
    simp only [List.map_nil, Py.forList_nil]
  | cons x post ih =>
    intro pre hl
    simp only [List.length_cons] at hl
    rw [Py.range_cons (by omega), Py.forList_cons_cont (h pre x post)]
    have h3 := ih (pre ++ [x / nrm]) (by simp only [List.length_append, List.length_singleton]; omega)
    simp only [List.length_append, List.length_singleton, List.append_assoc, List.singleton_append, Int.natCast_add,
      Int.natCast_one] at h3
    rw [h3]
    simp only [List.map_cons]

/-- second loop from the start -/
theorem loop2_tie0 {ρ : Type} (nrm : α) (N : Nat) (body : Int → List α → Py.M (Py.Ctl (List α) ρ))
    (h : ∀ (pre : List α) (x : α) (post : List α),
      body (pre.length : Int) (pre ++ x :: post) = .ok (.cont (pre ++ (x / nrm) :: post)))
    (vals : List α) (hl : vals.length = N) :
    Py.forList body (Py.range (0 : Int) (N : Int)) vals = .ok (.done (vals.map (· / nrm))) := by
  have h3 := loop2_tie nrm N body h vals [] (by simp only [List.length_nil]; omega)
  simp only [List.length_nil, List.nil_append, Int.natCast_zero] at h3
  exact h3

/-- second loop when `norm == 0`: the first division raises (the list is not empty) -/
theorem loop2_err {ρ : Type} (N : Nat) (body : Int → List α → Py.M (Py.Ctl (List α) ρ))
    (h : ∀ (x : α) (post : List α), body (0 : Int) (x :: post) = .error .zerodiv)
    (vals : List α) (hl : vals.length = N) (hN : 0 < N) :
    Py.forList body (Py.range (0 : Int) (N : Int)) vals = .error .zerodiv := by
  cases vals with
  | nil => simp only [List.length_nil] at hl; omega
  | cons x post => rw [Py.range_cons (by omega), Py.forList_cons_error (h x post)]

/-- `Kernel.toSlidingWindow()` is the model's `slidingWindow f support S`, errors included, for `S = int(self.support)` (a
natural number: `hS`; `int(support) < 0` is excluded — then `support < 1`, see the remark below).
Hypotheses on the scalar type, all true at IEEE doubles and in an ordered field: the literal `2.0` is the cast of `2` (`h2`),
`0.5` is `1 / 2` (`h05`), the cast of a non-negative `int` is the cast of the natural number (`hcast`), the model's `==` is
Python's float `==` (`hbeq`); and the hypothesis of `tie_evaluate` at the `2 S + 1` sample points (`hev`).
Remark: when `trunc support` is negative the source raises `KernelError` as soon as `support < 1`; a `trunc` that returns a
negative number on a `support ≥ 1` is not Python's `int`. -/
theorem tie_toSlidingWindow [BEq α] (trunc : α → Int) (support : α) (f : α → α) (S : Nat)
    (hS : trunc support = (S : Int))
    (h2 : (2.0 : α) = ((2 : Nat) : α))
    (h05 : (0.5 : α) = (1 : α) / ((2 : Nat) : α))
    (hcast : ∀ k : Nat, (((k : Nat) : Int) : α) = ((k : Nat) : α))
    (hbeq : ∀ a b : α, (a == b) = Py.feq a b)
    (hev : ∀ i : Nat, i < 2 * S + 1 →
      decide (Py.fabs (Filter.samplePoint (α := α) (2 * S + 1) i) ≤ support)
        = decide (Filter.absv (Filter.samplePoint (α := α) (2 * S + 1) i) ≤ support)) :
    Gen.Kernel.Kernel_toSlidingWindow trunc support f = lift (Filter.slidingWindow f support S) := by
  unfold Gen.Kernel.Kernel_toSlidingWindow Filter.slidingWindow
  simp only []
  by_cases hs : support < 1
  · simp only [hs, decide_true, if_true, Py.bind_error, lift]
  · have hsz : (2 : Int) * (S : Int) + 1 = ((2 * S + 1 : Nat) : Int) := by omega
    simp only [hs, decide_false, if_false, Bool.false_eq_true, Py.bind_ok]
    rw [hS, hsz]
    have hrep : Py.replicate ((2 * S + 1 : Nat) : Int) (0 : α) = List.replicate (2 * S + 1) (0 : α) := by
      unfold Py.replicate; rw [Int.toNat_natCast]
    rw [hrep]
    have hl1 : ∀ body : Int → List α × α → Py.M (Py.Ctl (List α × α) (List α)), _ →
        Py.forList body (Py.range (0 : Int) ((2 * S + 1 : Nat) : Int)) (List.replicate (2 * S + 1) (0 : α), (0 : α)) = _ :=
      fun body h => loop1_tie0 (fun i => Filter.evaluate f support (Filter.samplePoint (2 * S + 1) i)) (2 * S + 1) body h 0
    rw [hl1 _ ?spec1]
    case spec1 =>
      intro pre x post nrm hlt
      simp only [h2, h05, hcast, ← Filter.samplePoint.eq_1]
      rw [tie_evaluate support f _ (hev _ hlt)]
      simp only [Py.bind_ok, setIdx_append_cons, getIdx_append_cons]
    simp only [Py.bind_ok, hbeq]
    generalize hv : List.map (fun i => Filter.evaluate f support (Filter.samplePoint (2 * S + 1) i))
      (List.range (2 * S + 1)) = vals
    have hlen : vals.length = 2 * S + 1 := by rw [← hv]; simp only [List.length_map, List.length_range]
    generalize List.foldl (fun x1 x2 => x1 + x2) (0 : α) vals = nrm
    by_cases hz : Py.feq nrm 0 = true
    · have hl2 : ∀ body : Int → List α → Py.M (Py.Ctl (List α) (List α)), _ →
          Py.forList body (Py.range (0 : Int) ((2 * S + 1 : Nat) : Int)) vals = _ :=
        fun body h => loop2_err (2 * S + 1) body h vals hlen (by omega)
      rw [hl2 _ ?spec2]
      case spec2 =>
        intro x post
        simp only [getIdx_cons_zero, Py.bind_ok, Py.fdiv, hz, if_true, Py.bind_error]
      simp only [Py.bind_error, hz, if_true, lift]
    · have hl2 : ∀ body : Int → List α → Py.M (Py.Ctl (List α) (List α)), _ →
          Py.forList body (Py.range (0 : Int) ((2 * S + 1 : Nat) : Int)) vals = _ :=
        fun body h => loop2_tie0 nrm (2 * S + 1) body h vals hlen
      rw [hl2 _ ?spec3]
      case spec3 =>
        intro pre x post
        have hz' : Py.feq nrm 0 = false := Bool.eq_false_iff.mpr hz
        simp only [getIdx_append_cons, setIdx_append_cons, Py.bind_ok, Py.fdiv, hz', Bool.false_eq_true, if_false]
      simp only [Py.bind_ok, hz, Bool.false_eq_true, if_false, lift]
end window

/-- `tie_toSlidingWindow` in an ordered field: the hypotheses on the casts, on `==` and on `abs` hold there; what remains assumed is
the reading of the two decimal literals (`2.0` is 2, `0.5` is 1/2) by the field's `OfScientific` -/
theorem tie_toSlidingWindow_field {α : Type} [Field α] [LinearOrder α] [IsStrictOrderedRing α] [OfScientific α]
    (trunc : α → Int) (support : α) (f : α → α) (S : Nat) (hS : trunc support = (S : Int))
    (h2 : (2.0 : α) = ((2 : Nat) : α)) (h05 : (0.5 : α) = (1 : α) / ((2 : Nat) : α)) :
    Gen.Kernel.Kernel_toSlidingWindow trunc support f = lift (Filter.slidingWindow f support S) :=
  tie_toSlidingWindow trunc support f S hS h2 h05 (fun k => Int.cast_natCast k)
    (fun a b => by
      unfold Py.feq
      by_cases h : a = b
      · subst h; simp only [beq_self_eq_true, le_refl, decide_true, Bool.and_self]
      · have h3 : ¬ (a ≤ b ∧ b ≤ a) := fun h' => h (le_antisymm h'.1 h'.2)
        rw [show (a == b) = false from beq_eq_false_iff_ne.mpr h, ← Bool.decide_and, decide_eq_false h3])
    (fun i _ => fabs_le_iff_field _ _)

end TV.Tie.C15
