import TracklibVerif.Gen.Segmentation
import TracklibVerif.Model.Split
/-! Translation tie for the feature-name half of `split(track, source, limit)` (tracklib/algo/segmentation.py):
the generated `TV.Gen.Segmentation.split_feature` against the hand-written loop `TV.Split.goU` / `TV.Split.splitU`
(`Model/Split.lean`), on ALL arguments with `len(source) = track.size()`.

Reading of the generated definition: `source` is the marker column, a piece `track.extract(begin, i)` is the pair of its
bounds `(begin, i)`, `newtrack.length()` is the uninterpreted `Piece_length (begin, i)`.
Reading of the model: an observation is its index (`β := Nat`), the marker list is
`obsOf source = [(0, source[0] == 1), (1, source[1] == 1), …]`, a piece is the list of its indices; the model's `short` /
`keepTail` are `limitShort` / `limitKeepTail` on `Piece_length (bounds n p)`, where `bounds n p` is (first index, last
index) of a non-empty piece `p` and, for the EMPTY piece (only possible as the closing piece, when the last observation
is marked: `begin = n`), the pair `(n, n - 1)` the code passes to `extract` then.  Core Lean only. -/
namespace TV.Tie.C11Split
open TV TV.Py

/-! ## the model's pieces are index ranges -/

/-- `(begin, end)` numbers of a piece's uid, as Python ints -/
def proj (β : Type) (x : Split.PId × β) : Int × Int := ((x.1.2.1 : Int), (x.1.2.2 : Int))

/-- `[b, …, i-1] ++ [i] = [b, …, i]` -/
theorem range'_snoc (b i : Nat) (h : b ≤ i) : List.range' b (i - b) ++ [i] = List.range' b (i + 1 - b) := by
  have : i + 1 - b = (i - b) + 1 := by omega
  rw [this, List.range'_concat]; simp; omega

/-- the marker list of a track whose observations are their indices `i, i+1, …, i+k-1`, `m j` = observation `j` is marked -/
def obsFrom (m : Nat → Bool) (i k : Nat) : List (Nat × Bool) := (List.range' i k).map (fun j => (j, m j))

theorem obsFrom_succ (m : Nat → Bool) (i k : Nat) : obsFrom m i (k + 1) = (i, m i) :: obsFrom m (i + 1) k := by
  unfold obsFrom; rw [List.range'_succ]; rfl

theorem length_obsFrom (m : Nat → Bool) (i k : Nat) : (obsFrom m i k).length = k := by
  unfold obsFrom; rw [List.length_map, List.length_range']

/-- a numbered piece is the index range of its numbers -/
def Good (x : Split.PId × List Nat) : Prop := x.2 = List.range' x.1.2.1 (x.1.2.2 + 1 - x.1.2.1)

/-- invariant of `goU` on observations that are their indices: `begin ≤ i`, the current piece is `[begin, …, i-1]`, every
emitted piece `((count, b, e), p)` is `[b, …, e]` -/
theorem goU_inv (short : List Nat → Bool) (m : Nat → Bool) (k : Nat) : ∀ (i b c : Nat) (acc : List (Split.PId × List Nat)),
    b ≤ i → (∀ x ∈ acc, Good x) →
    (Split.goU short (obsFrom m i k) i b c (List.range' b (i - b)) acc).2.2.1 ≤ i + k ∧
    (Split.goU short (obsFrom m i k) i b c (List.range' b (i - b)) acc).2.1 =
      List.range' (Split.goU short (obsFrom m i k) i b c (List.range' b (i - b)) acc).2.2.1
        (i + k - (Split.goU short (obsFrom m i k) i b c (List.range' b (i - b)) acc).2.2.1) ∧
    ∀ x ∈ (Split.goU short (obsFrom m i k) i b c (List.range' b (i - b)) acc).1, Good x := by
  induction k with
  | zero =>
    intro i b c acc hb hacc
    simp only [obsFrom, List.range'_zero, List.map_nil, Split.goU, Nat.add_zero]
    exact ⟨hb, trivial, hacc⟩
  | succ k ih =>
    intro i b c acc hb hacc
    have he : ([] : List Nat) = List.range' (i + 1) (i + 1 - (i + 1)) := by simp
    rw [obsFrom_succ, Split.goU, range'_snoc b i hb, show i + (k + 1) = i + 1 + k by omega]
    by_cases hm : m i = true
    · rw [if_pos hm]
      by_cases hs : short (List.range' b (i + 1 - b)) = true
      · rw [if_pos hs, he]
        exact ih (i + 1) (i + 1) c acc (Nat.le_refl _) hacc
      · rw [if_neg hs, he]
        refine ih (i + 1) (i + 1) (c + 1) _ (Nat.le_refl _) ?_
        intro x hx
        rcases List.mem_append.mp hx with hx | hx
        · exact hacc x hx
        · rw [List.mem_singleton] at hx; subst hx; rfl
    · rw [if_neg hm]
      exact ih (i + 1) b c acc (by omega) hacc

/-! ## the filters of the model, from `Piece_length` on the bounds of a piece -/

/-- what the code passes to `extract` for the piece `p` of a track of `n` observations: (first index, last index);
for the empty piece — the closing piece when the last observation is marked — `(n, n - 1)` -/
def bounds (n : Nat) (p : List Nat) : Int × Int :=
  match p.head?, p.getLast? with
  | some b, some e => ((b : Int), (e : Int))
  | _, _ => ((n : Int), (n : Int) - 1)

theorem bounds_nil (n : Nat) : bounds n [] = ((n : Int), (n : Int) - 1) := rfl

theorem bounds_range' (n b k : Nat) (hk : 0 < k) : bounds n (List.range' b k) = ((b : Int), ((b + k - 1 : Nat) : Int)) := by
  unfold bounds
  rw [List.head?_range', List.getLast?_range', if_neg (by omega), if_neg (by omega)]

section scalar
variable {α : Type} [LT α] [LE α] [DecidableLT α] [DecidableLE α] [OfNat α 0] [OfNat α 1]

/-- the model's `short`: `limit > 0 and newtrack.length() < limit` -/
def short (n : Nat) (limit : α) (plen : Int × Int → α) (p : List Nat) : Bool :=
  Split.limitShort limit (plen (bounds n p))

/-- the model's `keepTail`: `limit == 0 or (limit > 0 and newtrack.length() >= limit)`, `==` being the model's `BEq α` -/
def keepTail [BEq α] (n : Nat) (limit : α) (plen : Int × Int → α) (p : List Nat) : Bool :=
  Split.limitKeepTail limit (plen (bounds n p))

/-- observation `j` is marked: `source[j] == 1` (Python's float `==`, `Py.feq`) -/
def mark (source : List α) (j : Nat) : Bool :=
  match source[j]? with
  | some v => Py.feq v (1 : α)
  | none => false

/-- the marker list of the model: observation = its index, marker = `source[i] == 1` -/
def obsOf (source : List α) : List (Nat × Bool) := (List.range source.length).map (fun j => (j, mark source j))

omit [LT α] [DecidableLT α] [OfNat α 0] in
theorem obsOf_eq (source : List α) : obsOf source = obsFrom (mark source) 0 source.length := by
  unfold obsOf obsFrom; rw [List.range_eq_range']

end scalar

/-! ## the loop -/

/-- the `for i in range(track.size())` loop, for an ARBITRARY body that satisfies the pointwise equation of the generated
one (`sh` = the `limit > 0 and length < limit` test on the bounds of the piece), is the model's `goU` -/
theorem loop_tie (n : Nat) (m : Nat → Bool) (sh : Int × Int → Bool) (shortM : List Nat → Bool)
    (body : Int → (List (Int × Int) × Int × Int) → M (Ctl (List (Int × Int) × Int × Int) (List (Int × Int))))
    (h : ∀ (i : Nat) (NT : List (Int × Int)) (count begin : Int), i < n →
      body (i : Int) (NT, count, begin) =
        if m i then
          (if sh (begin, (i : Int)) then .ok (.cont (NT, count, (i : Int) + 1))
           else .ok (.cont (NT ++ [(begin, (i : Int))], count + 1, (i : Int) + 1)))
        else .ok (.cont (NT, count, begin)))
    (hs : ∀ b k : Nat, 0 < k → shortM (List.range' b k) = sh ((b : Int), ((b + k - 1 : Nat) : Int)))
    (k : Nat) : ∀ (i b c : Nat) (acc : List (Split.PId × List Nat)), i + k = n → b ≤ i →
    Py.forList body (Py.range (i : Int) (n : Int)) (acc.map (proj _), (c : Int), (b : Int)) =
      .ok (.done (((Split.goU shortM (obsFrom m i k) i b c (List.range' b (i - b)) acc).1.map (proj _)),
        ((Split.goU shortM (obsFrom m i k) i b c (List.range' b (i - b)) acc).2.2.2 : Int),
        ((Split.goU shortM (obsFrom m i k) i b c (List.range' b (i - b)) acc).2.2.1 : Int))) := by
  induction k with
  | zero =>
    intro i b c acc hik hb
    rw [Py.range_empty (by omega), Py.forList_nil]
    simp only [obsFrom, List.range'_zero, List.map_nil, Split.goU]
  | succ k ih =>
    intro i b c acc hik hb
    have he : ([] : List Nat) = List.range' (i + 1) (i + 1 - (i + 1)) := by simp
    have hi1 : ((i : Int) + 1) = ((i + 1 : Nat) : Int) := by omega
    have hc1 : ((c : Int) + 1) = ((c + 1 : Nat) : Int) := by omega
    rw [Py.range_cons (by omega), Py.forList_cons, h i _ _ _ (by omega), obsFrom_succ, Split.goU, range'_snoc b i hb,
      hs b (i + 1 - b) (by omega), show b + (i + 1 - b) - 1 = i by omega]
    by_cases hm : m i = true
    · rw [if_pos hm, if_pos hm]
      by_cases hsh : sh ((b : Int), (i : Int)) = true
      · rw [if_pos hsh, if_pos hsh, he, hi1]
        exact ih (i + 1) (i + 1) c acc (by omega) (Nat.le_refl _)
      · rw [if_neg hsh, if_neg hsh, he, hi1, hc1]
        have hmap : acc.map (proj _) ++ [((b : Int), (i : Int))] =
            (acc ++ [((c, b, i), List.range' b (i + 1 - b))]).map (proj _) := by
          rw [List.map_append]; rfl
        rw [hmap]
        exact ih (i + 1) (i + 1) (c + 1) _ (by omega) (Nat.le_refl _)
    · rw [if_neg hm, if_neg hm, hi1]
      exact ih (i + 1) b c acc (by omega) (by omega)

section main
variable {α : Type} [LT α] [LE α] [DecidableLT α] [DecidableLE α] [OfNat α 0] [OfNat α 1]

/-- **translation tie of `split(track, <feature name>, limit)`**: when the marker column has one value per observation
(`source.length = n`, `n = track.size()`), the Lean translation of the CURRENT source never raises and returns exactly
the `(begin, end)` numbers of the pieces of the model's `splitU`, in order — loop pieces `(begin, i)` (the skipped ones
absent, `begin` moved all the same), then the closing piece `(begin, n - 1)` under the code's `begin != 0` and `keepTail`
tests. Hypothesis `hbeq`: the model's `limit == 0` is Python's float `==` (`Py.feq`). -/
theorem tie_split_feature [BEq α] (n : Nat) (source : List α) (limit : α) (plen : Int × Int → α)
    (hn : source.length = n) (hbeq : (limit == (0 : α)) = Py.feq limit (0 : α)) :
    Gen.Segmentation.split_feature (n : Int) source limit plen =
      .ok ((Split.splitU (short n limit plen) (keepTail n limit plen) (obsOf source)).map (proj _)) := by
  have hl : ∀ body, _ → Py.forList body (Py.range (0 : Int) (n : Int)) (([] : List (Int × Int)), (0 : Int), (0 : Int)) = _ :=
    fun body h => loop_tie n (mark source) (fun be => decide ((0 : α) < limit) && decide (plen be < limit))
      (short n limit plen) body h
      (fun b k hk => by unfold short Split.limitShort; rw [bounds_range' n b k hk]) n 0 0 0 [] (by omega) (Nat.le_refl _)
  obtain ⟨hle, hcur, -⟩ := goU_inv (short n limit plen) (mark source) n 0 0 0 [] (Nat.le_refl _) (fun _ hx => nomatch hx)
  unfold Gen.Segmentation.split_feature
  simp only []
  rw [hl _ ?spec]
  case spec =>
    intro i NT count begin hi
    obtain ⟨v, hv⟩ : ∃ v, source[i]? = some v := ⟨source[i]'(by omega), List.getElem?_eq_getElem (by omega)⟩
    simp only [Py.getIdx_natCast, Py.getItem_eq_ok hv, Py.bind_ok, mark, hv]
  simp only [Py.bind_ok, Split.splitU, obsOf_eq, hn, Nat.sub_self, List.range'_zero, length_obsFrom] at hle hcur ⊢
  generalize Split.goU (short n limit plen) (obsFrom (mark source) 0 n) 0 0 0 [] [] = r at hle hcur ⊢
  obtain ⟨acc, cur, bg, cnt⟩ := r
  simp only [Nat.zero_add] at hle hcur ⊢
  by_cases hb0 : bg = 0
  · subst hb0; simp
  · have hbi : ¬ ((bg : Int) = 0) := by omega
    have hkt : keepTail n limit plen cur =
        (Py.feq limit (0 : α) || (decide ((0 : α) < limit) && decide (limit ≤ plen ((bg : Int), (n : Int) - 1)))) := by
      unfold keepTail Split.limitKeepTail
      rw [hbeq, hcur]
      by_cases hbn : bg = n
      · subst hbn; rw [Nat.sub_self, List.range'_zero, bounds_nil]
      · rw [bounds_range' n bg (n - bg) (by omega), show ((bg + (n - bg) - 1 : Nat) : Int) = (n : Int) - 1 by omega]
    have hn1 : (((n - 1 : Nat) : Int)) = (n : Int) - 1 := by omega
    simp only [hbi, decide_false, Bool.not_false, ite_true, ← hkt, ne_eq, hb0, not_false_eq_true]
    by_cases hk : keepTail n limit plen cur = true
    · simp [hk, proj, hn1]
    · simp [hk]

/-- the same with the model's `BEq α` taken to be `Py.feq` itself: no hypothesis besides `source.length = n` -/
theorem tie_split_feature_feq (n : Nat) (source : List α) (limit : α) (plen : Int × Int → α) (hn : source.length = n) :
    Gen.Segmentation.split_feature (n : Int) source limit plen =
      .ok ((Split.splitU (short n limit plen) (@keepTail α _ _ _ _ _ ⟨Py.feq⟩ n limit plen) (obsOf source)).map (proj _)) :=
  @tie_split_feature α _ _ _ _ _ _ ⟨Py.feq⟩ n source limit plen hn rfl

omit [LT α] [DecidableLT α] [OfNat α 0] in
/-- **the bounds determine the piece**: every numbered piece `((count, b, e), p)` of the model's `splitU` on a track whose
observations are their indices is the index range `[b, …, e]` (`p = List.range' b (e + 1 - b)`; the empty closing piece,
`b = n`, `e = n - 1`, included) — for ANY filters `short` / `keepTail` -/
theorem splitU_pieces_are_ranges (sh kt : List Nat → Bool) (source : List α) :
    ∀ x ∈ Split.splitU sh kt (obsOf source), x.2 = List.range' x.1.2.1 (x.1.2.2 + 1 - x.1.2.1) := by
  obtain ⟨hle, hcur, hacc⟩ := goU_inv sh (mark source) source.length 0 0 0 [] (Nat.le_refl _) (fun _ hx => nomatch hx)
  simp only [Split.splitU, obsOf_eq, Nat.sub_self, List.range'_zero, length_obsFrom] at hle hcur hacc ⊢
  generalize Split.goU sh (obsFrom (mark source) 0 source.length) 0 0 0 [] [] = r at hle hcur hacc ⊢
  obtain ⟨acc, cur, bg, cnt⟩ := r
  simp only [Nat.zero_add] at hle hcur hacc ⊢
  intro x hx
  by_cases hb0 : bg = 0
  · rw [if_neg (by simpa using hb0)] at hx; exact hacc x hx
  · rw [if_pos hb0] at hx
    by_cases hk : kt cur = true
    · rw [if_pos hk] at hx
      rcases List.mem_append.mp hx with hx | hx
      · exact hacc x hx
      · rw [List.mem_singleton] at hx; subst hx
        show cur = List.range' bg (source.length - 1 + 1 - bg)
        rw [hcur, show source.length - 1 + 1 - bg = source.length - bg by omega]
    · rw [if_neg hk] at hx; exact hacc x hx

end main
end TV.Tie.C11Split
