import TracklibVerif.Model.Split
import TracklibVerif.Model.ObsTime
/-! `segmentation()` (algo/segmentation.py) on tested values that are not all numbers.

`Track.getObsAnalyticalFeature` returns, for the built-in names, `x y z` (floats), `t` (`timestamp.toAbsTime()`, a
float), `idx` (the int `i`) and `timestamp` — the `ObsTime` object itself; an analytical feature created by the user
can hold `ObsTime` values as well. `segmentation()` never looks at the type of a value: it calls
`isnan(current_value)` (core/utils.py: `number != number`) and, when that is False, `current_value <= seuil_max`.
Both are Python operator calls, so what happens is decided by the operands:
* number, number: IEEE / exact comparison (`Ext`), NaN is the only value different from itself (`none` below);
* `ObsTime`, `ObsTime`: `ObsTime.__ne__` = `not (time == self)`, `ObsTime.__le__` = `not (self > time)`, the
  field-by-field cascades of core/obs_time.py (`TV.ObsTime.neS`, `leS`, `gtS`, the definitions C03 is about);
* `ObsTime <= number`: `ObsTime.__le__` runs `self > time`, which reads `time.year`: `AttributeError`;
  `number <= ObsTime`: `float.__le__` answers `NotImplemented`, Python calls the reflected `ObsTime.__ge__(number)`,
  i.e. `not (self < time)`, which reads `time.year`: `AttributeError`.
The definitions below are the loops of `Model/Split.lean` with these two operator calls as parameters, and with
the evaluation order of `comp and (…)` / `comp or (…)`: the comparison is not evaluated when the left operand
already decides (so a value that cannot be compared raises only when Python gets to compare it). -/
namespace TV.Split
variable {α : Type}

/-- the inner `for index, af_input in enumerate(afs_input)` loop with `isnan` and `<=` as the operator calls they are.
`none` in the row = the float NaN. Errors: `"index"` = `IndexError` (`thresholds_max[index]`, looked up before the
comparison, whatever `comp` is), any other = what `<=` raised. -/
def foldCmpG (isnan : α → Bool) (le? : α → α → Except String Bool) (fmax : α) (andMode : Bool) (ths : List α) :
    Nat → List (Option α) → Bool → Except String Bool
  | _, [], acc => .ok acc
  | index, none :: vs, acc => foldCmpG isnan le? fmax andMode ths (index + 1) vs acc
  | index, some v :: vs, acc =>
    if isnan v then foldCmpG isnan le? fmax andMode ths (index + 1) vs acc
    else
      match threshold fmax ths index with
      | none => .error "index"
      | some th =>
        if andMode && !acc then foldCmpG isnan le? fmax andMode ths (index + 1) vs false      -- `False and …`
        else if !andMode && acc then foldCmpG isnan le? fmax andMode ths (index + 1) vs true   -- `True or …`
        else
          match le? v th with
          | .error e => .error e
          | .ok c => foldCmpG isnan le? fmax andMode ths (index + 1) vs c                    -- `True and c`, `False or c`

/-- marker of one observation -/
def markerG (isnan : α → Bool) (le? : α → α → Except String Bool) (fmax : α) (andMode : Bool) (ths : List α)
    (vals : List (Option α)) : Except String Bool :=
  match foldCmpG isnan le? fmax andMode ths 0 vals andMode with
  | .error e => .error e
  | .ok r => .ok (!r)

/-- the outer loop over the observations: the first exception aborts the call -/
def markersG (isnan : α → Bool) (le? : α → α → Except String Bool) (fmax : α) (andMode : Bool) (ths : List α) :
    List (List (Option α)) → Except String (List Bool)
  | [] => .ok []
  | r :: rs =>
    match markerG isnan le? fmax andMode ths r with
    | .error e => .error e
    | .ok b =>
      match markersG isnan le? fmax andMode ths rs with
      | .error e => .error e
      | .ok bs => .ok (b :: bs)

/-- `segmentation(track, afs_input, af_output, thresholds_max, mode)` as `segTrack`, on `markersG`. The markers of
the observations before the one where an exception is raised have been written into the track by then; the model
returns the error only (the harness never reads a track after a failed call). -/
def segTrackG [OfNat α 0] [OfNat α 1] (isnan : α → Bool) (le? : α → α → Except String Bool) (fmax : α) (andMode : Bool)
    (t : FTrack α) (afs : Arg String) (out : String) (ths : Arg α) : Except String (FTrack α) :=
  if reserved.contains out then .error "af"
  else if t.size = 0 then .error "af"
  else
    let t1 := t.create out
    match t1.rows afs.listify with
    | none => .error "af"
    | some rows =>
      match markersG isnan le? fmax andMode ths.listify rows with
      | .error e => .error e
      | .ok bs => .ok (t1.setCol out (bs.map (fun b => some (if b then 1 else 0))))

/-- `TrackCollection.segmentation`: every track in turn, the first error aborts -/
def segCollG [OfNat α 0] [OfNat α 1] (isnan : α → Bool) (le? : α → α → Except String Bool) (fmax : α) (andMode : Bool)
    (ts : List (FTrack α)) (afs : Arg String) (out : String) (ths : Arg α) : Except String (List (FTrack α)) :=
  ts.mapM (fun t => segTrackG isnan le? fmax andMode t afs out ths)

/-! ## the values a track can hand to `segmentation()` -/

/-- a non-NaN value: a number (finite or infinite double, int, bool, numpy scalar — compared exactly) or an `ObsTime` -/
inductive Val where
  | num (x : Ext)
  | time (t : TV.ObsTime.Stamp)
  deriving DecidableEq

instance : OfNat Val 0 := ⟨.num 0⟩
instance : OfNat Val 1 := ⟨.num 1⟩

/-- `utils.isnan(v)` = `v != v` on a non-NaN value: False for a number; `ObsTime.__ne__(v, v)` for a timestamp -/
def Val.isnan : Val → Bool
  | .num _ => false
  | .time t => TV.ObsTime.neS t t

/-- Python's `v <= th` -/
def Val.le? : Val → Val → Except String Bool
  | .num a, .num b => .ok (decide (a ≤ b))
  | .time a, .time b => .ok (TV.ObsTime.leS a b)
  | _, _ => .error "attr"

/-- "the tested value exceeds its threshold": `v > th` between two numbers, `ObsTime.__gt__` between two timestamps
(C03: for well-formed dates that is "strictly later"); not defined (false) between a number and a timestamp -/
def Val.gt : Val → Val → Bool
  | .num a, .num b => decide (b < a)
  | .time a, .time b => TV.ObsTime.gtS a b
  | _, _ => false

/-- both numbers or both timestamps -/
def Val.sameKind : Val → Val → Bool
  | .num _, .num _ => true
  | .time _, .time _ => true
  | _, _ => false

def Val.fmax : Val := .num Ext.fmax

/-! ## `Track.getObsAnalyticalFeature(name, i)` for the built-in names

`x y z`: the coordinates; `t`: `timestamp.toAbsTime()`; `timestamp`: the `ObsTime` object; `idx`: `i` itself — tested
by name before the analytical-feature table is looked at (which is why `Track.__controlName` refuses them as feature
names: `reserved`). `absTime` stands for `ObsTime.toAbsTime` as a scalar (C03's object; the driver evaluates
`seconds + ms / 1000.0` at `Float` on the whole seconds of `TV.ObsTime.toAbsSec`). -/
def builtinCols (absTime : TV.ObsTime.Stamp → Option Val) (xyz : List (String × Col Val)) (stamps : List TV.ObsTime.Stamp) :
    List (String × Col Val) :=
  xyz ++ [("t", stamps.map absTime),
          ("timestamp", stamps.map (fun s => some (Val.time s))),
          ("idx", (List.range stamps.length).map (fun (i : Nat) => some (Val.num (.fin (i : Rat)))))]

/-- a track as `segmentation()` sees it: coordinates, timestamps, analytical features -/
def FTrack.ofObs (absTime : TV.ObsTime.Stamp → Option Val) (xyz : List (String × Col Val)) (stamps : List TV.ObsTime.Stamp)
    (feats : List (String × Col Val)) : FTrack Val :=
  { size := stamps.length, virt := builtinCols absTime xyz stamps, feats := feats }
end TV.Split
