import TracklibVerif.Model.DTWTable
/-! `match` / `compare` of `tracklib/algo/comparison.py` in the DTW, FDTW and FRECHET modes with an exponent `p` that is **any
positive finite number** (`p = 0.5`, `1.5`, `2.5`, …), next to the natural numbers and infinity of `Model/DTWTable.lean`.

`_p2weight(p)` does not look at the value of a number `p` beyond the two tests `p == 0` and `p == float('inf')`: a `p` whose type
name contains `int` or `float` gives `lambda A, B: A + B**p`, whatever its value. `B**p` for a `p` that is not a natural number
is a parameter here (`pow b x`, `Float.pow` in the driver — the libm `pow` that Python's `float.__pow__` and numpy's scalar power
call; the real power function in the theorems): the definitions of this file are those of `Model/DTWTable.lean` with the
exponent drawn from `PExp α` (`PNorm` or a number `x`) instead of `PNorm` (`_exponent`, the first line of `match` / `compare` since
1f009f6, is `PArgX.exponent`: it rewrites the type name only — `float(p)` / `int(p)` keep the value). `PArg.toX` / `Step.toX` embed the old arguments, and
on them the new front ends are the old ones (`Lemmas/DTWReal.lean`: `matchCallX_toX`, `compareCallX_toX`, `runSeqX_toX`), so that
every theorem about `matchCall` / `compareCall` / `runSeq` is a theorem about what the driver runs (`matchCallX`, `compareCallX`,
`runSeqX`).

What the cost table is made of is part of the model: `T = np.zeros((N2, N1))` is an array of floats, so a cell holds
`weight(…)` as computed — `table` / `fdtwLoop` store the value of `w` unchanged, for integer point distances too (`dim = 1` on
whole-number heights, a callable returning ints) where `B**p` is not an integer. -/
namespace TV.DTW

/-- the value of `p` as `_p2weight` / `_dtw_comparison` use it: a natural number or infinity (`PNorm`), or another finite
number `x` (only `0 < x` is modelled: `0.0**x` is an error or an infinity for a negative `x`, depending on the type of the zero) -/
inductive PExp (α : Type)
  | norm (v : PNorm)
  | real (x : α)

/-- what `_p2weight` / `_dtw_comparison` look at in the argument `p` (`PArg`, with the value in `PExp`): `str(type(p))` (blanks
removed), the value of a number `p`, and, when `p` is callable, the exponent of the accumulation it computes -/
structure PArgX (α : Type) where
  tyname : String
  val : Option (PExp α)
  fnw : Option (PExp α) := none

/-- a `PArg` seen as a `PArgX` -/
def PArg.toX {α : Type} (p : PArg) : PArgX α :=
  { tyname := p.tyname, val := p.val.map PExp.norm, fnw := p.fnw.map PExp.norm }

/-- `'function' in str(type(p))` -/
def PArgX.isFn {α : Type} (a : PArgX α) : Bool := hasSub "function".toList a.tyname.toList
/-- `('int' in str(type(p))) or ('float' in str(type(p)))` -/
def PArgX.isNum {α : Type} (a : PArgX α) : Bool := hasSub "int".toList a.tyname.toList || hasSub "float".toList a.tyname.toList
/-- `_exponent(p)` (`PArg.exponent`): a numpy scalar becomes the Python number of the same value -/
def PArgX.exponent {α : Type} (p : PArgX α) : PArgX α := { p with tyname := exponentTy p.tyname }
/-- `p` is a numpy floating or integer scalar -/
def PArgX.isNumpy {α : Type} (p : PArgX α) : Bool := isNpFloating p.tyname || isNpInteger p.tyname
/-- `p == 0` -/
def PArgX.isZero {α : Type} (a : PArgX α) : Bool :=
  match a.val with
  | some (.norm (.nat 0)) => true
  | _ => false
/-- `p == float('inf')` -/
def PArgX.isInf {α : Type} (a : PArgX α) : Bool :=
  match a.val with
  | some (.norm .inf) => true
  | _ => false

section frontX
variable {α : Type} [Add α] [Sub α] [Mul α] [Div α] [Neg α] [LT α] [LE α] [DecidableLT α] [DecidableLE α] [OfNat α 0] [OfNat α 1]
  [OfScientific α]

/-- the accumulation for a value of `p`: `weight` for a natural number or infinity, `A + B**x` otherwise (`pow b x` is `b**x`) -/
def weightX (pow : α → α → α) : PExp α → α → α → α
  | .norm v, a, b => weight v a b
  | .real x, a, b => a + pow b x

/-- `lambda A, B : A + B**p` as far as it is modelled (`0 < x` for a `p` that is not a natural number) -/
def accOf (pow : α → α → α) : PExp α → Except String (α → α → α)
  | .norm v => .ok (weight v)
  | .real x => if 0 < x then .ok (weightX pow (.real x)) else .error "unmodelled"

/-- `_p2weight(p)` (see `p2weight`): the same cascade of four independent `if`s; a number that is neither a natural number nor
infinity passes the second test only -/
def p2weightX (pow : α → α → α) (p : PArgX α) : Except String (α → α → α) :=
  let w : Option (Except String (α → α → α)) := none
  let w := if p.isFn then some (match p.fnw with | some v => accOf pow v | none => .error "err:type") else w
  let w := if p.isNum then some (match p.val with | some v => accOf pow v | none => .error "unmodelled") else w
  let w := if p.isZero then some (.ok (weight (.nat 0))) else w
  let w := if p.isInf then some (.ok (weight .inf)) else w
  match w with
  | some r => r
  | none => .error "err:UnboundLocalError"

/-- `_dtw(track1, track2, weight, dim)` / `_fdtw(…)` as `_dtw_matching` / `_fdtw_matching` call them, once `_p2weight(p)` has
returned `w`: the part of `warpOn` after its first line -/
def warpW (G : Geom α) (big : α) (fast : Bool) (w : α → α → α) (dim : DimArg α) (a : TrackObj α) (t2 : List (Pt α)) :
    Except String (Out α) :=
  if a.pts.isEmpty then .error "err:AnalyticalFeatureError" else
  if t2.isEmpty then .error "err:index" else
  match distanceOf G dim with
  | .error e => .error e
  | .ok dist =>
    match (if fast then fdtwOn dist big w a.rows a.pts t2 else dtwOn dist w a.rows a.pts t2) with
    | some o => .ok o
    | none => .error "err:index"

/-- `_dtw_matching` / `_fdtw_matching` (`warpOn`) -/
def warpOnX (pow : α → α → α) (G : Geom α) (big : α) (fast : Bool) (p : PArgX α) (dim : DimArg α) (a : TrackObj α)
    (t2 : List (Pt α)) : Except String (Out α) := do
  let w ← p2weightX pow p
  warpW G big fast w dim a t2

/-- the rest of `match(track1, track2, mode, p, dim)` after `p = _exponent(p)` (`matchBody`); FRECHET hands `float('inf')` over,
whatever `p` -/
def matchBodyX (pow : α → α → α) (G : Geom α) (big : α) (mode : Nat) (p : PArgX α) (dim : DimArg α) (a : TrackObj α)
    (t2 : List (Pt α)) : Except String (Out α) :=
  if mode = 1 then .error "unmodelled"
  else if mode = 4 then warpOnX pow G big false PArg.pyInf.toX dim a t2
  else if mode = 2 then warpOnX pow G big false p dim a t2
  else if mode = 3 then warpOnX pow G big true p dim a t2
  else .error "err:UnknownModeError"

/-- `match(track1, track2, mode, p, dim)` (`matchCall`): `p = _exponent(p)`, then the dispatch on `mode` -/
def matchCallX (pow : α → α → α) (G : Geom α) (big : α) (mode : Nat) (p : PArgX α) (dim : DimArg α) (a : TrackObj α)
    (t2 : List (Pt α)) : Except String (Out α) :=
  matchBodyX pow G big mode p.exponent dim a t2

/-- `_dtw_comparison` / `_fdtw_comparison` (`warpCompare`): `(score/nb_links)**(1.0/p)` is `root k (…)` for a natural number `k`
and `pow (…) (1/x)` otherwise -/
def warpCompareX (pow : α → α → α) (G : Geom α) (root : Nat → α → α) (ofNat : Nat → α) (big : α) (fast : Bool) (p : PArgX α)
    (dim : DimArg α) (a : TrackObj α) (t2 : List (Pt α)) : Except String α := do
  let m ← warpOnX pow G big fast p dim a t2
  if p.isZero = true ∨ p.isInf = true ∨ (fast = false ∧ p.isFn = true) then pure m.score
  else match p.val with
    | some (.norm (.nat k)) => pure (root k (m.score / ofNat m.nbLinks))
    | some (.real x) => pure (pow (m.score / ofNat m.nbLinks) (1 / x))
    | _ => .error (if p.isFn then "err:type" else "unmodelled")

/-- the rest of `compare(track1, track2, mode, p, dim)` after `p = _exponent(p)`, in the modes DTW (106), FDTW (107) and FRECHET
(108) (`compareBody`) -/
def compareBodyX (pow : α → α → α) (G : Geom α) (root : Nat → α → α) (ofNat : Nat → α) (big : α) (mode : Nat) (p : PArgX α)
    (dim : DimArg α) (a : TrackObj α) (t2 : List (Pt α)) : Except String α :=
  if mode = 101 ∨ mode = 109 ∨ mode = 102 ∨ mode = 103 ∨ mode = 104 ∨ mode = 105 then .error "unmodelled"
  else if mode = 108 then warpCompareX pow G root ofNat big false PArg.pyInf.toX dim a t2
  else if mode = 106 then warpCompareX pow G root ofNat big false p dim a t2
  else if mode = 107 then warpCompareX pow G root ofNat big true p dim a t2
  else .error "err:UnknownModeError"

/-- `compare(track1, track2, mode, p, dim)` (`compareCall`): `p = _exponent(p)`, then the dispatch on `mode` -/
def compareCallX (pow : α → α → α) (G : Geom α) (root : Nat → α → α) (ofNat : Nat → α) (big : α) (mode : Nat) (p : PArgX α)
    (dim : DimArg α) (a : TrackObj α) (t2 : List (Pt α)) : Except String α :=
  compareBodyX pow G root ofNat big mode p.exponent dim a t2

/-- a Python `int` (natural number) / `float` (infinity, any other number) with the value of `p` -/
def PArgX.ofExp (p : PExp α) : PArgX α :=
  { tyname := match p with | .norm (.nat _) => "<class'int'>" | _ => "<class'float'>", val := some p }

/-- `match(track1, track2, mode, p, dim)` on two tracks without earlier features, `p` a Python number -/
def matchTracksX (pow : α → α → α) (G : Geom α) (big : α) (mode : Mode) (p : PExp α) (dim : DimArg α) (t1 t2 : List (Pt α)) :
    Except String (Out α) :=
  matchCallX pow G big mode.code (PArgX.ofExp p) dim (TrackObj.fresh t1) t2

/-- `compare(track1, track2, mode, p, dim)` on two tracks without earlier features, `p` a Python number -/
def compareTracksX (pow : α → α → α) (G : Geom α) (root : Nat → α → α) (ofNat : Nat → α) (big : α) (mode : Mode) (p : PExp α)
    (dim : DimArg α) (t1 t2 : List (Pt α)) : Except String α :=
  compareCallX pow G root ofNat big mode.cmpCode (PArgX.ofExp p) dim (TrackObj.fresh t1) t2

/-- one call of a session (`Step`) -/
structure StepX (α : Type) where
  front : Bool
  mode : Nat
  p : PArgX α
  dim : DimArg α
  a : Nat
  b : Nat

/-- a `Step` seen as a `StepX` -/
def Step.toX (s : Step α) : StepX α := { front := s.front, mode := s.mode, p := s.p.toX, dim := s.dim, a := s.a, b := s.b }

/-- a session of calls on shared objects (`runSeq`) -/
def runSeqX (pow : α → α → α) (G : Geom α) (root : Nat → α → α) (ofNat : Nat → α) (big : α) :
    List (Option (TrackObj α)) → List (StepX α) → List (Res α)
  | _, [] => []
  | env, st :: rest =>
    match (env[st.a]?).join, (env[st.b]?).join with
    | some a, some b =>
      if st.front then
        match matchCallX pow G big st.mode st.p st.dim a b.pts with
        | .ok o => .matched o :: runSeqX pow G root ofNat big (env ++ [some { pts := a.pts, rows := o.rows }]) rest
        | .error e => .err e :: runSeqX pow G root ofNat big (env ++ [none]) rest
      else
        (match compareCallX pow G root ofNat big st.mode st.p st.dim a b.pts with
          | .ok v => .value v
          | .error e => .err e) :: runSeqX pow G root ofNat big (env ++ [none]) rest
    | _, _ => .err "bad-ref" :: runSeqX pow G root ofNat big (env ++ [none]) rest

end frontX
end TV.DTW
