import TracklibVerif.Model.Proj
/-! Model of the core of `tracklib/algo/mapping.py` `__mapOnNetwork` (C10), on top of `Model/Proj`: candidate loop, flag state,
inference column. The construction path of the network (`Network.addNode` / `addEdge`, `computeAbsCurv` on the edge geometries),
the candidates taken from the network's own spatial index (the model of C08, with the search unit as coded) and the front end
`mapOnNetwork` (bare track / collection, arguments, the `obs_noise` column) are in `Model/MapMatchNet`, which calls the
definitions of this file.

Per observation `i` (in order): the candidate edge numbers `E` are an INPUT (what
`network.spatial_index.neighborhood(p, unit)` returned in the real call; `none` when it returned `None`);
for each `elem` of `E`, in order: `eg = EDGES[getEdgeId(elem)].geom`, `p, d, v = __projOnTrack(position, eg)`,
kept iff `d < search_radius` as the state `(p, elem, __distToNode(eg,p,v,0), __distToNode(eg,p,v,1))`;
when nothing is kept the flag state `(position, -1, -1, -1)`. `__distToNode` reads the `abs_curv` column of the
edge geometry (`computeAbsCurv`: `ds` then the `INTEGRATOR` operator, modelled by `absCurv`).
Then `HMM.estimate` decodes one state index per epoch — the decoder is a PARAMETER here (it is the
subject of C09; `Model/Viterbi` is its model) — writes `hmm_inference`, creates the feature columns
`obs_noise`, `hmm_inference`, `hmm_cost`, and overwrites positions only when `mode ∈ {3,4,5}`
(`mapOnNetwork` calls it with `MODE_OBS_AS_2D_POSITIONS = 1`).

Exceptions: those of the projection (`Proj.Err`), and `index` for an edge number / vertex index / state
index out of range (`KeyError` / `IndexError` in Python). Scalar-polymorphic, core Lean only. -/
namespace TV.MapMatch
open TV.Proj

inductive Err where
  | proj (e : Proj.Err)
  | index
  deriving DecidableEq, Repr

/-- an edge geometry (a `Track`) with its `abs_curv` column -/
structure Edge (α : Type) where
  geom : List (α × α)
  curv : List α

/-- a candidate state `(p, elem, dist to source, dist to target)`; the flag state has `edge = -1` -/
structure State (α : Type) where
  p : α × α
  edge : Int
  d0 : α
  d1 : α

/-- an observation of the track: position and (opaque) timestamp -/
structure Obs (α : Type) where
  pos : α × α
  t : Nat

section
variable {α : Type} [Add α] [Sub α] [Mul α] [Div α] [Neg α] [LT α] [LE α]
  [DecidableLT α] [DecidableLE α] [OfNat α 0] [OfNat α 1]

/-- `a.distance2DTo(c)` = `(c - a).norm2D()` -/
def dist2D (sqrt : α → α) (a c : α × α) : α :=
  sqrt ((c.1 - a.1) * (c.1 - a.1) + (c.2 - a.2) * (c.2 - a.2))

/-- `INTEGRATOR` over `ds`: `temp[i] = temp[i-1] + obs_i.distance2DTo(obs_{i-1})`, from vertex `prev` with
running value `acc` -/
def curvFrom (sqrt : α → α) (acc : α) (prev : α × α) : List (α × α) → List α
  | [] => []
  | q :: rest => (acc + dist2D sqrt q prev) :: curvFrom sqrt (acc + dist2D sqrt q prev) q rest

/-- `computeAbsCurv(track)`: the `abs_curv` column -/
def absCurv (sqrt : α → α) : List (α × α) → List α
  | [] => []
  | p :: rest => 0 :: curvFrom sqrt 0 p rest

/-- an edge as the network builders make it: geometry + `computeAbsCurv` -/
def mkEdge (sqrt : α → α) (geom : List (α × α)) : Edge α := ⟨geom, absCurv sqrt geom⟩

/-- `__distToNode(track, coord, i, end)`; both `abs_curv` reads happen before the test on `end` -/
def distToNode (sqrt : α → α) (e : Edge α) (coord : α × α) (i : Nat) (end_ : Nat) : Option α :=
  match e.curv[i]?, e.curv[i + 1]? with
  | some si1, some si2 =>
    if end_ = 0 then
      match e.geom[i]? with
      | some v => some (si1 + dist2D sqrt v coord)
      | none => none
    else
      match e.curv[e.geom.length - 1]?, e.geom[i + 1]? with
      | some sl, some v => some (sl - si2 + dist2D sqrt v coord)
      | _, _ => none
  | _, _ => none

/-- the flag state `(track[i].position, -1, -1, -1)` -/
def flag (pos : α × α) : State α := ⟨pos, -1, -(1 : α), -(1 : α)⟩

/-- the inner loop `for elem in E` of `__mapOnNetwork`, accumulating `STATES[-1]` -/
def candLoop (sqrt : α → α) (eps radius : α) (edges : List (Edge α)) (pos : α × α) :
    List Nat → List (State α) → Except Err (List (State α))
  | [], acc => .ok acc
  | elem :: rest, acc =>
    match edges[elem]? with
    | none => .error .index
    | some eg =>
      match projOnTrack sqrt eps eg.geom pos.1 pos.2 with
      | .error e => .error (.proj e)
      | .ok r =>
        if r.2.1 < radius then
          match distToNode sqrt eg r.1 r.2.2 0, distToNode sqrt eg r.1 r.2.2 1 with
          | some a, some b => candLoop sqrt eps radius edges pos rest (acc ++ [⟨r.1, (elem : Int), a, b⟩])
          | _, _ => .error .index
        else candLoop sqrt eps radius edges pos rest acc

/-- `STATES[i]` for one observation; `cand = none` when `neighborhood` returned `None` -/
def obsStates (sqrt : α → α) (eps radius : α) (edges : List (Edge α)) (pos : α × α)
    (cand : Option (List Nat)) : Except Err (List (State α)) :=
  match cand with
  | none => .ok [flag pos]
  | some E =>
    match candLoop sqrt eps radius edges pos E [] with
    | .error e => .error e
    | .ok [] => .ok [flag pos]
    | .ok (s :: ss) => .ok (s :: ss)

/-- the outer loop: `STATES` for the whole track (observations and candidate lists side by side) -/
def allStates (sqrt : α → α) (eps radius : α) (edges : List (Edge α)) :
    List (Obs α) → List (Option (List Nat)) → Except Err (List (List (State α)))
  | [], _ => .ok []
  | o :: os, cs =>
    match obsStates sqrt eps radius edges o.pos (cs.head?.getD none) with
    | .error e => .error e
    | .ok s =>
      match allStates sqrt eps radius edges os cs.tail with
      | .error e => .error e
      | .ok ss => .ok (s :: ss)

/-- `createAnalyticalFeature(name, …)`: nothing happens when the name exists -/
def addName (names : List String) (n : String) : List String :=
  if names.contains n then names else names ++ [n]

/-- the backward step of `HMM.estimate`: `hmm_inference[k] = STATES[k][idk]` for the decoded indices -/
def inferAll : List (List (State α)) → List Nat → Except Err (List (State α))
  | [], _ => .ok []
  | s :: ss, idx =>
    match s[idx.head?.getD 0]? with
    | none => .error .index
    | some st =>
      match inferAll ss idx.tail with
      | .error e => .error e
      | .ok r => .ok (st :: r)

/-- `track[k].position = STATES[k][idk]` happens only for `mode in [3, 4, 5]` -/
def writesPositions (mode : Nat) : Bool := mode == 3 || mode == 4 || mode == 5

def newPositions (mode : Nat) : List (Obs α) → List (State α) → List (Obs α)
  | o :: os, s :: ss => (if writesPositions mode then { o with pos := s.p } else o) :: newPositions mode os ss
  | os, _ => os

structure Result (α : Type) where
  states : List (List (State α))      -- mapping.STATES
  inference : List (State α)          -- the hmm_inference column
  track : List (Obs α)                -- observations after the call
  features : List String              -- feature names after the call

/-- `__mapOnNetwork(track, network, obs_noise, transition_cost, search_radius)` with the decoder as a parameter
(`decode STATES` = one state index per epoch) and `mode` the mode passed to `HMM.estimate` (1 in the code) -/
def mapOnNetwork (sqrt : α → α) (eps radius : α) (edges : List (Edge α)) (mode : Nat)
    (decode : List (List (State α)) → List Nat)
    (track : List (Obs α)) (names : List String) (cands : List (Option (List Nat))) : Except Err (Result α) :=
  match allStates sqrt eps radius edges track cands with
  | .error e => .error e
  | .ok states =>
    match inferAll states (decode states) with
    | .error e => .error e
    | .ok inf =>
      .ok ⟨states, inf, newPositions mode track inf,
           addName (addName (addName names "obs_noise") "hmm_inference") "hmm_cost"⟩

end
end TV.MapMatch
