/-! Model of the sequence operations of `tracklib/core/track.py` (property C04).

An observation is an opaque record: a unique `tag` (the harness puts it in `x`), its timestamp as
an integer (C03 proves that the field-wise `<`, `>`, `<=` of `ObsTime` are the order of the epoch
instants) and its analytical-feature values (`Obs.features`, a list of columns). A track is the list
`__POINTS` plus the feature table `__analyticalFeaturesDico`: the pairs (name, column index) in the
dict's insertion order, so `getListAnalyticalFeatures()` is the list of first components and a read by
name goes through the column index (`Model/SeqOps.lean`: `readAF`).

Python list semantics that the code relies on are modelled as they are: `L[i]` with a negative
index wraps, an index outside `-N..N-1` raises `IndexError` (`none` / `Res.indexErr` here),
`x >> 1` on a negative integer is a floor shift (`Int.shiftRight`), slices clamp. -/
namespace TV.Seq

structure Obs where
  tag : Nat
  time : Int
  feats : List Int
deriving DecidableEq, Repr

/-- `__analyticalFeaturesDico`: (feature name, column index in `Obs.features`), in insertion order. -/
abbrev Table := List (String × Nat)

structure Track where
  pts : List Obs
  table : Table
deriving DecidableEq, Repr

/-- `getListAnalyticalFeatures()`: `list(self.__analyticalFeaturesDico.keys())` -/
def Track.names (tr : Track) : List String := tr.table.map (·.1)

/-- `__transmitAF`: the new track gets a copy of the source's feature table (names AND column indices). -/
def transmitAF (pts : List Obs) (src : Track) : Track := ⟨pts, src.table⟩

/-- Python `L[i]`: `none` is `IndexError`. -/
def pyGet {α : Type} (l : List α) (i : Int) : Option α :=
  if 0 ≤ i then l[i.toNat]?
  else if 0 ≤ (l.length : Int) + i then l[((l.length : Int) + i).toNat]?
  else none

/-- Python `abs` on integers. -/
def pyAbs (x : Int) : Int := (x.natAbs : Int)

/-! ### `Track.__getInsertionIndex` -/

/-- outcome of a loop: the value of `id` at the exit, an `IndexError`, or the model's fuel ran out
(never happens: `TV.C04.dichotomy_in_range`). -/
inductive Res where
  | ok (id : Int)
  | indexErr
  | outOfFuel
deriving DecidableEq, Repr

/-! The three loops are written over an abstract element access `get : Int → Option Int`
(`self.getObs(id).timestamp`, `none` = `IndexError`) and the size `N`. The model as run uses Python's
`pyGet` (negative indices wrap); `TV.C04.dichotomy_in_range` shows that the same result is obtained
with a getter that fails on EVERY index outside `0..N-1`, i.e. no wrap and no `IndexError` ever occurs. -/

/-- ```
while delta != 0:
    id = id + delta
    if id >= N: delta = -abs(delta >> 1); continue
    if id == 0: break
    if self.getObs(id).timestamp > timestamp: delta = -abs(delta >> 1)
    else:                                     delta = +abs(delta >> 1)
``` -/
def searchLoop (get : Int → Option Int) (N : Nat) (ts : Int) : Nat → Int → Int → Res
  | 0, _, _ => .outOfFuel
  | fuel + 1, id, delta =>
    if delta = 0 then .ok id
    else
      let id' := id + delta
      if id' ≥ (N : Int) then searchLoop get N ts fuel id' (-(pyAbs (delta >>> 1)))
      else if id' = 0 then .ok id'
      else
        match get id' with
        | none => .indexErr
        | some t =>
          if t > ts then searchLoop get N ts fuel id' (-(pyAbs (delta >>> 1)))
          else searchLoop get N ts fuel id' (pyAbs (delta >>> 1))

/-- ```
while self.getObs(id).timestamp > timestamp:
    if id == 0: break
    id -= 1
``` -/
def fixLeft (get : Int → Option Int) (ts : Int) : Nat → Int → Res
  | 0, _ => .outOfFuel
  | fuel + 1, id =>
    match get id with
    | none => .indexErr
    | some t =>
      if t > ts then
        if id = 0 then .ok id else fixLeft get ts fuel (id - 1)
      else .ok id

/-- ```
while self.getObs(id).timestamp <= timestamp:
    id += 1
    if id == N: break
``` -/
def fixRight (get : Int → Option Int) (N : Nat) (ts : Int) : Nat → Int → Res
  | 0, _ => .outOfFuel
  | fuel + 1, id =>
    match get id with
    | none => .indexErr
    | some t =>
      if t ≤ ts then
        if id + 1 = (N : Int) then .ok (id + 1) else fixRight get N ts fuel (id + 1)
      else .ok id

def Res.bind (r : Res) (f : Int → Res) : Res :=
  match r with
  | .ok id => f id
  | .indexErr => .indexErr
  | .outOfFuel => .outOfFuel

/-- `__getInsertionIndex` on the timestamps `T` read through `get`, with first step `2^j`. -/
def insertionIndexWith (get : Int → Option Int) (j : Nat) (T : List Int) (ts : Int) : Res :=
  match T with
  | [] => .ok 0
  | [t0] => .ok (if t0 < ts then 1 else 0)
  | _ =>
    let N := T.length
    ((searchLoop get N ts (j + N + 3) 0 ((2 : Int) ^ j)).bind
      (fixLeft get ts (N + 2))).bind (fixRight get N ts (N + 2))

/-- the model as run: element access is Python's `L[i]`. -/
def insertionIndexFrom (j : Nat) (T : List Int) (ts : Int) : Res :=
  insertionIndexWith (pyGet T) j T ts

/-- `(int)(math.log(N) / math.log(2))` — contract of the float computation: `⌊log₂ N⌋`
(the theorems hold for every first step `2^j` with `2·2^j ≤ N`, hence also for an under-estimate). -/
def ilog2 (N : Nat) : Nat := Nat.log2 N

/-- `delta = 2 ** ((int)(math.log(N) / math.log(2)) - 1)` -/
def insertionIndex (T : List Int) (ts : Int) : Res :=
  insertionIndexFrom (ilog2 T.length - 1) T ts

/-- Python `list.insert(i, x)`: negative `i` counts from the end, everything is clamped. -/
def pyInsert {α : Type} (l : List α) (i : Int) (x : α) : List α :=
  let n : Int := l.length
  let i := if i < 0 then (if i + n < 0 then 0 else i + n) else (if i > n then n else i)
  l.insertIdx i.toNat x

/-- `insertObs(obs)` / `insertObsInChronoOrder(obs)`; `none` = `IndexError` (or fuel). -/
def insertChrono (tr : Track) (o : Obs) : Option Track :=
  match insertionIndex (tr.pts.map (·.time)) o.time with
  | .ok i => some ⟨pyInsert tr.pts i o, tr.table⟩
  | _ => none

/-! ### `Track.sort` -/

/-- model of `np.argsort` (a trusted call): a stable sorting permutation. The theorems about
`sortWith` hold for ANY permutation satisfying the contract `TV.C04.IsArgsort`. -/
def argsort (T : List Int) : List Nat :=
  (T.zipIdx.mergeSort (fun a b => decide (a.1 ≤ b.1))).map (·.2)

/-- `for i in range(size): new_list.append(self.__POINTS[sort_index[i]])` -/
def gather {α : Type} (l : List α) : List Nat → Option (List α)
  | [] => some []
  | i :: is =>
    match l[i]?, gather l is with
    | some x, some r => some (x :: r)
    | _, _ => none

def sortWith (perm : List Nat) (tr : Track) : Option Track :=
  (gather tr.pts perm).map (fun p => ⟨p, tr.table⟩)

def sortByTime (tr : Track) : Option Track := sortWith (argsort (tr.pts.map (·.time))) tr

/-! ### `removeObsList` → `__removeObsListById` -/

/-- `del L[i]`; `none` = `IndexError`. -/
def pyDel {α : Type} (l : List α) (i : Int) : Option (List α) :=
  if 0 ≤ i then (if i.toNat < l.length then some (l.eraseIdx i.toNat) else none)
  else if 0 ≤ (l.length : Int) + i then some (l.eraseIdx ((l.length : Int) + i).toNat)
  else none

/-- `for i in range(len(tab)-1, -1, -1): counter += self.__removeObsById(tab[i])`, given the
indices in the order of the loop (last of `tab` first). Returns the list and `some counter`, or the
list as it is when the `IndexError` is raised and `none`. -/
def delLoop {α : Type} : List Int → List α → Nat → List α × Option Nat
  | [], l, c => (l, some c)
  | i :: rest, l, c =>
    match pyDel l i with
    | none => (l, none)
    | some l' => delLoop rest l' (c + (l.length - l'.length))

/-- `for i in range(len(tab)-1): if tab[i] == tab[i+1]: error` -/
def hasAdjDup : List Int → Bool
  | a :: b :: rest => a == b || hasAdjDup (b :: rest)
  | _ => false

/-- `removeObsList(tab)` with integer indices (result: points, returned counter / `none` = `IndexError`). -/
def removeByIdx {α : Type} (l : List α) (tab : List Int) : List α × Option Nat :=
  if tab.isEmpty then (l, some 0)
  else
    let s := tab.mergeSort (fun a b => decide (a ≤ b))
    if hasAdjDup s then (l, some 0)
    else delLoop s.reverse l 0

/-! ### extraction -/

/-- `for k in range(a, a+n): track.addObs(self.__POINTS[k])` -/
def extractLoop {α : Type} (l : List α) : Int → Nat → Option (List α)
  | _, 0 => some []
  | k, n + 1 =>
    match pyGet l k, extractLoop l (k + 1) n with
    | some x, some r => some (x :: r)
    | _, _ => none

/-- `extract(id_ini, id_fin)` (both ends included); `none` = `IndexError`. -/
def extract (tr : Track) (a b : Int) : Option Track :=
  (extractLoop tr.pts a (b + 1 - a).toNat).map (fun p => transmitAF p tr)

/-- `extractSpanTime(tini, tfin)`: bounds swapped when reversed, then the loop with the two `continue`s. -/
def extractSpanTime (tr : Track) (tini tfin : Int) : Track :=
  let lo := if tini > tfin then tfin else tini
  let hi := if tini > tfin then tini else tfin
  transmitAF (tr.pts.filter (fun o => !(decide (o.time < lo)) && !(decide (o.time > hi)))) tr

/-! ### operators -/

/-- `same` in `__add__`: same number of names and equal names position by position. -/
def sameNames : List String → List String → Bool
  | [], [] => true
  | a :: as, b :: bs => a == b && sameNames as bs
  | _, _ => false

/-- `t1 + t2`: the points of both; the table of `t1` is transmitted when the two lists of NAMES are equal
position by position (the column indices of `t2` are not looked at), otherwise the sum has an empty table. -/
def concat (t1 t2 : Track) : Track :=
  ⟨t1.pts ++ t2.pts, if sameNames t1.names t2.names then t1.table else []⟩

/-- countdown form of `L[::n]` for `n ≥ 1`: keep an element when the counter is 0. -/
def stepAux {α : Type} (n : Nat) : Nat → List α → List α
  | _, [] => []
  | 0, x :: xs => x :: stepAux n (n - 1) xs
  | k + 1, _ :: xs => stepAux n k xs

/-- Python `L[::n]`: `none` = `ValueError` (step 0); a negative step walks from the last element. -/
def pyStep {α : Type} (l : List α) (n : Int) : Option (List α) :=
  if n = 0 then none
  else if n > 0 then some (stepAux n.toNat 0 l)
  else some (stepAux (-n).toNat 0 l.reverse)

/-- `track % n` -/
def decimateStep (tr : Track) (n : Int) : Option Track :=
  (pyStep tr.pts n).map (fun p => transmitAF p tr)

/-- `for i in range(size): if sample[i % len(sample)]: addObs(getObs(i))`, `i` = position counter -/
def patLoop {α : Type} (pat : List Bool) : Nat → List α → List α
  | _, [] => []
  | i, x :: xs =>
    if pat[i % pat.length]?.getD false then x :: patLoop pat (i + 1) xs else patLoop pat (i + 1) xs

/-- `track % [bools]`; `none` = `ZeroDivisionError` (empty pattern on a non-empty track). -/
def decimatePattern (tr : Track) (pat : List Bool) : Option Track :=
  if pat.isEmpty && !tr.pts.isEmpty then none
  else some (transmitAF (patLoop pat 0 tr.pts) tr)

/-- Python slice `L[a:b]` for `0 ≤ b` (clamped) and any integer `a`. -/
def pySliceFrom {α : Type} (l : List α) (a : Int) : List α :=
  if 0 ≤ a then l.drop a.toNat else l.drop ((l.length : Int) + a).toNat

/-- `track > n`: `self.__POINTS[n : self.size()]` -/
def dropFirst (tr : Track) (n : Int) : Track := transmitAF (pySliceFrom tr.pts n) tr

/-- `track < n`: `self.__POINTS[0 : max(0, self.size() - n)]` -/
def dropLast (tr : Track) (n : Int) : Track :=
  transmitAF (tr.pts.take (max 0 ((tr.pts.length : Int) - n)).toNat) tr

end TV.Seq
