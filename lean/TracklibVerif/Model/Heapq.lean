/-! Model of Python's `heapq` (`heappush`, `heappop`, `heapify` with their `_siftdown` / `_siftup` helpers) as
`priority_dict` (`tracklib/core/utils.py`) uses it: a binary min-heap stored in a list, children of `i` at
`2i+1`, `2i+2`.

The functions follow `Lib/heapq.py` statement by statement (the C accelerator `_heapq` implements the same
algorithm with the same comparisons, so the list contents agree position by position — checked by the
correspondence stream `hq`):

* `_siftdown(heap, startpos, pos)` moves the item at `pos` towards the root while it is smaller than its parent;
* `_siftup(heap, pos)` first moves the smaller child up along the path to a leaf *without* comparing with the
  item (`bubble`), then puts the item in the leaf and `_siftdown`s it back towards `pos`;
* `heappush` = append + `_siftdown(heap, 0, len-1)`; `heappop` = pop the last item, and when the heap is not
  empty put it at the root, `_siftup(heap, 0)`, return the old root; `heapify` = `_siftup(x, i)` for
  `i = n//2-1 … 0`.

`lt` is the only comparison `heapq` uses (`<`; for `priority_dict` Python's tuple order on `(priority, key)`).
Index errors cannot occur (proved in `Lemmas/Heapq.lean`); the `none` branches return the list unchanged.
Loops carry a fuel argument that is never exhausted (`pos` strictly decreases / increases). Core Lean only. -/
namespace TV.Heapq
variable {α : Type}

/-- the `while pos > startpos:` loop of `_siftdown` followed by `heap[pos] = newitem`; fuel ≥ `pos` -/
def siftdownLoop (lt : α → α → Bool) (startpos : Nat) (newitem : α) : Nat → List α → Nat → List α
  | 0, heap, pos => heap.set pos newitem
  | f+1, heap, pos =>
    if startpos < pos then
      let parentpos := (pos - 1) / 2                       -- `(pos - 1) >> 1`
      match heap[parentpos]? with
      | none => heap.set pos newitem
      | some parent =>
        if lt newitem parent then siftdownLoop lt startpos newitem f (heap.set pos parent) parentpos
        else heap.set pos newitem
    else heap.set pos newitem

/-- `_siftdown(heap, startpos, pos)` -/
def siftdown (lt : α → α → Bool) (heap : List α) (startpos pos : Nat) : List α :=
  match heap[pos]? with
  | none => heap
  | some newitem => siftdownLoop lt startpos newitem pos heap pos

/-- `rightpos = childpos + 1; if rightpos < endpos and not heap[childpos] < heap[rightpos]: childpos = rightpos` -/
def smallerChild (lt : α → α → Bool) (heap : List α) (childpos : Nat) : Nat :=
  match heap[childpos]?, heap[childpos + 1]? with
  | some l, some r => if lt l r then childpos else childpos + 1
  | _, _ => childpos

/-- the `while childpos < endpos:` loop of `_siftup`: the smaller child moves up, the hole moves down to a leaf;
returns the list and the position of the hole; fuel ≥ `len(heap) - pos` -/
def bubble (lt : α → α → Bool) : Nat → List α → Nat → List α × Nat
  | 0, heap, pos => (heap, pos)
  | f+1, heap, pos =>
    if 2 * pos + 1 < heap.length then
      let childpos := smallerChild lt heap (2 * pos + 1)
      match heap[childpos]? with
      | none => (heap, pos)
      | some c => bubble lt f (heap.set pos c) childpos       -- `heap[pos] = heap[childpos]; pos = childpos`
    else (heap, pos)

/-- `_siftup(heap, pos)` -/
def siftup (lt : α → α → Bool) (heap : List α) (pos : Nat) : List α :=
  match heap[pos]? with
  | none => heap
  | some newitem =>
    let r := bubble lt heap.length heap pos
    siftdownLoop lt pos newitem r.2 r.1 r.2                   -- `heap[pos] = newitem; _siftdown(heap, startpos, pos)`

/-- `heappush(heap, item)` -/
def heappush (lt : α → α → Bool) (heap : List α) (item : α) : List α :=
  siftdown lt (heap ++ [item]) 0 heap.length

/-- `heappop(heap)`: the returned item and the new heap; `none` = IndexError (empty heap) -/
def heappop (lt : α → α → Bool) (heap : List α) : Option (α × List α) :=
  match heap.getLast? with                                     -- `lastelt = heap.pop()`
  | none => none
  | some lastelt =>
    match heap.dropLast with
    | [] => some (lastelt, [])
    | returnitem :: rest => some (returnitem, siftup lt (lastelt :: rest) 0)   -- `heap[0] = lastelt; _siftup(heap, 0)`

/-- `for i in reversed(range(k)): _siftup(x, i)` -/
def heapifyLoop (lt : α → α → Bool) : Nat → List α → List α
  | 0, x => x
  | i+1, x => heapifyLoop lt i (siftup lt x i)

/-- `heapify(x)` -/
def heapify (lt : α → α → Bool) (x : List α) : List α := heapifyLoop lt (x.length / 2) x
end TV.Heapq
