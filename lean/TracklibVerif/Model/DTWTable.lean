import TracklibVerif.Model.DTW
/-! Executable model of `match` / `compare` in the DTW, FDTW and FRECHET modes of
`tracklib/algo/comparison.py` (`_distance`, `_p2weight`, `_dtw`, `_fdtw`, `_update_node`,
`_fillAF_dtw`, `_dtw_comparison`, `_fdtw_comparison`), table style, as the code is after 42f835b.

Conventions, as in the Python: rows `i` index **track2**, columns `j` index **track1**;
`D[i,j] = _distance(track2[i], track1[j])`; the tables are kept as lists of *columns*
(`cols[j][i]`), because the forward step is `for j: for i:` and column `j` only reads column `j-1`
and the cells above in column `j`. A cell holds `(T[i,j], M[i,j])`; the complex number
`(i - b1) + (j - b2)·1j` of the code is the pair `(i - b1, j - b2)`. `M[0,0]` (−1−1j in the code) is
never read by the backward walk; it is `(0,0)` here.
The scalar `α` is a parameter (`Float` in the driver; a linear order in the theorems). -/
namespace TV.DTW

section order
variable {α : Type} [LT α] [LE α] [DecidableLT α] [DecidableLE α]

/-- Python `min(a, b)`: `a` unless `b < a` -/
def pmin (a b : α) : α := if b < a then b else a
/-- Python `max(a, b)`: `a` unless `b > a` -/
def pmax (a b : α) : α := if a < b then b else a

/-- the predecessor encoding of `_dtw`:
`M[i,j] = (i-((ul<=min(u,l)) or (u<l))) + (j-((ul<=min(u,l)) or (l<=u)))*1j` -/
def predCell (i j : Nat) (ul u l : α) : Nat × Nat :=
  let c := decide (ul ≤ pmin u l)
  let bi := c || decide (u < l)
  let bj := c || decide (l ≤ u)
  (i - bi.toNat, j - bj.toNat)

abbrev Cell (α : Type) := α × (Nat × Nat)

/-- first column: `T[0,0] = weight(0, D[0,0])`, `T[i,0] = weight(T[i-1,0], D[i,0])`, `M[i,0] = (i-1, 0)` -/
def firstCol (w : α → α → α) : Nat → α → List α → List (Cell α)
  | _, _, [] => []
  | i, acc, d :: ds => let t := w acc d; (t, (i - 1, 0)) :: firstCol w (i+1) t ds

/-- cells `i ≥ 1` of column `j ≥ 1`: `ul = T[i-1,j-1]`, `u = T[i-1,j]`, the head of `prev` is `l = T[i,j-1]` -/
def restCol (w : α → α → α) (j : Nat) : Nat → α → α → List (Cell α) → List α → List (Cell α)
  | i, ul, u, (l, _) :: ps, d :: ds =>
    let t := w (pmin ul (pmin u l)) d
    (t, predCell i j ul u l) :: restCol w j (i+1) l t ps ds
  | _, _, _, _, _ => []

/-- column `j ≥ 1` from column `j-1`: `T[0,j] = weight(T[0,j-1], D[0,j])`, `M[0,j] = (0, j-1)` -/
def nextCol (w : α → α → α) (j : Nat) : List (Cell α) → List α → List (Cell α)
  | (p0, _) :: ps, d0 :: ds => let t0 := w p0 d0; (t0, (0, j - 1)) :: restCol w j 1 p0 t0 ps ds
  | _, _ => []

def laterCols (w : α → α → α) : Nat → List (Cell α) → List (List α) → List (List (Cell α))
  | _, _, [] => []
  | j, prev, c :: cs => let t := nextCol w j prev c; t :: laterCols w (j+1) t cs

/-- the tables `T` and `M` of `_dtw` from the columns of `D` -/
def table (w : α → α → α) (z : α) : List (List α) → List (List (Cell α))
  | [] => []
  | c0 :: cs => let t0 := firstCol w 0 z c0; t0 :: laterCols w 1 t0 cs
end order

/-- `tab[i,j]` -/
def cellAt {β : Type} (cols : List (List β)) (i j : Nat) : Option β := (cols[j]?).bind (·[i]?)

/-- backward step of `_dtw` / `_fdtw`: `S = [last]; while S[-1] != (0,0): S.append(M[S[-1]])` -/
def walk (M : Nat → Nat → Option (Nat × Nat)) : Nat → Nat × Nat → List (Nat × Nat)
  | 0, s => [s]
  | f+1, (i, j) =>
    if 0 < i ∨ 0 < j then
      match M i j with
      | some m => (i, j) :: walk M f m
      | none => [(i, j)]
    else [(i, j)]

/-- 3-D point (`ENUCoords.E, N, U`) -/
structure Pt (α : Type) where
  x : α
  y : α
  z : α

section scalar
variable {α : Type} [Add α] [Sub α] [Mul α] [Div α] [LT α] [LE α] [DecidableLT α] [DecidableLE α] [OfNat α 0]

/-- `_distance(p1, p2, dim)`: `abs(p1.U - p2.U)`, `(p2 - p1).norm2D()`, `(p2 - p1).norm()` -/
def distance (sqrt : α → α) (dim : Nat) (p1 p2 : Pt α) : α :=
  if dim = 1 then
    let d := p1.z - p2.z
    if d < 0 then 0 - d else d
  else
    let e := p2.x - p1.x
    let n := p2.y - p1.y
    if dim = 2 then sqrt (e * e + n * n)
    else let u := p2.z - p1.z; sqrt (e * e + n * n + u * u)

/-- exponent of the Lp accumulation -/
inductive PNorm
  | one | two | inf
  deriving DecidableEq, Repr

/-- `_p2weight(p)`: `A + B**p`, or `max(A, B)` for `p = inf` -/
def weight : PNorm → α → α → α
  | .one, a, b => a + b
  | .two, a, b => a + b * b
  | .inf, a, b => pmax a b

/-- columns of `D`: `D[i,j] = _distance(track2[i], track1[j], dim)` -/
def distCols (sqrt : α → α) (dim : Nat) (t1 t2 : List (Pt α)) : List (List α) :=
  t1.map (fun q => t2.map (fun p => distance sqrt dim p q))

/-- per-observation output of `_fillAF_dtw` -/
structure Row (α : Type) where
  diff : Option α := none
  pair : List Nat := []
  ex : Option α := none
  ey : Option α := none

/-- what `match` returns, as far as `_fillAF_dtw` fills it -/
structure Out (α : Type) where
  score : α
  S : List (Nat × Nat)
  rows : List (Row α)
  nbLinks : Nat

/-- one iteration of the loop of `_fillAF_dtw` for the pair `s = (i, j)`: `diff`, `ex`, `ey` of observation `j` are
overwritten, `i` is appended to its `pair` list, `nb_links += 1` (`none` = IndexError) -/
def fillStep (sqrt : α → α) (dim : Nat) (t1 t2 : List (Pt α)) (acc : Option (List (Row α) × Nat)) (s : Nat × Nat) :
    Option (List (Row α) × Nat) :=
  match acc with
  | none => none
  | some (rows, nb) =>
    match t1[s.2]?, t2[s.1]?, rows[s.2]? with
    | some p1, some p2, some r =>
      some (rows.set s.2 { diff := some (distance sqrt dim p1 p2), pair := r.pair ++ [s.1],
                           ex := some (p1.x - p2.x), ey := some (p1.y - p2.y) }, nb + 1)
    | _, _, _ => none

/-- `_fillAF_dtw`: the pairs of `S` are visited from the end of the list (the pair `(0,0)`) to its head -/
def fillAF (sqrt : α → α) (dim : Nat) (t1 t2 : List (Pt α)) (S : List (Nat × Nat)) (score : α) : Option (Out α) :=
  match S.reverse.foldl (fillStep sqrt dim t1 t2) (some (t1.map (fun _ => {}), 0)) with
  | some (rows, nb) => some { score := score, S := S, rows := rows, nbLinks := nb }
  | none => none

/-- `_dtw` from the distance matrix to the backward step: `(T[-1,-1], S)` -/
def dtwCore {α : Type} [LT α] [LE α] [DecidableLT α] [DecidableLE α]
    (w : α → α → α) (z : α) (n1 n2 : Nat) (dc : List (List α)) : Option (α × List (Nat × Nat)) := do
  let tab := table w z dc
  let S := walk (fun i j => (cellAt tab i j).map (·.2)) (n1 + n2) (n2 - 1, n1 - 1)
  let last ← cellAt tab (n2 - 1) (n1 - 1)      -- `T[-1,-1]`: IndexError on an empty track
  some (last.1, S)

/-- `_dtw(track1, track2, weight, dim)` -/
def dtw (sqrt : α → α) (w : α → α → α) (dim : Nat) (t1 t2 : List (Pt α)) : Option (Out α) := do
  let (score, S) ← dtwCore w 0 t1.length t2.length (distCols sqrt dim t1 t2)
  fillAF sqrt dim t1 t2 S score

/-! ### `_fdtw`: best-first search with `priority_dict` -/

/-- dictionary keyed by lattice nodes, latest binding first -/
abbrev NodeMap (β : Type) := List ((Nat × Nat) × β)
def NodeMap.get? {β : Type} (m : NodeMap β) (k : Nat × Nat) : Option β := (m.find? (·.1 == k)).map (·.2)
def NodeMap.put {β : Type} (m : NodeMap β) (k : Nat × Nat) (v : β) : NodeMap β :=
  (k, v) :: m.filter (fun e => !(e.1 == k))

/-- `priority_dict.pop_smallest` contract: an entry with the least `(priority, key)` (tuple order) -/
def popSmallest : NodeMap α → Option ((Nat × Nat) × α)
  | [] => none
  | e :: es =>
    match popSmallest es with
    | none => some e
    | some b =>
      let better := e.2 < b.2 ∨ (¬ b.2 < e.2 ∧ (e.1.1 < b.1.1 ∨ (e.1.1 = b.1.1 ∧ e.1.2 ≤ b.1.2)))
      if better then some e else some b

structure FState (α : Type) where
  T : NodeMap α
  F : NodeMap α
  V : List (Nat × Nat)
  A : NodeMap (Nat × Nat)

/-- `_update_node(F, T, node, new_cost, V, A, ant)`; `big` is the `1e300` placeholder priority -/
def updateNode (big : α) (st : FState α) (node : Nat × Nat) (newCost : α) (ant : Nat × Nat) : FState α :=
  if st.V.contains node then st else
  let cur := (st.F.get? node).getD big
  let F1 := if (st.F.get? node).isSome then st.F else st.F.put node big
  if newCost < cur then
    { st with F := F1.put node newCost, A := st.A.put node ant, T := st.T.put node newCost }
  else { st with F := F1 }

/-- one of the three guarded `_update_node` calls of the loop body: `if cond: dist = D[y]; _update_node(F, T, y, weight(T[i,j], dist), V, A, node)` -/
def relax (big : α) (w : α → α → α) (D : Nat → Nat → Option α) (node : Nat × Nat) (tij : α) (cond : Bool)
    (y : Nat × Nat) (st : FState α) : Option (FState α) :=
  if cond then (D y.1 y.2).map (fun d => updateNode big st y (w tij d) node) else some st

/-- the `while(1)` loop of `_fdtw`; `none` = an exception in the Python (empty queue, unset cell) -/
def fdtwLoop (big : α) (w : α → α → α) (D : Nat → Nat → Option α) (n1 n2 : Nat) : Nat → FState α → Option (FState α)
  | 0, _ => none
  | fuel+1, st =>
    match popSmallest st.F with
    | none => none
    | some (node, _) =>
      let i := node.1
      let j := node.2
      let st := { st with F := st.F.filter (fun e => !(e.1 == node)), V := node :: st.V }
      if i = n2 - 1 ∧ j = n1 - 1 then some st else
      let tij := (st.T.get? node).getD 0          -- `T = np.zeros(...)`
      (relax big w D node tij (decide (i < n2 - 1 ∧ j < n1 - 1)) (i+1, j+1) st).bind fun st =>
      (relax big w D node tij (decide (j < n1 - 1)) (i, j+1) st).bind fun st =>
      (relax big w D node tij (decide (i < n2 - 1)) (i+1, j) st).bind fun st =>
      fdtwLoop big w D n1 n2 fuel st

/-- `_fdtw(track1, track2, weight, dim)` -/
def fdtw (sqrt : α → α) (big : α) (w : α → α → α) (dim : Nat) (t1 t2 : List (Pt α)) : Option (Out α) := do
  let n1 := t1.length
  let n2 := t2.length
  let dc := distCols sqrt dim t1 t2
  let d00 ← cellAt dc 0 0
  let st0 : FState α := { T := [((0, 0), w 0 d00)], F := [((0, 0), 0)], V := [], A := [((0, 0), (0, 0))] }
  let st ← fdtwLoop big w (cellAt dc) n1 n2 (n1 * n2 + 1) st0
  let S := walk (fun i j => st.A.get? (i, j)) (n1 + n2) (n2 - 1, n1 - 1)
  let score := (st.T.get? (n2 - 1, n1 - 1)).getD 0
  fillAF sqrt dim t1 t2 S score

/-- matching modes of `match` that the property covers -/
inductive Mode
  | dtw | fdtw | frechet
  deriving DecidableEq, Repr

/-- `match(track1, track2, mode, p, dim)`. Errors: `output.createAnalyticalFeature("diff")` refuses a track
without observations (AnalyticalFeatureError); an empty `track2` ends in an IndexError. -/
def matchTracks (sqrt : α → α) (big : α) (mode : Mode) (p : PNorm) (dim : Nat) (t1 t2 : List (Pt α)) : Except String (Out α) :=
  if t1.isEmpty then .error "err:AnalyticalFeatureError" else
  let r := match mode with
    | .frechet => dtw sqrt (weight .inf) dim t1 t2
    | .dtw => dtw sqrt (weight p) dim t1 t2
    | .fdtw => fdtw sqrt big (weight p) dim t1 t2
  match r with
  | some o => .ok o
  | none => .error "err:index"

/-- `compare(track1, track2, mode, p, dim)` in the modes DTW / FDTW / FRECHET:
the score for `p = inf`, `(score/nb_links)**(1/p)` otherwise (`**0.5` is `sqrt` here) -/
def compareTracks (sqrt : α → α) (ofNat : Nat → α) (big : α) (mode : Mode) (p : PNorm) (dim : Nat)
    (t1 t2 : List (Pt α)) : Except String α := do
  let p' := if mode = .frechet then PNorm.inf else p
  let m ← matchTracks sqrt big mode p dim t1 t2
  match p' with
  | .inf => pure m.score
  | .one => pure (m.score / ofNat m.nbLinks)
  | .two => pure (sqrt (m.score / ofNat m.nbLinks))
end scalar
end TV.DTW
