import TracklibVerif.Model.DTW
import TracklibVerif.Model.Geo
/-! Executable model of `match` / `compare` in the DTW, FDTW and FRECHET modes of
`tracklib/algo/comparison.py`, table style, as the code is after 42f835b and 1f009f6: the two algorithms `_dtw` and `_fdtw`
(+ `_update_node`, `priority_dict.pop_smallest` by its contract) for any accumulation and **any point distance** `dist`
(what `_distance(·, ·, dim)` computes for the positions at hand), `_fillAF_dtw` on
`output = track1.copy()` (which may already carry the features of an earlier matching: `fillAFOn`), and, in the last
part of the file, the calls as a user makes them: `_distance` as its dispatch on `dim` (1, 2, 3 or a callable) and on the
class of the position objects (`ENUCoords`, `GeoCoords`, `ECEFCoords`: `distanceOf`, with the conversions of
`Model/Geo.lean`), `_exponent` (1f009f6: the first line of `match` and of `compare`; a numpy floating / integer scalar `p` becomes
`float(p)` / `int(p)` — `PArg.exponent`, decided on the type name), `_p2weight` as its cascade of tests on the type name and the
value of `p`, `match` / `compare` (`matchCall` / `compareCall`: `_exponent`, then `matchBody` / `compareBody` dispatching on the
integer mode constants), `_dtw_comparison` / `_fdtw_comparison`, and sessions of
calls on shared objects (`runSeq`).

Conventions, as in the Python: rows `i` index **track2**, columns `j` index **track1**;
`D[i,j] = _distance(track2[i], track1[j])`; the tables are kept as lists of *columns*
(`cols[j][i]`), because the forward step is `for j: for i:` and column `j` only reads column `j-1`
and the cells above in column `j`. A cell holds `(T[i,j], M[i,j])`; the complex number
`(i - b1) + (j - b2)·1j` of the code is the pair `(i - b1, j - b2)`. `M[0,0]` (−1−1j in the code) is
never read by the backward walk; it is `(0,0)` here.
The scalar `α` is a parameter (`Float` in the driver; a linear order in the theorems). -/
namespace TV.DTW

section order
variable {α : Type} [LT α] [LE α] [DecidableLT α] [DecidableLE α]

/-- Python `min(a, b)`: `a` unless `b < a` -/
def pmin (a b : α) : α := if b < a then b else a
/-- Python `max(a, b)`: `a` unless `b > a` -/
def pmax (a b : α) : α := if a < b then b else a

/-- the predecessor encoding of `_dtw`:
`M[i,j] = (i-((ul<=min(u,l)) or (u<l))) + (j-((ul<=min(u,l)) or (l<=u)))*1j` -/
def predCell (i j : Nat) (ul u l : α) : Nat × Nat :=
  let c := decide (ul ≤ pmin u l)
  let bi := c || decide (u < l)
  let bj := c || decide (l ≤ u)
  (i - bi.toNat, j - bj.toNat)

abbrev Cell (α : Type) := α × (Nat × Nat)

/-- first column: `T[0,0] = weight(0, D[0,0])`, `T[i,0] = weight(T[i-1,0], D[i,0])`, `M[i,0] = (i-1, 0)` -/
def firstCol (w : α → α → α) : Nat → α → List α → List (Cell α)
  | _, _, [] => []
  | i, acc, d :: ds => let t := w acc d; (t, (i - 1, 0)) :: firstCol w (i+1) t ds

/-- cells `i ≥ 1` of column `j ≥ 1`: `ul = T[i-1,j-1]`, `u = T[i-1,j]`, the head of `prev` is `l = T[i,j-1]` -/
def restCol (w : α → α → α) (j : Nat) : Nat → α → α → List (Cell α) → List α → List (Cell α)
  | i, ul, u, (l, _) :: ps, d :: ds =>
    let t := w (pmin ul (pmin u l)) d
    (t, predCell i j ul u l) :: restCol w j (i+1) l t ps ds
  | _, _, _, _, _ => []

/-- column `j ≥ 1` from column `j-1`: `T[0,j] = weight(T[0,j-1], D[0,j])`, `M[0,j] = (0, j-1)` -/
def nextCol (w : α → α → α) (j : Nat) : List (Cell α) → List α → List (Cell α)
  | (p0, _) :: ps, d0 :: ds => let t0 := w p0 d0; (t0, (0, j - 1)) :: restCol w j 1 p0 t0 ps ds
  | _, _ => []

def laterCols (w : α → α → α) : Nat → List (Cell α) → List (List α) → List (List (Cell α))
  | _, _, [] => []
  | j, prev, c :: cs => let t := nextCol w j prev c; t :: laterCols w (j+1) t cs

/-- the tables `T` and `M` of `_dtw` from the columns of `D` -/
def table (w : α → α → α) (z : α) : List (List α) → List (List (Cell α))
  | [] => []
  | c0 :: cs => let t0 := firstCol w 0 z c0; t0 :: laterCols w 1 t0 cs
end order

/-- `tab[i,j]` -/
def cellAt {β : Type} (cols : List (List β)) (i j : Nat) : Option β := (cols[j]?).bind (·[i]?)

/-- backward step of `_dtw` / `_fdtw`: `S = [last]; while S[-1] != (0,0): S.append(M[S[-1]])` -/
def walk (M : Nat → Nat → Option (Nat × Nat)) : Nat → Nat × Nat → List (Nat × Nat)
  | 0, s => [s]
  | f+1, (i, j) =>
    if 0 < i ∨ 0 < j then
      match M i j with
      | some m => (i, j) :: walk M f m
      | none => [(i, j)]
    else [(i, j)]

/-- a position: `ENUCoords.E, N, U`, `GeoCoords.lon, lat, hgt` or `ECEFCoords.X, Y, Z` (what `getX()`, `getY()`, `getZ()` return) -/
structure Pt (α : Type) where
  x : α
  y : α
  z : α

section scalar
variable {α : Type} [Add α] [Sub α] [Mul α] [Div α] [LT α] [LE α] [DecidableLT α] [DecidableLE α] [OfNat α 0]

/-- `_distance(p1, p2, dim)` on two `ENUCoords`: `abs(p1.U - p2.U)`, `(p2 - p1).norm2D()`, `(p2 - p1).norm()` -/
def distance (sqrt : α → α) (dim : Nat) (p1 p2 : Pt α) : α :=
  if dim = 1 then
    let d := p1.z - p2.z
    if d < 0 then 0 - d else d
  else
    let e := p2.x - p1.x
    let n := p2.y - p1.y
    if dim = 2 then sqrt (e * e + n * n)
    else let u := p2.z - p1.z; sqrt (e * e + n * n + u * u)

/-- columns of `D`: `D[i,j] = _distance(track2[i], track1[j], dim)`; `dist p q` is `_distance(p, q, dim)` -/
def distCols (dist : Pt α → Pt α → α) (t1 t2 : List (Pt α)) : List (List α) :=
  t1.map (fun q => t2.map (fun p => dist p q))

/-- per-observation output of `_fillAF_dtw` -/
structure Row (α : Type) where
  diff : Option α := none
  pair : List Nat := []
  ex : Option α := none
  ey : Option α := none

/-- what `match` returns, as far as `_fillAF_dtw` fills it -/
structure Out (α : Type) where
  score : α
  S : List (Nat × Nat)
  rows : List (Row α)
  nbLinks : Nat

/-- one iteration of the loop of `_fillAF_dtw` for the pair `s = (i, j)`: `diff`, `ex`, `ey` of observation `j` are
overwritten, `i` is appended to its `pair` list, `nb_links += 1` (`none` = IndexError) -/
def fillStep (dist : Pt α → Pt α → α) (t1 t2 : List (Pt α)) (acc : Option (List (Row α) × Nat)) (s : Nat × Nat) :
    Option (List (Row α) × Nat) :=
  match acc with
  | none => none
  | some (rows, nb) =>
    match t1[s.2]?, t2[s.1]?, rows[s.2]? with
    | some p1, some p2, some r =>
      some (rows.set s.2 { diff := some (dist p1 p2), pair := r.pair ++ [s.1],
                           ex := some (p1.x - p2.x), ey := some (p1.y - p2.y) }, nb + 1)
    | _, _, _ => none

/-- `_fillAF_dtw(output, …)` where `output = track1.copy()` already carries the feature rows `rows0` (those of a
track that went through an earlier `match`, or features the user created under the same names; a track without them
gets them from `createAnalyticalFeature`, a no-op for the names that exist): the loop
`for i in range(len(output)): output.setObsAnalyticalFeature("pair", i, [])` empties every link list, then the pairs of
`S` are visited from the end of the list (the pair `(0,0)`) to its head -/
def fillAFOn (dist : Pt α → Pt α → α) (t1 t2 : List (Pt α)) (rows0 : List (Row α)) (S : List (Nat × Nat)) (score : α) :
    Option (Out α) :=
  match S.reverse.foldl (fillStep dist t1 t2) (some (rows0.map (fun r => { r with pair := [] }), 0)) with
  | some (rows, nb) => some { score := score, S := S, rows := rows, nbLinks := nb }
  | none => none

/-- the feature rows of a track that carries none of `diff`, `pair`, `ex`, `ey` yet (`none` = the creation default `0.0`,
never read: every observation is linked, so every row is overwritten) -/
def freshRows (t1 : List (Pt α)) : List (Row α) := t1.map (fun _ => {})

/-- `_fillAF_dtw` on a track1 without earlier features -/
def fillAF (dist : Pt α → Pt α → α) (t1 t2 : List (Pt α)) (S : List (Nat × Nat)) (score : α) : Option (Out α) :=
  fillAFOn dist t1 t2 (freshRows t1) S score

/-- `_dtw` from the distance matrix to the backward step: `(T[-1,-1], S)` -/
def dtwCore {α : Type} [LT α] [LE α] [DecidableLT α] [DecidableLE α]
    (w : α → α → α) (z : α) (n1 n2 : Nat) (dc : List (List α)) : Option (α × List (Nat × Nat)) := do
  let tab := table w z dc
  let S := walk (fun i j => (cellAt tab i j).map (·.2)) (n1 + n2) (n2 - 1, n1 - 1)
  let last ← cellAt tab (n2 - 1) (n1 - 1)      -- `T[-1,-1]`: IndexError on an empty track
  some (last.1, S)

/-- `_dtw(track1, track2, weight, dim)` on a `track1` that carries the feature rows `rows0` -/
def dtwOn (dist : Pt α → Pt α → α) (w : α → α → α) (rows0 : List (Row α)) (t1 t2 : List (Pt α)) : Option (Out α) := do
  let (score, S) ← dtwCore w 0 t1.length t2.length (distCols dist t1 t2)
  fillAFOn dist t1 t2 rows0 S score

/-- `_dtw(track1, track2, weight, dim)` on a `track1` without earlier features -/
def dtw (dist : Pt α → Pt α → α) (w : α → α → α) (t1 t2 : List (Pt α)) : Option (Out α) :=
  dtwOn dist w (freshRows t1) t1 t2

/-! ### `_fdtw`: best-first search with `priority_dict` -/

/-- dictionary keyed by lattice nodes, latest binding first -/
abbrev NodeMap (β : Type) := List ((Nat × Nat) × β)
def NodeMap.get? {β : Type} (m : NodeMap β) (k : Nat × Nat) : Option β := (m.find? (·.1 == k)).map (·.2)
def NodeMap.put {β : Type} (m : NodeMap β) (k : Nat × Nat) (v : β) : NodeMap β :=
  (k, v) :: m.filter (fun e => !(e.1 == k))

/-- `priority_dict.pop_smallest` contract: an entry with the least `(priority, key)` (tuple order) -/
def popSmallest : NodeMap α → Option ((Nat × Nat) × α)
  | [] => none
  | e :: es =>
    match popSmallest es with
    | none => some e
    | some b =>
      let better := e.2 < b.2 ∨ (¬ b.2 < e.2 ∧ (e.1.1 < b.1.1 ∨ (e.1.1 = b.1.1 ∧ e.1.2 ≤ b.1.2)))
      if better then some e else some b

structure FState (α : Type) where
  T : NodeMap α
  F : NodeMap α
  V : List (Nat × Nat)
  A : NodeMap (Nat × Nat)

/-- `_update_node(F, T, node, new_cost, V, A, ant)`; `big` is the `1e300` placeholder priority -/
def updateNode (big : α) (st : FState α) (node : Nat × Nat) (newCost : α) (ant : Nat × Nat) : FState α :=
  if st.V.contains node then st else
  let cur := (st.F.get? node).getD big
  let F1 := if (st.F.get? node).isSome then st.F else st.F.put node big
  if newCost < cur then
    { st with F := F1.put node newCost, A := st.A.put node ant, T := st.T.put node newCost }
  else { st with F := F1 }

/-- one of the three guarded `_update_node` calls of the loop body: `if cond: dist = D[y]; _update_node(F, T, y, weight(T[i,j], dist), V, A, node)` -/
def relax (big : α) (w : α → α → α) (D : Nat → Nat → Option α) (node : Nat × Nat) (tij : α) (cond : Bool)
    (y : Nat × Nat) (st : FState α) : Option (FState α) :=
  if cond then (D y.1 y.2).map (fun d => updateNode big st y (w tij d) node) else some st

/-- the `while(1)` loop of `_fdtw`; `none` = an exception in the Python (empty queue, unset cell) -/
def fdtwLoop (big : α) (w : α → α → α) (D : Nat → Nat → Option α) (n1 n2 : Nat) : Nat → FState α → Option (FState α)
  | 0, _ => none
  | fuel+1, st =>
    match popSmallest st.F with
    | none => none
    | some (node, _) =>
      let i := node.1
      let j := node.2
      let st := { st with F := st.F.filter (fun e => !(e.1 == node)), V := node :: st.V }
      if i = n2 - 1 ∧ j = n1 - 1 then some st else
      let tij := (st.T.get? node).getD 0          -- `T = np.zeros(...)`
      (relax big w D node tij (decide (i < n2 - 1 ∧ j < n1 - 1)) (i+1, j+1) st).bind fun st =>
      (relax big w D node tij (decide (j < n1 - 1)) (i, j+1) st).bind fun st =>
      (relax big w D node tij (decide (i < n2 - 1)) (i+1, j) st).bind fun st =>
      fdtwLoop big w D n1 n2 fuel st

/-- `_fdtw(track1, track2, weight, dim)` on a `track1` that carries the feature rows `rows0` -/
def fdtwOn (dist : Pt α → Pt α → α) (big : α) (w : α → α → α) (rows0 : List (Row α)) (t1 t2 : List (Pt α)) :
    Option (Out α) := do
  let n1 := t1.length
  let n2 := t2.length
  let dc := distCols dist t1 t2
  let d00 ← cellAt dc 0 0
  let st0 : FState α := { T := [((0, 0), w 0 d00)], F := [((0, 0), 0)], V := [], A := [((0, 0), (0, 0))] }
  let st ← fdtwLoop big w (cellAt dc) n1 n2 (n1 * n2 + 1) st0
  let S := walk (fun i j => st.A.get? (i, j)) (n1 + n2) (n2 - 1, n1 - 1)
  let score := (st.T.get? (n2 - 1, n1 - 1)).getD 0
  fillAFOn dist t1 t2 rows0 S score

/-- `_fdtw(track1, track2, weight, dim)` on a `track1` without earlier features -/
def fdtw (dist : Pt α → Pt α → α) (big : α) (w : α → α → α) (t1 t2 : List (Pt α)) : Option (Out α) :=
  fdtwOn dist big w (freshRows t1) t1 t2

end scalar


/-! ### `_distance`: the dispatch on `dim` and on the class of the positions -/

/-- the class of the position objects of the two tracks -/
inductive Coords
  | enu | geo | ecef
  deriving DecidableEq, Repr

/-- the argument `dim` of `match` / `compare` as `_distance` tests it: a number (`dim == 1`, `dim == 2`, `dim == 3`) or — function
form, `'function' in str(type(dim))` — a callable that computes the point distance itself (`dim(p1, p2)`) -/
inductive DimArg (α : Type)
  | num (d : Nat)
  | fn (f : Pt α → Pt α → α)

/-- how positions are measured: the class of the position objects and the `math` functions they call -/
structure Geom (α : Type) where
  cls : Coords
  T : Geo.Trig α

section dist
variable {α : Type} [Add α] [Sub α] [Mul α] [Div α] [Neg α] [LT α] [LE α] [DecidableLT α] [DecidableLE α] [OfNat α 0]
  [OfScientific α]

def Pt.v3 (p : Pt α) : Geo.V3 α := ⟨p.x, p.y, p.z⟩

/-- `ECEFCoords.distanceTo(point)`: `(point - self).norm()`; `a - b` on `ECEFCoords` is `ECEFCoords(b.X - a.X, …)`, `norm` is
`math.sqrt(self.dot(self))` -/
def ecefDistance (T : Geo.Trig α) (a b : Geo.V3 α) : α :=
  let x := a.x - b.x
  let y := a.y - b.y
  let z := a.z - b.z
  T.sqrt (x * x + y * y + z * z)

/-- `GeoCoords.distance2DTo(point)`: `self.toENUCoords(point).norm2D()` — the horizontal part, `sqrt(E ** 2 + N ** 2)`, of the
vector to `self` in the local frame **of `point`** -/
def geoDistance2D (T : Geo.Trig α) (a b : Geo.V3 α) : α :=
  let q := Geo.geoToEnu T a (.geo b)
  T.sqrt (T.pow q.x 2.0 + T.pow q.y 2.0)

/-- `GeoCoords.distanceTo(point)`: `self.toECEFCoords().distanceTo(point.toECEFCoords())` -/
def geoDistance3D (T : Geo.Trig α) (a b : Geo.V3 α) : α :=
  ecefDistance T (Geo.geoToEcef T a) (Geo.geoToEcef T b)

/-- `_distance(·, ·, dim)` for positions of the class `G.cls`:
`if dim == 1: abs(p1.U - p2.U)` (only `ENUCoords` have a `U`: AttributeError otherwise); `if dim == 2: p1.distance2DTo(p2)`
(`ECEFCoords` have no such method); `if dim == 3: p1.distanceTo(p2)`; `if 'function' in str(type(dim)): dim(p1, p2)`;
any other `dim` falls through (`None`), outside this model -/
def distanceOf (G : Geom α) : DimArg α → Except String (Pt α → Pt α → α)
  | .fn f => .ok f
  | .num d =>
    if d = 1 ∨ d = 2 ∨ d = 3 then
      match G.cls with
      | .enu => .ok (distance G.T.sqrt d)
      | .geo =>
        if d = 1 then .error "err:attr"
        else if d = 2 then .ok (fun p q => geoDistance2D G.T p.v3 q.v3)
        else .ok (fun p q => geoDistance3D G.T p.v3 q.v3)
      | .ecef => if d = 3 then .ok (fun p q => ecefDistance G.T p.v3 q.v3) else .error "err:attr"
    else .error "unmodelled"

end dist

/-! ### `_p2weight`, the front ends `match` / `compare`, and sequences of calls -/

/-- exponent of the Lp accumulation as a value: a natural number `k` (`p == k`) or infinity -/
inductive PNorm
  | nat (k : Nat)
  | inf
  deriving DecidableEq, Repr

@[match_pattern] abbrev PNorm.one : PNorm := .nat 1
@[match_pattern] abbrev PNorm.two : PNorm := .nat 2

/-- matching modes of `match` that the property covers -/
inductive Mode
  | dtw | fdtw | frechet
  deriving DecidableEq, Repr

/-- `'needle' in hay` on character lists -/
def hasSub (needle : List Char) : List Char → Bool
  | [] => needle.isEmpty
  | c :: tl => needle.isPrefixOf (c :: tl) || hasSub needle tl

/-- what `_p2weight` / `_dtw_comparison` look at in the argument `p`: `str(type(p))` (blanks removed), the number `p`
compares equal to (`p == 0`, `p == float('inf')`, the exponent of `B**p`; `none`: not a natural number nor infinity), and,
when `p` is callable, the accumulation it computes (the harness passes `lambda A, B: A + B**k`, `lambda A, B: max(A, B)` or the
builtin `max`) -/
structure PArg where
  tyname : String
  val : Option PNorm
  fnw : Option PNorm := none
  deriving Repr

/-- `'function' in str(type(p))` -/
def PArg.isFn (a : PArg) : Bool := hasSub "function".toList a.tyname.toList
/-- `('int' in str(type(p))) or ('float' in str(type(p)))` -/
def PArg.isNum (a : PArg) : Bool := hasSub "int".toList a.tyname.toList || hasSub "float".toList a.tyname.toList
/-- the default `p=1` of `match` and `compare` -/
def PArg.pyInt1 : PArg := { tyname := "<class'int'>", val := some (.nat 1) }
/-- `float('inf')`, what the FRECHET modes hand to `_dtw_matching` / `_dtw_comparison` -/
def PArg.pyInf : PArg := { tyname := "<class'float'>", val := some .inf }

/-- `isinstance(p, np.floating)`, decided on `str(type(p))` (blanks removed): the names under which numpy prints its floating
scalar types (`half`, `single`, `double` are aliases of the first three; `longdouble` prints as `float128` / `float96` in numpy 1) -/
def isNpFloating (ty : String) : Bool :=
  ["<class'numpy.float16'>", "<class'numpy.float32'>", "<class'numpy.float64'>", "<class'numpy.longdouble'>",
   "<class'numpy.float128'>", "<class'numpy.float96'>"].contains ty

/-- `isinstance(p, np.integer)`, decided on `str(type(p))`: the names of numpy's signed and unsigned integer scalar types (`byte`,
`short`, `int_`, `intp`, … are aliases; `intc`, `long`, `longlong` and their unsigned forms print under their own name when they are
not one of the sized types on the platform) -/
def isNpInteger (ty : String) : Bool :=
  ["<class'numpy.int8'>", "<class'numpy.int16'>", "<class'numpy.int32'>", "<class'numpy.int64'>",
   "<class'numpy.uint8'>", "<class'numpy.uint16'>", "<class'numpy.uint32'>", "<class'numpy.uint64'>",
   "<class'numpy.longlong'>", "<class'numpy.ulonglong'>", "<class'numpy.intc'>", "<class'numpy.uintc'>",
   "<class'numpy.long'>", "<class'numpy.ulong'>"].contains ty

/-- the type name of `_exponent(p)` (1f009f6): `float(p)` for a numpy floating scalar, `int(p)` for a numpy integer scalar, `p`
itself otherwise -/
def exponentTy (ty : String) : String :=
  if isNpFloating ty then "<class'float'>" else if isNpInteger ty then "<class'int'>" else ty

/-- `_exponent(p)`: a numpy scalar becomes the Python number of the same value (`float(p)` / `int(p)` keep the value: `val` is
unchanged); anything else — Python numbers, callables, `numpy.bool`, `Fraction` — is returned as it is -/
def PArg.exponent (p : PArg) : PArg := { p with tyname := exponentTy p.tyname }
/-- `p` is a numpy floating or integer scalar -/
def PArg.isNumpy (p : PArg) : Bool := isNpFloating p.tyname || isNpInteger p.tyname

section front
variable {α : Type} [Add α] [Sub α] [Mul α] [Div α] [Neg α] [LT α] [LE α] [DecidableLT α] [DecidableLE α] [OfNat α 0] [OfNat α 1]
  [OfScientific α]

/-- `B**k` for a natural exponent, by repeated multiplication (`B**1 = B`, `B**2 = B*B`) -/
def npow (b : α) : Nat → α
  | 0 => 1
  | 1 => b
  | k+2 => npow b (k+1) * b

/-- the accumulation `_p2weight(p)` returns for a number `p`: `A + (B != 0)*1` for `p = 0`, `A + B**p` for
`p = 1, 2, 3, …`, `max(A, B)` for `p = inf` -/
def weight : PNorm → α → α → α
  | .nat 0, a, b => a + (if b < 0 ∨ 0 < b then 1 else 0)
  | .nat (k+1), a, b => a + npow b (k+1)
  | .inf, a, b => pmax a b

/-- `_p2weight(p)`: a cascade of four independent `if`s, each of which may (re)bind `weight`:
`'function' in str(type(p))` → `p` itself; `'int'` or `'float'` in the type name → `A + B**p` (for `p = 0` and `p = inf`
this binding is replaced by the next two tests, so the value written here for them is immaterial); `p == 0`; `p == float('inf')`.
When no test fires, `return weight` raises UnboundLocalError (`np.longdouble(2)`, `np.longlong(2)`, `True`, …). -/
def p2weight (p : PArg) : Except String (α → α → α) :=
  let w : Option (Except String (α → α → α)) := none
  let w := if p.isFn then some (match p.fnw with | some v => .ok (weight v) | none => .error "err:type") else w
  let w := if p.isNum then some (match p.val with | some v => .ok (weight v) | none => .error "unmodelled") else w
  let w := if p.val = some (.nat 0) then some (.ok (weight (.nat 0))) else w
  let w := if p.val = some .inf then some (.ok (weight .inf)) else w
  match w with
  | some r => r
  | none => .error "err:UnboundLocalError"

/-- a track as `match` sees it: the positions and the rows of the features `diff`, `pair`, `ex`, `ey` it carries -/
structure TrackObj (α : Type) where
  pts : List (Pt α)
  rows : List (Row α)

/-- a track that never went through `match` -/
def TrackObj.fresh (pts : List (Pt α)) : TrackObj α := { pts := pts, rows := freshRows pts }

/-- `_dtw_matching` / `_fdtw_matching`: `_dtw(track1, track2, _p2weight(p), dim)`. The argument `_p2weight(p)` is evaluated
first (UnboundLocalError); `output.createAnalyticalFeature("diff")` refuses a track without observations
(AnalyticalFeatureError); an empty `track2` ends in an IndexError (`T[0,0]` of an array without rows in `_dtw`,
`track2.getObs(0)` in `_fdtw`) before any distance is computed; otherwise the first call of `_distance` raises what
`distanceOf` says for this class of positions and this `dim`. -/
def warpOn (G : Geom α) (big : α) (fast : Bool) (p : PArg) (dim : DimArg α) (a : TrackObj α) (t2 : List (Pt α)) :
    Except String (Out α) := do
  let w ← p2weight p
  if a.pts.isEmpty then .error "err:AnalyticalFeatureError" else
  if t2.isEmpty then .error "err:index" else
  match distanceOf G dim with
  | .error e => .error e
  | .ok dist =>
    match (if fast then fdtwOn dist big w a.rows a.pts t2 else dtwOn dist w a.rows a.pts t2) with
    | some o => .ok o
    | none => .error "err:index"

/-- the rest of `match(track1, track2, mode, p, dim)` after its first line `p = _exponent(p)`: the dispatch on `mode`, the integer
constant as passed (`MODE_MATCHING_NN = 1` is another algorithm, outside this model). Before 1f009f6 this was the whole of `match`
(`matchCallOld`). -/
def matchBody (G : Geom α) (big : α) (mode : Nat) (p : PArg) (dim : DimArg α) (a : TrackObj α) (t2 : List (Pt α)) :
    Except String (Out α) :=
  if mode = 1 then .error "unmodelled"
  else if mode = 4 then warpOn G big false PArg.pyInf dim a t2
  else if mode = 2 then warpOn G big false p dim a t2
  else if mode = 3 then warpOn G big true p dim a t2
  else .error "err:UnknownModeError"

/-- `match(track1, track2, mode, p, dim)`: `p = _exponent(p)`, then the dispatch on `mode` -/
def matchCall (G : Geom α) (big : α) (mode : Nat) (p : PArg) (dim : DimArg α) (a : TrackObj α) (t2 : List (Pt α)) :
    Except String (Out α) :=
  matchBody G big mode p.exponent dim a t2

/-- `match` **as it was before 1f009f6** (no `_exponent`: a numpy scalar `p` reached `_p2weight` as it came). Kept only as the
documented pre-fix variant; nothing is run or compared with it. -/
def matchCallOld (G : Geom α) (big : α) (mode : Nat) (p : PArg) (dim : DimArg α) (a : TrackObj α) (t2 : List (Pt α)) :
    Except String (Out α) :=
  matchBody G big mode p dim a t2

/-- `_dtw_comparison` (`fast = false`) / `_fdtw_comparison` (`fast = true`): the score for `p = 0`, `p = inf` and (DTW
only) a callable `p`; `(score/nb_links)**(1.0/p)` otherwise — `1.0/p` is a TypeError for a callable `p` in the fast variant.
`root k x` stands for `x**(1.0/k)`. -/
def warpCompare (G : Geom α) (root : Nat → α → α) (ofNat : Nat → α) (big : α) (fast : Bool) (p : PArg) (dim : DimArg α)
    (a : TrackObj α) (t2 : List (Pt α)) : Except String α := do
  let m ← warpOn G big fast p dim a t2
  if p.val = some (.nat 0) ∨ p.val = some .inf ∨ (fast = false ∧ p.isFn = true) then pure m.score
  else match p.val with
    | some (.nat k) => pure (root k (m.score / ofNat m.nbLinks))
    | _ => .error (if p.isFn then "err:type" else "unmodelled")

/-- the rest of `compare(track1, track2, mode, p, dim)` after its first line `p = _exponent(p)`, in the modes DTW (106), FDTW (107)
and FRECHET (108); the other six modes (101–105, 109) are other algorithms, outside this model -/
def compareBody (G : Geom α) (root : Nat → α → α) (ofNat : Nat → α) (big : α) (mode : Nat) (p : PArg) (dim : DimArg α)
    (a : TrackObj α) (t2 : List (Pt α)) : Except String α :=
  if mode = 101 ∨ mode = 109 ∨ mode = 102 ∨ mode = 103 ∨ mode = 104 ∨ mode = 105 then .error "unmodelled"
  else if mode = 108 then warpCompare G root ofNat big false PArg.pyInf dim a t2
  else if mode = 106 then warpCompare G root ofNat big false p dim a t2
  else if mode = 107 then warpCompare G root ofNat big true p dim a t2
  else .error "err:UnknownModeError"

/-- `compare(track1, track2, mode, p, dim)`: `p = _exponent(p)`, then the dispatch on `mode` -/
def compareCall (G : Geom α) (root : Nat → α → α) (ofNat : Nat → α) (big : α) (mode : Nat) (p : PArg) (dim : DimArg α)
    (a : TrackObj α) (t2 : List (Pt α)) : Except String α :=
  compareBody G root ofNat big mode p.exponent dim a t2

/-- integer constant of a matching mode -/
def Mode.code : Mode → Nat
  | .dtw => 2 | .fdtw => 3 | .frechet => 4
/-- integer constant of the corresponding comparison mode -/
def Mode.cmpCode : Mode → Nat
  | .dtw => 106 | .fdtw => 107 | .frechet => 108

/-- a Python `int` with the value of `p` -/
def PArg.ofNorm (p : PNorm) : PArg :=
  { tyname := match p with | .inf => "<class'float'>" | .nat _ => "<class'int'>", val := some p }

/-- `match(track1, track2, mode, p, dim)` on two tracks without earlier features, `p` a Python number -/
def matchTracks (G : Geom α) (big : α) (mode : Mode) (p : PNorm) (dim : DimArg α) (t1 t2 : List (Pt α)) : Except String (Out α) :=
  matchCall G big mode.code (PArg.ofNorm p) dim (TrackObj.fresh t1) t2

/-- `compare(track1, track2, mode, p, dim)` on two tracks without earlier features, `p` a Python number -/
def compareTracks (G : Geom α) (root : Nat → α → α) (ofNat : Nat → α) (big : α) (mode : Mode) (p : PNorm) (dim : DimArg α)
    (t1 t2 : List (Pt α)) : Except String α :=
  compareCall G root ofNat big mode.cmpCode (PArg.ofNorm p) dim (TrackObj.fresh t1) t2

/-- one call of a session: `match` (`front = true`) or `compare`, on the objects number `a` and `b` of the session -/
structure Step (α : Type) where
  front : Bool
  mode : Nat
  p : PArg
  dim : DimArg α
  a : Nat
  b : Nat

/-- what a call returns -/
inductive Res (α : Type)
  | matched (o : Out α)
  | value (v : α)
  | err (e : String)

/-- a session: the objects are the tracks given at the start, then, in order, what each call returned (the track that
`match` returns has the positions of its first argument and the feature rows just written; `compare` returns a number and
a failed call nothing: `none`). A later call may take any earlier object as first or second argument. -/
def runSeq (G : Geom α) (root : Nat → α → α) (ofNat : Nat → α) (big : α) :
    List (Option (TrackObj α)) → List (Step α) → List (Res α)
  | _, [] => []
  | env, st :: rest =>
    match (env[st.a]?).join, (env[st.b]?).join with
    | some a, some b =>
      if st.front then
        match matchCall G big st.mode st.p st.dim a b.pts with
        | .ok o => .matched o :: runSeq G root ofNat big (env ++ [some { pts := a.pts, rows := o.rows }]) rest
        | .error e => .err e :: runSeq G root ofNat big (env ++ [none]) rest
      else
        (match compareCall G root ofNat big st.mode st.p st.dim a b.pts with
          | .ok v => .value v
          | .error e => .err e) :: runSeq G root ofNat big (env ++ [none]) rest
    | _, _ => .err "bad-ref" :: runSeq G root ofNat big (env ++ [none]) rest

end front
end TV.DTW
