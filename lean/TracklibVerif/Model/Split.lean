/-! Model of `split(track, source, limit)` and `segmentation()` (algo/segmentation.py), of `Track.extract` /
`Track.length` (core/track.py) as far as `split` uses them, and of the `TrackCollection` entry points
`segmentation` / `split_segmentation` (core/track_collection.py).

Observations are abstract (`β`): `split` never looks at an observation except through the marker feature and,
when `limit > 0`, through the length of the extracted piece — so every statement about `split` holds whatever the
coordinates are (NaN, infinite, repeated positions), whatever the timestamps and the other features are. -/
namespace TV.Split
variable {β : Type}

/-! ## `split(track, <feature name>)` with the default `limit = 0` -/

/-- loop state: pieces emitted so far (in order), current piece (from `begin`), and whether `begin != 0` -/
def go : List (β × Bool) → List β → List (List β) → Bool → List (List β) × List β × Bool
  | [], cur, acc, started => (acc, cur, started)
  | (o, m) :: rest, cur, acc, started =>
    if m then go rest [] (acc ++ [cur ++ [o]]) true
    else go rest (cur ++ [o]) acc started

/-- the TrackCollection returned: emitted pieces, plus the tail when at least one marker was seen -/
def split (obs : List (β × Bool)) : List (List β) :=
  let (acc, cur, started) := go obs [] [] false
  if started then acc ++ [cur] else acc

/-! ## `split(track, <feature name>, limit)`

The two filters of the code are kept as two separate tests, because they are not the negation of each other:
`short p`    = `limit > 0 and newtrack.length() < limit`   (in the loop: `continue`, the piece is not added),
`keepTail p` = `limit == 0 or (limit > 0 and newtrack.length() >= limit)`   (closing piece: added only when true).
`begin = i + 1` is executed before the test, so a skipped piece still moves `begin` (and makes `begin != 0`). -/

def goL (short : List β → Bool) : List (β × Bool) → List β → List (List β) → Bool → List (List β) × List β × Bool
  | [], cur, acc, started => (acc, cur, started)
  | (o, m) :: rest, cur, acc, started =>
    if m then
      if short (cur ++ [o]) then goL short rest [] acc true
      else goL short rest [] (acc ++ [cur ++ [o]]) true
    else goL short rest (cur ++ [o]) acc started

def splitL (short keepTail : List β → Bool) (obs : List (β × Bool)) : List (List β) :=
  let (acc, cur, started) := goL short obs [] [] false
  if started then (if keepTail cur then acc ++ [cur] else acc) else acc

/-! ### the same loop with the numbers that go into the pieces' uids

`new_id = str(track.uid) + "." + str(count) + "." + str(begin) + "." + str(i)` (closing piece: `… + str(track.size()-1)`);
`count` is incremented only for a piece that is added. `findStopsLocal` reads the last two fields back as the indices
of the first and last observation of the piece. Here the loop is written with `i`, `begin`, `count` as in the code,
and the closing test is the code's `begin != 0`. -/

/-- (`count`, `begin`, `i`) of a piece -/
abbrev PId := Nat × Nat × Nat

def goU (short : List β → Bool) :
    List (β × Bool) → Nat → Nat → Nat → List β → List (PId × List β) → List (PId × List β) × List β × Nat × Nat
  | [], _, begin, count, cur, acc => (acc, cur, begin, count)
  | (o, m) :: rest, i, begin, count, cur, acc =>
    if m then
      if short (cur ++ [o]) then goU short rest (i + 1) (i + 1) count [] acc
      else goU short rest (i + 1) (i + 1) (count + 1) [] (acc ++ [((count, begin, i), cur ++ [o])])
    else goU short rest (i + 1) begin count (cur ++ [o]) acc

def splitU (short keepTail : List β → Bool) (obs : List (β × Bool)) : List (PId × List β) :=
  let (acc, cur, begin, count) := goU short obs 0 0 0 [] []
  if begin ≠ 0 then (if keepTail cur then acc ++ [((count, begin, obs.length - 1), cur)] else acc) else acc

section limit
variable {α : Type} [LT α] [LE α] [DecidableLT α] [DecidableLE α] [BEq α] [OfNat α 0]

/-- `limit > 0 and length < limit` (Python's `limit > 0` is `0 < limit`; with a NaN length the test is False) -/
def limitShort (limit len : α) : Bool := decide ((0 : α) < limit) && decide (len < limit)

/-- `limit == 0 or (limit > 0 and length >= limit)` (with a NaN length and `limit > 0` the test is False) -/
def limitKeepTail (limit len : α) : Bool := limit == 0 || (decide ((0 : α) < limit) && decide (limit ≤ len))

/-- `split(track, name, limit)`, `length` standing for `Track.length` of the extracted piece -/
def splitLimit (length : List β → α) (limit : α) (obs : List (β × Bool)) : List (List β) :=
  splitL (fun p => limitShort limit (length p)) (fun p => limitKeepTail limit (length p)) obs
end limit

/-! ## `Track.length()`: `s = 0; for i in 1..size-1: s += obs[i-1].distanceTo(obs[i])`,
`distanceTo` = `(point - self).norm()` = `sqrt(dE**2 + dN**2 + dU**2)` (core/obs_coords.py).
Python's `x ** 2` is `pow(x, 2.0)`; it equals `x * x` whenever `x * x` is exactly representable or overflows,
which is the case on the dyadic lattice (plus NaN, ±inf, huge values) the harness generates. -/
section length
variable {α : Type} [Add α] [Sub α] [Mul α]

def dist3 (sqrt : α → α) (self point : α × α × α) : α :=
  let dE := point.1 - self.1
  let dN := point.2.1 - self.2.1
  let dU := point.2.2 - self.2.2
  sqrt (dE * dE + dN * dN + dU * dU)

def lengthFrom (sqrt : α → α) : α → List (α × α × α) → α
  | s, a :: b :: rest => lengthFrom sqrt (s + dist3 sqrt a b) (b :: rest)
  | s, _ => s

def trackLength [OfNat α 0] (sqrt : α → α) (pts : List (α × α × α)) : α := lengthFrom sqrt 0 pts
end length

/-! ## `Track.extract(id_ini, id_fin)` and `split(track, <list of indices>, limit)`

`extract`: `for k in range(id_ini, id_fin + 1): track.addObs(self.__POINTS[k])` — Python list indexing, so a
negative `k` counts from the end and `k >= size` / `k < -size` raises `IndexError` (`none`); `id_ini > id_fin`
gives an empty track. -/

/-- `l[k]` of a Python list -/
def pyIndex (l : List β) (k : Int) : Option β :=
  if 0 ≤ k then l[k.toNat]?
  else if 0 ≤ (l.length : Int) + k then l[((l.length : Int) + k).toNat]?
  else none

/-- `range(a, b)` -/
def pyRange (a b : Int) : List Int := (List.range (b - a).toNat).map (fun (i : Nat) => a + (i : Int))

def extract (l : List β) (a b : Int) : Option (List β) := (pyRange a (b + 1)).mapM (pyIndex l)

/-- `for i in range(len(source) - 1): newtrack = track.extract(source[i], source[i+1]); if short: continue; add`.
`none` = `IndexError` (the first one aborts the call). Consecutive pieces share their boundary observation. -/
def splitIdx (short : List β → Bool) (l : List β) : List Int → Option (List (List β))
  | a :: b :: rest =>
    match extract l a b with
    | none => none
    | some p =>
      match splitIdx short l (b :: rest) with
      | none => none
      | some ps => some (if short p then ps else p :: ps)
  | _ => some []

/-! ## `TrackCollection.split_segmentation(af)`: the pieces of every track, in the order of the tracks
(a track without any marked observation contributes nothing). -/
def splitColl (tracks : List (List (β × Bool))) : List (List β) := tracks.flatMap split
end TV.Split

namespace TV.Split
/-! ## `segmentation()`

Per observation, fold of `value ≤ threshold` over the tested features in the order of `afs_input` (`index` =
position of the feature), starting from `true` in AND mode and `false` in OR mode; a NaN value (`none`) is skipped
before the threshold is even looked up; the marker is the negation of the fold.

Scalars: any type `α` with a decidable `≤` (the driver runs `Ext` = rationals plus ±∞, on which the comparison of
two doubles is exact; the theorems are for any `α` where `¬ a ≤ b ↔ b < a`). `fmax` stands for `sys.float_info.max`.
Tested values that are not numbers (the `ObsTime` objects of the built-in feature `timestamp`), for which `isnan` and
`<=` are calls of the operators of their class: `Model/SplitVal.lean`, of which this is the numeric special case
(`TV.C11.segmentation_total`). -/
variable {α : Type} [LE α] [DecidableLE α]

/-- `seuil_max = sys.float_info.max; if len(thresholds_max) >= index: seuil_max = thresholds_max[index]`.
`none` = the `IndexError` raised when `index == len(thresholds_max)` (the guard is `>=`, not `>`); the default
`fmax` is only reachable for `index > len`. -/
def threshold (fmax : α) (ths : List α) (index : Nat) : Option α :=
  if ths.length ≥ index then ths[index]? else some fmax

/-- the inner `for index, af_input in enumerate(afs_input)` loop; `none` = `IndexError` -/
def foldCmp (fmax : α) (andMode : Bool) (ths : List α) : Nat → List (Option α) → Bool → Option Bool
  | _, [], acc => some acc
  | index, none :: vs, acc => foldCmp fmax andMode ths (index + 1) vs acc
  | index, some v :: vs, acc =>
    match threshold fmax ths index with
    | none => none
    | some th =>
      let c := decide (v ≤ th)
      foldCmp fmax andMode ths (index + 1) vs (if andMode then acc && c else acc || c)

/-- marker of one observation (`true` = 1, `false` = 0); `none` = the call raised `IndexError` -/
def marker (fmax : α) (andMode : Bool) (ths : List α) (vals : List (Option α)) : Option Bool :=
  (foldCmp fmax andMode ths 0 vals andMode).map (!·)

/-- the outer loop over the observations: the first `IndexError` aborts the call -/
def markers (fmax : α) (andMode : Bool) (ths : List α) : List (List (Option α)) → Option (List Bool)
  | [] => some []
  | r :: rs =>
    match marker fmax andMode ths r with
    | none => none
    | some b => (markers fmax andMode ths rs).map (b :: ·)

/-! ### the front end: argument forms, the feature table, the output feature -/

/-- an argument given as one value or as a list: `if not isinstance(x, list): x = [x]` -/
inductive Arg (γ : Type) where
  | one (a : γ)
  | many (l : List γ)

def Arg.listify {γ : Type} : Arg γ → List γ
  | .one a => [a]
  | .many l => l

/-- a feature column, one value per observation; `none` = NaN -/
abbrev Col (α : Type) := List (Option α)

/-- what `segmentation()` can read of a track: its size, the built-in features `x y z t timestamp idx` (computed by
`getObsAnalyticalFeature` from the observation itself: `virt`; `FTrack.ofObs` of `Model/SplitVal.lean` builds the
last three from the timestamps) and the analytical-feature table in insertion order -/
structure FTrack (α : Type) where
  size : Nat
  virt : List (String × Col α)
  feats : List (String × Col α)

/-- names refused by `Track.__controlName` -/
def reserved : List String := ["x", "y", "z", "t", "timestamp", "idx"]

def FTrack.has (t : FTrack α) (name : String) : Bool := t.feats.any (fun p => p.1 == name)

/-- `getObsAnalyticalFeature(name, ·)`: virtual names first, then the table; `none` = `AnalyticalFeatureError` -/
def FTrack.get (t : FTrack α) (name : String) : Option (Col α) :=
  match t.virt.lookup name with
  | some c => some c
  | none => t.feats.lookup name

/-- overwrite the column of an existing feature (its place in the table is kept) -/
def FTrack.setCol (t : FTrack α) (name : String) (col : Col α) : FTrack α :=
  { t with feats := t.feats.map (fun p => if p.1 == name then (p.1, col) else p) }

/-- `createAnalyticalFeature(name)` with the default `val_init = 0.0`: nothing happens when the feature exists -/
def FTrack.create [OfNat α 0] (t : FTrack α) (name : String) : FTrack α :=
  if t.has name then t else { t with feats := t.feats ++ [(name, List.replicate t.size (some 0))] }

/-- the tested values of every observation, in the order of `afs_input`; `none` = an unknown feature name -/
def FTrack.rows (t : FTrack α) (afs : List String) : Option (List (List (Option α))) :=
  match afs.mapM t.get with
  | none => none
  | some cols => some ((List.range t.size).map (fun i => cols.map (fun c => (c[i]?).getD none)))

/-- `segmentation(track, afs_input, af_output, thresholds_max, mode)`. Errors: `"af"` =
`AnalyticalFeatureError` (reserved output name, empty track, unknown tested feature), `"index"` = `IndexError`.
Observation `i` reads the tested features at `i` before the marker is written at `i`, and no other index is
touched at step `i`: reading every row from the track as it is after `createAnalyticalFeature` is the same thing,
also when the output feature is one of the tested ones. The marker is written as the integers 1 / 0. -/
def segTrack [OfNat α 0] [OfNat α 1] (fmax : α) (andMode : Bool) (t : FTrack α) (afs : Arg String) (out : String)
    (ths : Arg α) : Except String (FTrack α) :=
  if reserved.contains out then .error "af"
  else if t.size = 0 then .error "af"
  else
    let t1 := t.create out
    match t1.rows afs.listify with
    | none => .error "af"
    | some rows =>
      match markers fmax andMode ths.listify rows with
      | none => .error "index"
      | some bs => .ok (t1.setCol out (bs.map (fun b => some (if b then 1 else 0))))

/-- `TrackCollection.segmentation`: every track in turn, the first error aborts -/
def segColl [OfNat α 0] [OfNat α 1] (fmax : α) (andMode : Bool) (ts : List (FTrack α)) (afs : Arg String)
    (out : String) (ths : Arg α) : Except String (List (FTrack α)) :=
  ts.mapM (fun t => segTrack fmax andMode t afs out ths)
end TV.Split

namespace TV.Split
/-! ## rationals with the two infinities: the finite and infinite doubles, compared exactly -/
inductive Ext where
  | ninf
  | fin (r : Rat)
  | pinf
  deriving DecidableEq

def Ext.le : Ext → Ext → Bool
  | .ninf, _ => true
  | _, .pinf => true
  | .fin x, .fin y => decide (x ≤ y)
  | _, _ => false

def Ext.lt : Ext → Ext → Bool
  | .pinf, _ => false
  | _, .ninf => false
  | .fin x, .fin y => decide (x < y)
  | _, _ => true

instance : LE Ext := ⟨fun a b => Ext.le a b = true⟩
instance : LT Ext := ⟨fun a b => Ext.lt a b = true⟩
instance : DecidableLE Ext := fun a b => inferInstanceAs (Decidable (Ext.le a b = true))
instance : DecidableLT Ext := fun a b => inferInstanceAs (Decidable (Ext.lt a b = true))
instance : OfNat Ext 0 := ⟨.fin 0⟩
instance : OfNat Ext 1 := ⟨.fin 1⟩

/-- `sys.float_info.max` = (2 - 2^-52) * 2^1023 -/
def Ext.fmax : Ext := .fin ((2 ^ 1024 - 2 ^ 971 : Nat) : Rat)
end TV.Split
