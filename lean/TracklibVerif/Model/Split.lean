/-! Model of `split(track, af_name)` (algo/segmentation.py): observations are abstract, markers a Bool list. -/
namespace TV.Split
variable {β : Type}

/-- loop state: pieces emitted so far (in order), current piece (from `begin`), and whether `begin != 0` -/
def go : List (β × Bool) → List β → List (List β) → Bool → List (List β) × List β × Bool
  | [], cur, acc, started => (acc, cur, started)
  | (o, m) :: rest, cur, acc, started =>
    if m then go rest [] (acc ++ [cur ++ [o]]) true
    else go rest (cur ++ [o]) acc started

/-- the TrackCollection returned: emitted pieces, plus the tail when at least one marker was seen -/
def split (obs : List (β × Bool)) : List (List β) :=
  let (acc, cur, started) := go obs [] [] false
  if started then acc ++ [cur] else acc
end TV.Split

namespace TV.Split
/-- `segmentation()`: per observation, fold of `value ≤ threshold` over the tested features (NaN =
`none` is skipped), starting from `true` in AND mode and `false` in OR mode; the marker is the
negation of the fold. `vals` and `ths` are position-aligned (the code reads `thresholds_max[index]`). -/
def foldCmp (andMode : Bool) : List Rat → List (Option Rat) → Bool → Bool
  | th :: ths, some v :: vs, acc =>
    foldCmp andMode ths vs (if andMode then acc && decide (v ≤ th) else acc || decide (v ≤ th))
  | _ :: ths, none :: vs, acc => foldCmp andMode ths vs acc
  | _, _, acc => acc

def marker (andMode : Bool) (ths : List Rat) (vals : List (Option Rat)) : Bool :=
  !(foldCmp andMode ths vals andMode)
end TV.Split
