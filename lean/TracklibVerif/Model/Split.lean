/-! Model of `split(track, af_name)` (algo/segmentation.py): observations are abstract, markers a Bool list. -/
namespace TV.Split
variable {β : Type}

/-- loop state: pieces emitted so far (in order), current piece (from `begin`), and whether `begin != 0` -/
def go : List (β × Bool) → List β → List (List β) → Bool → List (List β) × List β × Bool
  | [], cur, acc, started => (acc, cur, started)
  | (o, m) :: rest, cur, acc, started =>
    if m then go rest [] (acc ++ [cur ++ [o]]) true
    else go rest (cur ++ [o]) acc started

/-- the TrackCollection returned: emitted pieces, plus the tail when at least one marker was seen -/
def split (obs : List (β × Bool)) : List (List β) :=
  let (acc, cur, started) := go obs [] [] false
  if started then acc ++ [cur] else acc
end TV.Split

namespace TV.Split
/-! `segmentation()`: per observation, fold of `value ≤ threshold` over the tested features in the
order of `afs_input` (`index` = position of the feature), starting from `true` in AND mode and
`false` in OR mode; a NaN value (`none`) is skipped before the threshold is even looked up; the
marker is the negation of the fold. -/

/-- `seuil_max = sys.float_info.max; if len(thresholds_max) >= index: seuil_max = thresholds_max[index]`.
`none` = the `IndexError` raised when `index == len(thresholds_max)` (the guard is `>=`, not `>`);
`some none` = the default `sys.float_info.max` (only reachable for `index > len`), below which every
finite value lies; `some (some th)` = the listed threshold. -/
def threshold (ths : List Rat) (index : Nat) : Option (Option Rat) :=
  if ths.length ≥ index then
    match ths[index]? with
    | some th => some (some th)
    | none => none
  else some none

/-- the inner `for index, af_input in enumerate(afs_input)` loop; `none` = `IndexError` -/
def foldCmp (andMode : Bool) (ths : List Rat) : Nat → List (Option Rat) → Bool → Option Bool
  | _, [], acc => some acc
  | index, none :: vs, acc => foldCmp andMode ths (index + 1) vs acc
  | index, some v :: vs, acc =>
    match threshold ths index with
    | none => none
    | some t =>
      let c := match t with
        | some th => decide (v ≤ th)
        | none => true
      foldCmp andMode ths (index + 1) vs (if andMode then acc && c else acc || c)

/-- marker of one observation (`true` = 1, `false` = 0); `none` = the call raised `IndexError` -/
def marker (andMode : Bool) (ths : List Rat) (vals : List (Option Rat)) : Option Bool :=
  (foldCmp andMode ths 0 vals andMode).map (!·)

/-- the outer loop over the observations: the first `IndexError` aborts the call -/
def markers (andMode : Bool) (ths : List Rat) : List (List (Option Rat)) → Option (List Bool)
  | [] => some []
  | r :: rs =>
    match marker andMode ths r with
    | none => none
    | some b => (markers andMode ths rs).map (b :: ·)
end TV.Split
