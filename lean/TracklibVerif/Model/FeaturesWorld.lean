import TracklibVerif.Model.Features
/-! Model of the analytical-feature table of `Track` on a HEAP of `Obs` objects (tracklib/core/track.py, obs.py).

`Model/Features.lean` describes one track as one table (`St`: the dict and one `features` list per position). In Python
a track holds *references* to `Obs` objects, and several tracks — or several positions of one track — may refer to the
same object: `extract`, slices and `+` hand over the objects themselves, `Track.copy()`, `extractSpanTime`,
`loop(add=True)` and the idiom `t.addObs(o.copy())` hand over copies (`Obs.copy()` = `copy.deepcopy`). This file models
that: `Wd` is the heap together with the track an API call is addressed to (its list of object references and its
`__analyticalFeaturesDico`), the nine primitives of the Track API are written as Python writes them — *one statement per
position, in track order, on the object found there* (`forObs`), so an object referenced twice is visited twice —, and
`Tbl (Wd V) V` makes every program of `Model/Features.lean` (operators, bracket assignment, the evaluator with its purge,
the helpers) run on the heap unchanged. `Sys` is a heap with several tracks; `derive` models the functions that make a
track from another one.

`view w` is the table the track in focus shows (`St`). `Lemmas/FeaturesWorld*.lean` prove that, as long as the objects of
the track are pairwise distinct, every API call does on the heap exactly what it does on `view w`, touches no object
outside the track, and that the copying derivations keep the objects distinct (and disjoint from every other track).

Core Lean only. -/
namespace TV.Features
variable {V : Type}

/-- an `Obs` object: `position` (x, y, z), `timestamp` (as epoch seconds: it is only read) and the `features` list -/
structure HObs (V : Type) where
  x : V
  y : V
  z : V
  t : V
  feats : List V
  deriving Repr

def HObs.coord (ob : HObs V) : Coord → V
  | .x => ob.x | .y => ob.y | .z => ob.z | .t => ob.t

/-- `position.setX / setY / setZ` (the timestamp is never written on these paths) -/
def HObs.setCoord (ob : HObs V) (c : Coord) (v : V) : HObs V :=
  match c with
  | .x => { ob with x := v } | .y => { ob with y := v } | .z => { ob with z := v } | .t => ob

/-- the heap of `Obs` objects (an object is named by its position in `heap`) and the `Track` object an API call is
addressed to: `ids` = `__POINTS` (references), `dico` = `__analyticalFeaturesDico` -/
structure Wd (V : Type) where
  heap : List (HObs V)
  ids : List Nat
  dico : List (String × Nat)

def hasW (w : Wd V) (name : String) : Bool := (find w.dico name).isSome || reserved name

/-- `for i in range(self.size()): <statement on self.getObs(i)>`: the positions are visited in order and the statement
acts on the object found there (an object referenced at two positions is visited twice). `f i ob` is the object after
the statement, or the exception the statement raises: then the loop stops and what was done so far stays. -/
def forObs (f : Nat → HObs V → Except Err (HObs V)) : Nat → List Nat → List (HObs V) → Except Err Unit × List (HObs V)
  | _, [], h => (.ok (), h)
  | i, id :: ids, h =>
    match h[id]? with
    | none => (.error .unsupported, h)      -- a reference to no object (cannot happen in Python)
    | some ob =>
      match f i ob with
      | .error e => (.error e, h)
      | .ok ob' => forObs f (i + 1) ids (h.set id ob')

/-- `features.append(v)` -/
def pushFeat (v : V) (ob : HObs V) : HObs V := { ob with feats := ob.feats ++ [v] }

/-- `features[idx] = v` (IndexError when there is no such slot) -/
def setFeat (idx : Nat) (v : V) (ob : HObs V) : Except Err (HObs V) :=
  if idx < ob.feats.length then .ok { ob with feats := ob.feats.set idx v } else .error .index

/-- `del features[idx]` (IndexError when there is no such slot) -/
def delFeat (idx : Nat) (ob : HObs V) : Except Err (HObs V) :=
  if idx < ob.feats.length then .ok { ob with feats := ob.feats.eraseIdx idx } else .error .index

/-- `features.append(val_init[i])` (IndexError when the list has no element `i`) -/
def pushNth (l : List V) (i : Nat) (ob : HObs V) : Except Err (HObs V) :=
  match l[i]? with
  | some v => .ok (pushFeat v ob)
  | none => .error .index

/-- `features[idx] = new_val[i]` (IndexError when the list has no element `i` or there is no such slot) -/
def setNth (idx : Nat) (l : List V) (i : Nat) (ob : HObs V) : Except Err (HObs V) :=
  match l[i]? with
  | some v => setFeat idx v ob
  | none => .error .index

/-- createAnalyticalFeature(name, val_init) -/
def createW (name : String) (init : Init V) : M (Wd V) Unit := fun w =>
  if reserved name then (.error .reserved, w)
  else if w.ids.isEmpty then (.error .empty, w)
  else if hasW w name then (.ok (), w)
  else
    let dico' := w.dico ++ [(name, w.dico.length)]
    match init with
    | .scalar v =>
      let r := forObs (fun _ ob => .ok (pushFeat v ob)) 0 w.ids w.heap
      (r.1, { w with dico := dico', heap := r.2 })
    | .list l =>
      if l.length < w.ids.length then (.error .index, w)      -- fix 2976f2b: refused before the name is registered
      else
        let r := forObs (pushNth l) 0 w.ids w.heap
        (r.1, { w with dico := dico', heap := r.2 })

/-- updateAnalyticalFeature(name, new_val) -/
def updateW (name : String) (init : Init V) : M (Wd V) Unit := fun w =>
  if !hasW w name then (.error .unknown, w)
  else if w.ids.isEmpty then (.error .empty, w)
  else match find w.dico name with
    | none => (.error .key, w)
    | some idx =>
      let r := match init with
        | .scalar v => forObs (fun _ ob => setFeat idx v ob) 0 w.ids w.heap
        | .list l => forObs (setNth idx l) 0 w.ids w.heap
      (r.1, { w with heap := r.2 })

/-- removeAnalyticalFeature(name): `del features[idAF]` at every position, THEN the dict is updated (an exception in the
loop leaves the dict as it was) -/
def removeW (name : String) : M (Wd V) Unit := fun w =>
  if !hasW w name then (.error .unknown, w)
  else match find w.dico name with
    | none => (.error .key, w)
    | some idx =>
      let r := forObs (fun _ ob => delFeat idx ob) 0 w.ids w.heap
      match r.1 with
      | .error e => (.error e, { w with heap := r.2 })
      | .ok _ =>
        (.ok (), { w with
          dico := (w.dico.filter (fun p => !(p.1 == name))).map (fun p => (p.1, if p.2 > idx then p.2 - 1 else p.2)),
          heap := r.2 })

/-- getAnalyticalFeature(name) -/
def getW (o : Ops V) (name : String) : M (Wd V) (List V) := fun w =>
  match coord? name with
  | some c =>
    match w.ids.mapM (fun id => (w.heap[id]?).map (·.coord c)) with
    | some l => (.ok l, w)
    | none => (.error .unsupported, w)
  | none =>
    if name == "timestamp" then (.error .unsupported, w)
    else if name == "idx" then (.ok ((List.range w.ids.length).map o.ofNat), w)
    else match find w.dico name with
      | none => (.error .unknown, w)
      | some idx =>
        match w.ids.mapM (fun id => (w.heap[id]?).bind (·.feats[idx]?)) with
        | some col => (.ok col, w)
        | none => (.error .index, w)

/-- getObsAnalyticalFeature(name, i) -/
def getObsW (o : Ops V) (name : String) (i : Nat) : M (Wd V) V := fun w =>
  match coord? name with
  | some c =>
    match (w.ids[i]?).bind (w.heap[·]?) with
    | some ob => (.ok (ob.coord c), w)
    | none => (.error .index, w)
  | none =>
    if name == "timestamp" then (.error .unsupported, w)
    else if name == "idx" then (.ok (o.ofNat i), w)
    else match find w.dico name with
      | none => (.error .unknown, w)
      | some idx =>
        match (w.ids[i]?).bind (w.heap[·]?) with
        | none => (.error .index, w)
        | some ob =>
          match ob.feats[idx]? with
          | some v => (.ok v, w)
          | none => (.error .index, w)

/-- setObsAnalyticalFeature(name, i, val) -/
def setObsW (name : String) (i : Nat) (v : V) : M (Wd V) Unit := fun w =>
  if name == "x" || name == "y" || name == "z" then
    match coord? name with
    | some c =>
      match w.ids[i]? with
      | none => (.error .index, w)
      | some id =>
        match w.heap[id]? with
        | none => (.error .index, w)
        | some ob => (.ok (), { w with heap := w.heap.set id (ob.setCoord c v) })
    | none => (.error .unsupported, w)
  else match find w.dico name with
    | none => (.error .unknown, w)      -- also for t, timestamp, idx
    | some idx =>
      match w.ids[i]? with
      | none => (.error .index, w)
      | some id =>
        match w.heap[id]? with
        | none => (.error .index, w)
        | some ob =>
          match setFeat idx v ob with
          | .ok ob' => (.ok (), { w with heap := w.heap.set id ob' })
          | .error e => (.error e, w)

instance tblWd : Tbl (Wd V) V where
  size := fun w => (.ok w.ids.length, w)
  has := fun n w => (.ok (hasW w n), w)
  names := fun w => (.ok (w.dico.map Prod.fst), w)
  get := getW
  getObs := getObsW
  setObs := setObsW
  create := createW
  update := updateW
  remove := removeW

/-- the `features` list of the object `id` (`[]` for a reference to no object) -/
def featsAt (h : List (HObs V)) (id : Nat) : List V := ((h[id]?).map (·.feats)).getD []

/-- the coordinate `c` of the object `id` -/
def coordAt [Inhabited V] (h : List (HObs V)) (c : Coord) (id : Nat) : V := ((h[id]?).map (·.coord c)).getD default

/-- the table the track in focus shows: its dict, and position by position the `features` list and the coordinates of
the object found there -/
def view [Inhabited V] (w : Wd V) : St V :=
  { dico := w.dico, rows := w.ids.map (featsAt w.heap),
    xs := w.ids.map (coordAt w.heap .x), ys := w.ids.map (coordAt w.heap .y),
    zs := w.ids.map (coordAt w.heap .z), ts := w.ids.map (coordAt w.heap .t) }

/-! ## several tracks on one heap, and the functions that make a track from another one -/

/-- a `Track` object -/
structure HTrk where
  ids : List Nat
  dico : List (String × Nat)
  deriving Repr

structure Sys (V : Type) where
  heap : List (HObs V)
  trks : List HTrk

/-- the track `k` in focus -/
def Sys.focus (s : Sys V) (k : Nat) : Option (Wd V) :=
  (s.trks[k]?).map fun t => { heap := s.heap, ids := t.ids, dico := t.dico }

/-- put the heap and the track in focus back -/
def Sys.store (s : Sys V) (k : Nat) (w : Wd V) : Sys V :=
  { heap := w.heap, trks := s.trks.set k { ids := w.ids, dico := w.dico } }

/-- one API call on the track `k` -/
def Sys.api (o : Ops V) (k : Nat) (op : Op V) (s : Sys V) : Option (Except Err (Ret V) × Sys V) :=
  (s.focus k).map fun w =>
    let r := step o op w
    (r.1, s.store k r.2)

/-- a new track of new objects without features (`Track()` + `addObs(Obs(ENUCoords(x, y, z), t))`) -/
def Sys.newTrack (s : Sys V) (xs ys zs ts : List V) : Sys V :=
  let obs := (List.range xs.length).filterMap fun i =>
    match xs[i]?, ys[i]?, zs[i]?, ts[i]? with
    | some x, some y, some z, some t => some ({ x := x, y := y, z := z, t := t, feats := [] } : HObs V)
    | _, _, _, _ => none
  { heap := s.heap ++ obs, trks := s.trks ++ [{ ids := (List.range obs.length).map (· + s.heap.length), dico := [] }] }

/-- `Obs.copy()` (`copy.deepcopy`): a NEW object with the same values — its `features` list is a new list -/
def allocCopy (h : List (HObs V)) (id : Nat) : Option (Nat × List (HObs V)) :=
  (h[id]?).map fun ob => (h.length, h ++ [ob])

/-- `[o.copy() for o in …]`: one new object per position (an object referenced twice is copied twice) -/
def copyEach : List Nat → List (HObs V) → Option (List Nat × List (HObs V))
  | [], h => some ([], h)
  | id :: ids, h =>
    match allocCopy h id with
    | none => none
    | some (nid, h1) => (copyEach ids h1).map fun r => (nid :: r.1, r.2)

/-- `copy.deepcopy(track)`: one new object per object (the memo keeps an object referenced twice referenced twice) -/
def copyMemo : List Nat → List (Nat × Nat) → List (HObs V) → Option (List Nat × List (HObs V))
  | [], _, h => some ([], h)
  | id :: ids, memo, h =>
    match memo.lookup id with
    | some nid => (copyMemo ids memo h).map fun r => (nid :: r.1, r.2)
    | none =>
      match allocCopy h id with
      | none => none
      | some (nid, h1) => (copyMemo ids ((id, nid) :: memo) h1).map fun r => (nid :: r.1, r.2)

/-- how a track is made from the track in focus -/
inductive Derive
  | copy                                  -- t.copy()
  | extract (i j : Nat)                   -- t.extract(i, j): the objects themselves, the dict transmitted
  | slice (i j : Nat)                     -- t[i:j]: the objects themselves, the dict transmitted
  | span (i j : Nat)                      -- t.extractSpanTime(t[i].timestamp, t[j].timestamp): copies, the dict transmitted
  | loopAdd                               -- t.loop(add=True): `self.addObs(self[0].copy())`, the track itself
  | addCopy (i : Nat) (pos : Option Nat)  -- t.addObs(t[i].copy()) / t.insertObs(t[i].copy(), pos), the track itself
  | plus (other : Nat)                    -- t + trks[other]: the objects themselves; the dict transmitted when both list the same names in the same order
  deriving Repr

/-- `list.insert(pos, x)` (a position beyond the end appends) -/
def pyInsert (l : List Nat) (pos : Nat) (x : Nat) : List Nat := l.take pos ++ x :: l.drop pos

/-- the derivation `d` applied to the track `k`: the system afterwards and the index of the resulting track (`k` itself
for `loopAdd` / `addCopy`, a new last track otherwise); an exception leaves the system as it was -/
def Sys.derive (o : Ops V) (d : Derive) (k : Nat) (s : Sys V) : Except Err (Sys V × Nat) :=
  match s.trks[k]? with
  | none => .error .unsupported
  | some t =>
    let fresh (ids : List Nat) (dico : List (String × Nat)) (h : List (HObs V)) : Except Err (Sys V × Nat) :=
      .ok ({ heap := h, trks := s.trks ++ [{ ids := ids, dico := dico }] }, s.trks.length)
    match d with
    | .copy =>
      match copyMemo t.ids [] s.heap with
      | none => .error .unsupported
      | some (ids, h) => fresh ids t.dico h
    | .extract i j =>
      -- `for k in range(i, j + 1): track.addObs(self.__POINTS[k])`
      if i ≤ j && j ≥ t.ids.length then .error .index
      else fresh ((t.ids.drop i).take (j + 1 - i)) t.dico s.heap
    | .slice i j => fresh ((t.ids.drop i).take (j - i)) t.dico s.heap
    | .span i j =>
      match (t.ids[i]?).bind (s.heap[·]?), (t.ids[j]?).bind (s.heap[·]?) with
      | some oi, some oj =>
        -- `if tini > tfin: swap`; an observation is kept unless `timestamp < tini` or `timestamp > tfin`
        let tini := if o.lt oj.t oi.t then oj.t else oi.t
        let tfin := if o.lt oj.t oi.t then oi.t else oj.t
        let sel := t.ids.filter fun id =>
          match s.heap[id]? with
          | some ob => !(o.lt ob.t tini) && !(o.lt tfin ob.t)
          | none => false
        match copyEach sel s.heap with
        | none => .error .unsupported
        | some (ids, h) => fresh ids t.dico h
      | _, _ => .error .index
    | .loopAdd =>
      match t.ids[0]? with
      | none => .error .index
      | some id =>
        match allocCopy s.heap id with
        | none => .error .unsupported
        | some (nid, h) => .ok ({ heap := h, trks := s.trks.set k { t with ids := t.ids ++ [nid] } }, k)
    | .addCopy i pos =>
      match t.ids[i]? with
      | none => .error .index
      | some id =>
        match allocCopy s.heap id with
        | none => .error .unsupported
        | some (nid, h) =>
          let ids := match pos with
            | none => t.ids ++ [nid]
            | some p => pyInsert t.ids p nid
          .ok ({ heap := h, trks := s.trks.set k { t with ids := ids } }, k)
    | .plus other =>
      match s.trks[other]? with
      | none => .error .unsupported
      | some t2 =>
        let same := t.dico.map Prod.fst == t2.dico.map Prod.fst
        fresh (t.ids ++ t2.ids) (if same then t.dico else []) s.heap

end TV.Features
