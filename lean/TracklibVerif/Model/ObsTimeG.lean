import TracklibVerif.Model.ObsTime
/-! Scalar-polymorphic model of the *float* path of tracklib/core/obs_time.py.

`readUnixG` mirrors `ObsTime.readUnixTime(elapsed_seconds)` operation for operation when the argument
is a Python `float`; `toAbsG` mirrors `toAbsTime` (`seconds` is a Python `int`, the result is
`float(seconds) + self.ms / 1000.0`); `addSecG/addMinG/addHourG/addDayG` and `subG` mirror
`addSec/addMin/addHour/addDay` and `__sub__`.

The scalar `α` carries `+ - * /`, a decidable `<` and the conversion `int → float` (`IntCast`);
Python's `int(x)` on a float is the parameter `trunc : α → Int`. The driver instantiates `α := Float`
(`trunc := Float.toInt64`, IEEE doubles, bit-exact with CPython on the range used); the theorems of
`Props/C03.lean` are over a linearly ordered field with an exact truncation.

Python integers stay integers in the model: the accumulator `sec` of the year loop, `sec_on_year`,
`sec_on_month`, `(time.day - 1) * 86400`, `time.hour * 3600`, `time.min * 60` are computed in `Nat`/`Int`
and converted once (`float - int` converts the `int` operand), exactly as CPython does.
The calendar fields other than year and month are `Int`: on a negative argument the Python code
produces negative fields (`readUnixTime(-1)` is `1970-01-01 00:00:-1`), and so does the model. -/
namespace TV.ObsTime

/-- An `ObsTime` as the float path produces it: year and month are counters (`Nat`), the other fields
are results of `int(...)` and may be negative on arguments outside the domain. -/
structure StampZ where
  year : Nat
  month : Nat
  day : Int
  hour : Int
  min : Int
  sec : Int
  ms : Int
  deriving DecidableEq, Repr

/-- the stamp of the integer model, seen as an `ObsTime` of the float path -/
def Stamp.toZ (t : Stamp) : StampZ :=
  ⟨t.d.year, t.d.month, t.d.day, t.d.hour, t.d.min, t.d.sec, t.ms⟩

/-- `toAbsTime` before the last statement: the Python `int` named `seconds` -/
def secondsZ (t : StampZ) : Int :=
  ((daysBeforeYear (t.year - 1970) + daysBeforeMonth t.year (t.month - 1) : Nat) : Int) * 86400
    + (t.day - 1) * 86400 + t.hour * 3600 + t.min * 60 + t.sec

section
variable {α : Type} [Add α] [Sub α] [Mul α] [Div α] [LT α] [DecidableLT α] [IntCast α]

/-- `toAbsTime`: `seconds += self.ms / 1000.0` (the only float operations of the function) -/
def toAbsG (t : StampZ) : α := ((secondsZ t : Int) : α) + ((t.ms : Int) : α) / ((1000 : Int) : α)

/-- `toAbsTime()` WITH its exception: the month loop reads `ObsTime.__day_per_month[m - 1]` for `m = 1 … month - 1`, which is an
`IndexError` as soon as `month ≥ 14` (`none`); `toAbsG` is the value otherwise. (`Tie/C03.lean` `tie_toAbsTime_total`: this is
exactly what the translation of the current source does.) -/
def toAbsGE (t : StampZ) : Option α := if t.month ≤ 13 then some (toAbsG t) else none

/-- the year loop `while True: … if elapsed_seconds - sec < sec_on_year: break; sec += sec_on_year; year += 1`
with the integer accumulator `sec`; `none` = the fuel ran out (the Python loop would still be running:
NaN, infinity). Returns the year and the accumulator. -/
def yearLoopG (e : α) : Nat → Nat → Nat → Option (Nat × Nat)
  | 0, _, _ => none
  | f+1, y, sec =>
    let soy : Nat := yearDays y * 86400
    if e - (((sec : Nat) : Int) : α) < (((soy : Nat) : Int) : α) then some (y, sec)
    else yearLoopG e f (y+1) (sec + soy)

/-- the month loop `for i in range(12): … if elapsed_seconds < sec_on_month: break; elapsed_seconds -= sec_on_month; month += 1` -/
def monthLoopG (y : Nat) : Nat → Nat → α → Nat × α
  | 0, m, e => (m, e)
  | f+1, m, e =>
    let som : Nat := monthDays y m * 86400
    if e < (((som : Nat) : Int) : α) then (m, e) else monthLoopG y f (m+1) (e - (((som : Nat) : Int) : α))

/-- `ObsTime.readUnixTime(elapsed_seconds)` on a float. Fuel of the year loop: `int(e / 31536000) + 1`
(every iteration consumes at least 365 days), proved sufficient for `e ≥ 0` in exact arithmetic. -/
def readUnixG (trunc : α → Int) (e0 : α) : Option StampZ :=
  match yearLoopG e0 ((trunc (e0 / ((31536000 : Int) : α))).toNat + 1) 1970 0 with
  | none => none
  | some (y, sec) =>
    let e1 := e0 - (((sec : Nat) : Int) : α)                       -- elapsed_seconds -= sec
    let (m, e2) := monthLoopG y 12 0 e1
    let day : Int := trunc (e2 / ((86400 : Int) : α)) + 1          -- (int)(elapsed_seconds / 86400) + 1
    let e3 := e2 - (((day - 1) * 86400 : Int) : α)                 -- elapsed_seconds -= (time.day - 1) * 86400
    let hour : Int := trunc (e3 / ((3600 : Int) : α))
    let e4 := e3 - ((hour * 3600 : Int) : α)
    let mn : Int := trunc (e4 / ((60 : Int) : α))
    let e5 := e4 - ((mn * 60 : Int) : α)
    let sc : Int := trunc e5
    let e6 := e5 - ((sc : Int) : α)
    let ms : Int := trunc (e6 * ((1000 : Int) : α))                -- (int)(elapsed_seconds * 1000)
    some ⟨y, m + 1, day, hour, mn, sc, ms⟩

/-- `addSec(nb)`: `readUnixTime(self.toAbsTime() + nb)`; `nb` may be fractional or negative -/
def addSecG (trunc : α → Int) (t : StampZ) (nb : α) : Option StampZ := readUnixG trunc (toAbsG t + nb)
/-- `addMin(nb)`: `readUnixTime(self.toAbsTime() + nb * 60)` -/
def addMinG (trunc : α → Int) (t : StampZ) (nb : α) : Option StampZ :=
  readUnixG trunc (toAbsG t + nb * ((60 : Int) : α))
/-- `addHour(nb)`: `readUnixTime(self.toAbsTime() + nb * 3600)` -/
def addHourG (trunc : α → Int) (t : StampZ) (nb : α) : Option StampZ :=
  readUnixG trunc (toAbsG t + nb * ((3600 : Int) : α))
/-- `addDay(nb)`: `readUnixTime(self.toAbsTime() + nb * 86400)` -/
def addDayG (trunc : α → Int) (t : StampZ) (nb : α) : Option StampZ :=
  readUnixG trunc (toAbsG t + nb * ((86400 : Int) : α))

/-- `__sub__`: `self.toAbsTime() - time.toAbsTime()` -/
def subG (a b : StampZ) : α := (toAbsG a : α) - toAbsG b

end

/-! The field-wise comparisons on the float-path stamps (the same cascades as `ltS`, `gtS`, `eqS`). -/

def ltZ (a b : StampZ) : Bool :=
  if a.year != b.year then a.year < b.year else
  if a.month != b.month then a.month < b.month else
  if a.day != b.day then a.day < b.day else
  if a.hour != b.hour then a.hour < b.hour else
  if a.min != b.min then a.min < b.min else
  if a.sec != b.sec then a.sec < b.sec else
  decide (a.ms < b.ms)

def gtZ (a b : StampZ) : Bool :=
  if a.year != b.year then a.year > b.year else
  if a.month != b.month then a.month > b.month else
  if a.day != b.day then a.day > b.day else
  if a.hour != b.hour then a.hour > b.hour else
  if a.min != b.min then a.min > b.min else
  if a.sec != b.sec then a.sec > b.sec else
  decide (a.ms > b.ms)

def eqZ (a b : StampZ) : Bool :=
  if a.ms != b.ms then false else
  if a.sec != b.sec then false else
  if a.min != b.min then false else
  if a.hour != b.hour then false else
  if a.day != b.day then false else
  if a.month != b.month then false else
  if a.year != b.year then false else true

def geZ (a b : StampZ) : Bool := !ltZ a b
def leZ (a b : StampZ) : Bool := !gtZ a b
def neZ (a b : StampZ) : Bool := !eqZ b a

/-- `ObsTime()` : the defaults of `__init__` (1970-01-01 00:00:00.000) -/
def defaultZ : StampZ := ⟨1970, 1, 1, 0, 0, 0, 0⟩

end TV.ObsTime
