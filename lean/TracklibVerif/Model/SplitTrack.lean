import TracklibVerif.Model.SplitVal
/-! The front end of `split(track, source, limit)` (algo/segmentation.py) when `source` is a string: the marker is
READ FROM THE TRACK BY NAME,

    for i in range(track.size()):
        if track.getObsAnalyticalFeature(source, i) == 1: …

`getObsAnalyticalFeature(name, i)` tests the six built-in names, then looks `name` up in the analytical-feature
dictionary: the name is a dictionary key, compared as a whole string — it is not stripped and never parsed
(`FTrack.get`; `Track.__getitem__`, by contrast, hands a key containing one of `+ - / * ^ > < ( ) = ' {` to the
expression evaluator). A feature may be called `speed-limit` next to features `speed` and `limit`.
`== 1` is Python's equality by value: `1`, `1.0`, `True`, `numpy.float64(1)` are marked; NaN, any other number and
an `ObsTime` (`ObsTime.__eq__` answers False for anything that is not an `ObsTime`) are not.
An unknown name raises `AnalyticalFeatureError` at `i = 0` — unless the track is empty: the loop does not run and
the empty collection is returned. Pieces are lists of observation indices. -/
namespace TV.Split
variable {α : Type}

/-- (index, `getObsAnalyticalFeature(source, index) == 1`) for every observation; `none` = unknown feature name -/
def FTrack.marked (isOne : Option α → Bool) (t : FTrack α) (source : String) : Option (List (Nat × Bool)) :=
  (t.get source).map (fun col => (List.range t.size).map (fun i => (i, isOne ((col[i]?).getD none))))

/-- `split(track, source, limit)` with the numbers of the pieces' uids (`splitU`); `"af"` = `AnalyticalFeatureError` -/
def splitTrackU (isOne : Option α → Bool) (short keepTail : List Nat → Bool) (t : FTrack α) (source : String) :
    Except String (List (PId × List Nat)) :=
  if t.size = 0 then .ok []
  else
    match t.marked isOne source with
    | none => .error "af"
    | some obs => .ok (splitU short keepTail obs)

/-- `split(track, source)` (default `limit = 0`): the pieces -/
def splitTrack (isOne : Option α → Bool) (t : FTrack α) (source : String) : Except String (List (List Nat)) :=
  if t.size = 0 then .ok []
  else
    match t.marked isOne source with
    | none => .error "af"
    | some obs => .ok (split obs)

/-- `v == 1` on the values a track holds (`none` = NaN) -/
def Val.isOne : Option Val → Bool
  | some (.num (.fin r)) => r == 1
  | _ => false

/-- `segmentation(track, afs, out, ths, mode)` followed by `split(track, out)` on the same track -/
def segSplitTrackG [OfNat α 0] [OfNat α 1] (isnan : α → Bool) (le? : α → α → Except String Bool) (isOne : Option α → Bool)
    (fmax : α) (andMode : Bool) (t : FTrack α) (afs : Arg String) (out : String) (ths : Arg α) :
    Except String (List (List Nat)) :=
  match segTrackG isnan le? fmax andMode t afs out ths with
  | .error e => .error e
  | .ok t' => splitTrack isOne t' out
end TV.Split
