import TracklibVerif.Model.ObsTime
/-! Model of the *argument handling* of the comparison operators of `ObsTime` (tracklib/core/obs_time.py): what stands
on the other side of the operator.

* `Operand` — the other operand: an instance of `ObsTime` or of a class derived from it (`inst cls t`; `cls = 0` is
  `ObsTime` itself, `cls = k > 0` the k-th derived class: a user class that overrides `__str__`, adds a method, …), or
  an object of another type without calendar attributes (`other`: `None`, a number, a string, a tuple, list or dict of
  the seven fields, `object()`; not a `datetime`, which has a `year`).
* `eqO` — `ObsTime.__eq__(self, time)`: `if not isinstance(time, ObsTime): return False`, then the field cascade
  `eqS`. `isinstance` accepts every derived class: neither the class of `self` nor that of `time` is read.
* `neO` — `ObsTime.__ne__(self, time)`: `not (time == self)`. For a timestamp `time` that is `time.__eq__(self)`
  (the operands change sides); for an operand of another type `time == self` first asks `type(time).__eq__`, which
  answers `NotImplemented` for the types above, then the reflected `self.__eq__(time)`, which is `False`.
* `ltO`, `gtO`, `leO`, `geO` — `__lt__`/`__gt__` start with `self.year != time.year` without any guard: on an operand
  of another type that is an `AttributeError` (`none`); `__ge__ = not (self < time)` and `__le__ = not (self > time)`
  inherit it.

Core Lean only. -/
namespace TV.ObsTime

inductive Operand where
  | inst (cls : Nat) (t : Stamp)
  | other
  deriving DecidableEq, Repr

/-- `self == time`; `cls` is the class of `self` (never read: `isinstance(time, ObsTime)` is all the guard asks) -/
def eqO (_cls : Nat) (self : Stamp) : Operand → Bool
  | .inst _ t => eqS self t
  | .other => false

/-- `self != time`: `not (time == self)` -/
def neO (cls : Nat) (self : Stamp) : Operand → Bool
  | .inst c t => !eqO c t (.inst cls self)
  | .other => !eqO cls self .other

/-- `self < time`, `self > time`: `none` is the AttributeError of `time.year` on an operand that is not a timestamp -/
def ltO (_cls : Nat) (self : Stamp) : Operand → Option Bool
  | .inst _ t => some (ltS self t)
  | .other => none

def gtO (_cls : Nat) (self : Stamp) : Operand → Option Bool
  | .inst _ t => some (gtS self t)
  | .other => none

/-- `__ge__ = not (self < time)`, `__le__ = not (self > time)` -/
def geO (cls : Nat) (self : Stamp) (x : Operand) : Option Bool := (ltO cls self x).map (!·)
def leO (cls : Nat) (self : Stamp) (x : Operand) : Option Bool := (gtO cls self x).map (!·)

/-- the six operators `[<, >, ==, <=, >=, !=]` with `self` on the left, as the harness observes them -/
def cmpO (cls : Nat) (self : Stamp) (x : Operand) : List (Option Bool) :=
  [ltO cls self x, gtO cls self x, some (eqO cls self x), leO cls self x, geO cls self x, some (neO cls self x)]

end TV.ObsTime
