/-! Fixed semantic choices of the Python → Lean translator `tools/py2lean.py` (core Lean only).

The translator maps the `ast` of ONE whitelisted pure numeric Python function to ONE Lean `def` in
`lean/TracklibVerif/Gen/*.lean` (regenerated from /repo's current source on every run). Everything that is not
a literal copy of the Python text is decided HERE, once, and is what must be read to trust the tie:

* A Python function becomes a function into `M τ = Except Err τ`: `.ok v` is "returns `v`", `.error e` is
  "raises" (`ZeroDivisionError`, `IndexError`, `TypeError`). Statements are sequenced with `bind`, in
  Python's evaluation order (left to right, operands before the operation, the condition of an `if` before
  its branches). `return` ends the function: statements after it on the same path are dropped.
  `if c: A else: B` followed by `rest` is `if c then ⟦A; rest⟧ else ⟦B; rest⟧`.
* A Python `float` is a value of an abstract scalar type `α` with exactly the operations the function uses
  (`Add`, `Sub`, `Mul`, `Div`, `Neg`, `LT`, `LE` and their decision procedures, literals through
  `OfNat α n` for an integer literal `n` met in float arithmetic and `OfScientific α` for a literal with a
  decimal point or an exponent). Nothing is assumed about these operations: the generated definitions
  evaluate at `Float` (IEEE doubles, Python's floats) and at `Rat`, and the tie theorems hold for every `α`.
  `+ - * unary-` are the class operations with Python's association.
* `a / b` on floats (`fdiv`): `ZeroDivisionError` when `b == 0` (true for `0.0` and `-0.0`, false for NaN),
  else the class division.
* `a == b` on floats (`feq`): `a ≤ b ∧ b ≤ a`. On IEEE doubles this is Python's `==` (false when either side
  is NaN, `0.0 == -0.0`); on an ordered field it is equality. `!=` is its negation.
  `a < b`, `a <= b` are `decide (a < b)`, `decide (a ≤ b)`; `a > b`, `a >= b` are the same with the operands
  swapped (`b < a`, `b ≤ a`; both operands are pure values at that point, so the swap is not observable).
* `and` / `or` / `not` / `&` / `|` on `bool`s are `&&` / `||` / `!` (the translator only accepts them when
  both operands are already-evaluated boolean values, so short-circuiting is not observable).
* `math.fabs(v)` and `abs(v)` on a float (`fabs`): `v` if `0 < v` else `0 - v` (same double as C's `fabs` for
  every double including `-0.0`; NaN stays NaN).
* `min(a, b)` / `max(a, b)` on floats (`fmin` / `fmax`): CPython's rule — the first argument unless the
  second is strictly smaller / strictly greater.
* `x ** y` and `pow(x, y)` with a float operand are a parameter `pow : α → α → α` (C's `pow`; the exceptions Python
  raises for `0.0 ** -1` or a negative base with a fractional exponent are NOT modelled).
* `math.sqrt`, `math.sin`, … are NOT interpreted: they are function parameters of the generated definition
  (`sqrt : α → α`), instantiated by libm in the driver and by Mathlib's real functions in theorems. Their
  `ValueError` on a domain error (e.g. `math.sqrt(-1.0)`) is NOT modelled.
* `math.floor(x)` is a parameter `floor : α → Int`, `int(x)` on a float a parameter `trunc : α → Int`, `math.pi` a
  parameter `pi : α` (uninterpreted, like `sqrt`); `x.is_integer()` is `float(floor(x)) == x` (`isInteger`).
* An object parameter (`self`, `coord`) is declared in the translator's signature with the attributes and the
  argument-less accessor methods the function reads; each is one parameter of the generated definition
  (`self_xmin`, `coord_getX`): the accessors are ASSUMED to be pure getters, they are not translated.
* Strings (`"…"`, `"…".format(…)`, `str(…)`, `+` of those) and `print(…)` are not rendered; they can only flow
  into `print`, and their sub-expressions are assumed not to raise.
* `L[k]` with a literal `k ≥ 0` on a list (`getItem`): `IndexError` when `k ≥ len(L)`.
  `x.append(e)` on a list created in the same function is `x := x ++ [e]`.
* A Python `int` is a Lean `Int`; `%` and `//` are the floor versions (`Int.fmod`, `Int.fdiv`) with
  `ZeroDivisionError` on a zero divisor; `==` is decidable equality.
* An `int` met in float arithmetic is converted (`IntCast α`); an integer LITERAL there is the literal of `α`.

LOOPS (second half of this file).
* A loop is a call of `forList` (a `for`) or `whileLoop` (a `while`) on a BODY FUNCTION from the LOOP STATE — the tuple,
  in order of first assignment, of the variables the body assigns that are live outside one iteration — to
  `M (Ctl σ ρ)`: `.cont s` = the iteration ended (fell off the end of the body, or `continue`) with state `s`,
  `.brk s` = `break`, `.ret r` = `return r` from inside the loop. The loop itself yields `M (Out σ ρ)`: `.done s` = the loop
  ended normally or by `break` with state `s` (Python does not distinguish them unless the loop has an `else`
  clause, which is not accepted), `.ret r` = the function returned from inside the loop.
* `for i in range(a, b)`: `forList body (range a b) s`, `range a b = [a, a+1, …, b-1]` (empty when `b ≤ a`), evaluated ONCE
  before the loop as in Python; `range(a, b, step)`: `rangeStep`, `ValueError` on step 0. `for x in L`: `forList body L s`
  (the translator only accepts a list that the body does not modify). The loop variable is a parameter of the body.
* `while c: B`: `whileLoop body fuel s` with `body s = if c then ⟦B⟧ else .ok (.brk s)`: at most `fuel` evaluations of the body;
  when the fuel is exhausted the result is `.error .fuel` — never a value. `fuel` is a parameter of the generated
  definition; a tie theorem says for which fuels (all those above a bound) the definition returns the model's value.
* `L[i]` with a computed `i` (`getIdx`): Python's rule — `i` itself when `0 ≤ i < len(L)`, `len(L) + i` when
  `-len(L) ≤ i < 0`, `IndexError` otherwise. `len(L)` is `(L.length : Int)`.
* A variable that is assigned only inside a loop / a branch and read later (`xproj` of `proj_polyligne`) has type
  `Option τ` (`none` = not yet bound); reading it is `getBound`: `UnboundLocalError` on `none`.
* `b * k` with `b` a bool and `k` an int: `True` is 1, `False` is 0. `a ** e` on two ints (`ipow`): `a ^ e` when `e ≥ 0`; when `e < 0`
  Python returns a float, which cannot be typed: the error value `Err.type` (to be excluded by the tie's hypotheses).
* `a >> k` on ints (`ishr`): the floor shift `Int.shiftRight` (so `-1 >> 1 == -1`), `ValueError` on a negative count; `abs` on an int
  (`iabs`); `min` / `max` of ints (`imin` / `imax`, n-ary ones folded from the left: CPython's "first among the smallest / greatest").
* `for k, x in enumerate(L)`: `forList` over `enumerate L` = `[(0, L[0]), (1, L[1]), …]`. `[c] * n` (`replicate`): `n` copies, none when
  `n ≤ 0`. `L[i] = v` on a list created in the function (`setIdx`): the list with item `i` replaced, Python's negative indices,
  `IndexError` out of range; `L[i] op= e` reads `L[i]`, evaluates `e`, stores the result at `i`.
* TABLES: a 2-D numpy array of floats that is only indexed `T[i, j]` is the list of its rows: `np.zeros((r, c))` (`zeros2`, `ValueError` on a negative dimension), `T[i, j]`
  (`getIdx2`), `T[i, j] = v` (`setIdx2`, the value converted to a float as numpy does for a float64 array), `T.shape[0]` (`len`). A row
  index is resolved before the column index; both follow Python's rule for negative indices (numpy's is the same) and raise `IndexError`.
* `raise E(…)`: the error value `Err.raised`, whatever the class and the message. `b * x` with `b` a bool and `x` a float: `True` is 1, `False` is 0.
* `sys.float_info.max` is a parameter `dblmax : α` (uninterpreted). `lambda p: e` bound to a local and called later is its body on
  the argument (the translator refuses a lambda that reads a variable the function assigns).
* `x in L` / `x not in L` on a list of ints / tuples of ints: `List.elem` with decidable equality (`contains`).
  `L.remove(v)`: `List.erase` (first occurrence), `ValueError` if absent.
-/
namespace TV.Py

/-- the Python exceptions the translated subset can raise -/
inductive Err where
  | zerodiv   -- ZeroDivisionError
  | index     -- IndexError
  | type      -- TypeError (e.g. subscripting `None`)
  | exit      -- SystemExit (`exit()`; never produced by the translator, present for the same reason as `unbound`)
  | unbound   -- UnboundLocalError: a variable declared "maybe unbound" in the signature read before it was assigned
  | value     -- ValueError (`range(a, b, 0)`, `L.remove(v)` with `v` absent)
  | fuel      -- NOT a Python exception: the fuel of a `while` loop ran out (the Python loop would still be running)
  | raised    -- an exception raised by a `raise` statement of the translated function (class and message are not tracked)
  deriving DecidableEq, Repr

/-- result of a Python call: a value or an exception -/
abbrev M := Except Err

/-- sequencing -/
@[inline] def bind {β γ : Type} (m : M β) (f : β → M γ) : M γ :=
  match m with
  | .error e => .error e
  | .ok v => f v

@[simp] theorem bind_ok {β γ : Type} (v : β) (f : β → M γ) : bind (.ok v) f = f v := rfl
@[simp] theorem bind_error {β γ : Type} (e : Err) (f : β → M γ) : bind (.error e : M β) f = .error e := rfl

/-- `if_pos` / `if_neg` with the `Decidable` instance found by unification (proof helpers of the tie modules:
after unfolding, the instance argument of an `if` may be a different, definitionally equal term) -/
theorem ite_pos' {c : Prop} {inst : Decidable c} {β : Sort _} {t e : β} (h : c) : @ite β c inst t e = t :=
  @if_pos c inst h β t e
theorem ite_neg' {c : Prop} {inst : Decidable c} {β : Sort _} {t e : β} (h : ¬c) : @ite β c inst t e = e :=
  @if_neg c inst h β t e

section scalar
variable {α : Type}

/-- float `a == b` -/
@[inline] def feq [LE α] [DecidableLE α] (a b : α) : Bool := decide (a ≤ b) && decide (b ≤ a)

/-- float `a / b` -/
@[inline] def fdiv [Div α] [LE α] [DecidableLE α] [OfNat α 0] (a b : α) : M α :=
  if feq b 0 then .error .zerodiv else .ok (a / b)

/-- proof helper: a division that did not raise is the plain division -/
theorem bind_fdiv_ok [Div α] [LE α] [DecidableLE α] [OfNat α 0] {β : Type} {a b : α} {f : α → M β} {v : β}
    (h : bind (fdiv a b) f = .ok v) : f (a / b) = .ok v := by
  unfold fdiv at h
  by_cases hz : feq b 0 = true
  · rw [ite_pos' hz] at h; exact nomatch h
  · rw [ite_neg' hz] at h; exact h

/-- `math.fabs(v)`, `abs(v)` on a float -/
@[inline] def fabs [Sub α] [LT α] [DecidableLT α] [OfNat α 0] (v : α) : α := if 0 < v then v else 0 - v

/-- `min(a, b)` -/
@[inline] def fmin [LT α] [DecidableLT α] (a b : α) : α := if b < a then b else a

/-- `max(a, b)` -/
@[inline] def fmax [LT α] [DecidableLT α] (a b : α) : α := if a < b then b else a

/-- `x.is_integer()` on a float, `floor` being `math.floor`: `float(floor(x)) == x` -/
@[inline] def isInteger [LE α] [DecidableLE α] [IntCast α] (floor : α → Int) (x : α) : Bool :=
  feq ((floor x : Int) : α) x

end scalar

/-- `L[k]`, `k` a non-negative literal -/
def getItem {β : Type} (l : List β) (k : Nat) : M β :=
  match l[k]? with
  | some v => .ok v
  | none => .error .index

@[simp] theorem getItem_zero {β : Type} (a : β) (l : List β) : getItem (a :: l) 0 = .ok a := rfl
@[simp] theorem getItem_succ {β : Type} (a : β) (l : List β) (k : Nat) : getItem (a :: l) (k + 1) = getItem l k := rfl
@[simp] theorem getItem_nil {β : Type} (k : Nat) : getItem ([] : List β) k = .error .index := rfl

/-- int `a % b` (sign of the divisor) -/
@[inline] def imod (a b : Int) : M Int := if b = 0 then .error .zerodiv else .ok (Int.fmod a b)

/-- int `a // b` (floor) -/
@[inline] def ifloordiv (a b : Int) : M Int := if b = 0 then .error .zerodiv else .ok (Int.fdiv a b)

/-! ## Loops, computed indices, possibly-unbound variables -/

/-- what one evaluation of a loop body says: go on (`continue` / end of the body), `break`, or `return r` -/
inductive Ctl (σ ρ : Type) where
  | cont (s : σ)
  | brk (s : σ)
  | ret (r : ρ)

/-- what a loop says to the code after it: the final state, or "the function returned `r`" -/
inductive Out (σ ρ : Type) where
  | done (s : σ)
  | ret (r : ρ)

/-- `for x in l: body` from state `s` -/
def forList {β σ ρ : Type} (body : β → σ → M (Ctl σ ρ)) : List β → σ → M (Out σ ρ)
  | [], s => .ok (.done s)
  | x :: xs, s =>
    match body x s with
    | .error e => .error e
    | .ok (.cont s') => forList body xs s'
    | .ok (.brk s') => .ok (.done s')
    | .ok (.ret r) => .ok (.ret r)

/-- `while …: body` from state `s`, at most `fuel` evaluations of the body (the loop test is part of the body) -/
def whileLoop {σ ρ : Type} (body : σ → M (Ctl σ ρ)) : Nat → σ → M (Out σ ρ)
  | 0, _ => .error .fuel
  | f + 1, s =>
    match body s with
    | .error e => .error e
    | .ok (.cont s') => whileLoop body f s'
    | .ok (.brk s') => .ok (.done s')
    | .ok (.ret r) => .ok (.ret r)

@[simp] theorem forList_nil {β σ ρ : Type} (body : β → σ → M (Ctl σ ρ)) (s : σ) :
    forList body [] s = .ok (.done s) := rfl
theorem forList_cons {β σ ρ : Type} (body : β → σ → M (Ctl σ ρ)) (x : β) (xs : List β) (s : σ) :
    forList body (x :: xs) s = (match body x s with
      | .error e => .error e
      | .ok (.cont s') => forList body xs s'
      | .ok (.brk s') => .ok (.done s')
      | .ok (.ret r) => .ok (.ret r)) := rfl
theorem forList_cons_cont {β σ ρ : Type} {body : β → σ → M (Ctl σ ρ)} {x : β} {xs : List β} {s s' : σ}
    (h : body x s = .ok (.cont s')) : forList body (x :: xs) s = forList body xs s' := by
  rw [forList_cons, h]
theorem forList_cons_brk {β σ ρ : Type} {body : β → σ → M (Ctl σ ρ)} {x : β} {xs : List β} {s s' : σ}
    (h : body x s = .ok (.brk s')) : forList body (x :: xs) s = .ok (.done s') := by
  rw [forList_cons, h]
theorem forList_cons_ret {β σ ρ : Type} {body : β → σ → M (Ctl σ ρ)} {x : β} {xs : List β} {s : σ} {r : ρ}
    (h : body x s = .ok (.ret r)) : forList body (x :: xs) s = .ok (.ret r) := by
  rw [forList_cons, h]
theorem forList_cons_error {β σ ρ : Type} {body : β → σ → M (Ctl σ ρ)} {x : β} {xs : List β} {s : σ} {e : Err}
    (h : body x s = .error e) : forList body (x :: xs) s = .error e := by
  rw [forList_cons, h]
/-- a `for` over `l₁ ++ l₂` whose first part neither breaks nor returns is the `for` over `l₂` from the state reached -/
theorem forList_append {β σ ρ : Type} (body : β → σ → M (Ctl σ ρ)) (l₁ l₂ : List β) (s s' : σ)
    (h : forList body l₁ s = .ok (.done s')) (hnb : ∀ x ∈ l₁, ∀ t t', body x t ≠ .ok (.brk t')) :
    forList body (l₁ ++ l₂) s = forList body l₂ s' := by
  induction l₁ generalizing s with
  | nil => simp only [forList_nil, Except.ok.injEq, Out.done.injEq] at h; subst h; rfl
  | cons x xs ih =>
    rw [List.cons_append, forList_cons]
    rw [forList_cons] at h
    cases hb : body x s with
    | error e => rw [hb] at h; exact nomatch h
    | ok c =>
      rw [hb] at h
      cases c with
      | cont s1 => exact ih s1 h (fun y hy => hnb y (List.mem_cons_of_mem x hy))
      | brk s1 => exact absurd hb (hnb x (List.mem_cons_self) s s1)
      | ret r => exact nomatch h

/-- a `for` whose body always ends normally (no `break` / `return` / exception on these elements) is a left fold -/
theorem forList_eq_foldl {β σ ρ : Type} (body : β → σ → M (Ctl σ ρ)) (step : σ → β → σ) (l : List β) (s : σ)
    (h : ∀ x ∈ l, ∀ t, body x t = .ok (.cont (step t x))) :
    forList body l s = .ok (.done (l.foldl step s)) := by
  induction l generalizing s with
  | nil => rfl
  | cons x xs ih =>
    rw [forList_cons_cont (h x List.mem_cons_self s), List.foldl_cons]
    exact ih _ (fun y hy => h y (List.mem_cons_of_mem x hy))

@[simp] theorem whileLoop_zero {σ ρ : Type} (body : σ → M (Ctl σ ρ)) (s : σ) : whileLoop body 0 s = .error .fuel := rfl
theorem whileLoop_succ {σ ρ : Type} (body : σ → M (Ctl σ ρ)) (f : Nat) (s : σ) :
    whileLoop body (f + 1) s = (match body s with
      | .error e => .error e
      | .ok (.cont s') => whileLoop body f s'
      | .ok (.brk s') => .ok (.done s')
      | .ok (.ret r) => .ok (.ret r)) := rfl
theorem whileLoop_cont {σ ρ : Type} {body : σ → M (Ctl σ ρ)} {f : Nat} {s s' : σ}
    (h : body s = .ok (.cont s')) : whileLoop body (f + 1) s = whileLoop body f s' := by
  rw [whileLoop_succ, h]
theorem whileLoop_brk {σ ρ : Type} {body : σ → M (Ctl σ ρ)} {f : Nat} {s s' : σ}
    (h : body s = .ok (.brk s')) : whileLoop body (f + 1) s = .ok (.done s') := by
  rw [whileLoop_succ, h]
theorem whileLoop_ret {σ ρ : Type} {body : σ → M (Ctl σ ρ)} {f : Nat} {s : σ} {r : ρ}
    (h : body s = .ok (.ret r)) : whileLoop body (f + 1) s = .ok (.ret r) := by
  rw [whileLoop_succ, h]
theorem whileLoop_error {σ ρ : Type} {body : σ → M (Ctl σ ρ)} {f : Nat} {s : σ} {e : Err}
    (h : body s = .error e) : whileLoop body (f + 1) s = .error e := by
  rw [whileLoop_succ, h]
/-- more fuel does not change a result that is not "out of fuel" -/
theorem whileLoop_mono {σ ρ : Type} (body : σ → M (Ctl σ ρ)) (f g : Nat) (s : σ) (hfg : f ≤ g)
    (h : whileLoop body f s ≠ .error .fuel) : whileLoop body g s = whileLoop body f s := by
  induction f generalizing g s with
  | zero => exact absurd rfl h
  | succ f ih =>
    cases g with
    | zero => omega
    | succ g =>
      rw [whileLoop_succ] at h ⊢
      rw [whileLoop_succ]
      cases hb : body s with
      | error e => rfl
      | ok c =>
        cases c with
        | cont s1 => rw [hb] at h; exact ih g s1 (by omega) h
        | brk s1 => rfl
        | ret r => rfl

/-- `[a, a+step, …]`, `n` elements -/
def rangeFrom (a step : Int) : Nat → List Int
  | 0 => []
  | n + 1 => a :: rangeFrom (a + step) step n

/-- `range(a, b)` -/
def range (a b : Int) : List Int := rangeFrom a 1 (b - a).toNat

theorem range_empty {a b : Int} (h : b ≤ a) : range a b = [] := by
  unfold range; rw [Int.toNat_eq_zero.mpr (by omega)]; rfl
theorem range_cons {a b : Int} (h : a < b) : range a b = a :: range (a + 1) b := by
  unfold range
  have h1 : (b - a).toNat = (b - (a + 1)).toNat + 1 := by omega
  rw [h1]; rfl
theorem rangeFrom_snoc (a step : Int) (n : Nat) : rangeFrom a step (n + 1) = rangeFrom a step n ++ [a + (n : Int) * step] := by
  induction n generalizing a with
  | zero => simp [rangeFrom]
  | succ n ih =>
    rw [rangeFrom, ih (a + step)]
    simp only [rangeFrom, List.cons_append, List.cons.injEq, true_and, List.append_cancel_left_eq]
    rw [Int.natCast_succ, Int.add_mul, Int.one_mul, Int.add_assoc, Int.add_comm step]
    exact ⟨rfl, trivial⟩
theorem range_snoc {a b : Int} (h : a ≤ b) : range a (b + 1) = range a b ++ [b] := by
  unfold range
  have h1 : (b + 1 - a).toNat = (b - a).toNat + 1 := by omega
  rw [h1, rangeFrom_snoc]
  congr 2
  omega
theorem mem_rangeFrom_one {a x : Int} {n : Nat} (h : x ∈ rangeFrom a 1 n) : a ≤ x ∧ x < a + n := by
  induction n generalizing a with
  | zero => exact nomatch h
  | succ n ih =>
    rw [rangeFrom, List.mem_cons] at h
    rcases h with h | h
    · omega
    · have := ih h; omega
theorem mem_range {a b x : Int} (h : x ∈ range a b) : a ≤ x ∧ x < b := by
  have := mem_rangeFrom_one h; omega
theorem rangeFrom_append (a : Int) (m n : Nat) : rangeFrom a 1 (m + n) = rangeFrom a 1 m ++ rangeFrom (a + (m : Int)) 1 n := by
  induction m generalizing a with
  | zero => simp [rangeFrom]
  | succ m ih =>
    rw [show m + 1 + n = (m + n) + 1 by omega, rangeFrom, rangeFrom, ih (a + 1), List.cons_append]
    congr 3; omega
theorem range_append {a b c : Int} (h1 : a ≤ b) (h2 : b ≤ c) : range a c = range a b ++ range b c := by
  unfold range
  have h : (c - a).toNat = (b - a).toNat + (c - b).toNat := by omega
  rw [h, rangeFrom_append]
  congr 2; omega
theorem length_rangeFrom (a step : Int) (n : Nat) : (rangeFrom a step n).length = n := by
  induction n generalizing a with
  | zero => rfl
  | succ n ih => simp [rangeFrom, ih]

/-- `range(a, b, step)`: `a, a+step, …` while `< b` (step > 0) / `> b` (step < 0); `ValueError` when `step == 0` -/
def rangeStep (a b step : Int) : M (List Int) :=
  if step = 0 then .error .value
  else if 0 < step then .ok (rangeFrom a step ((b - a + step - 1) / step).toNat)
  else .ok (rangeFrom a step ((a - b + (-step) - 1) / (-step)).toNat)

/-- `len(L)` -/
@[inline] def len {β : Type} (l : List β) : Int := (l.length : Int)

/-- `L[i]`, `i` any int: Python's negative indices, `IndexError` out of range -/
def getIdx {β : Type} (l : List β) (i : Int) : M β :=
  if 0 ≤ i then getItem l i.toNat
  else if 0 ≤ len l + i then getItem l (len l + i).toNat
  else .error .index

theorem getIdx_natCast {β : Type} (l : List β) (k : Nat) : getIdx l (k : Int) = getItem l k := by
  unfold getIdx; rw [if_pos (by omega)]; rfl
theorem getIdx_nonneg {β : Type} (l : List β) {i : Int} (h : 0 ≤ i) : getIdx l i = getItem l i.toNat := by
  unfold getIdx; rw [if_pos h]
theorem getItem_eq_ok {β : Type} {l : List β} {k : Nat} {v : β} (h : l[k]? = some v) : getItem l k = .ok v := by
  unfold getItem; rw [h]
theorem getItem_eq_error {β : Type} {l : List β} {k : Nat} (h : l[k]? = none) : getItem l k = .error .index := by
  unfold getItem; rw [h]

/-- `enumerate(L)`: the list of pairs (position, element), positions from 0 -/
def enumFrom {β : Type} : Int → List β → List (Int × β)
  | _, [] => []
  | k, x :: xs => (k, x) :: enumFrom (k + 1) xs
@[inline] def enumerate {β : Type} (l : List β) : List (Int × β) := enumFrom 0 l

/-- `[c] * n`: `n` copies of `c`, none when `n ≤ 0` -/
@[inline] def replicate {β : Type} (n : Int) (c : β) : List β := List.replicate n.toNat c

/-- `L[i] = v`, `i` any int: Python's negative indices, `IndexError` out of range; the list with that item replaced -/
def setIdx {β : Type} (l : List β) (i : Int) (v : β) : M (List β) :=
  if 0 ≤ i then (if i.toNat < l.length then .ok (l.set i.toNat v) else .error .index)
  else if 0 ≤ len l + i then .ok (l.set (len l + i).toNat v)
  else .error .index

theorem setIdx_natCast {β : Type} (l : List β) (k : Nat) (v : β) (h : k < l.length) : setIdx l (k : Int) v = .ok (l.set k v) := by
  unfold setIdx; rw [if_pos (by omega), Int.toNat_natCast, if_pos h]
theorem setIdx_natCast_error {β : Type} (l : List β) (k : Nat) (v : β) (h : l.length ≤ k) : setIdx l (k : Int) v = .error .index := by
  unfold setIdx; rw [if_pos (by omega), Int.toNat_natCast, if_neg (by omega)]

/-- `np.zeros((r, c))` as a table: `r` rows of `c` zeros; `ValueError` on a negative dimension -/
def zeros2 {β : Type} (r c : Int) (z : β) : M (List (List β)) :=
  if r < 0 ∨ c < 0 then .error .value else .ok (replicate r (replicate c z))

/-- `T[i, j]` on a table (list of rows): row `i`, then item `j`, each with Python's / numpy's negative indices and `IndexError` -/
def getIdx2 {β : Type} (t : List (List β)) (i j : Int) : M β := bind (getIdx t i) fun r => getIdx r j

/-- `T[i, j] = v` on a table -/
def setIdx2 {β : Type} (t : List (List β)) (i j : Int) (v : β) : M (List (List β)) :=
  bind (getIdx t i) fun r => bind (setIdx r j v) fun r' => setIdx t i r'

/-- reading a variable that may not have been assigned yet -/
@[inline] def getBound {β : Type} : Option β → M β
  | some v => .ok v
  | none => .error .unbound
@[simp] theorem getBound_some {β : Type} (v : β) : getBound (some v) = .ok v := rfl
@[simp] theorem getBound_none {β : Type} : getBound (none : Option β) = .error .unbound := rfl

/-- `x in L` on values with decidable equality (ints, tuples of ints) -/
@[inline] def contains {β : Type} [DecidableEq β] (l : List β) (x : β) : Bool := l.elem x

/-- `L.remove(v)`: the list without the first element equal to `v`; `ValueError` when there is none.
`eqv` is Python's `==` on the elements (the translator passes `feq` for floats, decidable equality for ints). -/
def removeFirst {β : Type} (eqv : β → β → Bool) : List β → β → M (List β)
  | [], _ => .error .value
  | a :: r, v => if eqv a v then .ok r else
      match removeFirst eqv r v with
      | .ok r' => .ok (a :: r')
      | .error e => .error e

/-- int `a >> k` (floor shift), `ValueError` on a negative count -/
@[inline] def ishr (a k : Int) : M Int := if k < 0 then .error .value else .ok (Int.shiftRight a k.toNat)

/-- int `a ** e`: the int `a ^ e` for `e ≥ 0`. For `e < 0` Python returns a FLOAT (`2 ** -1 == 0.5`), which the translator cannot
type: the result is then the error value `Err.type` (NOT Python's behaviour — a tie theorem has to exclude that case). -/
@[inline] def ipow (a e : Int) : M Int := if e < 0 then .error .type else .ok (a ^ e.toNat)

/-- int `abs` -/
@[inline] def iabs (a : Int) : Int := if a < 0 then -a else a

/-- int `min` / `max` of two (CPython: the first unless the second is strictly smaller / greater) -/
@[inline] def imin (a b : Int) : Int := if b < a then b else a
@[inline] def imax (a b : Int) : Int := if a < b then b else a

end TV.Py
