/-! Fixed semantic choices of the Python → Lean translator `tools/py2lean.py` (core Lean only).

The translator maps the `ast` of ONE whitelisted pure numeric Python function to ONE Lean `def` in
`lean/TracklibVerif/Gen/*.lean` (regenerated from /repo's current source on every run). Everything that is not
a literal copy of the Python text is decided HERE, once, and is what must be read to trust the tie:

* A Python function becomes a function into `M τ = Except Err τ`: `.ok v` is "returns `v`", `.error e` is
  "raises" (`ZeroDivisionError`, `IndexError`, `TypeError`). Statements are sequenced with `bind`, in
  Python's evaluation order (left to right, operands before the operation, the condition of an `if` before
  its branches). `return` ends the function: statements after it on the same path are dropped.
  `if c: A else: B` followed by `rest` is `if c then ⟦A; rest⟧ else ⟦B; rest⟧`.
* A Python `float` is a value of an abstract scalar type `α` with exactly the operations the function uses
  (`Add`, `Sub`, `Mul`, `Div`, `Neg`, `LT`, `LE` and their decision procedures, literals through
  `OfNat α n` for an integer literal `n` met in float arithmetic and `OfScientific α` for a literal with a
  decimal point or an exponent). Nothing is assumed about these operations: the generated definitions
  evaluate at `Float` (IEEE doubles, Python's floats) and at `Rat`, and the tie theorems hold for every `α`.
  `+ - * unary-` are the class operations with Python's association.
* `a / b` on floats (`fdiv`): `ZeroDivisionError` when `b == 0` (true for `0.0` and `-0.0`, false for NaN),
  else the class division.
* `a == b` on floats (`feq`): `a ≤ b ∧ b ≤ a`. On IEEE doubles this is Python's `==` (false when either side
  is NaN, `0.0 == -0.0`); on an ordered field it is equality. `!=` is its negation.
  `a < b`, `a <= b` are `decide (a < b)`, `decide (a ≤ b)`; `a > b`, `a >= b` are the same with the operands
  swapped (`b < a`, `b ≤ a`; both operands are pure values at that point, so the swap is not observable).
* `and` / `or` / `not` / `&` / `|` on `bool`s are `&&` / `||` / `!` (the translator only accepts them when
  both operands are already-evaluated boolean values, so short-circuiting is not observable).
* `math.fabs(v)` and `abs(v)` on a float (`fabs`): `v` if `0 < v` else `0 - v` (same double as C's `fabs` for
  every double including `-0.0`; NaN stays NaN).
* `min(a, b)` / `max(a, b)` on floats (`fmin` / `fmax`): CPython's rule — the first argument unless the
  second is strictly smaller / strictly greater.
* `x ** y` and `pow(x, y)` with a float operand are a parameter `pow : α → α → α` (C's `pow`; the exceptions Python
  raises for `0.0 ** -1` or a negative base with a fractional exponent are NOT modelled).
* `math.sqrt`, `math.sin`, … are NOT interpreted: they are function parameters of the generated definition
  (`sqrt : α → α`), instantiated by libm in the driver and by Mathlib's real functions in theorems. Their
  `ValueError` on a domain error (e.g. `math.sqrt(-1.0)`) is NOT modelled.
* `math.floor(x)` is a parameter `floor : α → Int`, `int(x)` on a float a parameter `trunc : α → Int`, `math.pi` a
  parameter `pi : α` (uninterpreted, like `sqrt`); `x.is_integer()` is `float(floor(x)) == x` (`isInteger`).
* An object parameter (`self`, `coord`) is declared in the translator's signature with the attributes and the
  argument-less accessor methods the function reads; each is one parameter of the generated definition
  (`self_xmin`, `coord_getX`): the accessors are ASSUMED to be pure getters, they are not translated.
* Strings (`"…"`, `"…".format(…)`, `str(…)`, `+` of those) and `print(…)` are not rendered; they can only flow
  into `print`, and their sub-expressions are assumed not to raise.
* `L[k]` with a literal `k ≥ 0` on a list (`getItem`): `IndexError` when `k ≥ len(L)`.
  `x.append(e)` on a list created in the same function is `x := x ++ [e]`.
* A Python `int` is a Lean `Int`; `%` and `//` are the floor versions (`Int.fmod`, `Int.fdiv`) with
  `ZeroDivisionError` on a zero divisor; `==` is decidable equality.
* An `int` met in float arithmetic is converted (`IntCast α`); an integer LITERAL there is the literal of `α`.
-/
namespace TV.Py

/-- the Python exceptions the translated subset can raise -/
inductive Err where
  | zerodiv   -- ZeroDivisionError
  | index     -- IndexError
  | type      -- TypeError (e.g. subscripting `None`)
  | exit      -- SystemExit (`exit()`; never produced by the translator, present for the same reason as `unbound`)
  | unbound   -- UnboundLocalError (never produced by the translator: a possibly unbound name is refused;
              -- present so that the error types of the models embed into this one)
  deriving DecidableEq, Repr

/-- result of a Python call: a value or an exception -/
abbrev M := Except Err

/-- sequencing -/
@[inline] def bind {β γ : Type} (m : M β) (f : β → M γ) : M γ :=
  match m with
  | .error e => .error e
  | .ok v => f v

@[simp] theorem bind_ok {β γ : Type} (v : β) (f : β → M γ) : bind (.ok v) f = f v := rfl
@[simp] theorem bind_error {β γ : Type} (e : Err) (f : β → M γ) : bind (.error e : M β) f = .error e := rfl

/-- `if_pos` / `if_neg` with the `Decidable` instance found by unification (proof helpers of the tie modules:
after unfolding, the instance argument of an `if` may be a different, definitionally equal term) -/
theorem ite_pos' {c : Prop} {inst : Decidable c} {β : Sort _} {t e : β} (h : c) : @ite β c inst t e = t :=
  @if_pos c inst h β t e
theorem ite_neg' {c : Prop} {inst : Decidable c} {β : Sort _} {t e : β} (h : ¬c) : @ite β c inst t e = e :=
  @if_neg c inst h β t e

section scalar
variable {α : Type}

/-- float `a == b` -/
@[inline] def feq [LE α] [DecidableLE α] (a b : α) : Bool := decide (a ≤ b) && decide (b ≤ a)

/-- float `a / b` -/
@[inline] def fdiv [Div α] [LE α] [DecidableLE α] [OfNat α 0] (a b : α) : M α :=
  if feq b 0 then .error .zerodiv else .ok (a / b)

/-- proof helper: a division that did not raise is the plain division -/
theorem bind_fdiv_ok [Div α] [LE α] [DecidableLE α] [OfNat α 0] {β : Type} {a b : α} {f : α → M β} {v : β}
    (h : bind (fdiv a b) f = .ok v) : f (a / b) = .ok v := by
  unfold fdiv at h
  by_cases hz : feq b 0 = true
  · rw [ite_pos' hz] at h; exact nomatch h
  · rw [ite_neg' hz] at h; exact h

/-- `math.fabs(v)`, `abs(v)` on a float -/
@[inline] def fabs [Sub α] [LT α] [DecidableLT α] [OfNat α 0] (v : α) : α := if 0 < v then v else 0 - v

/-- `min(a, b)` -/
@[inline] def fmin [LT α] [DecidableLT α] (a b : α) : α := if b < a then b else a

/-- `max(a, b)` -/
@[inline] def fmax [LT α] [DecidableLT α] (a b : α) : α := if a < b then b else a

/-- `x.is_integer()` on a float, `floor` being `math.floor`: `float(floor(x)) == x` -/
@[inline] def isInteger [LE α] [DecidableLE α] [IntCast α] (floor : α → Int) (x : α) : Bool :=
  feq ((floor x : Int) : α) x

end scalar

/-- `L[k]`, `k` a non-negative literal -/
def getItem {β : Type} (l : List β) (k : Nat) : M β :=
  match l[k]? with
  | some v => .ok v
  | none => .error .index

@[simp] theorem getItem_zero {β : Type} (a : β) (l : List β) : getItem (a :: l) 0 = .ok a := rfl
@[simp] theorem getItem_succ {β : Type} (a : β) (l : List β) (k : Nat) : getItem (a :: l) (k + 1) = getItem l k := rfl
@[simp] theorem getItem_nil {β : Type} (k : Nat) : getItem ([] : List β) k = .error .index := rfl

/-- int `a % b` (sign of the divisor) -/
@[inline] def imod (a b : Int) : M Int := if b = 0 then .error .zerodiv else .ok (Int.fmod a b)

/-- int `a // b` (floor) -/
@[inline] def ifloordiv (a b : Int) : M Int := if b = 0 then .error .zerodiv else .ok (Int.fdiv a b)

end TV.Py
