import TracklibVerif.Model.Viterbi
/-! # Front end of `HMM.estimate` (tracklib/algo/dynamics.py) — what a call reads and what it writes

`Model/Viterbi.lean` is the decoder on cost tables. This file models the rest of `HMM.estimate` as it is
written, so that a *history* of calls (several decodings of one track, of a copy, with another model, with
the `log` flag changed in between, on a track that already carries `hmm_inference` / `hmm_cost`) has a
model:

* the HMM object: the user functions `S`, `Q`, `P` and the flag `log`
  (`self.log = self.log or log` is the first statement of `estimate`: the argument is *or*-ed into the object
  and stays there);
* the track as far as this path reads or writes it: the analytical-feature table (names in creation order,
  one column per name; column-major here, `Obs.features` rows in Python — the two are kept in step by
  `createAnalyticalFeature`, the only writer of the dictionary) and, for the modes 3, 4, 5, the positions
  overwritten by the decoded states;
* preprocessing: `STATES[k] = S(track, k)` for every epoch, `OBS[k] = __getObs(track, obs, k, mode)`
  (`getObsAnalyticalFeatures`, then for the modes 1, 3 / 2, 4 the first two / three fields become one
  `Coords`; fewer fields = `exit()`), both compiled BEFORE anything is written;
* the cost tables the decoder works on: `-Plog(STATES[k][l], OBS[k], k, track)`,
  `-Qlog(STATES[k][m], STATES[k+1][l], k, track)` with the flag of THIS call;
* the backward step with its writes: `createAnalyticalFeature("hmm_inference")`, `("hmm_cost")` (no-ops when
  the names exist: the old values stay until they are overwritten), `numpy.argmin` of the last column, then per
  epoch from the last one down `setObsAnalyticalFeature("hmm_inference", k, STATES[k][idk])` — the STATE
  object, not its index —, `("hmm_cost", k, TAB_VAL[k][idk])`, the position in modes 3, 4, 5, and the
  back-pointer. An `IndexError` on an epoch without candidates leaves the writes made so far.

Objects. A state is represented by a label (`Nat`), a position by a reference: `pos[k] = none` is the track's own
`Coords` object of epoch `k` (coordinates `xyz[k]`), `pos[k] = some s` the state object `s` (coordinates
`Num.stXYZ s`) that a decoding in mode 3, 4, 5 has BOUND there (`track[k].position = STATES[k][idk]` rebinds the
attribute; no `Coords` object is written, which is why neither `xyz` nor `stXYZ` has a writer in this file). The
names `x`, `y`, `z` as observations read the coordinates of whatever object the position is at that moment.
What `S` returns is only used through `len(…)` and `[i]`, and `math.log` raises outside its domain: `SRet`,
`domainError`, `estimateS` (`estimate` itself is the call for list-like returns and values inside the domain). The user
functions receive the track and may read it: `h.S tr`, `h.Q … tr`, `h.P … tr` are all evaluated on the argument `tr` of
the call, never on a track the call has started to write. They may also raise: `ObjX`, `estimateX` at the end of the
file (what the driver runs).

`mode` only selects how the observation handed to `P` is assembled and whether positions are overwritten;
there is no decoding mode other than Viterbi. `verbose` only prints (the strings are built in every case,
which is why a missing entry raises before the write) and is not a parameter of the model.
State objects are represented by a label (`Nat`); a cell of the feature table holds a number or a state. -/
namespace TV.Hmm
open TV.Viterbi

/-- what a feature cell can hold on this path -/
inductive Cell (α : Type) where
  | num (v : α)     -- a number: an observation value, a recorded cost, the initial `0.0`
  | st (s : Nat)    -- a state object (what `S` returned), by label
  deriving DecidableEq

/-- one field of the observation handed to `P` -/
inductive ObsItem (α : Type) where
  | cell (c : Cell α)
  | coords (x y z : Cell α)   -- `makeCoords(y[0], y[1], 0.0 | y[2], srid)`

/-- the track as far as `estimate` reads and writes it -/
structure Trk (α : Type) where
  size : Nat
  cols : List (String × List (Cell α))   -- `__analyticalFeaturesDico` order, with the column of each name
  pos : List (Option Nat)                -- `some s`: the position of that epoch was replaced by state `s`
  xyz : List (α × α × α) := []           -- coordinates of the track's own position objects (never written here)

inductive Err where
  | index        -- IndexError
  | value        -- ValueError (numpy.argmin of an empty sequence)
  | exit         -- exit() in __getObs
  | unknownAF    -- AnalyticalFeatureError "track does not contain analytical feature"
  | reservedAF   -- AnalyticalFeatureError "... is not available"
  | emptyTrack   -- AnalyticalFeatureError "... there is no observation in track"
  | unsupported  -- outside the model (t, timestamp as feature names; writing x, y, z); never generated
  | type         -- TypeError: `len(STATES[k])` of something that has no length
  | user         -- whatever exception a user function (`S`, `Q`, `P`) raised: it propagates out of `estimate`
  deriving DecidableEq

/-- constants and functions of the scalar type that the code uses -/
structure Num (α : Type) where
  logf : α → α      -- math.log
  eps : α           -- 1e-300
  big : α           -- 1e300
  zero : α          -- 0.0
  idx : Nat → α     -- the number an epoch index is
  logDom : α → Bool := fun _ => true
                    -- `math.log x` is defined (x > 0, or x is NaN); elsewhere it raises ValueError
  stXYZ : Nat → α × α × α := fun s => (idx s, zero, zero)
                    -- coordinates of the state object `s` when states are positions (read through `x`, `y`, `z`
                    -- after a decoding in mode 3, 4, 5); a constant of the session: `estimate` never writes a state

variable {α : Type}

def reserved : List String := ["x", "y", "z", "t", "timestamp", "idx"]

namespace Trk
/-- `name in self.__analyticalFeaturesDico` -/
def has (tr : Trk α) (name : String) : Bool := tr.cols.any (fun c => c.1 == name)
def col? (tr : Trk α) (name : String) : Option (List (Cell α)) := (tr.cols.find? (fun c => c.1 == name)).map (·.2)
/-- the cell of feature `name` at epoch `i`, if there is one (reading without the error kinds) -/
def get? (tr : Trk α) (name : String) (i : Nat) : Option (Cell α) := (tr.col? name).bind (·[i]?)

/-- the coordinates of `track[i].position`: of the state object bound there by a decoding in mode 3, 4, 5, else of
the track's own object -/
def posXYZ (nm : Num α) (tr : Trk α) (i : Nat) : Option (α × α × α) :=
  match tr.pos[i]? with
  | some (some s) => some (nm.stXYZ s)
  | some none => tr.xyz[i]?
  | none => none

/-- `Track.getObsAnalyticalFeature(name, i)` -/
def getObs (nm : Num α) (tr : Trk α) (name : String) (i : Nat) : Except Err (Cell α) :=
  if name == "idx" then .ok (.num (nm.idx i))
  else if name == "x" then (match tr.posXYZ nm i with | some p => .ok (.num p.1) | none => .error .index)
  else if name == "y" then (match tr.posXYZ nm i with | some p => .ok (.num p.2.1) | none => .error .index)
  else if name == "z" then (match tr.posXYZ nm i with | some p => .ok (.num p.2.2) | none => .error .index)
  else if name ∈ ["t", "timestamp"] then .error .unsupported
  else match tr.col? name with
    | none => .error .unknownAF
    | some c => match c[i]? with
      | some v => .ok v
      | none => .error .index

/-- `Track.createAnalyticalFeature(name, val_init)` with a scalar initial value: nothing happens when the
name is already there -/
def create (tr : Trk α) (name : String) (init : Cell α) : Except Err (Trk α) :=
  if name ∈ reserved then .error .reservedAF
  else if tr.size = 0 then .error .emptyTrack
  else if tr.has name then .ok tr
  else .ok { tr with cols := tr.cols ++ [(name, List.replicate tr.size init)] }

/-- `Track.createAnalyticalFeature(name, list)` with one value per observation -/
def createL (tr : Trk α) (name : String) (vals : List (Cell α)) : Except Err (Trk α) :=
  if name ∈ reserved then .error .reservedAF
  else if tr.size = 0 then .error .emptyTrack
  else if tr.has name then .ok tr
  else if vals.length = tr.size then .ok { tr with cols := tr.cols ++ [(name, vals)] }
  else .error .unsupported

/-- `Track.setObsAnalyticalFeature(name, i, val)` -/
def setObs (tr : Trk α) (name : String) (i : Nat) (v : Cell α) : Except Err (Trk α) :=
  if name ∈ ["x", "y", "z"] then .error .unsupported
  else if !tr.has name then .error .unknownAF
  else if i < tr.size then
    .ok { tr with cols := tr.cols.map (fun c => if c.1 == name then (c.1, c.2.set i v) else c) }
  else .error .index

/-- `track[k].position = state` -/
def setPos (tr : Trk α) (k : Nat) (s : Nat) : Trk α := { tr with pos := tr.pos.set k (some s) }
/-- `if mode in [3, 4, 5]: track[k].position = STATES[k][idk]` -/
def posStep (tr : Trk α) (mode k s : Nat) : Trk α := if mode = 3 ∨ mode = 4 ∨ mode = 5 then tr.setPos k s else tr
end Trk

/-- `HMM.__getObs(track, obs, k, mode)` before `unlistify` (a one-element list is handed to `P` as its element;
the model keeps the list) -/
def getObsK (nm : Num α) (tr : Trk α) (obs : List String) (k : Nat) (mode : Nat) :
    Except Err (List (ObsItem α)) :=
  match obs.mapM (fun name => tr.getObs nm name k) with
  | .error e => .error e
  | .ok y =>
    if mode = 1 ∨ mode = 3 then
      match y with
      | a :: b :: rest => .ok (ObsItem.coords a b (.num nm.zero) :: rest.map ObsItem.cell)
      | _ => .error .exit
    else if mode = 2 ∨ mode = 4 then
      match y with
      | a :: b :: c :: rest => .ok (ObsItem.coords a b c :: rest.map ObsItem.cell)
      | _ => .error .exit
    else .ok (y.map ObsItem.cell)

/-- the HMM object: `S(track, k)`, `Q(s1, s2, k, track)`, `P(s, y, k, track)` and the flag -/
structure Obj (α : Type) where
  S : Trk α → Nat → List Nat
  Q : Nat → Nat → Nat → Trk α → α
  P : Nat → List (ObsItem α) → Nat → Trk α → α
  log : Bool

section
variable [Add α] [Neg α]

/-- the cost tables of one call: every entry is a call of `Plog` / `Qlog` on the states and observations compiled
from the track as it is when the call is made, negated at the call site -/
def tablesOf (nm : Num α) (h : Obj α) (tr : Trk α) (STATES : List (List Nat)) (OBS : List (List (ObsItem α))) :
    Tables α :=
  { n := fun k => (STATES.getD k []).length
    obs := fun k l => costOf nm.logf nm.eps h.log (h.P ((STATES.getD k []).getD l 0) (OBS.getD k []) k tr)
    trans := fun k m l => costOf nm.logf nm.eps h.log
      (h.Q ((STATES.getD k []).getD m 0) ((STATES.getD (k+1) []).getD l 0) k tr)
    add := (· + ·)
    big := nm.big }
end

/-- the backward loop with its writes: `cols` are the columns of the epochs `cols.length - 1, …, 0` (latest
first), `idk` the index at the first of them. Returns the track as it is when the loop ends or raises. -/
def writeBack (mode : Nat) (STATES : List (List Nat)) :
    List (List α × List Nat) → Nat → Trk α → Trk α × Option Err
  | [], _, tr => (tr, none)
  | c :: rest, idk, tr =>
    let k := rest.length
    match c.1[idk]?, c.2[idk]?, (STATES.getD k [])[idk]? with
    | some v, some m, some s =>
      match tr.setObs "hmm_inference" k (.st s) with
      | .error e => (tr, some e)
      | .ok tr1 =>
        match tr1.setObs "hmm_cost" k (.num v) with
        | .error e => (tr1, some e)
        | .ok tr2 =>
          writeBack mode STATES rest m (tr2.posStep mode k s)
    | _, _, _ => (tr, some .index)

/-- `HMM.estimate(track, obs, log, mode)`: the object and the track after the call, and the exception if one
was raised (the effects made before it stay) -/
def estimate [Add α] [Neg α] [LT α] [DecidableLT α] [BEq α] (nm : Num α) (h : Obj α) (tr : Trk α)
    (obs : List String) (log : Bool) (mode : Nat) : Obj α × Trk α × Option Err :=
  let h := { h with log := h.log || log }
  let STATES := (List.range tr.size).map (h.S tr)
  match (List.range tr.size).mapM (fun k => getObsK nm tr obs k mode) with
  | .error e => (h, tr, some e)
  | .ok OBS =>
    match tr.size with
    | 0 => (h, tr, some .index)                      -- TAB_MRK[0]
    | N+1 =>
      match forward (tablesOf nm h tr STATES OBS) N with
      | [] => (h, tr, some .index)
      | c :: rest =>
        match tr.create "hmm_inference" (.num nm.zero) with
        | .error e => (h, tr, some e)
        | .ok tr1 =>
          match tr1.create "hmm_cost" (.num nm.zero) with
          | .error e => (h, tr1, some e)
          | .ok tr2 =>
            match argmin? c.1 with
            | none => (h, tr2, some .value)
            | some idk =>
              let r := writeBack mode STATES (c :: rest) idk tr2
              (h, r.1, r.2)

/-! ### what `S` may return

`estimate` uses `S(track, k)` only through `len(STATES[k])` and `STATES[k][i]` (`i` a Python int or the
`numpy.int64` of `argmin`): a list, a tuple, a `range`, a numpy array, a `deque`, any object with `__len__` and
`__getitem__` is a candidate "list" of its items in index order; the container is never written. Something without
a length (a generator, `None`, a bare state object) makes `len(STATES[k])` raise `TypeError` in the loop that
allocates `TAB_MRK` / `TAB_VAL` — after `S` has been called for EVERY epoch and the flag has been or-ed into the
object, before the observations are compiled and before anything is written to the track. -/

/-- what `S(track, k)` returned, as far as `estimate` can tell -/
inductive SRet where
  | sized (items : List Nat)   -- `len` and integer indexing: the candidates in index order
  | unsized                    -- no `__len__`
  deriving DecidableEq

def SRet.items : SRet → List Nat
  | .sized l => l
  | .unsized => []

def SRet.isSized : SRet → Bool
  | .sized _ => true
  | .unsized => false

/-- the HMM object with an `S` that may return anything -/
structure ObjS (α : Type) where
  S : Trk α → Nat → SRet
  Q : Nat → Nat → Nat → Trk α → α
  P : Nat → List (ObsItem α) → Nat → Trk α → α
  log : Bool

/-- the object `estimate` works with once every `S(track, k)` has a length -/
def ObjS.toObj (h : ObjS α) : Obj α := { S := fun tr k => (h.S tr k).items, Q := h.Q, P := h.P, log := h.log }

/-- `math.log` outside its domain. `Qlog` / `Plog` evaluate `math.log(v + 1e-300)` for EVERY candidate of every epoch
and every pair of candidates of consecutive epochs (first column, then the forward loops, all before the backward
step, i.e. before anything is written); `v + 1e-300 ≤ 0` — a negative "likelihood" — raises `ValueError`. With the
flag set nothing is converted. `h` is the object with the flag of this call. -/
def domainError [Add α] (nm : Num α) (h : Obj α) (tr : Trk α) (STATES : List (List Nat))
    (OBS : List (List (ObsItem α))) : Bool :=
  !h.log && (List.range STATES.length).any fun k =>
    ((STATES.getD k []).any fun s => !nm.logDom (h.P s (OBS.getD k []) k tr + nm.eps)) ||
    (decide (k + 1 < STATES.length) && (STATES.getD k []).any fun s1 => (STATES.getD (k+1) []).any fun s2 =>
      !nm.logDom (h.Q s1 s2 k tr + nm.eps))

/-- `HMM.estimate` for any return type of `S` and any numbers returned by `P`, `Q`: `TypeError` when some
`S(track, k)` has no length; otherwise, when the observations can be compiled and the track is not empty, `ValueError`
when a value that is to be converted is outside the domain of `math.log`; otherwise `estimate` on the items. -/
def estimateS [Add α] [Neg α] [LT α] [DecidableLT α] [BEq α] (nm : Num α) (h : ObjS α) (tr : Trk α)
    (obs : List String) (log : Bool) (mode : Nat) : ObjS α × Trk α × Option Err :=
  if (List.range tr.size).all (fun k => (h.S tr k).isSized) then
    let o := h.toObj
    let dom := match (List.range tr.size).mapM (fun k => getObsK nm tr obs k mode) with
      | .ok OBS => tr.size != 0 &&
          domainError nm { o with log := o.log || log } tr ((List.range tr.size).map (o.S tr)) OBS
      | .error _ => false
    if dom then ({ h with log := h.log || log }, tr, some .value)
    else
      let r := estimate nm o tr obs log mode
      ({ h with log := r.1.log }, r.2.1, r.2.2)
  else ({ h with log := h.log || log }, tr, some .type)

/-! ### user functions that raise

`estimate` calls the user functions in a fixed order and catches nothing: `S(track, k)` for every epoch (the first loop,
before any `len`), then — after `TAB_MRK` / `TAB_VAL` are allocated and the observations compiled — `Plog` for every
candidate of epoch 0, then per epoch `k ≥ 1`, per candidate `l` of it, `Qlog` for every candidate `m` of epoch `k-1` and
then `Plog` for `l`. All of that precedes the backward step, the only place where the track is written. The first call
that raises ends `estimate` with that exception; `math.log` outside its domain (`ValueError`) is one of the possible
exceptions of a `Qlog` / `Plog` call, in the same order. -/

/-- the HMM object whose user functions may raise (`none`) -/
structure ObjX (α : Type) where
  S : Trk α → Nat → Option SRet
  Q : Nat → Nat → Nat → Trk α → Option α
  P : Nat → List (ObsItem α) → Nat → Trk α → Option α
  log : Bool

/-- the object as `estimateS` sees it when no call raises (`dflt` stands for values that are never looked at) -/
def ObjX.toObjS (h : ObjX α) (dflt : α) : ObjS α :=
  { S := fun tr k => (h.S tr k).getD .unsized
    Q := fun s1 s2 k tr => (h.Q s1 s2 k tr).getD dflt
    P := fun s y k tr => (h.P s y k tr).getD dflt
    log := h.log }

/-- what one call of `Qlog` / `Plog` does, given what the user function did: the user's exception, `ValueError` of
`math.log(v + 1e-300)` when the flag is unset and the value is outside the domain, or a normal return (`none`) -/
def callErr [Add α] (nm : Num α) (log : Bool) : Option α → Option Err
  | none => some .user
  | some v => if !log && !nm.logDom (v + nm.eps) then some .value else none

/-- the first exception of a sequence of calls -/
def firstErr : List (Option Err) → Option Err
  | [] => none
  | none :: rest => firstErr rest
  | some e :: _ => some e

/-- the `Plog` / `Qlog` calls of the first column and of the forward pass, in the order they are made -/
def callsOf [Add α] (nm : Num α) (log : Bool) (h : ObjX α) (tr : Trk α) (STATES : List (List Nat))
    (OBS : List (List (ObsItem α))) : List (Option Err) :=
  (STATES.getD 0 []).map (fun s => callErr nm log (h.P s (OBS.getD 0 []) 0 tr)) ++
  (List.range (STATES.length - 1)).flatMap fun k =>
    (STATES.getD (k+1) []).flatMap fun s2 =>
      (STATES.getD k []).map (fun s1 => callErr nm log (h.Q s1 s2 k tr)) ++
        [callErr nm log (h.P s2 (OBS.getD (k+1) []) (k+1) tr)]

/-- `HMM.estimate` with user functions that may raise: the flag of the object after the call, the track, the exception.
`S` raising at some epoch, or — every `S(track, k)` having a length, the observations compiled, the track not empty —
the first failing call of the first column / forward pass being a user function's exception: that exception, nothing
written; in every other case `estimateS` (a `TypeError`, an error of the observations, a `ValueError` of `math.log`
that comes first, or the decoding). -/
def estimateX [Add α] [Neg α] [LT α] [DecidableLT α] [BEq α] (nm : Num α) (h : ObjX α) (tr : Trk α)
    (obs : List String) (log : Bool) (mode : Nat) : Bool × Trk α × Option Err :=
  if (List.range tr.size).any (fun k => (h.S tr k).isNone) then (h.log || log, tr, some .user)
  else
    let o := h.toObjS nm.zero
    let userFirst :=
      (List.range tr.size).all (fun k => (o.S tr k).isSized) &&
      match (List.range tr.size).mapM (fun k => getObsK nm tr obs k mode) with
      | .ok OBS => tr.size != 0 &&
          firstErr (callsOf nm (h.log || log) h tr ((List.range tr.size).map (fun k => (o.S tr k).items)) OBS) == some .user
      | .error _ => false
    if userFirst then (h.log || log, tr, some .user)
    else
      let r := estimateS nm o tr obs log mode
      (r.1.log, r.2.1, r.2.2)
end TV.Hmm
