/-! Model of `tracklib/core/network.py`: `Network.addEdge` (NEXT_EDGES), `run_routing_forward`
(Dijkstra mode), `shortest_distance`, `all_shortest_distances`, `prepare`,
`prepared_shortest_distance`, `run_routing_backward`, `shortest_path`; and of
`priority_dict.pop_smallest` (`tracklib/core/utils.py`) as "extract the entry with the smallest
`(priority, node id)`" (heap entries are `(poids, Node)` tuples, `Node.__lt__` compares ids).

Nodes are `0 … n-1` (the index order is the order of the node ids, which is what breaks ties in the
heap); edge ids are assumed unique (`EDGES` is a dict keyed by id). `poids = -1` is `none`.
A* mode (`routing_mode = 1`: same labels and relaxation, the queue ordered by `poids + heuristic`) is `Model/GraphAStar.lean`. The functions here are pure (one search on a fresh labelling);
`Model/GraphSession.lean` has the same calls as a state machine on one object (flags, `DISTANCES` and a caller's
dictionary carried from call to call, `__resetFlags`, `addNode` / `addEdge` between searches), `Model/GraphPD.lean` the
loop with the explicit `priority_dict` (`Model/PDict.lean`) on the modelled `heapq` (`Model/Heapq.lean`). Core Lean only. -/
namespace TV.Graph
structure Edge (W : Type) where
  id : Nat := 0
  src : Nat
  tgt : Nat
  w : W
  ori : Int          -- ≥ 0 : src→tgt permitted ; ≤ 0 : tgt→src permitted
structure Net (W : Type) where
  n : Nat
  edges : List (Edge W)

variable {W : Type}

/-- NEXT_EDGES[u] as filled by addEdge (insertion order) -/
def nextEdges (net : Net W) (u : Nat) : List (Edge W) :=
  net.edges.filter (fun e => (decide (0 ≤ e.ori) && decide (e.src = u)) || (decide (e.ori ≤ 0) && decide (e.tgt = u)))

/-- `fils = e.target; if fils == pere: fils = e.source` -/
def other (e : Edge W) (u : Nat) : Nat := if e.tgt = u then e.src else e.tgt

structure St (W : Type) where
  d : Nat → Option W       -- poids (none = -1)
  vis : Nat → Bool         -- visite
  pred : Nat → Option (Nat × Nat)   -- (antecedent node, antecedent_edge id); none = ""

def St.init (s : Nat) [OfNat W 0] : St W :=
  { d := fun v => if v = s then some 0 else none, vis := fun _ => false, pred := fun _ => none }

variable [LT W] [DecidableLT W] [Add W]

/-- scan nodes 0..k-1 keeping the first strict minimum among labelled unvisited nodes (heap order (poids, id)) -/
def popMinAux (st : St W) : Nat → Option (Nat × W)
  | 0 => none
  | k+1 =>
    let best := popMinAux st k
    if st.vis k then best else
    match st.d k with
    | none => best
    | some x => match best with
      | none => some (k, x)
      | some (u, y) => if x < y then some (k, x) else some (u, y)

def relaxOne (u : Nat) (du : W) (st : St W) (e : Edge W) : St W :=
  let v := other e u
  if st.vis v then st else
  let upd : St W := { st with d := fun z => if z = v then some (du + e.w) else st.d z,
                              pred := fun z => if z = v then some (u, e.id) else st.pred z }
  match st.d v with
  | none => upd
  | some y => if du + e.w < y then upd else st

def step (net : Net W) (st : St W) : Option (St W) :=
  match popMinAux st net.n with
  | none => none
  | some (u, du) =>
    let st1 : St W := { st with vis := fun z => if z = u then true else st.vis z }
    some ((nextEdges net u).foldl (relaxOne u du) st1)

def run (net : Net W) : Nat → St W → St W
  | 0, st => st
  | f+1, st => match step net st with
    | none => st
    | some st' => run net f st'

/-! ### the loop as `run_routing_forward` has it: target stop, cut-off, `output_dict` -/

/-- one iteration after the stop tests: `pere.visite = True` and the loop over `NEXT_EDGES[pere]` -/
def settle (net : Net W) (st : St W) (u : Nat) (du : W) : St W :=
  (nextEdges net u).foldl (relaxOne u du) { st with vis := fun z => if z = u then true else st.vis z }

/-- `(pere.poids > cut) or (pere.id == target)`; `cut = none` is the default `1e300` (no cut-off),
`target = none` is `target=None`. -/
def stops (target : Option Nat) (cut : Option W) (u : Nat) (du : W) : Bool :=
  (match cut with | some c => decide (c < du) | none => false) ||
  (match target with | some t => decide (u = t) | none => false)

/-- the `while len(fil) != 0` loop; `out` = the `(pere.id, pere.poids)` entries written to
`output_dict` so far, in pop order. The stop tests come BEFORE recording / settling. -/
def forward (net : Net W) (target : Option Nat) (cut : Option W) :
    Nat → St W → List (Nat × W) → St W × List (Nat × W)
  | 0, st, out => (st, out)
  | f+1, st, out =>
    match popMinAux st net.n with
    | none => (st, out)
    | some (u, du) =>
      if stops target cut u du then (st, out)
      else forward net target cut f (settle net st u du) (out ++ [(u, du)])

/-- `run_routing_forward(source, target, cut, output_dict)`: final node flags and the recorded entries.
Fuel `n`: every iteration settles a new node. -/
def runForward [OfNat W 0] (net : Net W) (s : Nat) (target : Option Nat) (cut : Option W) :
    St W × List (Nat × W) :=
  forward net target cut net.n (St.init s) []

/-- `shortest_distance(source, target, cut)` = `NODES[target].poids` (`none` = -1) -/
def shortestDistance [OfNat W 0] (net : Net W) (s t : Nat) (cut : Option W) : Option W :=
  (runForward net s (some t) cut).1.d t

/-- `shortest_distance(source, None, cut)`: the labels of all nodes in insertion order `order`
(`none` is rendered `1e300` by the code) -/
def shortestDistanceList [OfNat W 0] (net : Net W) (order : List Nat) (s : Nat) (cut : Option W) :
    List (Option W) :=
  order.map (runForward net s none cut).1.d

/-- the `{(source, node): distance}` dictionary, as a finite map (absent key = `none`) -/
abbrev Table (W : Type) := Nat × Nat → Option W

def Table.empty : Table W := fun _ => none

/-- `d[k] = v` -/
def Table.set (tb : Table W) (k : Nat × Nat) (v : W) : Table W := fun k' => if k' = k then some v else tb k'

/-- `output_dict[(source, pere.id)] = pere.poids` for every entry recorded by one forward pass -/
def record (tb : Table W) (s : Nat) (out : List (Nat × W)) : Table W :=
  out.foldl (fun tb p => tb.set (s, p.1) p.2) tb

/-- `all_shortest_distances(cut, output_dict)`: one forward pass per node, in insertion order -/
def allShortestDistances [OfNat W 0] (net : Net W) (order : List Nat) (cut : Option W) (tb : Table W) :
    Table W :=
  order.foldl (fun tb s => record tb s (runForward net s none cut).2) tb

/-- `prepare(cut)`: `DISTANCES` (created empty when `None`) is filled by `all_shortest_distances` -/
def prepare [OfNat W 0] (net : Net W) (order : List Nat) (cut : Option W) (distances : Option (Table W)) :
    Table W :=
  allShortestDistances net order cut (distances.getD Table.empty)

/-- `prepared_shortest_distance(source, target)`; `none` is rendered `1e300` -/
def preparedShortestDistance (tb : Table W) (s t : Nat) : Option W := tb (s, t)

/-! ### `run_routing_backward` (as it is after fix 9d0d428) and `shortest_path` -/

/-- node positions and edge polylines (by edge id) -/
structure Geo (P : Type) where
  pos : Nat → P
  line : Nat → List P

/-- `self.EDGES[id]` -/
def findEdge (net : Net W) (id : Nat) : Option (Edge W) := net.edges.find? (fun e => e.id == id)

inductive Back (P : Type) where
  | none                                         -- `return None`
  | diverge                                      -- the Python loop would not end / KeyError (proved impossible)
  | path (nodes : List Nat) (geom : List P)      -- `track.path`, coordinates of the returned track
deriving Repr, DecidableEq

/-- the `while node.antecedent != "":` loop; `nodes` = NODES_PATH, `track` = points of `track` -/
def backAux {P : Type} (net : Net W) (geo : Geo P) (st : St W) :
    Nat → Nat → List Nat → List P → Back P
  | 0, _, _, _ => .diverge
  | f+1, node, nodes, track =>
    match st.pred node with
    | Option.none => .path nodes.reverse track.reverse     -- `track.path = NODES_PATH[::-1]; return track.reverse()`
    | some (a, eid) =>
      match findEdge net eid with
      | Option.none => .diverge
      | some e =>
        let g := geo.line eid                                -- `e.geom.copy()`
        let g := if e.src ≠ node then g.reverse else g       -- `if e.source != node: edge_geom.reverse()`
        backAux net geo st f a (nodes ++ [a]) (track ++ g.drop 1)   -- `track + (edge_geom > 1)`

/-- `run_routing_backward(target)` on the flags left by the forward pass -/
def runBackward {P : Type} (net : Net W) (geo : Geo P) (st : St W) (t : Nat) : Back P :=
  match st.pred t with
  | Option.none => .none                                   -- `if node.antecedent == "": return None`
  | some _ => backAux net geo st (net.n + 1) t [t] [geo.pos t]

/-- `shortest_path(source, target, cut)` -/
def shortestPath {P : Type} [OfNat W 0] (net : Net W) (geo : Geo P) (s t : Nat) (cut : Option W) : Back P :=
  runBackward net geo (runForward net s (some t) cut).1 t
end TV.Graph
