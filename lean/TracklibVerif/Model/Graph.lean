namespace TV.Graph
structure Edge (W : Type) where
  src : Nat
  tgt : Nat
  w : W
  ori : Int          -- ≥ 0 : src→tgt permitted ; ≤ 0 : tgt→src permitted
structure Net (W : Type) where
  n : Nat
  edges : List (Edge W)

variable {W : Type}

/-- NEXT_EDGES[u] as filled by addEdge (insertion order) -/
def nextEdges (net : Net W) (u : Nat) : List (Edge W) :=
  net.edges.filter (fun e => (decide (0 ≤ e.ori) && decide (e.src = u)) || (decide (e.ori ≤ 0) && decide (e.tgt = u)))

/-- `fils = e.target; if fils == pere: fils = e.source` -/
def other (e : Edge W) (u : Nat) : Nat := if e.tgt = u then e.src else e.tgt

structure St (W : Type) where
  d : Nat → Option W       -- poids (none = -1)
  vis : Nat → Bool         -- visite
  pred : Nat → Option (Nat × Nat)   -- antecedent node (edge identity omitted in the spike)

def St.init (s : Nat) [OfNat W 0] : St W :=
  { d := fun v => if v = s then some 0 else none, vis := fun _ => false, pred := fun _ => none }

variable [LT W] [DecidableLT W] [Add W]

/-- scan nodes 0..k-1 keeping the first strict minimum among labelled unvisited nodes (heap order (poids, id)) -/
def popMinAux (st : St W) : Nat → Option (Nat × W)
  | 0 => none
  | k+1 =>
    let best := popMinAux st k
    if st.vis k then best else
    match st.d k with
    | none => best
    | some x => match best with
      | none => some (k, x)
      | some (u, y) => if x < y then some (k, x) else some (u, y)

def relaxOne (u : Nat) (du : W) (st : St W) (e : Edge W) : St W :=
  let v := other e u
  if st.vis v then st else
  let upd : St W := { st with d := fun z => if z = v then some (du + e.w) else st.d z,
                              pred := fun z => if z = v then some (u, 0) else st.pred z }
  match st.d v with
  | none => upd
  | some y => if du + e.w < y then upd else st

def step (net : Net W) (st : St W) : Option (St W) :=
  match popMinAux st net.n with
  | none => none
  | some (u, du) =>
    let st1 : St W := { st with vis := fun z => if z = u then true else st.vis z }
    some ((nextEdges net u).foldl (relaxOne u du) st1)

def run (net : Net W) : Nat → St W → St W
  | 0, st => st
  | f+1, st => match step net st with
    | none => st
    | some st' => run net f st'
end TV.Graph
