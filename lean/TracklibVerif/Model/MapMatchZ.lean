import TracklibVerif.Model.MapMatchNet
/-! Map-matching on networks and tracks WITH ALTITUDES (C10): the model of `Model/MapMatch` / `Model/MapMatchNet` on 3D positions
`ENUCoords(E, N, U)` — an edge geometry read from a `LINESTRING(x y z, …)` (`io/network_reader.py` `wktLineStringToObs` keeps the
third number), a hand-built network whose vertices carry an altitude, a GPS track with altitudes.

What the Python does with the third coordinate on the path of `mapOnNetwork`, call by call (each is a definition below):

* `algo/cinematics.py` `computeAbsCurv` → `algo/analytics.py` `ds` → `Obs.distance2DTo` → `ENUCoords.distance2DTo`
  = `(point - self).norm2D()` = `sqrt(E² + N²)`: `dist2D3`, `curvFrom3`, `absCurv3`. **The `abs_curv` column is planimetric.**
* `Track.length()` (the `weight` of an edge made by `NetworkReader` without a weight column, and of the hand-written builders) sums
  `Obs.distanceTo` = `(point - self).norm()` = `sqrt(E² + N² + U²)`: `dist3D`, `trackLength3D`. **The weight is the 3D length.**
* `mapping.__projOnTrack(point, track)` reads `track.getX()`, `track.getY()`, `point.getX()`, `point.getY()` and returns
  `ENUCoords(xproj, yproj, 0)`: `Proj.projOnTrack3` (C20's model on 3D positions). **The matched point has `U = 0`.**
* `mapping.__distToNode(track, coord, i, end)`: `abs_curv` reads and `track[i].position.distance2DTo(coord)`: `distToNode3`.
* the flag state is `(track[i].position, -1, -1, -1)` — the position OBJECT of the observation, altitude included: `flag3`.
* `SpatialIndex.addFeature`, `neighborhood(coord, unit)` read `getX()`, `getY()` only: the index is the planimetric one of C08,
  built on `xy` of the geometries and asked with `xy` of the observed position.
* `Network.addNode` / `addEdge` store the objects handed over: geometries and node coordinates keep their altitudes.
* `io/network_reader.py` `wktLineStringToObs`: a vertex `x y z` keeps its altitude, a vertex `x y` gets `0.0`: `wktVertex`.

Everything else (loops, dictionaries, front end, created columns) is the code of `Model/MapMatch` / `Model/MapMatchNet` again, on
the 3D structures. `Lemmas/MapMatchZ.lean` proves that this model is the 2D one on the planimetric parts (`xy`), so that every
theorem of Parts I–III of `Props/C10.lean` carries over (Part IV). Scalar-polymorphic, core Lean only. -/
namespace TV.MapMatch
open TV.Proj

/-- `ENUCoords(E, N, U)` -/
abbrev P3 (α : Type) := α × α × α

/-- `(getX(), getY())` of a position -/
def xy {α : Type} (p : P3 α) : α × α := (p.1, p.2.1)

/-- `io/network_reader.py` `wktLineStringToObs`, one vertex of `LINESTRING(…)`: `sl = coords[i].strip().split(" ")` after `float`:
`x = sl[0]`, `y = sl[1]`, `z = sl[2] if len(sl) == 3 else 0.0` (a vertex written `x y` — or with four numbers — gets altitude
0, also next to `x y z` vertices of the same line); fewer than two numbers: `IndexError` -/
def wktVertex {α : Type} [OfNat α 0] : List α → Option (P3 α)
  | [x, y, z] => some (x, y, z)
  | x :: y :: _ => some (x, y, 0)
  | _ => none

/-- an edge geometry (a `Track` of 3D positions) with its `abs_curv` column -/
structure Edge3 (α : Type) where
  geom : List (P3 α)
  curv : List α

/-- a candidate state `(p, elem, dist to source, dist to target)` with `p` an `ENUCoords` -/
structure State3 (α : Type) where
  p : P3 α
  edge : Int
  d0 : α
  d1 : α

/-- an observation: 3D position and (opaque) timestamp -/
structure Obs3 (α : Type) where
  pos : P3 α
  t : Nat

section
variable {α : Type} [Add α] [Sub α] [Mul α] [Div α] [Neg α] [LT α] [LE α]
  [DecidableLT α] [DecidableLE α] [OfNat α 0] [OfNat α 1]

/-- `a.distance2DTo(c)` = `(c - a).norm2D()` = `sqrt(E**2 + N**2)`: `U` is not read -/
def dist2D3 (sqrt : α → α) (a c : P3 α) : α :=
  sqrt ((c.1 - a.1) * (c.1 - a.1) + (c.2.1 - a.2.1) * (c.2.1 - a.2.1))

/-- `a.distanceTo(c)` = `(c - a).norm()` = `sqrt(E**2 + N**2 + U**2)` -/
def dist3D (sqrt : α → α) (a c : P3 α) : α :=
  sqrt ((c.1 - a.1) * (c.1 - a.1) + (c.2.1 - a.2.1) * (c.2.1 - a.2.1) + (c.2.2 - a.2.2) * (c.2.2 - a.2.2))

/-- `INTEGRATOR` over `ds` on 3D positions: `ds(track, i) = obs_i.distance2DTo(obs_{i-1})` -/
def curvFrom3 (sqrt : α → α) (acc : α) (prev : P3 α) : List (P3 α) → List α
  | [] => []
  | q :: rest => (acc + dist2D3 sqrt q prev) :: curvFrom3 sqrt (acc + dist2D3 sqrt q prev) q rest

/-- `computeAbsCurv(track)` on 3D positions -/
def absCurv3 (sqrt : α → α) : List (P3 α) → List α
  | [] => []
  | p :: rest => 0 :: curvFrom3 sqrt 0 p rest

/-- `Track.length()`: `s = 0; for i in range(1, size): s += getObs(i-1).distanceTo(getObs(i))` (3D) -/
def trackLengthFrom (sqrt : α → α) (acc : α) (prev : P3 α) : List (P3 α) → α
  | [] => acc
  | q :: rest => trackLengthFrom sqrt (acc + dist3D sqrt prev q) q rest

def trackLength3D (sqrt : α → α) : List (P3 α) → α
  | [] => 0
  | p :: rest => trackLengthFrom sqrt 0 p rest

def mkEdge3 (sqrt : α → α) (geom : List (P3 α)) : Edge3 α := ⟨geom, absCurv3 sqrt geom⟩

/-- `__distToNode(track, coord, i, end)` on 3D positions (`distance2DTo`) -/
def distToNode3 (sqrt : α → α) (e : Edge3 α) (coord : P3 α) (i : Nat) (end_ : Nat) : Option α :=
  match e.curv[i]?, e.curv[i + 1]? with
  | some si1, some si2 =>
    if end_ = 0 then
      match e.geom[i]? with
      | some v => some (si1 + dist2D3 sqrt v coord)
      | none => none
    else
      match e.curv[e.geom.length - 1]?, e.geom[i + 1]? with
      | some sl, some v => some (sl - si2 + dist2D3 sqrt v coord)
      | _, _ => none
  | _, _ => none

/-- the flag state `(track[i].position, -1, -1, -1)`: the observation's own position, altitude included -/
def flag3 (pos : P3 α) : State3 α := ⟨pos, -1, -(1 : α), -(1 : α)⟩

/-- exceptions of `__projOnTrack` as exceptions of the candidate loop -/
def errOfX : Proj.ErrX → Err
  | .base e => .proj e
  | .index => .index

/-- the inner loop `for elem in E` of `__mapOnNetwork` on 3D geometries -/
def candLoop3 (sqrt : α → α) (eps radius : α) (edges : List (Edge3 α)) (pos : P3 α) :
    List Nat → List (State3 α) → Except Err (List (State3 α))
  | [], acc => .ok acc
  | elem :: rest, acc =>
    match edges[elem]? with
    | none => .error .index
    | some eg =>
      match projOnTrack3 sqrt eps eg.geom pos with
      | .error e => .error (errOfX e)
      | .ok r =>
        if r.2.1 < radius then
          match distToNode3 sqrt eg r.1 r.2.2 0, distToNode3 sqrt eg r.1 r.2.2 1 with
          | some a, some b => candLoop3 sqrt eps radius edges pos rest (acc ++ [⟨r.1, (elem : Int), a, b⟩])
          | _, _ => .error .index
        else candLoop3 sqrt eps radius edges pos rest acc

/-- `STATES[i]` for one observation -/
def obsStates3 (sqrt : α → α) (eps radius : α) (edges : List (Edge3 α)) (pos : P3 α)
    (cand : Option (List Nat)) : Except Err (List (State3 α)) :=
  match cand with
  | none => .ok [flag3 pos]
  | some E =>
    match candLoop3 sqrt eps radius edges pos E [] with
    | .error e => .error e
    | .ok [] => .ok [flag3 pos]
    | .ok (s :: ss) => .ok (s :: ss)

/-- the outer loop: `STATES` for the whole track -/
def allStates3 (sqrt : α → α) (eps radius : α) (edges : List (Edge3 α)) :
    List (Obs3 α) → List (Option (List Nat)) → Except Err (List (List (State3 α)))
  | [], _ => .ok []
  | o :: os, cs =>
    match obsStates3 sqrt eps radius edges o.pos (cs.head?.getD none) with
    | .error e => .error e
    | .ok s =>
      match allStates3 sqrt eps radius edges os cs.tail with
      | .error e => .error e
      | .ok ss => .ok (s :: ss)

/-- the backward step of `HMM.estimate` -/
def inferAll3 : List (List (State3 α)) → List Nat → Except Err (List (State3 α))
  | [], _ => .ok []
  | s :: ss, idx =>
    match s[idx.head?.getD 0]? with
    | none => .error .index
    | some st =>
      match inferAll3 ss idx.tail with
      | .error e => .error e
      | .ok r => .ok (st :: r)

def newPositions3 (mode : Nat) : List (Obs3 α) → List (State3 α) → List (Obs3 α)
  | o :: os, s :: ss => (if writesPositions mode then { o with pos := s.p } else o) :: newPositions3 mode os ss
  | os, _ => os

structure Result3 (α : Type) where
  states : List (List (State3 α))
  inference : List (State3 α)
  track : List (Obs3 α)
  features : List String

/-- `__mapOnNetwork` on 3D data, candidates and decoder as parameters (the core of `Model/MapMatch` again) -/
def mapOnNetwork3 (sqrt : α → α) (eps radius : α) (edges : List (Edge3 α)) (mode : Nat)
    (decode : List (List (State3 α)) → List Nat)
    (track : List (Obs3 α)) (names : List String) (cands : List (Option (List Nat))) : Except Err (Result3 α) :=
  match allStates3 sqrt eps radius edges track cands with
  | .error e => .error e
  | .ok states =>
    match inferAll3 states (decode states) with
    | .error e => .error e
    | .ok inf =>
      .ok ⟨states, inf, newPositions3 mode track inf,
           addName (addName (addName names "obs_noise") "hmm_inference") "hmm_cost"⟩

end

/-! ## construction path and front end on 3D data (`Model/MapMatchNet` again) -/

/-- a `Node(id, coord)` with a 3D coordinate -/
structure Node3 (α : Type) where
  id : Nat
  coord : P3 α

/-- an `Edge` as handed to `Network.addEdge` -/
structure EdgeIn3 (α : Type) where
  id : Nat
  geom : List (P3 α)
  curv : List α
  orientation : Int
  weight : α

structure NEdge3 (α : Type) where
  e : EdgeIn3 α
  source : Nat
  target : Nat

structure Net3 (α : Type) where
  nodes : List (Node3 α)
  edges : List (NEdge3 α)
  idx : List Nat
  index : Option (Grid.Index α)

def Net3.empty {α : Type} : Net3 α := ⟨[], [], [], none⟩

def lookupEdge3 {α : Type} (l : List (NEdge3 α)) (i : Nat) : Option (NEdge3 α) := l.find? (fun x => x.e.id == i)

def setEdge3 {α : Type} (l : List (NEdge3 α)) (ne : NEdge3 α) : List (NEdge3 α) :=
  if l.any (fun x => x.e.id == ne.e.id) then l.map (fun x => if x.e.id == ne.e.id then ne else x) else l ++ [ne]

def addNode3 {α : Type} (net : Net3 α) (n : Node3 α) : Net3 α :=
  if net.nodes.any (fun x => x.id == n.id) then net else { net with nodes := net.nodes ++ [n] }

def lookupNode3 {α : Type} (net : Net3 α) (i : Nat) : Option (Node3 α) := net.nodes.find? (fun x => x.id == i)

def edgeNo3 {α : Type} (net : Net3 α) (n : Nat) : Option (NEdge3 α) :=
  match net.idx[n]? with
  | none => none
  | some i => lookupEdge3 net.edges i

/-- `EDGES[getEdgeId(elem)].geom` by edge NUMBER, with the `abs_curv` columns -/
def netEdges3 {α : Type} (net : Net3 α) : List (Edge3 α) :=
  net.idx.filterMap (fun i => (lookupEdge3 net.edges i).map (fun ne => (⟨ne.e.geom, ne.e.curv⟩ : Edge3 α)))

/-- what the spatial index reads of the features it registers: `getX()`, `getY()` of every vertex -/
def netFeatures3 {α : Type} (net : Net3 α) : List (List (α × α)) :=
  (List.range net.edges.length).filterMap (fun n => (edgeNo3 net n).map (fun ne => ne.e.geom.map xy))

section
variable {α : Type} [Add α] [Sub α] [Mul α] [Div α] [Neg α] [LT α] [LE α]
  [DecidableLT α] [DecidableLE α] [OfNat α 0] [OfNat α 1] [IntCast α]

/-- an `Edge` as `NetworkReader.readLineAndAddToNetwork` (no weight column) and the hand-written builders make it:
`computeAbsCurv(track)`, `Edge(id, track)`, `edge.weight = track.length()` -/
def readerEdge3 (sqrt : α → α) (id : Nat) (geom : List (P3 α)) (orientation : Int) : EdgeIn3 α :=
  ⟨id, geom, absCurv3 sqrt geom, orientation, trackLength3D sqrt geom⟩

def addEdge3 (fl : α → Int) (net : Net3 α) (e : EdgeIn3 α) (source target : Node3 α) : Grid.Res (Net3 α) :=
  let net1 := addNode3 (addNode3 net source) target
  let net2 : Net3 α := { net1 with edges := setEdge3 net1.edges ⟨e, source.id, target.id⟩, idx := net1.idx ++ [e.id] }
  match net2.index with
  | none => .ok net2
  | some ix =>
    match Grid.addFeature fl ix (e.geom.map xy) (net2.edges.length - 1) with
    | .error er => .error er
    | .ok ix' => .ok { net2 with index := some ix' }

def addEdges3 (fl : α → Int) : Net3 α → List (EdgeIn3 α × Node3 α × Node3 α) → Grid.Res (Net3 α)
  | net, [] => .ok net
  | net, (e, s, t) :: rest =>
    match addEdge3 fl net e s t with
    | .error er => .error er
    | .ok net' => addEdges3 fl net' rest

def attachIndex3 (fl : α → Int) (net : Net3 α) (res : Option (α × α)) (margin : α) : Grid.Res (Net3 α) :=
  match Grid.build fl (netFeatures3 net) res margin with
  | .error er => .error er
  | .ok ix => .ok { net with index := some ix }

def buildNet3 (fl : α → Int) (es : List (EdgeIn3 α × Node3 α × Node3 α)) (late : Nat) (res : Option (α × α)) (margin : α) :
    Grid.Res (Net3 α) :=
  let m := es.length - late
  match addEdges3 fl Net3.empty (es.take m) with
  | .error er => .error er
  | .ok net =>
    match attachIndex3 fl net res margin with
    | .error er => .error er
    | .ok net' => addEdges3 fl net' (es.drop m)

/-- `network.spatial_index.neighborhood(p, unit=newunit)`: the index reads `p.getX()`, `p.getY()` -/
def candidatesOf3 (fl : α → Int) (radius : α) (net : Net3 α) (pos : P3 α) : Except ErrN (Option (List Nat)) :=
  match net.index with
  | none => .error .noIndex
  | some ix =>
    match searchUnit fl radius ix with
    | .error e => .error e
    | .ok u =>
      match Grid.neighborhoodPoint fl ix (xy pos) u with
      | .error e => .error (.grid e)
      | .ok c => .ok c

def obsStatesNet3 (sqrt : α → α) (fl : α → Int) (eps radius : α) (net : Net3 α) (pos : P3 α) :
    Except ErrN (List (State3 α)) :=
  match candidatesOf3 fl radius net pos with
  | .error e => .error e
  | .ok cand =>
    match obsStates3 sqrt eps radius (netEdges3 net) pos cand with
    | .error e => .error (.mm e)
    | .ok l => .ok l

def allStatesNet3 (sqrt : α → α) (fl : α → Int) (eps radius : α) (net : Net3 α) :
    List (Obs3 α) → Except ErrN (List (List (State3 α)))
  | [] => .ok []
  | o :: os =>
    match obsStatesNet3 sqrt fl eps radius net o.pos with
    | .error e => .error e
    | .ok s =>
      match allStatesNet3 sqrt fl eps radius net os with
      | .error e => .error e
      | .ok ss => .ok (s :: ss)

structure TrackS3 (α : Type) where
  obs : List (Obs3 α)
  names : List String
  noise : List α

abbrev Decoder3 (α : Type) := Net3 α → TrackS3 α → List (List (State3 α)) → List Nat

structure ResultN3 (α : Type) where
  states : List (List (State3 α))
  inference : List (State3 α)
  track : TrackS3 α

/-- `__mapOnNetwork(track, network, obs_noise, transition_cost, search_radius, debug, verbose)` on 3D data -/
def matchOne3 (sqrt : α → α) (fl : α → Int) (eps : α) (net : Net3 α) (dec : Decoder3 α) (a : Args α) (t : TrackS3 α) :
    Except ErrN (ResultN3 α) :=
  if t.obs.isEmpty then .error .emptyTrack else
  let t1 : TrackS3 α :=
    if t.names.contains "obs_noise" then t
    else { t with names := t.names ++ ["obs_noise"], noise := t.obs.map (fun _ => a.gpsNoise) }
  match allStatesNet3 sqrt fl eps a.searchRadius net t1.obs with
  | .error e => .error e
  | .ok states =>
    match inferAll3 states (dec net t1 states) with
    | .error e => .error (.mm e)
    | .ok inf =>
      .ok ⟨states, inf, { t1 with obs := newPositions3 1 t1.obs inf,
                                  names := addName (addName t1.names "hmm_inference") "hmm_cost" }⟩

inductive TracksArg3 (α : Type) where
  | one (t : TrackS3 α)
  | many (ts : List (TrackS3 α))

def TracksArg3.toList {α : Type} : TracksArg3 α → List (TrackS3 α)
  | .one t => [t]
  | .many ts => ts

def matchLoop3 (sqrt : α → α) (fl : α → Int) (eps : α) (net : Net3 α) (dec : Decoder3 α) (a : Args α) :
    List (TrackS3 α) → List (ResultN3 α) × Option ErrN
  | [] => ([], none)
  | t :: ts =>
    match matchOne3 sqrt fl eps net dec a t with
    | .error e => ([], some e)
    | .ok r =>
      let rest := matchLoop3 sqrt fl eps net dec a ts
      (r :: rest.1, rest.2)

/-- `mapOnNetwork(tracks, network, gps_noise, transition_cost, search_radius, debug, report, verbose)` on 3D data -/
def mapOnNetworkFront3 (sqrt : α → α) (fl : α → Int) (eps : α) (net : Net3 α) (dec : Decoder3 α) (a : Args α)
    (tracks : TracksArg3 α) : List (ResultN3 α) × Option ErrN :=
  matchLoop3 sqrt fl eps net dec a tracks.toList

end
end TV.MapMatch
