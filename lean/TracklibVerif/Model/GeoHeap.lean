import TracklibVerif.Model.Geo
/-! Model of *histories* of coordinate conversions: the Python objects involved (`GeoCoords`, `ENUCoords`,
`ECEFCoords` instances, `Track`s holding references to them and `Track.base`) live in a heap, so that identity,
aliasing and in-place updates (`setX/setY/setZ`, attribute assignment) are part of the model.

* an object is its class and its three attributes (`Obj`); a reference is its index in `World.heap`
  (allocation order: an object never moves and is never freed);
* `Val` is what a caller can pass where a base is expected: `None`, an `int` (SRID) or a reference;
* `callConv` is the dynamic dispatch `obj.to{ECEF,ENU,Geo,Proj}Coords(*args)` of obs_coords.py, with the error
  Python raises when the class has no such method, the number of arguments is wrong, or a base is of the wrong type;
  the numbers are those of `Model/Geo.lean` computed from the values the objects hold *at the time of the call*;
* `World.call` allocates the result; `World.set` is the in-place update; `World.mkTrack` is `Track(obs, base=…)`
  (the track *shares* the position objects and the base object with its caller);
* `World.trackTo…` are `Track.toECEFCoords/toENUCoords/toGeoCoords/toProjCoords/toENUCoordsIfNeeded` of track.py: the positions are
  *rebound* to new objects (the old objects are left as they are), `Track.base` is rebound to a new object
  `base.toGeoCoords()` (a copy when the base is a `GeoCoords`) or to the SRID number. `getSRID()` looks at the class of
  the first position only; every position is then dispatched on its own class.
A call that raises ends the history (`Except.error`); the partially updated track Python leaves behind is not modelled. -/
namespace TV.Geo

/-- a coordinate object: `kind` = its class, `v` = (lon, lat, hgt) | (E, N, U) | (X, Y, Z) -/
structure Obj (α : Type) where
  kind : Kind
  v : V3 α

/-- a Python value in the place of a base argument -/
inductive Val where
  | none
  | int (n : Nat)
  | ref (i : Nat)
  deriving DecidableEq

/-- `base` if it is not `None`, else the default (`if base == None: base = self.base`) -/
def Val.orDefault (arg dflt : Val) : Val :=
  match arg with
  | .none => dflt
  | b => b

/-- the conversion methods -/
inductive Meth where
  | ecef | enu | geo | proj
  deriving DecidableEq

/-- `Track`: references to the position objects of its observations, and `Track.base` -/
structure HTrack where
  pts : List Nat
  base : Val

structure World (α : Type) where
  heap : List (Obj α)
  tracks : List HTrack

/-- `setX/setY/setZ` (equivalently assignment to the attribute): coordinate number 0, 1, 2; any other number is not a
request the driver accepts -/
def V3.set {α : Type} (v : V3 α) (c : Nat) (x : α) : V3 α :=
  if c == 0 then { v with x := x } else if c == 1 then { v with y := x } else { v with z := x }

section
variable {α : Type} [Add α] [Sub α] [Mul α] [Div α] [Neg α] [OfScientific α]
variable (T : Trig α)

/-- `base.toECEFCoords()` as the conversion routines call it on whatever they were given: `None` and `int` have no such
method, `ENUCoords.toECEFCoords` needs an argument; for a `GeoCoords`/`ECEFCoords` the current attributes are read -/
def baseOf (heap : List (Obj α)) : Val → Except Err (Base α)
  | .none => .error .attr
  | .int _ => .error .attr
  | .ref i =>
    match heap[i]? with
    | none => .error .dangling
    | some o =>
      match o.kind with
      | .geo => .ok (.geo o.v)
      | .ecef => .ok (.ecef o.v)
      | .enu => .error .type

/-- `o.to<m>Coords(*args)` -/
def callConv (heap : List (Obj α)) (o : Obj α) (m : Meth) (args : List Val) : Except Err (Obj α) :=
  match o.kind, m, args with
  -- GeoCoords
  | .geo, .ecef, [] => .ok ⟨.ecef, geoToEcef T o.v⟩
  | .geo, .geo, [] => .ok ⟨.geo, o.v⟩
  | .geo, .enu, [.int n] => (proj T o.v n).map (fun v => ⟨.enu, v⟩)
  | .geo, .enu, [b] => do
    let bb ← baseOf heap b
    .ok ⟨.enu, geoToEnu T o.v bb⟩
  | .geo, .proj, [.int n] => (proj T o.v n).map (fun v => ⟨.enu, v⟩)
  | .geo, .proj, [_] => .error .exit          -- `srid == 2154` is false for anything that is not a number
  -- ENUCoords
  | .enu, .ecef, [b] => do
    let bb ← baseOf heap b
    .ok ⟨.ecef, enuToEcef T o.v bb⟩
  | .enu, .geo, [.int n] => (unproj T o.v n).map (fun v => ⟨.geo, v⟩)
  | .enu, .geo, [b] => do
    let bb ← baseOf heap b
    .ok ⟨.geo, enuToGeo T o.v bb⟩
  | .enu, .enu, [b1, b2] => do
    let bb1 ← baseOf heap b1
    let bb2 ← baseOf heap b2
    .ok ⟨.enu, enuToEnu T o.v bb1 bb2⟩
  | .enu, .proj, _ => .error .attr            -- only `GeoCoords` has `toProjCoords`
  -- ECEFCoords
  | .ecef, .geo, [] => .ok ⟨.geo, ecefToGeo T o.v⟩
  | .ecef, .ecef, [] => .ok ⟨.ecef, o.v⟩
  | .ecef, .enu, [b] => do
    let bb ← baseOf heap b
    .ok ⟨.enu, ecefToEnu T o.v bb⟩
  | .ecef, .proj, _ => .error .attr
  -- wrong number of arguments
  | _, _, _ => .error .type

/-- the object a reference designates -/
def deref (heap : List (Obj α)) (i : Nat) : Except Err (Obj α) :=
  match heap[i]? with
  | none => .error .dangling
  | some o => .ok o

/-- `x = GeoCoords(..)` etc. -/
def World.new (w : World α) (k : Kind) (v : V3 α) : World α :=
  { w with heap := w.heap ++ [⟨k, v⟩] }

/-- `obj.setX(x)` / `obj.lon = x` … : the object is updated in place, nothing else changes -/
def World.set (w : World α) (i c : Nat) (x : α) : Except Err (World α) :=
  match w.heap[i]? with
  | none => .error .dangling
  | some o => .ok { w with heap := w.heap.set i ⟨o.kind, o.v.set c x⟩ }

/-- `r = obj.to<m>Coords(*args)`: the result is a new object (index `w.heap.length`) -/
def World.call (w : World α) (i : Nat) (m : Meth) (args : List Val) : Except Err (World α) := do
  let o ← deref w.heap i
  let r ← callConv T w.heap o m args
  .ok { w with heap := w.heap ++ [r] }

/-- `Track([Obs(p) for p in pts], base=base)` -/
def World.mkTrack (w : World α) (pts : List Nat) (base : Val) : World α :=
  { w with tracks := w.tracks ++ [⟨pts, base⟩] }

/-- `Track.getSRID()`: the class of the position of the first observation -/
def trackKind (heap : List (Obj α)) (t : HTrack) : Except Err Kind :=
  match t.pts with
  | [] => .error .index
  | p :: _ => (deref heap p).map (·.kind)

/-- the loop `for i in range(self.size()): self.getObs(i).position = self.getObs(i).position.to<m>Coords(*args)`:
the new objects, in order (the heap is not touched while the loop runs: positions are rebound, not updated) -/
def convAll (heap : List (Obj α)) (m : Meth) (args : List Val) : List Nat → Except Err (List (Obj α))
  | [] => .ok []
  | p :: ps => do
    let o ← deref heap p
    let r ← callConv T heap o m args
    let rs ← convAll heap m args ps
    .ok (r :: rs)

/-- `[n, n+1, …, n+k-1]` -/
def refsFrom (n : Nat) : Nat → List Nat
  | 0 => []
  | k + 1 => n :: refsFrom (n + 1) k

/-- the world after a whole-track conversion produced the position objects `objs` and (when `nb` is an object) the new
base object: they are allocated in this order -/
def World.rebind (w : World α) (ti : Nat) (objs : List (Obj α)) (nb : Option (Obj α)) (baseVal : Val) : World α :=
  let n := w.heap.length
  match nb with
  | some b =>
    { heap := w.heap ++ objs ++ [b], tracks := w.tracks.set ti ⟨refsFrom n objs.length, .ref (n + objs.length)⟩ }
  | none =>
    { heap := w.heap ++ objs, tracks := w.tracks.set ti ⟨refsFrom n objs.length, baseVal⟩ }

def getTrack (w : World α) (ti : Nat) : Except Err HTrack :=
  match w.tracks[ti]? with
  | none => .error .dangling
  | some t => .ok t

/-- `Track.toECEFCoords(base=None)` -/
def World.trackToECEF (w : World α) (ti : Nat) (arg : Val) : Except Err (World α) := do
  let t ← getTrack w ti
  let k ← trackKind w.heap t
  match k with
  | .geo => do
    let objs ← convAll T w.heap .ecef [] t.pts
    .ok (w.rebind ti objs none t.base)
  | .enu =>
    match arg.orDefault t.base with
    | .none => .error .exit
    | base => do
      let objs ← convAll T w.heap .ecef [base] t.pts
      .ok (w.rebind ti objs none t.base)
  | .ecef => .ok w

/-- `Track.toENUCoords(base=None)` -/
def World.trackToENU (w : World α) (ti : Nat) (arg : Val) : Except Err (World α) := do
  let t ← getTrack w ti
  let k ← trackKind w.heap t
  match k with
  | .enu =>
    match arg, t.base with
    | .none, _ => .error .exit
    | _, .none => .error .exit
    | base, old => do
      let objs ← convAll T w.heap .enu [old, base] t.pts
      match base with
      | .ref b => do
        let bo ← deref w.heap b
        let nb ← callConv T w.heap bo .geo []
        .ok (w.rebind ti objs (some nb) .none)
      | _ => .error .attr        -- `base.toGeoCoords()` on an int (unreachable: the loop failed first)
  | _ =>
    -- Geo or ECEF: without argument the base is the position object of the first observation
    let base : Val := arg.orDefault (match t.pts with | p :: _ => .ref p | [] => .none)
    do
      let objs ← convAll T w.heap .enu [base] t.pts
      match base with
      | .int n => .ok (w.rebind ti objs none (.int n))
      | .ref b => do
        let bo ← deref w.heap b
        let nb ← callConv T w.heap bo .geo []
        .ok (w.rebind ti objs (some nb) .none)
      | .none => .error .index   -- unreachable: the track is not empty

/-- `Track.toGeoCoords(base=None)`; `Track.base` is left as it is -/
def World.trackToGeo (w : World α) (ti : Nat) (arg : Val) : Except Err (World α) := do
  let t ← getTrack w ti
  let k ← trackKind w.heap t
  match k with
  | .ecef => do
    let objs ← convAll T w.heap .geo [] t.pts
    .ok (w.rebind ti objs none t.base)
  | .enu =>
    match arg.orDefault t.base with
    | .none => .error .exit
    | base => do
      let objs ← convAll T w.heap .geo [base] t.pts
      .ok (w.rebind ti objs none t.base)
  | .geo => .ok w

/-- `Track.toProjCoords(srid)` -/
def World.trackToProj (w : World α) (ti : Nat) (srid : Nat) : Except Err (World α) := do
  let t ← getTrack w ti
  let k ← trackKind w.heap t
  match k with
  | .geo => do
    let objs ← convAll T w.heap .proj [.int srid] t.pts
    .ok (w.rebind ti objs none (.int srid))
  | _ => .error .exit

/-- `Track.toENUCoordsIfNeeded()`: a Geo track is converted with a *copy* of the position of its first observation
as base (the copy is a new object, allocated before the conversion runs; it is what the method returns); any other track
is left alone (the method returns `None`) -/
def World.trackToENUIfNeeded (w : World α) (ti : Nat) : Except Err (World α) := do
  let t ← getTrack w ti
  let k ← trackKind w.heap t
  match k, t.pts with
  | .geo, p :: _ => do
    let o ← deref w.heap p
    ({ w with heap := w.heap ++ [⟨o.kind, o.v⟩] } : World α).trackToENU T ti (.ref w.heap.length)
  | _, _ => .ok w

/-- one step of a history -/
inductive Op (α : Type) where
  | new (k : Kind) (v : V3 α)
  | set (i c : Nat) (x : α)
  | call (i : Nat) (m : Meth) (args : List Val)
  | mkTrack (pts : List Nat) (base : Val)
  | trackConv (ti : Nat) (m : Meth) (arg : Val)
  | trackENUIf (ti : Nat)

def World.step (w : World α) : Op α → Except Err (World α)
  | .new k v => .ok (w.new k v)
  | .set i c x => w.set i c x
  | .call i m args => w.call T i m args
  | .mkTrack pts base => .ok (w.mkTrack pts base)
  | .trackConv ti .ecef arg => w.trackToECEF T ti arg
  | .trackConv ti .enu arg => w.trackToENU T ti arg
  | .trackConv ti .geo arg => w.trackToGeo T ti arg
  | .trackConv ti .proj (.int n) => w.trackToProj T ti n
  | .trackConv _ .proj _ => .error .dangling       -- the driver only sends a number here
  | .trackENUIf ti => w.trackToENUIfNeeded T ti

/-- a whole history, from the empty world -/
def World.run (w : World α) : List (Op α) → Except Err (World α)
  | [] => .ok w
  | op :: ops => do
    let w' ← w.step T op
    w'.run ops

end
end TV.Geo
