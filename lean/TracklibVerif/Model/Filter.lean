/-! Model of kernel smoothing in the sequence domain (property C15):

* `Filter.execute` (tracklib/core/operators.py): kernel preparation (a `Kernel` object is turned
  into its sliding window, the Dirac kernel into `[0,1,0]`, a weight list is divided in place by its
  sum), rejection of an even window, the double loop with window index `i - j + D`, skipping of
  out-of-track and NaN samples, division by the collected norm, boundary copy when the kernel does
  not filter boundaries;
* `Kernel.evaluate` / `Kernel.toSlidingWindow` (a sampled function whose values sum to 0 makes the
  normalisation divide by zero) and the kernel functions of `UniformKernel`, `TriangularKernel`,
  `EpanechnikovKernel`, `CubicKernel`, `SphericKernel` (`math.pow` with an integer exponent is a
  product), `GaussianKernel`, `ExponentialKernel` (`math.exp` and the constant `math.sqrt(2*math.pi)`
  are parameters) (tracklib/core/kernel.py); a user-defined kernel (`Kernel` + `setFunction`)
  given by a table of values at the integers (`tableF`); any other kernel function is a function
  parameter;
* `Track.operate(Operator.FILTER, af_in, kernel, af_out)` on a track seen as named signals
  (`operate`): a kernel given as the name of a feature, the order of the failures (kernel
  preparation, even window, reserved output name, empty track, unknown input feature), the
  creation of the output feature; the argument forms of `Track.operate` (`operateArgs`: output name
  omitted, lists of input / output names filtered pair by pair with the same kernel object);
* `filter_seq` (tracklib/algo/filtering.py): integer kernel, one-element list, the dispatch on `dim`
  (default argument / module constant `FILTER_…` / list / a single `str` walked character by
  character; coordinates written through the feature `temp`, other names filtered in place), and
  `Track.smooth`; the module-level state a call can read (`Globals`) is threaded through a
  `session` of calls; `filterSeqRepeat`: the same track filtered several times with the same kernel object.

Scalars are polymorphic (`Rat` and `Float` in the driver, an ordered field in the theorems);
NaN is `none`. A signal is a `List (Option α)`. Core Lean only. -/
namespace TV.Filter

inductive Err where
  | evenKernel   -- `N % 2 == 0` (the code raises KernelError, in fact a NameError)
  | zeroDiv      -- `temp[i] /= norm` with a collected norm equal to 0
  | index        -- boundary copy on a track shorter than the half window
  | support      -- `toSlidingWindow` with support < 1
  | feature      -- unknown analytical feature, or a reserved name (x, y, z, t, timestamp, idx) as output feature
  | emptyTrack   -- `createAnalyticalFeature` on a track without observation (AnalyticalFeatureError)
  | nanKernel    -- a kernel given as a feature name whose values contain NaN (every weight becomes NaN): outside this model, see `Model/FilterExt.lean` (`executeListX`)
  | kernelType   -- a number given as kernel: `len(kernel)` in the kernel preparation raises TypeError
  | operands     -- `Track.operate` with lists of input and output names of different lengths (OperatorError, in fact a NameError)
  deriving DecidableEq, Repr

section core
variable {α : Type} [Add α] [Mul α] [Div α] [OfNat α 0]

/-- the sample read for output index `i` at kernel position `j`:
`i - j + D < 0` → skipped, `i - j + D >= track.size()` → skipped,
`val = track.getObsAnalyticalFeature(af, i - j + D)`, `isnan(val)` → skipped. -/
def sample (v : List (Option α)) (D i j : Nat) : Option α :=
  let idx : Int := (i : Int) - (j : Int) + (D : Int)
  if idx < 0 then none
  else if idx ≥ (v.length : Int) then none
  else match v[idx.toNat]? with
    | some (some val) => some val
    | _ => none

/-- the loop `for j in range(N)` for one output index: state `(temp[i], norm)`; `j` counts from
the position of the head of the remaining kernel. -/
def inner (v : List (Option α)) (D i : Nat) : List α → Nat → α × α → α × α
  | [], _, s => s
  | kj :: ks, j, (t, norm) =>
    match sample v D i j with
    | none => inner v D i ks (j + 1) (t, norm)
    | some val => inner v D i ks (j + 1) (t + val * kj, norm + kj)

/-- `(temp[i], norm)` before the division, for every `i in range(track.size())` -/
def cells (v : List (Option α)) (k : List α) (D : Nat) : List (α × α) :=
  (List.range v.length).map (fun i => inner v D i k 0 (0, 0))

/-- the two boundary loops: `temp[i] = input[i]` for `i < D` and for `size - D <= i` -/
def copyBoundary (v temp : List (Option α)) (D : Nat) : List (Option α) :=
  (List.range v.length).map (fun i =>
    if i < D ∨ v.length - D ≤ i then (v[i]?).join else (temp[i]?).join)

/-- is a sample read for output index `i` at some kernel position (inside the track and not NaN)?
When none is, `temp[i]` and `norm` are still the Python ints `0` at `temp[i] /= norm`. -/
def anySample (v : List (Option α)) (D i : Nat) : List α → Nat → Bool
  | [], _ => false
  | _ :: ks, j => (sample v D i j).isSome || anySample v D i ks (j + 1)

/-- `Filter.execute` after kernel preparation: `k` is the window actually used,
`boundary = kernel.filterBoundary()` (False for a weight list), `np` tells that the weights are numpy
scalars (a weight list after `kernel[i] /= np.sum(np.array(kernel))`) and not Python floats (the
sliding window of a Kernel object, `[0,1,0]`).

`temp[i] /= norm` with a collected norm equal to 0: with Python numbers a `ZeroDivisionError`
(`0.0 / 0.0` for a Kernel object, `0 / 0` on the untouched ints when no sample was read); with
numpy weights and at least one sample read, `np.float64(0.0) / np.float64(0.0)` is `nan` with a
warning, and the loop goes on. -/
def filterWindowG [BEq α] (v : List (Option α)) (k : List α) (boundary np : Bool) :
    Except Err (List (Option α)) :=
  let N := k.length
  if N % 2 == 0 then .error .evenKernel
  else
    let D := N / 2
    let cs := cells v k D
    if cs.zipIdx.any (fun c => c.1.2 == 0 && (!np || !anySample v D c.2 k 0)) then .error .zeroDiv
    else
      let temp : List (Option α) := cs.map (fun c => if c.2 == 0 then none else some (c.1 / c.2))
      if boundary then .ok temp
      else if v.length < D then .error .index
      else .ok (copyBoundary v temp D)

/-- `Filter.execute` after kernel preparation with Python-float weights (Kernel object, Dirac) -/
def filterWindow [BEq α] (v : List (Option α)) (k : List α) (boundary : Bool) :
    Except Err (List (Option α)) := filterWindowG v k boundary false

/-- `norm = np.sum(np.array(kernel)); kernel[i] /= norm` -/
def normalise (k : List α) : List α :=
  let norm := k.foldl (· + ·) 0
  k.map (· / norm)
end core

section kernel
variable {α : Type} [Add α] [Sub α] [Mul α] [Div α] [Neg α] [LT α] [LE α] [DecidableLT α] [DecidableLE α]
  [OfNat α 0] [OfNat α 1] [NatCast α]

/-- Python `abs` -/
def absv (x : α) : α := if x < 0 then -x else x

/-- a Python bool used as a number -/
def ind (p : Prop) [Decidable p] : α := if p then 1 else 0

/-- `Kernel.evaluate(x)`: `kernel_function(x) * (abs(x) <= support)` -/
def evaluate (f : α → α) (support x : α) : α := f x * ind (absv x ≤ support)

/-- sample points of `toSlidingWindow`: `x = center - i - 0.5` with `center = size / 2.0` -/
def samplePoint (size i : Nat) : α :=
  (size : α) / ((2 : Nat) : α) - (i : α) - (1 : α) / ((2 : Nat) : α)

/-- `Kernel.toSlidingWindow()`; `S = int(self.support)`. `evaluate` returns a Python float whatever the
kernel function returns (int, float, numpy scalar), so `values[i] /= norm` with `norm == 0` is a
`ZeroDivisionError`. -/
def slidingWindow [BEq α] (f : α → α) (support : α) (S : Nat) : Except Err (List α) :=
  if support < 1 then .error .support
  else
    let size := 2 * S + 1
    let values := (List.range size).map (fun i => evaluate f support (samplePoint size i))
    let norm := values.foldl (· + ·) 0
    if norm == 0 then .error .zeroDiv
    else .ok (values.map (· / norm))

/-- `tbl[j - j0]` for the first position `j ≥ j0` with `j == a`, else `0` -/
def tableFrom [BEq α] (a : α) : List α → Nat → α
  | [], _ => 0
  | y :: ys, j => if ((j : Nat) : α) == a then y else tableFrom a ys (j + 1)

/-- a user-defined kernel function (`Kernel(...)` + `setFunction`) given by its values at
`|x| = 0, 1, 2, …`: `f(x) = tbl[|x|]` when `|x|` is one of these integers, else `0`. -/
def tableF [BEq α] (tbl : List α) (x : α) : α := tableFrom (absv x) tbl 0

/-- `UniformKernel(size)`: `f = lambda x: 1 * (abs(x) <= size) / (2 * size)`, support `2 * size` -/
def uniformF (size x : α) : α := (1 * ind (absv x ≤ size)) / (((2 : Nat) : α) * size)
def uniformSupport (size : α) : α := ((2 : Nat) : α) * size

/-- `TriangularKernel(size)`: `f = lambda x: (size - abs(x)) * (abs(x) <= size) / (size ** 2)`,
support `1.5 * size` -/
def triangularF (size x : α) : α := ((size - absv x) * ind (absv x ≤ size)) / (size * size)
def onePointFive : α := ((3 : Nat) : α) / ((2 : Nat) : α)
def triangularSupport (size : α) : α := onePointFive * size

/-- `EpanechnikovKernel(size)`: `f = lambda x: 3 / 4 * (1 - (x / size) ** 2) * (abs(x) <= size) / size`,
support `1.5 * size` -/
def epanechnikovF (size x : α) : α :=
  (((3 : Nat) : α) / ((4 : Nat) : α) * (1 - (x / size) * (x / size)) * ind (absv x ≤ size)) / size
def epanechnikovSupport (size : α) : α := onePointFive * size

/-- `math.pow(a, n)` for the integer exponents `n` used by `CubicKernel` and `SphericKernel` -/
def powN (a : α) : Nat → α
  | 0 => 1
  | n + 1 => powN a n * a

/-- `CubicKernel(sigma)`: `f = lambda x: 1-(7*math.pow((abs(x)/sigma),2) - 35/4*math.pow((abs(x)/sigma),3)
+ 7/2*math.pow((abs(x)/sigma),5) - 3/4*math.pow((abs(x)/sigma),7))`, support `sigma` -/
def cubicF (sigma x : α) : α :=
  1 - (((7 : Nat) : α) * powN (absv x / sigma) 2 - ((35 : Nat) : α) / ((4 : Nat) : α) * powN (absv x / sigma) 3
    + ((7 : Nat) : α) / ((2 : Nat) : α) * powN (absv x / sigma) 5 - ((3 : Nat) : α) / ((4 : Nat) : α) * powN (absv x / sigma) 7)
def cubicSupport (sigma : α) : α := sigma

/-- `SphericKernel(sigma)`: `f = lambda x: 1-(3/2*abs(x)/sigma - 1/2*math.pow(abs(x)/sigma,3))`, support `sigma` -/
def sphericF (sigma x : α) : α :=
  1 - (((3 : Nat) : α) / ((2 : Nat) : α) * absv x / sigma - (1 : α) / ((2 : Nat) : α) * powN (absv x / sigma) 3)
def sphericSupport (sigma : α) : α := sigma

/-- `GaussianKernel(sigma)`: `f = lambda x: math.exp(-0.5 * (x / sigma) ** 2) / (sigma * math.sqrt(2 * math.pi))`,
support `3 * sigma`; `expF` stands for `math.exp`, `sqrt2pi` for `math.sqrt(2 * math.pi)` -/
def gaussianF (expF : α → α) (sqrt2pi : α) (sigma x : α) : α :=
  expF (-((1 : α) / ((2 : Nat) : α)) * ((x / sigma) * (x / sigma))) / (sigma * sqrt2pi)
def gaussianSupport (sigma : α) : α := ((3 : Nat) : α) * sigma

/-- `ExponentialKernel(sigma)`: `f = lambda x: math.exp(-abs(x) / sigma) / (2 * sigma)`, support `3 * sigma` -/
def exponentialF (expF : α → α) (sigma x : α) : α := expF (-(absv x) / sigma) / (((2 : Nat) : α) * sigma)
def exponentialSupport (sigma : α) : α := ((3 : Nat) : α) * sigma

/-- the `kernel` argument of `Filter.execute` -/
inductive KArg (α : Type) where
  /-- a Python list of weights (normalised in place by the call) -/
  | list (k : List α)
  /-- a `Kernel` object: `str(kernel) == 'Dirac kernel'`, `filterBoundary()`, kernel function,
  support, `int(support)` -/
  | obj (dirac : Bool) (boundary : Bool) (f : α → α) (support : α) (S : Nat)

/-- kernel preparation of `Filter.execute` for a list or a Kernel object: the caller's weight list as it
is left by the call (lists are normalised in place; `None` for a Kernel object), the window used, the
boundary flag, and whether the weights are numpy scalars. -/
def prepare [BEq α] : KArg α → Except Err (Option (List α) × List α × Bool × Bool)
  | .obj dirac boundary f support S =>
    if dirac then .ok (none, [0, 1, 0], boundary, false)
    else
      match slidingWindow f support S with
      | .error e => .error e
      | .ok w => .ok (none, w, boundary, false)
  | .list k =>
    let k' := normalise k
    .ok (some k', k', false, true)

/-- `Filter.execute(track, af_input, kernel, af_output)` on the values `v` of the input feature:
returns the caller's weight list as it is left by the call and the output feature. -/
def execute [BEq α] (v : List (Option α)) (kern : KArg α) : Except Err (Option (List α) × List (Option α)) :=
  match prepare kern with
  | .error e => .error e
  | .ok (k', w, boundary, np) =>
    match filterWindowG v w boundary np with
    | .ok out => .ok (k', out)
    | .error e => .error e

/-- the `kernel` argument of `filter_seq` -/
inductive SeqArg (α : Type) where
  | int (n : Int)
  | k (a : KArg α)
  /-- a `str`: `Filter.execute` takes the values of that feature (or coordinate) of the track as weights -/
  | feat (name : String)
  /-- a `float` (the documented "half width of a rectangular window"): neither an `int`, a list nor a Kernel -/
  | num

/-- a track seen by `filter_seq`: named signals (`x`, `y`, `z`, then the analytical features) -/
abbrev Sigs (α : Type) := List (String × List (Option α))

def getSig (t : Sigs α) (name : String) : Option (List (Option α)) :=
  match t.find? (·.1 == name) with
  | some p => some p.2
  | none => none

/-- `createAnalyticalFeature(name)` (no-op on an existing name) followed by `addListToAF` -/
def setSig (t : Sigs α) (name : String) (s : List (Option α)) : Sigs α :=
  if t.any (·.1 == name) then t.map (fun p => if p.1 == name then (name, s) else p)
  else t ++ [(name, s)]

/-- `track.size()`: the number of values of the coordinate `x` -/
def trackSize (t : Sigs α) : Nat :=
  match getSig t "x" with
  | some v => v.length
  | none => 0

/-- `Track.__controlName`: names that cannot be created as analytical features -/
def reservedName (n : String) : Bool :=
  n == "x" || n == "y" || n == "z" || n == "t" || n == "timestamp" || n == "idx"

/-- `track.createAnalyticalFeature(name)` once the name and the track size are accepted: a no-op on an
existing feature, else a new feature of `0.0` -/
def createAF (t : Sigs α) (name : String) : Sigs α :=
  if t.any (·.1 == name) then t else t ++ [(name, List.replicate (trackSize t) (some 0))]

/-- the Python object bound to `kernel` after a call: a weight list has been normalised in place -/
def nextKernel (kern : KArg α) : Option (List α) → KArg α
  | some l => .list l
  | none => kern

/-- what `kernel` is in `Filter.execute`: a list / Kernel object, or the name of a feature -/
inductive KSrc (α : Type) where
  | arg (a : KArg α)
  | feat (name : String)
  /-- a number: `np.sum(np.array(kernel))` passes, `len(kernel)` raises TypeError -/
  | num

/-- `if isinstance(kernel, str): kernel = track.getAnalyticalFeature(kernel)` (a fresh list: the
feature itself is not normalised) -/
def resolve (t : Sigs α) : KSrc α → Except Err (KArg α)
  | .arg a => .ok a
  | .feat name =>
    match getSig t name with
    | none => .error .feature
    | some w => if w.any (·.isNone) then .error .nanKernel else .ok (.list (w.filterMap id))
  | .num => .error .kernelType

/-- the object bound to the caller's `kernel` after the call (a `str` is immutable) -/
def nextSrc (kern : KSrc α) (k' : Option (List α)) : KSrc α :=
  match kern with
  | .arg a => .arg (nextKernel a k')
  | .feat n => .feat n
  | .num => .num

/-- `track.operate(Operator.FILTER, af_in, kernel, af_out)` (`ScalarVoidOperator` with a `str` first
argument, i.e. `Filter.execute(track, af_in, kernel, af_out)`), in the order of the Python: kernel
preparation, odd-window test, `createAnalyticalFeature(af_out)` (reserved name, empty track; a new
feature is created with zeros *before* the input is read), the filtering loops, `addListToAF`.
Returns the caller's kernel after the call, the output values and the track. -/
def operate [BEq α] (t : Sigs α) (afIn : String) (kern : KSrc α) (afOut : String) :
    Except Err (KSrc α × List (Option α) × Sigs α) :=
  match resolve t kern with
  | .error e => .error e
  | .ok ka =>
    match prepare ka with
    | .error e => .error e
    | .ok (k', w, boundary, np) =>
      if w.length % 2 == 0 then .error .evenKernel
      else if reservedName afOut then .error .feature
      else if trackSize t == 0 then .error .emptyTrack
      else
        let t1 := createAF t afOut
        match getSig t1 afIn with
        | none => .error .feature
        | some v =>
          match filterWindowG v w boundary np with
          | .error e => .error e
          | .ok out => .ok (nextSrc kern k', out, setSig t1 afOut out)

/-- the first and third arguments of `Track.operate(Operator.FILTER, arg1, kernel, arg3)` (`Filter` is a
`ScalarVoidOperator`): one feature name or a list of them; `arg3` may be omitted (`None`) -/
inductive OpNames where
  /-- `arg1` is a `str`: one call of `Filter.execute`, whose result is returned -/
  | one (afIn : String) (afOut : Option String)
  /-- `arg1` is a list: one call per pair `(arg1[i], arg3[i])`, nothing is returned -/
  | many (ins : List String) (outs : Option (List String))
  deriving DecidableEq, Repr

/-- `for i in range(len(arg1)): operator.execute(self, arg1[i], arg2, arg3[i])`: the kernel is the same Python
object at every turn (a weight list is normalised again each time), each turn sees the track as the former left it -/
def operatePairs [BEq α] : List (String × String) → KSrc α → Sigs α → Except Err (KSrc α × Sigs α)
  | [], kern, t => .ok (kern, t)
  | (i, o) :: rest, kern, t =>
    match operate t i kern o with
    | .error e => .error e
    | .ok (kern', _, t') => operatePairs rest kern' t'

/-- `Track.operate(Operator.FILTER, arg1, kernel[, arg3])`, the branch of `ScalarVoidOperator`:
`if arg3 == None: arg3 = arg1` (output into the input feature); a `str` → `return operator.execute(...)`;
lists → lengths compared (`OperatorError`), then one call per pair and `None` returned.
Returns the caller's kernel after the call, the returned list if any, and the track. -/
def operateArgs [BEq α] (t : Sigs α) (kern : KSrc α) : OpNames → Except Err (KSrc α × Option (List (Option α)) × Sigs α)
  | .one i o =>
    match operate t i kern (o.getD i) with
    | .error e => .error e
    | .ok (k', out, t') => .ok (k', some out, t')
  | .many ins outs =>
    let outs' := outs.getD ins
    if ins.length ≠ outs'.length then .error .operands
    else
      match operatePairs (ins.zip outs') kern t with
      | .error e => .error e
      | .ok (k', t') => .ok (k', none, t')

/-- `af.startswith("#")`: the temporary features of an algebraic expression -/
def isTemp (n : String) : Bool := n.toList.head? == some '#'

/-- `track.removeAnalyticalFeature(name)` -/
def removeSig (t : Sigs α) (name : String) : Sigs α := t.filter (fun p => !(p.1 == name))

/-- the assignment `out = src` of `Track.__applyOperation` when `src` is a feature of the track: a coordinate is
overwritten (`setXFromAnalyticalFeature`, then a temporary source is removed), an existing feature is removed and
created again (it becomes the last one), a new name is created -/
def assignAF (t : Sigs α) (out src : String) (s : List (Option α)) : Sigs α :=
  if out == "x" ∨ out == "y" ∨ out == "z" then
    (if isTemp src then removeSig (setSig t out s) src else setSig t out s)
  else if t.any (·.1 == out) then removeSig t out ++ [(out, s)]
  else t ++ [(out, s)]

/-- The algebraic form of the filter: `track.operate("out = in ! w")`, `track.operate("out = in .* w")` (`".*"` is
rewritten into `"!"`), and without left-hand side `track.operate("in ! w")`, which returns the values — for two names
`in`, `w` that are features or coordinates of the track (`[AF operator AF]` case of `Track.__applyOperation`) and an
output name other than `t`, `timestamp`, `idx`.
`Track.__evaluate` turns the expression into the RPN `out in w ! =` (`#output in w ! =` without left-hand side);
`__evaluateRPN` runs `self.operate(Operator.FILTER, in, w, "#0")` (the kernel is the *name* `w`: its values are the
weights), then the assignment `out = #0`; `Track.operate` finally removes every feature whose name starts with `#`
(also when the filter fails). Returns the list returned by the call, if any, and the track. -/
def operateAlgebraic [BEq α] (t : Sigs α) (out : Option String) (afIn kname : String) :
    Except Err (Option (List (Option α)) × Sigs α) :=
  match operate t afIn (.feat kname) "#0" with
  | .error e => .error e
  | .ok (_, res, t1) =>
    let lhs := out.getD "#output"
    let t2 := assignAF t1 lhs "#0" res
    let ret := match out with
      | some _ => none
      | none => getSig t2 "#output"
    .ok (ret, t2.filter (fun p => !(isTemp p.1)))

/-- the loop `for af in dim` of `filter_seq`; the weight list, if any, is the same Python object
for every dimension, so it is re-normalised at each call. A coordinate is filtered into the feature
`temp` and copied back (`setXFromAnalyticalFeature`), any other name is filtered in place. -/
def seqLoop [BEq α] : List String → KSrc α → Sigs α → Except Err (Sigs α)
  | [], _, t => .ok t
  | af :: rest, kern, t =>
    if af == "x" ∨ af == "y" ∨ af == "z" then
      match operate t af kern "temp" with
      | .error e => .error e
      | .ok (kern', out, t') => seqLoop rest kern' (setSig t' af out)
    else
      match operate t af kern af with
      | .error e => .error e
      | .ok (kern', _, t') => seqLoop rest kern' t'

/-- `filter_seq(track, kernel, dim)` once `dim` is a list of names: an int `n` stands for `[1]*n`, a
one-element list returns the track unchanged. -/
def filterSeq [BEq α] (t : Sigs α) (kernel : SeqArg α) (dim : List String) : Except Err (Sigs α) :=
  let kern : KSrc α := match kernel with
    | .int n => .arg (.list (List.replicate n.toNat 1))
    | .k a => .arg a
    | .feat n => .feat n
    | .num => .num
  match kern with
  | .arg (.list [_]) => .ok t
  | _ => seqLoop dim kern t

/-! ### the `dim` argument, module-level state, sessions of calls -/

/-- the module-level state a call of `filter_seq` / `Track.smooth` reads: the constants
`FILTER_X … FILTER_XYZ` of `tracklib/algo/filtering.py` (Python lists, `FILTER_XYZ` being the default
value of `dim`) and the class attribute `Kernel.__filter_boundary` (what `filterBoundary()` returns
for a kernel on which `setFilterBoundary` was never called). -/
structure Globals where
  filterConsts : List (String × List String)
  kernelFilterBoundary : Bool
  deriving DecidableEq, Repr

/-- the state of a fresh process -/
def Globals.initial : Globals :=
  ⟨[("FILTER_X", ["x"]), ("FILTER_Y", ["y"]), ("FILTER_Z", ["z"]), ("FILTER_XY", ["x", "y"]),
    ("FILTER_XZ", ["x", "z"]), ("FILTER_YZ", ["y", "z"]), ("FILTER_XYZ", ["x", "y", "z"])], false⟩

/-- the `dim` argument of `filter_seq` -/
inductive DimArg where
  /-- argument omitted: the default value `FILTER_XYZ` -/
  | default
  /-- one of the module constants, passed by reference -/
  | const (name : String)
  /-- a list of names -/
  | list (l : List String)
  /-- a single `str`: `for af in dim` walks its characters -/
  | str (s : String)
  deriving DecidableEq, Repr

/-- the names `for af in dim` goes through (`none`: no such module constant) -/
def dimNames (g : Globals) : DimArg → Option (List String)
  | .default => (g.filterConsts.find? (·.1 == "FILTER_XYZ")).map (·.2)
  | .const n => (g.filterConsts.find? (·.1 == n)).map (·.2)
  | .list l => some l
  | .str s => some (s.toList.map (fun c => String.singleton c))

/-- one call `filter_seq(track, kernel[, dim])`: the result and the module-level state afterwards
(no statement of `filter_seq` writes to it). -/
def filterSeqCall [BEq α] (g : Globals) (t : Sigs α) (kernel : SeqArg α) (dim : DimArg) :
    Option (Except Err (Sigs α) × Globals) :=
  match dimNames g dim with
  | none => none
  | some names => some (filterSeq t kernel names, g)

/-- `kernel[i] /= np.sum(np.array(kernel))` done `n` times on the same list -/
def normaliseN (k : List α) : Nat → List α
  | 0 => k
  | n + 1 => normaliseN (normalise k) n

/-- the Python object bound to the caller's `kernel` after `filter_seq(track, kernel, dim)` has returned
normally: a weight list (not of length one) has been divided by its sum once per dimension; an `int` (the list
`[1]*n` is local to the function), a Kernel object and a feature name (a fresh list is read at every call) are
what they were -/
def seqKernelAfter (kernel : SeqArg α) (names : List String) : SeqArg α :=
  match kernel with
  | .k (.list l) => if l.length == 1 then kernel else .k (.list (normaliseN l names.length))
  | _ => kernel

/-- `filter_seq(track, kernel, dim)` called `n` times in a row on the same track with the same `kernel` and
`dim` objects (smoothing again what has been smoothed): the track after every call; stops at the first failure.
The second call finds the scratch feature `temp` in the track and a weight list already normalised. -/
def filterSeqRepeat [BEq α] (g : Globals) (t : Sigs α) (kernel : SeqArg α) (dim : DimArg) :
    Nat → List (Option (Except Err (Sigs α) × Globals))
  | 0 => []
  | n + 1 =>
    match dimNames g dim with
    | none => [none]
    | some names =>
      match filterSeq t kernel names with
      | .error e => [some (.error e, g)]
      | .ok t' => some (.ok t', g) :: filterSeqRepeat g t' (seqKernelAfter kernel names) dim n

/-- `Track.smooth(width)`: `filter_seq(self, GaussianKernel(width))`; `f`, `support = 3·width`,
`S = int(support)` describe the Gaussian kernel, on which `setFilterBoundary` is never called. -/
def smooth [BEq α] (g : Globals) (t : Sigs α) (f : α → α) (support : α) (S : Nat) :
    Option (Except Err (Sigs α) × Globals) :=
  filterSeqCall g t (.k (.obj false g.kernelFilterBoundary f support S)) .default

/-- one call of a session -/
structure Call (α : Type) where
  t : Sigs α
  kernel : SeqArg α
  dim : DimArg

/-- calls made one after the other in one process, each on its own track: the results, each with
the module-level state after the call -/
def session [BEq α] : Globals → List (Call α) → List (Option (Except Err (Sigs α) × Globals))
  | _, [] => []
  | g, c :: cs =>
    match filterSeqCall g c.t c.kernel c.dim with
    | none => [none]
    | some (r, g') => some (r, g') :: session g' cs
end kernel

end TV.Filter
