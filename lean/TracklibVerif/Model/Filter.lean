/-! Model of kernel smoothing in the sequence domain (property C15):

* `Filter.execute` (tracklib/core/operators.py): kernel preparation (a `Kernel` object is turned
  into its sliding window, the Dirac kernel into `[0,1,0]`, a weight list is divided in place by its
  sum), rejection of an even window, the double loop with window index `i - j + D`, skipping of
  out-of-track and NaN samples, division by the collected norm, boundary copy when the kernel does
  not filter boundaries;
* `Kernel.evaluate` / `Kernel.toSlidingWindow` and the kernel functions of `UniformKernel`,
  `TriangularKernel`, `EpanechnikovKernel` (tracklib/core/kernel.py); the other kernel functions
  (`math.exp`, `math.pow`) are a function parameter;
* `filter_seq` (tracklib/algo/filtering.py) writing x/y/z through the feature `temp`, and
  `Track.smooth`.

Scalars are polymorphic (`Rat` and `Float` in the driver, an ordered field in the theorems);
NaN is `none`. A signal is a `List (Option α)`. Core Lean only. -/
namespace TV.Filter

inductive Err where
  | evenKernel   -- `N % 2 == 0` (the code raises KernelError, in fact a NameError)
  | zeroDiv      -- `temp[i] /= norm` with a collected norm equal to 0
  | index        -- boundary copy on a track shorter than the half window
  | support      -- `toSlidingWindow` with support < 1
  | feature      -- unknown analytical feature
  deriving DecidableEq, Repr

section core
variable {α : Type} [Add α] [Mul α] [Div α] [OfNat α 0]

/-- the sample read for output index `i` at kernel position `j`:
`i - j + D < 0` → skipped, `i - j + D >= track.size()` → skipped,
`val = track.getObsAnalyticalFeature(af, i - j + D)`, `isnan(val)` → skipped. -/
def sample (v : List (Option α)) (D i j : Nat) : Option α :=
  let idx : Int := (i : Int) - (j : Int) + (D : Int)
  if idx < 0 then none
  else if idx ≥ (v.length : Int) then none
  else match v[idx.toNat]? with
    | some (some val) => some val
    | _ => none

/-- the loop `for j in range(N)` for one output index: state `(temp[i], norm)`; `j` counts from
the position of the head of the remaining kernel. -/
def inner (v : List (Option α)) (D i : Nat) : List α → Nat → α × α → α × α
  | [], _, s => s
  | kj :: ks, j, (t, norm) =>
    match sample v D i j with
    | none => inner v D i ks (j + 1) (t, norm)
    | some val => inner v D i ks (j + 1) (t + val * kj, norm + kj)

/-- `(temp[i], norm)` before the division, for every `i in range(track.size())` -/
def cells (v : List (Option α)) (k : List α) (D : Nat) : List (α × α) :=
  (List.range v.length).map (fun i => inner v D i k 0 (0, 0))

/-- the two boundary loops: `temp[i] = input[i]` for `i < D` and for `size - D <= i` -/
def copyBoundary (v temp : List (Option α)) (D : Nat) : List (Option α) :=
  (List.range v.length).map (fun i =>
    if i < D ∨ v.length - D ≤ i then (v[i]?).join else (temp[i]?).join)

/-- `Filter.execute` after kernel preparation: `k` is the window actually used,
`boundary = kernel.filterBoundary()` (False for a weight list). -/
def filterWindow [BEq α] (v : List (Option α)) (k : List α) (boundary : Bool) :
    Except Err (List (Option α)) :=
  let N := k.length
  if N % 2 == 0 then .error .evenKernel
  else
    let D := N / 2
    let cs := cells v k D
    if cs.any (fun c => c.2 == 0) then .error .zeroDiv
    else
      let temp : List (Option α) := cs.map (fun c => some (c.1 / c.2))
      if boundary then .ok temp
      else if v.length < D then .error .index
      else .ok (copyBoundary v temp D)

/-- `norm = np.sum(np.array(kernel)); kernel[i] /= norm` -/
def normalise (k : List α) : List α :=
  let norm := k.foldl (· + ·) 0
  k.map (· / norm)
end core

section kernel
variable {α : Type} [Add α] [Sub α] [Mul α] [Div α] [Neg α] [LT α] [LE α] [DecidableLT α] [DecidableLE α]
  [OfNat α 0] [OfNat α 1] [NatCast α]

/-- Python `abs` -/
def absv (x : α) : α := if x < 0 then -x else x

/-- a Python bool used as a number -/
def ind (p : Prop) [Decidable p] : α := if p then 1 else 0

/-- `Kernel.evaluate(x)`: `kernel_function(x) * (abs(x) <= support)` -/
def evaluate (f : α → α) (support x : α) : α := f x * ind (absv x ≤ support)

/-- sample points of `toSlidingWindow`: `x = center - i - 0.5` with `center = size / 2.0` -/
def samplePoint (size i : Nat) : α :=
  (size : α) / ((2 : Nat) : α) - (i : α) - (1 : α) / ((2 : Nat) : α)

/-- `Kernel.toSlidingWindow()`; `S = int(self.support)`. -/
def slidingWindow (f : α → α) (support : α) (S : Nat) : Except Err (List α) :=
  if support < 1 then .error .support
  else
    let size := 2 * S + 1
    let values := (List.range size).map (fun i => evaluate f support (samplePoint size i))
    let norm := values.foldl (· + ·) 0
    .ok (values.map (· / norm))

/-- `UniformKernel(size)`: `f = lambda x: 1 * (abs(x) <= size) / (2 * size)`, support `2 * size` -/
def uniformF (size x : α) : α := (1 * ind (absv x ≤ size)) / (((2 : Nat) : α) * size)
def uniformSupport (size : α) : α := ((2 : Nat) : α) * size

/-- `TriangularKernel(size)`: `f = lambda x: (size - abs(x)) * (abs(x) <= size) / (size ** 2)`,
support `1.5 * size` -/
def triangularF (size x : α) : α := ((size - absv x) * ind (absv x ≤ size)) / (size * size)
def onePointFive : α := ((3 : Nat) : α) / ((2 : Nat) : α)
def triangularSupport (size : α) : α := onePointFive * size

/-- `EpanechnikovKernel(size)`: `f = lambda x: 3 / 4 * (1 - (x / size) ** 2) * (abs(x) <= size) / size`,
support `1.5 * size` -/
def epanechnikovF (size x : α) : α :=
  (((3 : Nat) : α) / ((4 : Nat) : α) * (1 - (x / size) * (x / size)) * ind (absv x ≤ size)) / size
def epanechnikovSupport (size : α) : α := onePointFive * size

/-- the `kernel` argument of `Filter.execute` -/
inductive KArg (α : Type) where
  /-- a Python list of weights (normalised in place by the call) -/
  | list (k : List α)
  /-- a `Kernel` object: `str(kernel) == 'Dirac kernel'`, `filterBoundary()`, kernel function,
  support, `int(support)` -/
  | obj (dirac : Bool) (boundary : Bool) (f : α → α) (support : α) (S : Nat)

/-- `Filter.execute(track, af_input, kernel, af_output)`: returns the caller's weight list as it is
left by the call (lists are normalised in place) and the output feature. -/
def execute [BEq α] (v : List (Option α)) : KArg α → Except Err (Option (List α) × List (Option α))
  | .obj dirac boundary f support S =>
    if dirac then
      match filterWindow v [0, 1, 0] boundary with
      | .ok out => .ok (none, out)
      | .error e => .error e
    else
      match slidingWindow f support S with
      | .error e => .error e
      | .ok w =>
        match filterWindow v w boundary with
        | .ok out => .ok (none, out)
        | .error e => .error e
  | .list k =>
    let k' := normalise k
    match filterWindow v k' false with
    | .ok out => .ok (some k', out)
    | .error e => .error e

/-- the `kernel` argument of `filter_seq` -/
inductive SeqArg (α : Type) where
  | int (n : Int)
  | k (a : KArg α)

/-- a track seen by `filter_seq`: named signals (`x`, `y`, `z`, then the analytical features) -/
abbrev Sigs (α : Type) := List (String × List (Option α))

def getSig (t : Sigs α) (name : String) : Option (List (Option α)) :=
  match t.find? (·.1 == name) with
  | some p => some p.2
  | none => none

/-- `createAnalyticalFeature(name)` (no-op on an existing name) followed by `addListToAF` -/
def setSig (t : Sigs α) (name : String) (s : List (Option α)) : Sigs α :=
  if t.any (·.1 == name) then t.map (fun p => if p.1 == name then (name, s) else p)
  else t ++ [(name, s)]

/-- the Python object bound to `kernel` after a call: a weight list has been normalised in place -/
def nextKernel (kern : KArg α) : Option (List α) → KArg α
  | some l => .list l
  | none => kern

/-- the loop `for af in dim` of `filter_seq`; the weight list, if any, is the same Python object
for every dimension, so it is re-normalised at each call. -/
def seqLoop [BEq α] : List String → KArg α → Sigs α → Except Err (Sigs α)
  | [], _, t => .ok t
  | af :: rest, kern, t =>
    match getSig t af with
    | none => .error .feature
    | some v =>
      match execute v kern with
      | .error e => .error e
      | .ok (k', out) =>
        let kern' := nextKernel kern k'
        if af == "x" ∨ af == "y" ∨ af == "z" then
          -- track.operate(FILTER, af, kernel, "temp"); track.set?FromAnalyticalFeature("temp")
          seqLoop rest kern' (setSig (setSig t "temp" out) af out)
        else
          seqLoop rest kern' (setSig t af out)

/-- `filter_seq(track, kernel, dim)`: an int `n` stands for `[1]*n`, a one-element list returns the
track unchanged. -/
def filterSeq [BEq α] (t : Sigs α) (kernel : SeqArg α) (dim : List String) : Except Err (Sigs α) :=
  let kern : KArg α := match kernel with
    | .int n => .list (List.replicate n.toNat 1)
    | .k a => a
  match kern with
  | .list [_] => .ok t
  | _ => seqLoop dim kern t
end kernel

end TV.Filter
