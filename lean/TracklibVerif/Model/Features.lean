/-! Model of the analytical-feature table of `Track` (core/track.py): `dico` is the insertion-ordered
    name → column-index dict, `rows` the per-observation `features` lists. -/
namespace TV.Features
variable {V : Type}

structure St (V : Type) where
  dico : List (String × Nat)
  rows : List (List V)

def reserved (n : String) : Bool := n == "x" || n == "y" || n == "z" || n == "t" || n == "timestamp" || n == "idx"

def find (d : List (String × Nat)) (name : String) : Option Nat := (d.find? (fun p => p.1 == name)).map Prod.snd

inductive Err | reserved | empty | unknown
  deriving DecidableEq, Repr

/-- createAnalyticalFeature(name, scalar) -/
def create (st : St V) (name : String) (v : V) : Except Err (St V) :=
  if reserved name then .error .reserved
  else if st.rows.isEmpty then .error .empty
  else match find st.dico name with
    | some _ => .ok st
    | none => .ok { dico := st.dico ++ [(name, st.dico.length)], rows := st.rows.map (· ++ [v]) }

/-- removeAnalyticalFeature(name) : delete the column everywhere, then shift the higher indices down -/
def remove (st : St V) (name : String) : Except Err (St V) :=
  match find st.dico name with
  | none => .error .unknown
  | some idx =>
    .ok { dico := (st.dico.filter (fun p => !(p.1 == name))).map (fun p => (p.1, if p.2 > idx then p.2 - 1 else p.2)),
          rows := st.rows.map (·.eraseIdx idx) }

/-- updateAnalyticalFeature(name, list) -/
def update (st : St V) (name : String) (vals : List V) : Except Err (St V) :=
  match find st.dico name with
  | none => .error .unknown
  | some idx => .ok { st with rows := List.zipWith (fun r v => r.set idx v) st.rows vals }

/-- getAnalyticalFeature(name) -/
def read (st : St V) (name : String) : Option (List (Option V)) :=
  (find st.dico name).map (fun idx => st.rows.map (fun r => r[idx]?))
end TV.Features
