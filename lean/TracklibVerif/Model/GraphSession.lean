import TracklibVerif.Model.Graph
/-! One `Network` object (`tracklib/core/network.py`) as a state machine: what a sequence of calls
`addNode` / `addEdge` / `run_routing_forward` / `shortest_distance` (pair and list form, with or without an
`output_dict`) / `all_shortest_distances` / `prepare` / `prepared_shortest_distance` /
`has_prepared_shortest_distance` / `sub_network(…, "TOPOLOGIC")` / `save_prep` + `load_prep` does to the object and returns
(`Op.saveLoad` is the two calls on one file name in one step — the identity on the object; the two methods on their own, with
file names and the files as state, are `Model/GraphPrepFile.lean`, which proves that composition; numpy's pickle is not modelled).

State carried between calls: the node table `NODES` (ids in insertion order), the edges, the routing flags of
the `Node` objects (`poids`, `visite`, `antecedent`, `antecedent_edge` — written by the last search, *read by no
later one* because `__resetFlags` rewrites them for every node of `NODES` before a search: that is theorem
`start_clean`), `DISTANCES`, and a dictionary the caller keeps passing as `output_dict`.

`source` / `target` may be given as ids or as `Node` objects (`__correctInputNode` maps a `Node` to its id); the
model receives the id. Node ids are `< net.n` (a bound fixed at construction, so that ids and insertion order
are independent); edge ids are unique. Calls outside that domain (unknown node, duplicate edge id, negative
weight, `prepared_shortest_distance` before `prepare`) answer `err` and leave the state unchanged — the real
code raises or misbehaves there and the property does not speak about them. Core Lean only. -/
namespace TV.Graph
variable {W : Type}

/-- flags of `Node` objects no search has touched yet -/
def St.clean : St W := { d := fun _ => none, vis := fun _ => false, pred := fun _ => none }

/-- the body of `__resetFlags`' loop: `poids = -1; visite = False; antecedent = ""; antecedent_edge = ""` -/
def resetOne (st : St W) (v : Nat) : St W :=
  { d := fun z => if z = v then none else st.d z, vis := fun z => if z = v then false else st.vis z,
    pred := fun z => if z = v then none else st.pred z }

/-- `__resetFlags`: for every node of `NODES` -/
def resetFlags (order : List Nat) (st : St W) : St W := order.foldl resetOne st

/-- `self.__resetFlags(); self.NODES[source].poids = 0` -/
def startFlags [OfNat W 0] (order : List Nat) (st : St W) (s : Nat) : St W :=
  let r := resetFlags order st
  { r with d := fun z => if z = s then some 0 else r.d z }

variable [LT W] [DecidableLT W] [Add W] [OfNat W 0]

/-- `run_routing_forward(source, target, cut, output_dict)` on an object whose nodes carry the flags `st`:
the flags it leaves and the `(pere.id, pere.poids)` entries it writes to `output_dict`, in order -/
def routeOn (net : Net W) (order : List Nat) (st : St W) (s : Nat) (tgt : Option Nat) (cut : Option W) :
    St W × List (Nat × W) :=
  forward net tgt cut net.n (startFlags order st s) []

/-- `all_shortest_distances(cut, output_dict)`: one search per node of `NODES`, in insertion order, each on the
flags the previous one left -/
def allOn (net : Net W) (order : List Nat) (cut : Option W) (x : St W × Table W) : St W × Table W :=
  order.foldl (fun x s => let r := routeOn net order x.1 s none cut; (r.1, record x.2 s r.2)) x

structure Sess (W : Type) where
  net : Net W                 -- `n`: bound on node ids; `edges`: EDGES in insertion order
  order : List Nat            -- keys of NODES in insertion order (`__idx_nodes`)
  flags : St W                -- routing flags of the Node objects
  prep : Option (Table W)     -- `DISTANCES`
  udict : Table W             -- the caller's `output_dict`

def Sess.new (n : Nat) : Sess W :=
  { net := { n := n, edges := [] }, order := [], flags := St.clean, prep := none, udict := Table.empty }

inductive Op (W : Type) where
  | addNode (v : Nat)
  | addEdge (e : Edge W)                                            -- `addEdge(edge, source, target)`
  | route (s : Nat) (t : Option Nat) (cut : Option W) (useDict : Bool)   -- `run_routing_forward`
  | dist (s t : Nat) (cut : Option W) (useDict : Bool)              -- `shortest_distance(s, t, cut[, output_dict])`
  | distList (s : Nat) (cut : Option W) (useDict : Bool)            -- `shortest_distance(s, None, cut[, output_dict])`
  | all (cut : Option W) (useDict : Bool)                           -- `all_shortest_distances(cut[, output_dict])`
  | prepare (cut : Option W)
  | prepared (s t : Nat)
  | hasPrepared (s t : Nat)
  | sub (s : Nat) (cut : Option W)                                  -- `sub_network(s, cut, "TOPOLOGIC")`
  | saveLoad                                                        -- `save_prep(f); load_prep(f)`: DISTANCES through a file

inductive Out (W : Type) where
  | unit
  | err
  | flags (d : List (Option W)) (vis : List Bool)     -- `poids` / `visite` of the nodes in insertion order
  | val (d : Option W)
  | vals (ds : List (Option W))
  | table (tb : Table W)
  | bool (b : Bool)
  | subnet (nodes : List Nat) (edges : List Nat)      -- node ids and edge ids of the returned network, in insertion order

/-- `addNode`: a node id already present is ignored -/
def addNodeTo (order : List Nat) (v : Nat) : List Nat := if order.contains v then order else order ++ [v]

/-- the edges `__sub_network_routing` keeps: both ends visited by the search -/
def subEdges (net : Net W) (st : St W) : List (Edge W) :=
  net.edges.filter (fun e => st.vis e.src && st.vis e.tgt)

/-- one call; the new state and what the caller sees -/
def exec (σ : Sess W) : Op W → Sess W × Out W
  | .addNode v =>
    if v < σ.net.n then ({ σ with order := addNodeTo σ.order v }, .unit) else (σ, .err)
  | .addEdge e =>
    if e.src < σ.net.n && e.tgt < σ.net.n && !decide (e.w < 0) && !(σ.net.edges.map (·.id)).contains e.id then
      ({ σ with net := { σ.net with edges := σ.net.edges ++ [e] },
                order := addNodeTo (addNodeTo σ.order e.src) e.tgt }, .unit)
    else (σ, .err)
  | .route s t cut ud =>
    if σ.order.contains s && (match t with | some t => σ.order.contains t | none => true) then
      let r := routeOn σ.net σ.order σ.flags s t cut
      ({ σ with flags := r.1, udict := if ud then record σ.udict s r.2 else σ.udict },
       .flags (σ.order.map r.1.d) (σ.order.map r.1.vis))
    else (σ, .err)
  | .dist s t cut ud =>
    if σ.order.contains s && σ.order.contains t then
      let r := routeOn σ.net σ.order σ.flags s (some t) cut
      ({ σ with flags := r.1, udict := if ud then record σ.udict s r.2 else σ.udict }, .val (r.1.d t))
    else (σ, .err)
  | .distList s cut ud =>
    if σ.order.contains s then
      let r := routeOn σ.net σ.order σ.flags s none cut
      ({ σ with flags := r.1, udict := if ud then record σ.udict s r.2 else σ.udict }, .vals (σ.order.map r.1.d))
    else (σ, .err)
  | .all cut ud =>
    let r := allOn σ.net σ.order cut (σ.flags, if ud then σ.udict else Table.empty)
    ({ σ with flags := r.1, udict := if ud then r.2 else σ.udict }, .table r.2)
  | .prepare cut =>
    let r := allOn σ.net σ.order cut (σ.flags, σ.prep.getD Table.empty)
    ({ σ with flags := r.1, prep := some r.2 }, .unit)
  | .prepared s t =>
    match σ.prep with
    | none => (σ, .err)
    | some tb => (σ, .val (tb (s, t)))
  | .hasPrepared s t =>
    match σ.prep with
    | none => (σ, .err)
    | some tb => (σ, .bool (tb (s, t)).isSome)
  | .sub s cut =>
    if σ.order.contains s then
      let r := routeOn σ.net σ.order σ.flags s none cut
      let es := subEdges σ.net r.1
      ({ σ with flags := r.1 },
       .subnet (es.foldl (fun o e => addNodeTo (addNodeTo o e.src) e.tgt) []) (es.map (·.id)))
    else (σ, .err)
  | .saveLoad =>
    match σ.prep with
    | none => (σ, .err)                 -- `save_prep` prints an error and exits
    | some _ => (σ, .unit)              -- the dictionary read back is the dictionary written

/-- a sequence of calls on one object: what each call returned -/
def runOps (σ : Sess W) : List (Op W) → List (Out W)
  | [] => []
  | op :: rest => (exec σ op).2 :: runOps (exec σ op).1 rest

/-- the state after a sequence of calls -/
def stateAfter (σ : Sess W) : List (Op W) → Sess W
  | [] => σ
  | op :: rest => stateAfter (exec σ op).1 rest
end TV.Graph
