import TracklibVerif.Model.DTWReal
/-! An executable monitor of the hypotheses under which the fast variant `_fdtw` is proved correct (`fdtw_equal`, `match_fdtw_correct`,
`match_fdtw_real_correct`, `session_history_irrelevant_fdtw`: `FastHyp` of `Lemmas/DTWFastSession.lean`), run by the driver (`C18.hyp`)
on the generated inputs with the scalars the real code uses (`Float`, `B**x = Float.pow`): every point distance is non-negative, its
contribution `weight(0, B)` (`B**p`, `B**x`, `max(0, B)`) is non-negative, and every candidate cost `weight(T[i,j], D[i',j'])` is below
the placeholder priority `big = 1e300` of `_update_node`. `fast_hyp_check_sound` (Props/C18Fast.lean): over an ordered field these
checks imply `FastHyp` for every accumulation `_p2weight` can return. Core Lean only. -/
namespace TV.DTW

section
variable {α : Type} [LT α] [LE α] [DecidableLT α] [DecidableLE α] [OfNat α 0]

/-- the cells `(i, j)` of the `n2 × n1` lattice -/
def latticeCells (n1 n2 : Nat) : List (Nat × Nat) :=
  (List.range n2).flatMap (fun i => (List.range n1).map (fun j => (i, j)))

/-- the decidable form of `FastHyp big w dist t1 t2` (monotonicity in the accumulated cost is a property of the form of `w`) -/
def fastHypCheck (big : α) (w : α → α → α) (dist : Pt α → Pt α → α) (t1 t2 : List (Pt α)) : Bool :=
  let dc := distCols dist t1 t2
  let tab := table w 0 dc
  let idx := latticeCells t1.length t2.length
  idx.all (fun c =>
    match cellAt dc c.1 c.2 with
    | some d => decide (0 ≤ d) && decide (0 ≤ w 0 d)
    | none => false) &&
  idx.all (fun c => idx.all (fun c' =>
    match cellAt tab c.1 c.2, cellAt dc c'.1 c'.2 with
    | some t, some d => decide (w t.1 d < big)
    | _, _ => false))

end
end TV.DTW
