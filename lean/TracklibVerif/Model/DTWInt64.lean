import TracklibVerif.Model.DTWReal
/-! The fast variant `_fdtw` of `tracklib/algo/comparison.py` **on tracks whose coordinates are `numpy.int64`** (finding
`fdtw-numpy-int-coordinates-power-overflow`).

`_distance(p1, p2, dim)` of two `ENUCoords` holding `numpy.int64` coordinates is a `numpy.int64` for `dim = 1` (`abs(p1.U - p2.U)`) and
for a callable `dim` that adds / compares coordinate differences. `_fdtw` hands that object to the accumulation
`lambda A, B: A + B**p` as it is — `_dtw` reads it back from the float64 matrix `D` first — and numpy evaluates `B**p`, for `p` a Python
`int` (`match` / `compare` hand `int(p)` over for every numpy integer since 1f009f6), **in int64**: square-and-multiply with every
product reduced modulo 2^64 (`ipow64`), no exception. `A` is a cell of the float table `T` (`np.zeros`; the literal `0` for `T[0,0]`),
so `A + B**p` is the float `A` plus the wrapped integer converted to float64.

`p = 0` (`A + (B != 0)*1`) and `p = inf` (`max(A, B)`) take no power: nothing wraps there. Core Lean only. -/
namespace TV.DTW

/-- what numpy's int64 arithmetic keeps of an integer: its representative modulo 2^64 in `[-2^63, 2^63)` -/
def wrap64 (n : Int) : Int := (n + 9223372036854775808) % 18446744073709551616 - 9223372036854775808

/-- the product of two int64 values, as numpy computes it (no overflow check for scalars' `**`) -/
def mul64 (x y : Int) : Int := wrap64 (x * y)

/-- `B ** k` for `B` a `numpy.int64` and `k = 0, 1, 2, …` an integer exponent: `k` wrapped multiplications (numpy's
square-and-multiply reaches the same residue: `ipow64_eq_wrap`) -/
def ipow64 (b : Int) : Nat → Int
  | 0 => 1
  | k+1 => mul64 (ipow64 b k) b

section
variable {α : Type} [Add α]

/-- `lambda A, B: A + B**k` as `_fdtw` evaluates it when the point distance `B` is a `numpy.int64`: `toInt` reads the integer that `B`
holds, `ofInt` is the conversion of the int64 result to the float64 of the sum (`Float.ofInt` in the driver; the identity in the
theorems over `Int`) -/
def weight64 (toInt : α → Int) (ofInt : Int → α) (k : Nat) (a b : α) : α := a + ofInt (ipow64 (toInt b) k)

end

section front
variable {α : Type} [Add α] [Sub α] [Mul α] [Div α] [Neg α] [LT α] [LE α] [DecidableLT α] [DecidableLE α] [OfNat α 0]
  [OfScientific α]

/-- `match(track1, track2, MODE_MATCHING_FDTW, p = k, dim)` for `k = 1, 2, 3, …` a Python `int` (or any numpy integer, or a lambda
`A + B**k`) on `ENUCoords` tracks with `numpy.int64` coordinates and a `dim` whose point distance is a `numpy.int64`: `_fdtw` with the
int64 accumulation (`warpW`: the part of `_fdtw_matching` after `_p2weight`) -/
def matchFdtw64 (toInt : α → Int) (ofInt : Int → α) (G : Geom α) (big : α) (k : Nat) (dim : DimArg α) (a : TrackObj α)
    (t2 : List (Pt α)) : Except String (Out α) :=
  warpW G big true (weight64 toInt ofInt k) dim a t2

end front
end TV.DTW
