/-! Model of tracklib/core/obs_time.py on integers (`ms` is carried separately).
    `readUnixSec` mirrors `ObsTime.readUnixTime` on a whole number of seconds: the year loop
    (`if elapsed_seconds - sec < sec_on_year: break`, the form it has since the repair of D1), the 12-step month
    loop and the truncating divisions; `toAbsSec` mirrors `ObsTime.toAbsTime`.
    The float path (fractional seconds, `ms = int(frac * 1000)`, `toAbsTime()` as a scalar, fractional and
    negative amounts in `addSec`, `__sub__`) is `Model/ObsTimeG.lean`; `Props/C03.lean` proves that in exact
    arithmetic it reduces to the definitions of this file. The `zone` attribute, `convertToZone`, the `Track` zone
    methods and the identity of the objects the calls return are `Model/ObsTimeZone.lean`. -/
namespace TV.ObsTime

def isLeap (y : Nat) : Bool := y % 4 == 0 && (y % 100 != 0 || y % 400 == 0)
def yearDays (y : Nat) : Nat := if isLeap y then 366 else 365
/-- `__day_per_month` with the February correction; `m` is 0-based -/
def monthDays (y m : Nat) : Nat :=
  match m with
  | 0 => 31 | 1 => if isLeap y then 29 else 28 | 2 => 31 | 3 => 30 | 4 => 31 | 5 => 30
  | 6 => 31 | 7 => 31 | 8 => 30 | 9 => 31 | 10 => 30 | _ => 31

structure Date where
  year : Nat
  month : Nat   -- 1..12
  day : Nat     -- 1..31
  hour : Nat
  min : Nat
  sec : Nat
  deriving DecidableEq, Repr

/-- toAbsTime, first loop: days in years 1970 .. 1970+k-1 -/
def daysBeforeYear : Nat → Nat
  | 0 => 0
  | k+1 => daysBeforeYear k + yearDays (1970 + k)
/-- toAbsTime, second loop: days in months 1..m of year y (m 0-based count) -/
def daysBeforeMonth (y : Nat) : Nat → Nat
  | 0 => 0
  | m+1 => daysBeforeMonth y m + monthDays y m

def toAbsSec (d : Date) : Nat :=
  (daysBeforeYear (d.year - 1970) + daysBeforeMonth d.year (d.month - 1) + (d.day - 1)) * 86400
    + d.hour * 3600 + d.min * 60 + d.sec

/-- year loop (seconds), fuel-bounded -/
def yearLoop : Nat → Nat → Nat → Nat × Nat
  | 0, y, rem => (y, rem)
  | f+1, y, rem => if rem < yearDays y * 86400 then (y, rem) else yearLoop f (y+1) (rem - yearDays y * 86400)
/-- month loop: `for i in range(12)` with break -/
def monthLoop (y : Nat) : Nat → Nat → Nat → Nat × Nat
  | 0, m, rem => (m, rem)
  | f+1, m, rem => if rem < monthDays y m * 86400 then (m, rem) else monthLoop y f (m+1) (rem - monthDays y m * 86400)

def readUnixSec (s : Nat) : Date :=
  let (y, r) := yearLoop (s / (365 * 86400) + 1) 1970 s
  let (m, r2) := monthLoop y 12 0 r
  let day := r2 / 86400 + 1
  let r3 := r2 - (day - 1) * 86400
  let hour := r3 / 3600
  let r4 := r3 - hour * 3600
  let mn := r4 / 60
  let sc := r4 - mn * 60
  ⟨y, m + 1, day, hour, mn, sc⟩

def WF (d : Date) : Prop :=
  1970 ≤ d.year ∧ 1 ≤ d.month ∧ d.month ≤ 12 ∧ 1 ≤ d.day ∧ d.day ≤ monthDays d.year (d.month - 1)
  ∧ d.hour < 24 ∧ d.min < 60 ∧ d.sec < 60

/-- field-wise `__lt__` -/
def lt (a b : Date) : Bool :=
  if a.year != b.year then a.year < b.year else
  if a.month != b.month then a.month < b.month else
  if a.day != b.day then a.day < b.day else
  if a.hour != b.hour then a.hour < b.hour else
  if a.min != b.min then a.min < b.min else
  decide (a.sec < b.sec)

end TV.ObsTime

namespace TV.ObsTime

/-- An `ObsTime`: calendar fields plus the millisecond field. -/
structure Stamp where
  d : Date
  ms : Nat
  deriving DecidableEq, Repr

def WFs (t : Stamp) : Prop := WF t.d ∧ t.ms < 1000

/-- `toAbsTime` in integer milliseconds (`seconds + ms/1000.0` in the Python). -/
def toAbsMs (t : Stamp) : Nat := toAbsSec t.d * 1000 + t.ms

/-- `readUnixTime` on an instant given in integer milliseconds: the float code reads the whole
seconds with the integer loops and `ms = int(frac*1000)`; on an exact millisecond count that is
`t % 1000` in exact arithmetic (`TV.C03.readUnixG_toAbsG`). With IEEE doubles `toAbsTime()` of a non-zero
millisecond may lie just below the millisecond and read back one lower: that is exhibited by `readUnixG`
at `Float` (`Model/ObsTimeG.lean`), not by this integer model. -/
def readUnixMs (t : Nat) : Stamp := ⟨readUnixSec (t / 1000), t % 1000⟩

/-- field-wise `__lt__` including the final `ms` comparison -/
def ltS (a b : Stamp) : Bool :=
  if a.d.year != b.d.year then a.d.year < b.d.year else
  if a.d.month != b.d.month then a.d.month < b.d.month else
  if a.d.day != b.d.day then a.d.day < b.d.day else
  if a.d.hour != b.d.hour then a.d.hour < b.d.hour else
  if a.d.min != b.d.min then a.d.min < b.d.min else
  if a.d.sec != b.d.sec then a.d.sec < b.d.sec else
  decide (a.ms < b.ms)

/-- field-wise `__gt__` -/
def gtS (a b : Stamp) : Bool :=
  if a.d.year != b.d.year then a.d.year > b.d.year else
  if a.d.month != b.d.month then a.d.month > b.d.month else
  if a.d.day != b.d.day then a.d.day > b.d.day else
  if a.d.hour != b.d.hour then a.d.hour > b.d.hour else
  if a.d.min != b.d.min then a.d.min > b.d.min else
  if a.d.sec != b.d.sec then a.d.sec > b.d.sec else
  decide (a.ms > b.ms)

/-- `__eq__`: ms, sec, min, hour, day, month, year in that order -/
def eqS (a b : Stamp) : Bool :=
  if a.ms != b.ms then false else
  if a.d.sec != b.d.sec then false else
  if a.d.min != b.d.min then false else
  if a.d.hour != b.d.hour then false else
  if a.d.day != b.d.day then false else
  if a.d.month != b.d.month then false else
  if a.d.year != b.d.year then false else true

/-- `__ge__ = not (self < time)`, `__le__ = not (self > time)`, `__ne__ = not (time == self)` -/
def geS (a b : Stamp) : Bool := !ltS a b
def leS (a b : Stamp) : Bool := !gtS a b
def neS (a b : Stamp) : Bool := !eqS b a

/-- `addSec nb` for a non-negative whole number of seconds (`addMin/addHour/addDay` pass
`nb*60`, `nb*3600`, `nb*86400`): `readUnixTime (toAbsTime + nb)`. Negative and fractional amounts:
`addSecG` … `addDayG` in `Model/ObsTimeG.lean`. -/
def addSec (t : Stamp) (nb : Nat) : Stamp := readUnixMs (toAbsMs t + nb * 1000)

/-- Proleptic Gregorian day number (days since 1970-01-01) by the usual closed form
(March-based year, 153-day five-month cycles) — the independent specification for `toAbs`. -/
def civilDays (y m d : Nat) : Int :=
  let y' : Int := if m ≤ 2 then (y : Int) - 1 else y
  let era : Int := y' / 400
  let yoe : Int := y' - era * 400
  let mp : Int := if m ≤ 2 then (m : Int) + 9 else (m : Int) - 3
  let doy : Int := (153 * mp + 2) / 5 + (d : Int) - 1
  era * 146097 + (yoe * 365 + yoe / 4 - yoe / 100) + doy - 719468

end TV.ObsTime
