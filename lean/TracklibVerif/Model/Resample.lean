import TracklibVerif.Model.ObsTime
import TracklibVerif.Model.ObsTimeG
/-! Model of linear resampling: tracklib/algo/interpolation.py (`prepareTimeSampling`,
`__resampleTemporal`, `__resampleSpatial`, the `resample` dispatcher for `ALGO_LINEAR`, `sample`,
`synchronize`), the front end `Track.resample` and the operators `//`, `**`, `*` of tracklib/core/track.py,
`TrackCollection.resample` and `TrackCollection.__floordiv__` (`collection // ref`) of tracklib/core/track_collection.py.

Scalar-polymorphic (core Lean only): the driver instantiates `α := Rat` (exact streams) and
`α := Float`; the proofs use an ordered field. A fix is `(x, y, z, t)` with `t = timestamp.toAbsTime()`
in seconds; stamping an output with `ObsTime.readUnixTime(t)` is the C03 model (`Model/ObsTime.lean`), composed
here by `stampOf` / `stamps`. `sqrt` (2D/3D leg lengths), `trunc` (Python `int()`) and `ms` (`⌊1000·t⌋`) are
parameters.

Python exceptions are values of `Err`: `index` (IndexError from `T[running_id]` / `getObs`),
`zerodiv` (ZeroDivisionError), `nonterm` (the `while 1` loop of `prepareTimeSampling` never ends
when the step is not positive), `type` (TypeError: spatial resampling with a step that is not a number). -/
namespace TV.Resample

inductive Err where
  | index | zerodiv | nonterm | type
  deriving DecidableEq, Repr

structure Fix (α : Type) where
  x : α
  y : α
  z : α
  t : α
  deriving Repr, DecidableEq

/-- the `delta` / `reference` argument as `prepareTimeSampling` tells the forms apart (three `isinstance` tests):
a number of seconds (`int` / `float`), a `list` of `ObsTime` (mapped through `toAbsTime`), a reference `Track`
(the stamps of its observations, mapped through `toAbsTime`; nothing else of it is read), or anything else
(a tuple, a numpy integer, …: no branch is taken). -/
inductive Step (α : Type) where
  | number (δ : α)
  | instants (l : List α)
  | track (Q : List (Fix α))
  | other

section
variable {α : Type} [Add α] [Sub α] [Mul α] [Div α] [LT α] [LE α] [DecidableLT α] [DecidableLE α]
  [OfNat α 0] [NatCast α]

/-- `while V[running_id] < v: running_id += 1` on the suffix of `V` starting at `running_id`;
`none` = IndexError (ran past the end). -/
def scan (v : α) : List α → Nat → Option Nat
  | [], _ => none
  | w :: ws, i => if w < v then scan v ws (i + 1) else some i

def advance (V : List α) (v : α) (rid : Nat) : Option Nat := scan v (V.drop rid) rid

/-- `while running_id < len(V) - 1 and V[running_id] < v: running_id += 1` (the spatial loop's scan
never leaves the table: it stops on the last index whatever the value there) -/
def scanB (v : α) : List α → Nat → Option Nat
  | [], _ => none
  | [_], i => some i
  | w :: w' :: ws, i => if w < v then scanB v (w' :: ws) (i + 1) else some i

def advanceB (V : List α) (v : α) (rid : Nat) : Option Nat := scanB v (V.drop rid) rid

/-- Python's `min(a, b)`: `b` only when `b < a` (so a NaN `a` stays) -/
def pmin (a b : α) : α := if b < a then b else a

/-- Python's `max(a, b)`: `b` only when `b > a` -/
def pmax (a b : α) : α := if a < b then b else a

/-- `T = min(max(T, t_bwd), t_fwd)` (fix commit 20ed89f): the interpolated time of a spatial sample is kept between the
two stamps it interpolates (in floats the weighted mean `wbwd·t_bwd + wfwd·t_fwd` may fall one ulp outside) -/
def clampT (T tb tf : α) : α := pmin (pmax T tb) tf

/-- Python index `running_id - 1` (index `-1` designates the last element). -/
def bwdIdx (rid len : Nat) : Nat := if rid = 0 then len - 1 else rid - 1

/-- `wbwd = (vfwd - v) / (vfwd - vbwd)`, `wfwd = (v - vbwd) / (vfwd - vbwd)`;
a zero denominator raises ZeroDivisionError. -/
def weights (vb vf v : α) : Except Err (α × α) :=
  let den := vf - vb
  if den < 0 ∨ 0 < den then .ok ((vf - v) / den, (v - vb) / den) else .error .zerodiv

/-- everything the loop body reads once `running_id` is known: the two fixes and the two weights -/
def bracket (P : List (Fix α)) (V : List α) (v : α) (r : Nat) : Except Err (Fix α × Fix α × α × α) :=
  match P[bwdIdx r P.length]?, P[r]?, V[bwdIdx r V.length]?, V[r]? with
  | some pb, some pf, some vb, some vf =>
    match weights vb vf v with
    | .ok (wb, wf) => .ok (pb, pf, wb, wf)
    | .error e => .error e
  | _, _, _, _ => .error .index

/-- `prepareTimeSampling`, number branch: `while 1: output.append(time); time += δ; if time > tfin: break`.
`none` when the fuel runs out. -/
def prepareNumber (δ tfin : α) : Nat → α → Option (List α)
  | 0, _ => none
  | f + 1, time =>
    if tfin < time + δ then some [time]
    else match prepareNumber δ tfin f (time + δ) with
      | some l => some (time :: l)
      | none => none

/-- `prepareTimeSampling(reference, tini, tfin)`. For a positive step the loop runs
`int((tfin - tini)/δ) + 1` times (the fuel is one more); for a non-positive step it never ends. -/
def prepareTimes (trunc : α → Int) (step : Step α) (tini tfin : α) : Except Err (List α) :=
  match step with
  | .instants l => .ok l
  | .track Q => .ok (Q.map (·.t))
  | .other => .ok []
  | .number δ =>
    if 0 < δ then
      match prepareNumber δ tfin ((trunc ((tfin - tini) / δ)).toNat + 2) tini with
      | some l => .ok l
      | none => .error .nonterm
    else if tfin < tini + δ then .ok [tini]     -- the first round already ends the loop (`time > tfin`), whatever the step
    else .error .nonterm

/-- `if running_id > 0 and T[running_id - 1] >= t: running_id = 0` (requested instants may come in any
order: the scan restarts when the previous bracket is already past the instant); `none` = IndexError -/
def rewind (T : List α) (t : α) (rid : Nat) : Option Nat :=
  if rid = 0 then some 0
  else match T[rid - 1]? with
    | some v => if t ≤ v then some 0 else some rid
    | none => none

/-- the `for k in range(len(REF))` loop of `__resampleTemporal`; state = `running_id`. -/
def temporalLoop (P : List (Fix α)) (T : List α) (tini tfin : α) : List α → Nat → Except Err (List (Fix α))
  | [], _ => .ok []
  | t :: rest, rid =>
    if t ≤ tini then temporalLoop P T tini tfin rest rid       -- continue
    else if tfin < t then temporalLoop P T tini tfin rest rid   -- continue
    else match rewind T t rid with
      | none => .error .index
      | some r0 =>
      match advance T t r0 with
      | none => .error .index
      | some r =>
        match bracket P T t r with
        | .error e => .error e
        | .ok (pb, pf, wb, wf) =>
          match temporalLoop P T tini tfin rest r with
          | .error e => .error e
          | .ok out =>
            .ok (⟨wb * pb.x + wf * pf.x, wb * pb.y + wf * pf.y, wb * pb.z + wf * pf.z, t⟩ :: out)

/-- `__resampleTemporal(track, reference)` -/
def resampleTemporal (trunc : α → Int) (P : List (Fix α)) (step : Step α) : Except Err (List (Fix α)) :=
  let T := P.map (·.t)
  match T.head?, T.getLast? with
  | some tini, some tfin =>
    match prepareTimes trunc step tini tfin with
    | .error e => .error e
    | .ok ref => temporalLoop P T tini tfin ref 0
  | _, _ => .error .index

/-- 2D leg lengths: `getObs(i-1).position.distance2DTo(getObs(i).position)` -/
def legs2D (sqrt : α → α) : List (Fix α) → List α
  | a :: b :: rest =>
    sqrt ((b.x - a.x) * (b.x - a.x) + (b.y - a.y) * (b.y - a.y)) :: legs2D sqrt (b :: rest)
  | _ => []

/-- 3D leg lengths (`Track.length`, used only by the front end to derive `delta` from `npts`) -/
def legs3D (sqrt : α → α) : List (Fix α) → List α
  | a :: b :: rest =>
    sqrt ((b.x - a.x) * (b.x - a.x) + (b.y - a.y) * (b.y - a.y) + (b.z - a.z) * (b.z - a.z))
      :: legs3D sqrt (b :: rest)
  | _ => []

/-- `S = [0]; S.append(S[i-1] + dl)` -/
def cumFrom (s : α) : List α → List α
  | [] => [s]
  | l :: ls => s :: cumFrom (s + l) ls

def cum (legs : List α) : List α := cumFrom 0 legs

/-- `s = 0; for …: s += leg` -/
def total (legs : List α) : α := legs.foldl (· + ·) 0

/-- the `for k in range(1, N+1)` loop of `__resampleSpatial`: `n` iterations left, current `k`,
state `running_id`; the time handed to `readUnixTime` is the weighted mean clamped to the two stamps (`clampT`). -/
def spatialLoop (P : List (Fix α)) (S : List α) (sini sfin ds : α) : Nat → Nat → Nat → Except Err (List (Fix α))
  | 0, _, _ => .ok []
  | n + 1, k, rid =>
    let s := pmin ((k : α) * ds + sini) sfin          -- `s = min(k * ds + sini, sfin)`
    match advanceB S s rid with
    | none => .error .index
    | some r =>
      match bracket P S s r with
      | .error e => .error e
      | .ok (pb, pf, wb, wf) =>
        match spatialLoop P S sini sfin ds n (k + 1) r with
        | .error e => .error e
        | .ok out =>
          .ok (⟨wb * pb.x + wf * pf.x, wb * pb.y + wf * pf.y, wb * pb.z + wf * pf.z,
                clampT (wb * pb.t + wf * pf.t) pb.t pf.t⟩ :: out)

/-- `__resampleSpatial` given the list of 2D leg lengths -/
def resampleSpatialLegs (trunc : α → Int) (P : List (Fix α)) (legs : List α) (ds : α) :
    Except Err (List (Fix α)) :=
  let S := cum legs
  match S.head?, S.getLast? with
  | some sini, some sfin =>
    if ds < 0 ∨ 0 < ds then
      let N := trunc ((sfin - sini) / ds)
      match P.head? with           -- `track.getFirstObs()` is read AFTER the division (an empty track with `ds == 0`: ZeroDivisionError)
      | some first =>
        match spatialLoop P S sini sfin ds N.toNat 1 0 with
        | .error e => .error e
        | .ok out => .ok (first :: out)
      | none => .error .index
    else .error .zerodiv
  | _, _ => .error .index

/-- `__resampleSpatial(track, ds)` -/
def resampleSpatial (sqrt : α → α) (trunc : α → Int) (P : List (Fix α)) (ds : α) :
    Except Err (List (Fix α)) :=
  resampleSpatialLegs trunc P (legs2D sqrt P) ds

/-- what the front end is called with: `delta` (a number / list / track, or `None`), `npts`, `factor` -/
structure Request (α : Type) where
  mode : Nat                      -- MODE_SPATIAL = 1, MODE_TEMPORAL = 2
  delta : Option (Step α)
  npts : Option Nat
  factor : Nat

/-- the module-level dispatcher `interpolation.resample(track, delta, algo=ALGO_LINEAR, mode)`: the new observation
list and the table of analytical features. The dispatcher's last line `track.__analyticalFeaturesDico = {}` is
outside the class `Track`, so the name is not mangled: it creates an unrelated attribute and the feature table is
left AS IT WAS (the front end `Track.resample` is what empties it). In spatial mode a step that is not a number
is a TypeError (`(sfin - sini) / ds`). Any other mode: nothing is resampled. -/
def interpResample (sqrt : α → α) (trunc : α → Int) (P : List (Fix α)) (feat : List String)
    (mode : Nat) (d : Step α) : Except Err (List (Fix α) × List String) :=
  if mode = 1 then
    match d with
    | .number ds =>
      match resampleSpatial sqrt trunc P ds with
      | .error e => .error e
      | .ok out => .ok (out, feat)
    | _ => .error .type
  else if mode = 2 then
    match resampleTemporal trunc P d with
    | .error e => .error e
    | .ok out => .ok (out, feat)
  else .ok (P, feat)

/-- `Track.resample(delta, algo=ALGO_LINEAR, mode, npts, factor)`: returns the new observation list and
the new table of analytical features (always empty). `g` is the guard constant `1 + 1e-8`.
`delta is None` (and only that: an empty list or an empty reference track is a request for no instant) selects
the regular resampling with `npts` (default `len(track)·factor`) points. -/
def resample (sqrt : α → α) (trunc : α → Int) (g : α) (P : List (Fix α)) (feat : List String)
    (rq : Request α) : Except Err (List (Fix α) × List String) :=
  let delta? : Except Err (Step α) :=
    match rq.delta with
    | some d => .ok d
    | none =>
      let npts : Nat := match rq.npts with | some n => n | none => P.length * rq.factor
      let L? : Except Err α :=
        if rq.mode = 1 then .ok (total (legs3D sqrt P))
        else match (P.map (·.t)).head?, (P.map (·.t)).getLast? with
          | some a, some b => .ok (b - a)
          | _, _ => .error .index
      match L? with
      | .error e => .error e
      | .ok L => if npts = 0 then .error .zerodiv else .ok (.number (g * L / (npts : α)))
  match delta? with
  | .error e => .error e
  | .ok d =>
    if P.isEmpty then .error .index       -- getSRID() reads the first observation
    else
      match interpResample sqrt trunc P feat rq.mode d with
      | .error e => .error e
      | .ok (out, _) => .ok (out, [])

/-! ### callers: operators of `Track`, `sample`, `synchronize`, `TrackCollection` -/

/-- `track // ref` (`Track.__floordiv__`): a copy of the track resampled (temporal, linear) at the stamps of the
reference track; the track itself is not modified. -/
def floordiv (sqrt : α → α) (trunc : α → Int) (g : α) (P : List (Fix α)) (feat : List String)
    (Q : List (Fix α)) : Except Err (List (Fix α) × List String) :=
  resample sqrt trunc g P feat ⟨2, some (.track Q), none, 1⟩

/-- `track ** n` (`Track.__pow__`): a copy resampled in temporal mode with `npts = n` -/
def pow (sqrt : α → α) (trunc : α → Int) (g : α) (P : List (Fix α)) (feat : List String)
    (n : Nat) : Except Err (List (Fix α) × List String) :=
  resample sqrt trunc g P feat ⟨2, none, some n, 1⟩

/-- `track * k` for a number `k` (`Track.__mul__`): a copy resampled with `factor = k` in the default (spatial) mode -/
def mulNumber (sqrt : α → α) (trunc : α → Int) (g : α) (P : List (Fix α)) (feat : List String)
    (k : Nat) : Except Err (List (Fix α) × List String) :=
  resample sqrt trunc g P feat ⟨1, none, none, k⟩

/-- `interpolation.sample(track, timestamp)`: `t2 = track.copy(); resample(t2, [timestamp], ALGO_LINEAR, MODE_TEMPORAL);
return t2[0]` — IndexError when the instant is not in `(tini, tfin]` -/
def sample (sqrt : α → α) (trunc : α → Int) (P : List (Fix α)) (t : α) : Except Err (Fix α) :=
  match interpResample sqrt trunc P [] 2 (.instants [t]) with
  | .error e => .error e
  | .ok (o :: _, _) => .ok o
  | .ok ([], _) => .error .index

/-- insertion in a non-decreasing list, after the elements that are `≤ v` -/
def insertAsc (v : α) : List α → List α
  | [] => [v]
  | w :: ws => if v < w then v :: w :: ws else w :: insertAsc v ws

/-- `timestamps[np.argsort(timestamps)]` as a list of VALUES (the order of equal stamps is not observable) -/
def sortAsc (l : List α) : List α := l.foldr insertAsc []

/-- drop every element equal to `prev`, its predecessor -/
def dedupFrom (prev : α) : List α → List α
  | [] => []
  | w :: ws => if w < prev ∨ prev < w then w :: dedupFrom w ws else dedupFrom w ws

/-- `for i in range(len(sorted) - 2, 0, -1): if sorted[i + 1] == sorted[i]: del sorted[i + 1]`: the loop stops at
`i = 1`, so the pair of positions 0, 1 is never tested (a duplicate there stays) -/
def syncDedup : List α → List α
  | a :: b :: rest => a :: b :: dedupFrom b rest
  | l => l

/-- the instants `synchronize` requests: stamps of both tracks strictly inside the common time range
`(max of the first stamps, min of the last stamps)`, sorted, de-duplicated by the loop above -/
def syncRequest (T1 T2 : List α) (tini tfin : α) : List α :=
  syncDedup ((sortAsc (T1 ++ T2)).filter (fun t => decide (tini < t) && decide (t < tfin)))

/-- `interpolation.synchronize(track1, track2)`: both tracks resampled (`Track.resample`, temporal, linear) at
`syncRequest`; track1 first (when that raises, track2 is untouched). An empty track: IndexError (`getFirstObs`). -/
def synchronize (sqrt : α → α) (trunc : α → Int) (g : α) (P1 P2 : List (Fix α)) (f1 f2 : List String) :
    Except Err ((List (Fix α) × List String) × (List (Fix α) × List String)) :=
  match P1.head?, P2.head?, P1.getLast?, P2.getLast? with
  | some a1, some a2, some b1, some b2 =>
    let req := syncRequest (P1.map (·.t)) (P2.map (·.t)) (pmax a1.t a2.t) (pmin b1.t b2.t)
    match resample sqrt trunc g P1 f1 ⟨2, some (.instants req), none, 1⟩ with
    | .error e => .error e
    | .ok r1 =>
      match resample sqrt trunc g P2 f2 ⟨2, some (.instants req), none, 1⟩ with
      | .error e => .error e
      | .ok r2 => .ok (r1, r2)
  | _, _, _, _ => .error .index

/-- `synchronize(track, track)` (the same object twice): the second resampling sees the result of the first -/
def synchronizeSelf (sqrt : α → α) (trunc : α → Int) (g : α) (P : List (Fix α)) (f : List String) :
    Except Err (List (Fix α) × List String) :=
  match P.head?, P.getLast? with
  | some a, some b =>
    let req := syncRequest (P.map (·.t)) (P.map (·.t)) (pmax a.t a.t) (pmin b.t b.t)
    match resample sqrt trunc g P f ⟨2, some (.instants req), none, 1⟩ with
    | .error e => .error e
    | .ok (P', f') => resample sqrt trunc g P' f' ⟨2, some (.instants req), none, 1⟩
  | _, _ => .error .index

/-- `TrackCollection.resample(delta, algo, mode)`: `for track in self: track.resample(delta, algo, mode)` -/
def collResample (sqrt : α → α) (trunc : α → Int) (g : α) (tracks : List (List (Fix α) × List String))
    (mode : Nat) (d : Step α) : Except Err (List (List (Fix α) × List String)) :=
  tracks.mapM (fun tr => resample sqrt trunc g tr.1 tr.2 ⟨mode, some d, none, 1⟩)

/-- `collection // ref` (`TrackCollection.__floordiv__`): `t.resample(track, mode=2)` on every track of a copy of the
collection, in order (since the fix commit ea8666e; before it the mode was left to its spatial default and the call
raised TypeError). The collection itself is not modified. -/
def collFloordiv (sqrt : α → α) (trunc : α → Int) (g : α) (tracks : List (List (Fix α) × List String))
    (Q : List (Fix α)) : Except Err (List (List (Fix α) × List String)) :=
  tracks.mapM (fun tr => resample sqrt trunc g tr.1 tr.2 ⟨2, some (.track Q), none, 1⟩)

end

/-! ### stamping: `Obs(ENUCoords(X, Y, Z), ObsTime.readUnixTime(t))` -/

/-- the stamp an output observation carries: `ObsTime.readUnixTime(t)` = the C03 model applied to `⌊1000·t⌋`
(`ms`); `none` for an instant before 1970 (the calendar loops are not meant for it) -/
def stampOf {α : Type} (ms : α → Int) (t : α) : Option TV.ObsTime.Stamp :=
  let m := ms t
  if m < 0 then none else some (TV.ObsTime.readUnixMs m.toNat)

/-- the stamp an output observation carries, AS THE PYTHON COMPUTES IT: `ObsTime.readUnixTime(t)` on the float `t` handed to it by
`__resampleTemporal` / `__resampleSpatial`, mirrored operation for operation by C03's scalar-polymorphic reader `readUnixG`
(year loop on `elapsed - sec`, month loop, three truncated divisions, `ms = int(frac * 1000)`; `trunc` = Python's `int()`).
At `Float` this is bit-exact with CPython (the driver's `f` stream emits it and the harness compares the seven fields exactly);
over an ordered field with an exact `int()` it equals `stampOf` for every `t ≥ 0` (`TV.C05.stamp_is_readUnixTime`), so `stampOf`
is a theorem about the mirrored code, not a definition of the stamp. `none` = the year loop ran out of fuel (NaN / infinity). -/
def stampG {α : Type} [Add α] [Sub α] [Mul α] [Div α] [LT α] [DecidableLT α] [IntCast α]
    (trunc : α → Int) (t : α) : Option TV.ObsTime.StampZ :=
  TV.ObsTime.readUnixG trunc t

/-- the timestamps of a SPATIALLY resampled track as the Python builds them: the first output is `track.getFirstObs().copy()` and
carries the first fix's own `ObsTime` `s0` (it is not re-read by `readUnixTime`); every other output is stamped
`ObsTime.readUnixTime(T)` of its interpolated time. (In doubles the two differ for some stamps — `readUnixTime(toAbsTime())` of a
stamp with ms = 53 may read 52 —, which the exact comparison of the calendar fields found; in exact arithmetic they are the same
stamp: `TV.C05.spatial_first_stamp_carried`.) -/
def spatialStampsG {α : Type} [Add α] [Sub α] [Mul α] [Div α] [LT α] [DecidableLT α] [IntCast α]
    (trunc : α → Int) (s0 : TV.ObsTime.StampZ) : List (Fix α) → List (Option TV.ObsTime.StampZ)
  | [] => []
  | _ :: rest => some s0 :: rest.map (fun p => stampG trunc p.t)

/-- the stamps of a resampled track -/
def stamps {α : Type} (ms : α → Int) (out : List (Fix α)) : List (Option TV.ObsTime.Stamp) :=
  out.map (fun p => stampOf ms p.t)

end TV.Resample
