/-! Model of linear resampling: tracklib/algo/interpolation.py (`prepareTimeSampling`,
`__resampleTemporal`, `__resampleSpatial`, the `resample` dispatcher for `ALGO_LINEAR`) and the
front end `Track.resample` of tracklib/core/track.py.

Scalar-polymorphic (core Lean only): the driver instantiates `α := Rat` (exact streams) and
`α := Float`; the proofs use an ordered field. A fix is `(x, y, z, t)` with `t = timestamp.toAbsTime()`
in seconds; stamping an output with `ObsTime.readUnixTime(t)` is the C03 model and is applied by the
driver. `sqrt` (2D/3D leg lengths) and `trunc` (Python `int()`) are parameters.

Python exceptions are values of `Err`: `index` (IndexError from `T[running_id]` / `getObs`),
`zerodiv` (ZeroDivisionError), `nonterm` (the `while 1` loop of `prepareTimeSampling` never ends
when the step is not positive). -/
namespace TV.Resample

inductive Err where
  | index | zerodiv | nonterm
  deriving DecidableEq, Repr

structure Fix (α : Type) where
  x : α
  y : α
  z : α
  t : α
  deriving Repr, DecidableEq

/-- the reference argument of temporal resampling: a number of seconds, or a list of instants
(`[ObsTime]`, or the timestamps of a reference track — both are mapped through `toAbsTime`). -/
inductive Step (α : Type) where
  | number (δ : α)
  | instants (l : List α)

section
variable {α : Type} [Add α] [Sub α] [Mul α] [Div α] [LT α] [LE α] [DecidableLT α] [DecidableLE α]
  [OfNat α 0] [NatCast α]

/-- `while V[running_id] < v: running_id += 1` on the suffix of `V` starting at `running_id`;
`none` = IndexError (ran past the end). -/
def scan (v : α) : List α → Nat → Option Nat
  | [], _ => none
  | w :: ws, i => if w < v then scan v ws (i + 1) else some i

def advance (V : List α) (v : α) (rid : Nat) : Option Nat := scan v (V.drop rid) rid

/-- `while running_id < len(V) - 1 and V[running_id] < v: running_id += 1` (the spatial loop's scan
never leaves the table: it stops on the last index whatever the value there) -/
def scanB (v : α) : List α → Nat → Option Nat
  | [], _ => none
  | [_], i => some i
  | w :: w' :: ws, i => if w < v then scanB v (w' :: ws) (i + 1) else some i

def advanceB (V : List α) (v : α) (rid : Nat) : Option Nat := scanB v (V.drop rid) rid

/-- Python's `min(a, b)`: `b` only when `b < a` (so a NaN `a` stays) -/
def pmin (a b : α) : α := if b < a then b else a

/-- Python index `running_id - 1` (index `-1` designates the last element). -/
def bwdIdx (rid len : Nat) : Nat := if rid = 0 then len - 1 else rid - 1

/-- `wbwd = (vfwd - v) / (vfwd - vbwd)`, `wfwd = (v - vbwd) / (vfwd - vbwd)`;
a zero denominator raises ZeroDivisionError. -/
def weights (vb vf v : α) : Except Err (α × α) :=
  let den := vf - vb
  if den < 0 ∨ 0 < den then .ok ((vf - v) / den, (v - vb) / den) else .error .zerodiv

/-- everything the loop body reads once `running_id` is known: the two fixes and the two weights -/
def bracket (P : List (Fix α)) (V : List α) (v : α) (r : Nat) : Except Err (Fix α × Fix α × α × α) :=
  match P[bwdIdx r P.length]?, P[r]?, V[bwdIdx r V.length]?, V[r]? with
  | some pb, some pf, some vb, some vf =>
    match weights vb vf v with
    | .ok (wb, wf) => .ok (pb, pf, wb, wf)
    | .error e => .error e
  | _, _, _, _ => .error .index

/-- `prepareTimeSampling`, number branch: `while 1: output.append(time); time += δ; if time > tfin: break`.
`none` when the fuel runs out. -/
def prepareNumber (δ tfin : α) : Nat → α → Option (List α)
  | 0, _ => none
  | f + 1, time =>
    if tfin < time + δ then some [time]
    else match prepareNumber δ tfin f (time + δ) with
      | some l => some (time :: l)
      | none => none

/-- `prepareTimeSampling(reference, tini, tfin)`. For a positive step the loop runs
`int((tfin - tini)/δ) + 1` times (the fuel is one more); for a non-positive step it never ends. -/
def prepareTimes (trunc : α → Int) (step : Step α) (tini tfin : α) : Except Err (List α) :=
  match step with
  | .instants l => .ok l
  | .number δ =>
    if 0 < δ then
      match prepareNumber δ tfin ((trunc ((tfin - tini) / δ)).toNat + 2) tini with
      | some l => .ok l
      | none => .error .nonterm
    else .error .nonterm

/-- `if running_id > 0 and T[running_id - 1] >= t: running_id = 0` (requested instants may come in any
order: the scan restarts when the previous bracket is already past the instant); `none` = IndexError -/
def rewind (T : List α) (t : α) (rid : Nat) : Option Nat :=
  if rid = 0 then some 0
  else match T[rid - 1]? with
    | some v => if t ≤ v then some 0 else some rid
    | none => none

/-- the `for k in range(len(REF))` loop of `__resampleTemporal`; state = `running_id`. -/
def temporalLoop (P : List (Fix α)) (T : List α) (tini tfin : α) : List α → Nat → Except Err (List (Fix α))
  | [], _ => .ok []
  | t :: rest, rid =>
    if t ≤ tini then temporalLoop P T tini tfin rest rid       -- continue
    else if tfin < t then temporalLoop P T tini tfin rest rid   -- continue
    else match rewind T t rid with
      | none => .error .index
      | some r0 =>
      match advance T t r0 with
      | none => .error .index
      | some r =>
        match bracket P T t r with
        | .error e => .error e
        | .ok (pb, pf, wb, wf) =>
          match temporalLoop P T tini tfin rest r with
          | .error e => .error e
          | .ok out =>
            .ok (⟨wb * pb.x + wf * pf.x, wb * pb.y + wf * pf.y, wb * pb.z + wf * pf.z, t⟩ :: out)

/-- `__resampleTemporal(track, reference)` -/
def resampleTemporal (trunc : α → Int) (P : List (Fix α)) (step : Step α) : Except Err (List (Fix α)) :=
  let T := P.map (·.t)
  match T.head?, T.getLast? with
  | some tini, some tfin =>
    match prepareTimes trunc step tini tfin with
    | .error e => .error e
    | .ok ref => temporalLoop P T tini tfin ref 0
  | _, _ => .error .index

/-- 2D leg lengths: `getObs(i-1).position.distance2DTo(getObs(i).position)` -/
def legs2D (sqrt : α → α) : List (Fix α) → List α
  | a :: b :: rest =>
    sqrt ((b.x - a.x) * (b.x - a.x) + (b.y - a.y) * (b.y - a.y)) :: legs2D sqrt (b :: rest)
  | _ => []

/-- 3D leg lengths (`Track.length`, used only by the front end to derive `delta` from `npts`) -/
def legs3D (sqrt : α → α) : List (Fix α) → List α
  | a :: b :: rest =>
    sqrt ((b.x - a.x) * (b.x - a.x) + (b.y - a.y) * (b.y - a.y) + (b.z - a.z) * (b.z - a.z))
      :: legs3D sqrt (b :: rest)
  | _ => []

/-- `S = [0]; S.append(S[i-1] + dl)` -/
def cumFrom (s : α) : List α → List α
  | [] => [s]
  | l :: ls => s :: cumFrom (s + l) ls

def cum (legs : List α) : List α := cumFrom 0 legs

/-- `s = 0; for …: s += leg` -/
def total (legs : List α) : α := legs.foldl (· + ·) 0

/-- the `for k in range(1, N+1)` loop of `__resampleSpatial`: `n` iterations left, current `k`,
state `running_id`. -/
def spatialLoop (P : List (Fix α)) (S : List α) (sini sfin ds : α) : Nat → Nat → Nat → Except Err (List (Fix α))
  | 0, _, _ => .ok []
  | n + 1, k, rid =>
    let s := pmin ((k : α) * ds + sini) sfin          -- `s = min(k * ds + sini, sfin)`
    match advanceB S s rid with
    | none => .error .index
    | some r =>
      match bracket P S s r with
      | .error e => .error e
      | .ok (pb, pf, wb, wf) =>
        match spatialLoop P S sini sfin ds n (k + 1) r with
        | .error e => .error e
        | .ok out =>
          .ok (⟨wb * pb.x + wf * pf.x, wb * pb.y + wf * pf.y, wb * pb.z + wf * pf.z,
                wb * pb.t + wf * pf.t⟩ :: out)

/-- `__resampleSpatial` given the list of 2D leg lengths -/
def resampleSpatialLegs (trunc : α → Int) (P : List (Fix α)) (legs : List α) (ds : α) :
    Except Err (List (Fix α)) :=
  let S := cum legs
  match S.head?, S.getLast?, P.head? with
  | some sini, some sfin, some first =>
    if ds < 0 ∨ 0 < ds then
      let N := trunc ((sfin - sini) / ds)
      match spatialLoop P S sini sfin ds N.toNat 1 0 with
      | .error e => .error e
      | .ok out => .ok (first :: out)
    else .error .zerodiv
  | _, _, _ => .error .index

/-- `__resampleSpatial(track, ds)` -/
def resampleSpatial (sqrt : α → α) (trunc : α → Int) (P : List (Fix α)) (ds : α) :
    Except Err (List (Fix α)) :=
  resampleSpatialLegs trunc P (legs2D sqrt P) ds

/-- what the front end is called with: `delta` (a number / list / track, or `None`), `npts`, `factor` -/
structure Request (α : Type) where
  mode : Nat                      -- MODE_SPATIAL = 1, MODE_TEMPORAL = 2
  delta : Option (Step α)
  npts : Option Nat
  factor : Nat

/-- `Track.resample(delta, algo=ALGO_LINEAR, mode, npts, factor)`: returns the new observation list and
the new table of analytical features (always empty). `g` is the guard constant `1 + 1e-8`.
In spatial mode a list/track `delta` is a TypeError in Python: not modelled (`index` is returned). -/
def resample (sqrt : α → α) (trunc : α → Int) (g : α) (P : List (Fix α)) (_feat : List String)
    (rq : Request α) : Except Err (List (Fix α) × List String) :=
  let delta? : Except Err (Step α) :=
    match rq.delta with
    | some d => .ok d
    | none =>
      let npts : Nat := match rq.npts with | some n => n | none => P.length * rq.factor
      let L? : Except Err α :=
        if rq.mode = 1 then .ok (total (legs3D sqrt P))
        else match (P.map (·.t)).head?, (P.map (·.t)).getLast? with
          | some a, some b => .ok (b - a)
          | _, _ => .error .index
      match L? with
      | .error e => .error e
      | .ok L => if npts = 0 then .error .zerodiv else .ok (.number (g * L / (npts : α)))
  match delta? with
  | .error e => .error e
  | .ok d =>
    if P.isEmpty then .error .index       -- getSRID() reads the first observation
    else if rq.mode = 1 then
      match d with
      | .number ds =>
        match resampleSpatial sqrt trunc P ds with
        | .error e => .error e
        | .ok out => .ok (out, [])
      | .instants _ => .error .index
    else if rq.mode = 2 then
      match resampleTemporal trunc P d with
      | .error e => .error e
      | .ok out => .ok (out, [])
    else .ok (P, [])

end
end TV.Resample
