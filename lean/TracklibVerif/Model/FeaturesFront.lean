import TracklibVerif.Model.FeaturesCall
/-! Front ends of the write paths of the feature table (tracklib/core/track.py): what happens to the ARGUMENTS of
`createAnalyticalFeature(name, val_init=0.0)` and of `track[name] = obs` before the table primitives of
`Model/Features.lean` are reached.

* `createAnalyticalFeature`: `name == None` returns at once; the parameter `val_init` has the default `0.0`, used ONLY when
  the argument is not given — a given argument is stored as it is, whatever Python object it is (`None`, a bool, a str, a
  numpy scalar …): the only question asked about it is `isinstance(val_init, list)` (per-observation form). `createFront`.
* `Track.__setitem__(name, obs)` with a str key: `obs == "#DELETE"` deletes the feature, a function is handed to
  addAnalyticalFeature (modelled by `Op.addAF`), anything else is stored: update when `hasAnalyticalFeature(name)`, create
  otherwise. `bracketFront`; `isDelete v` is the test `v == "#DELETE"` on the value type.

The values of the cells are a parameter `V` as everywhere: the driver runs these front ends at `V := String`, a token
per Python object (`vrun` / `varun` in `Drv/C01.lean`), next to the `Float` instance. Core Lean only. -/
namespace TV.Features
variable {V σ : Type} [Tbl σ V]
open Tbl

/-- `createAnalyticalFeature(name[, val_init])`: `arg = none` is the call without the second argument (default `0.0`) -/
def createFront (o : Ops V) (name : Option String) (arg : Option (Init V)) : M σ Unit :=
  match name with
  | none => pure ()
  | some n => create n (arg.getD (.scalar o.zero))

/-- `track[name] = obs` for a str `name` and an `obs` that is not a function -/
def bracketFront (isDelete : V → Bool) (name : String) (arg : Init V) : M σ Unit :=
  match arg with
  | .scalar v => if isDelete v then remove name else setItem name arg
  | .list _ => setItem name arg            -- `[…] == "#DELETE"` is False

/-- one call, front ends included -/
inductive FCall (V : Type)
  | api (c : Call V)                                             -- any call of `Model/FeaturesCall.lean`
  | create (name : Option String) (arg : Option (Init V))        -- createAnalyticalFeature(name[, val_init])
  | bracket (name : String) (arg : Init V)                       -- track[name] = obs
  deriving Repr

def fcall (o : Ops V) (isDelete : V → Bool) : FCall V → M σ (Ret V)
  | .api c => call o c
  | .create n a => do createFront o n a; pure .none
  | .bracket n a => do bracketFront isDelete n a; pure .none

/-- a history of calls: the state and the outcome after every call -/
def traceF (o : Ops V) (isDelete : V → Bool) : List (FCall V) → σ → List (Except Err (Ret V) × σ)
  | [], _ => []
  | c :: cs, s =>
    let r := fcall o isDelete c s
    r :: traceF o isDelete cs r.2

end TV.Features
