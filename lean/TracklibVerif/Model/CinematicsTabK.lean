import TracklibVerif.Model.CinematicsTab
import TracklibVerif.Model.CinematicsCoords
/-! The curvilinear-abscissa and speed programs **on the feature table, for every coordinate class** (C17).

`Model/CinematicsTab.lean` writes the programs against the Track API with the distance of `ENUCoords` built in
(`dist2DT`). The Python is the same whatever the class of the position objects; what the class decides is the chain of
dispatches mirrored in `Model/CinematicsCoords.lean` (a list model of ONE track). This file puts that chain behind the
Track API, so that tracks of `GeoCoords` / `ECEFCoords` live in the same world of shared observation objects, go through
the same histories (`+`, extract, slicing, `copy()`, in-place edits of positions and stamps, removals, recomputations)
and are covered by the same table theorems:

* `Kernel V`          : what the class of the position objects decides — `refuse` is the outcome of
                        `Obs.__check_call_geom1` (`some e` = `raise CoordTypeError`), `pos` is
                        `self.position.distance2DTo(point.position)` on the coordinates of the two objects (`.error` =
                        `AttributeError`, the class has no such method);
* `posDistT`          : `track.getObs(i).position.distance2DTo(track.getObs(j).position)` (used by `speed` and
                        `computeCurvAbsBetweenTwoPoints`): both observations are fetched, then the class method runs;
* `obsDistT`          : `track.getObs(i).distance2DTo(track.getObs(j))` (used by `ds`): both fetched, then the check,
                        then the class method;
* `computeAbsCurvG`, `estimateSpeedG` : `computeAbsCurv` / `estimate_speed` for an ARBITRARY algorithm `i ↦ M σ V`
                        passed to `addAnalyticalFeature` (`computeAbsCurvT g = computeAbsCurvG g (dsAlgT g)` by `rfl`);
* `computeAbsCurvK`, `estimateSpeedK`, `curvAbsK`, `dsAlgK`, `speedAlgK` : the instances at a kernel;
* `clsKernel`         : the kernel of `ENUCoords` / `GeoCoords` / `ECEFCoords` on feature values `Option α`
                        (`CinCoords.enuDist2D`, `CinCoords.geoDist2D`, refusal / `AttributeError`);
* `stepK`             : one operation of a history on a world whose position objects are of the kernel's class.

`Features.Err` has no constructor for `CoordTypeError` / `AttributeError`; which `Err` the refusal and the missing
method raise is a parameter of `clsKernel` (`eRef`, `eAttr`): the theorems hold for every choice, the driver
instantiates them and prints them as `err:refused` / `err:attr`. An exception other than `IndexError` is not caught by
`addAnalyticalFeature` (`M.catchIndex`): it ends the loop, the column created before the loop and the values written so
far stay (the state-keeping monad `Features.M`). Core Lean only. -/
namespace TV.CinTabK
open TV.Features TV.CinTab
open TV.CinCoords (Cls geoDist2D enuDist2D)
open TV.Geo (Trig V3)

variable {V : Type}

/-- what the class of the position objects of a track decides -/
structure Kernel (V : Type) where
  /-- `Obs.__check_call_geom1`: `some e` = refused (`raise CoordTypeError(...)`) -/
  refuse : Option Err
  /-- `self.distance2DTo(point)` of the coordinate class, on `(self.x, self.y, self.z, point.x, point.y, point.z)`
  (`getX()/getY()/getZ()`: `E,N,U` / `lon,lat,hgt` / `X,Y,Z`) -/
  pos : V → V → V → V → V → V → Except Err V

/-- `Obs.distance2DTo(obs)` on the coordinates: the check, then the method of the class -/
def Kernel.obs (K : Kernel V) (xi yi zi xj yj zj : V) : Except Err V :=
  match K.refuse with
  | some e => .error e
  | none => K.pos xi yi zi xj yj zj

section api
variable {σ : Type} [Tbl σ V]
open Tbl

/-- an outcome computed without touching the track -/
def liftE {α : Type} (r : Except Err α) : M σ α := fun s => (r, s)

/-- the coordinates of the position objects of fixes `i` and `j` (`getObs(i)`, `getObs(j)`: `IndexError` outside) -/
def fetch2 (g : GOps V) (i j : Nat) : M σ (V × V × V × V × V × V) := do
  let xi ← getObs g.toOps "x" i
  let yi ← getObs g.toOps "y" i
  let zi ← getObs g.toOps "z" i
  let xj ← getObs g.toOps "x" j
  let yj ← getObs g.toOps "y" j
  let zj ← getObs g.toOps "z" j
  pure (xi, yi, zi, xj, yj, zj)

/-- `track.getObs(i).position.distance2DTo(track.getObs(j).position)` -/
def posDistT (g : GOps V) (K : Kernel V) (i j : Nat) : M σ V :=
  fetch2 g i j >>= fun p => liftE (K.pos p.1 p.2.1 p.2.2.1 p.2.2.2.1 p.2.2.2.2.1 p.2.2.2.2.2)

/-- `track.getObs(i).distance2DTo(track.getObs(j))` -/
def obsDistT (g : GOps V) (K : Kernel V) (i j : Nat) : M σ V :=
  fetch2 g i j >>= fun p => liftE (K.obs p.1 p.2.1 p.2.2.1 p.2.2.2.1 p.2.2.2.2.1 p.2.2.2.2.2)

/-- `analytics.ds(track, i)` -/
def dsAlgK (g : GOps V) (K : Kernel V) (i : Nat) : M σ V :=
  if i = 0 then pure g.zero else obsDistT g K i (i - 1)

/-- speed from the later fix `a` and the earlier fix `b`; the distance is evaluated before the stamps are read -/
def speedBetweenK (g : GOps V) (K : Kernel V) (a b : Nat) : M σ V := do
  let d ← posDistT g K a b
  let ta ← getObs g.toOps "t" a
  let tb ← getObs g.toOps "t" b
  let dt := g.sub ta tb
  pure (if g.isZero dt then g.nan else g.div d dt)

/-- `analytics.speed(track, i)` -/
def speedAlgK (g : GOps V) (K : Kernel V) (i : Nat) : M σ V :=
  if i = 0 then speedBetweenK g K 1 0
  else do
    let n ← size
    if i = n - 1 then speedBetweenK g K (n - 1) (n - 2) else speedBetweenK g K (i + 1) (i - 1)

/-- `if not track.hasAnalyticalFeature("ds"): track.addAnalyticalFeature(alg, "ds")` -/
def ensureDsG (g : GOps V) (alg : Nat → M σ V) : M σ Unit := do
  let b ← has "ds"
  if !b then addAFfn g.toOps alg "ds" >>= fun _ => pure () else pure ()

/-- `cinematics.computeAbsCurv(track)` with `alg` in the place of `analytics.ds` -/
def computeAbsCurvG (g : GOps V) (alg : Nat → M σ V) : M σ (List V) :=
  ensureDsG g alg >>= fun _ => ensureAbsCurvT g >>= fun _ => remove "ds" >>= fun _ => get g.toOps "abs_curv"

/-- `cinematics.estimate_speed(track)` with `alg` in the place of `analytics.speed` -/
def estimateSpeedG (g : GOps V) (alg : Nat → M σ V) : M σ (List V) := do
  let b ← has "speed"
  if b then get g.toOps "speed" else addAFfn g.toOps alg "speed"

/-- the ENU programs of `Model/CinematicsTab.lean` are the instances at `analytics.ds` / `analytics.speed` with the
`ENUCoords` distance built in -/
theorem computeAbsCurvT_eq (g : GOps V) : (computeAbsCurvT g : M σ (List V)) = computeAbsCurvG g (dsAlgT g) := rfl
theorem estimateSpeedT_eq (g : GOps V) : (estimateSpeedT g : M σ (List V)) = estimateSpeedG g (speedAlgT g) := rfl

/-- `cinematics.computeAbsCurv(track)` on a track whose positions are of the kernel's class -/
def computeAbsCurvK (g : GOps V) (K : Kernel V) : M σ (List V) := computeAbsCurvG g (dsAlgK g K)

/-- `cinematics.estimate_speed(track)` = `Track.estimate_speed()` (kernel None) -/
def estimateSpeedK (g : GOps V) (K : Kernel V) : M σ (List V) := estimateSpeedG g (speedAlgK g K)

/-- `cinematics.computeCurvAbsBetweenTwoPoints(track)`: `for i in 0..n-2: s = s + track[i].position.distance2DTo(track[i+1].position)` -/
def curvAbsK (g : GOps V) (K : Kernel V) : M σ V := do
  let n ← size
  M.foldL (List.range (n - 1)) g.zero fun s i => do
    let d ← posDistT g K i (i + 1)
    pure (g.add s d)

end api

/-! ## the kernels of the three coordinate classes, on feature values `Option α` -/

section kernels
variable {α : Type} [Add α] [Sub α] [Mul α] [Div α] [Neg α] [OfScientific α] [OfNat α 0]

/-- a function of two positions on `Option α` coordinates (a NaN coordinate gives NaN) -/
def onPtsV (f : V3 α → V3 α → α) (xi yi zi xj yj zj : Option α) : Option α :=
  match xi, yi, zi, xj, yj, zj with
  | some xi, some yi, some zi, some xj, some yj, some zj => some (f ⟨xi, yi, zi⟩ ⟨xj, yj, zj⟩)
  | _, _, _, _, _, _ => none

/-- a class method that never raises -/
def onPts (f : V3 α → V3 α → α) (xi yi zi xj yj zj : Option α) : Except Err (Option α) :=
  .ok (onPtsV f xi yi zi xj yj zj)

/-- `ENUCoords`: `(point - self).norm2D()`; `GeoCoords`: `self.toENUCoords(point).norm2D()`; `ECEFCoords`: refused by
`Obs.distance2DTo` (`eRef`), no `distance2DTo` on the coordinate object (`eAttr`) -/
def clsKernel (T : Trig α) (eRef eAttr : Err) : Cls → Kernel (Option α)
  | .enu => ⟨none, onPts (enuDist2D T)⟩
  | .geo => ⟨none, onPts (geoDist2D T)⟩
  | .ecef => ⟨some eRef, fun _ _ _ _ _ _ => .error eAttr⟩

end kernels

/-! ## one operation of a history on a world of one coordinate class -/

/-- run a column-valued program on track `k` of the world (`.unsupported` = no such track, never generated) -/
def runCol (k : Nat) (m : M (World V) (List V)) : M (World V) (WRet V) := fun w0 =>
  if k ≥ w0.trks.length then (.error .unsupported, w0)
  else match m { w0 with cur := k } with | (r, w') => (r.map .col, w')

/-- run a number-valued program on track `k` of the world -/
def runNum (k : Nat) (m : M (World V) V) : M (World V) (WRet V) := fun w0 =>
  if k ≥ w0.trks.length then (.error .unsupported, w0)
  else match m { w0 with cur := k } with | (r, w') => (r.map .num, w')

/-- As `CinTab.stepW`, the operations that take planimetric distances going through the kernel of the class of the
position objects. `Track.length()` (3D, `distanceTo`) is modelled for `ENUCoords` only: `.unsupported` here (not
generated for the other classes). Every other operation does not look at the class: it is `stepW`. -/
def stepK [AbsTime V] (g : GOps V) (K : Kernel V) (op : WOp V) : M (World V) (WRet V) :=
  match op with
  | .absCurv k => runCol k (computeAbsCurvK g K)
  | .speed k => runCol k (estimateSpeedK g K)
  | .speedMethod k => runCol k (estimateSpeedK g K)
  | .speedAF k => runCol k (addAFfn g.toOps (speedAlgK g K) "speed")
  | .dsAF k => runCol k (addAFfn g.toOps (dsAlgK g K) "ds")
  | .curvAbs k => runNum k (curvAbsK g K)
  | .length _ => fun w0 => (.error .unsupported, w0)
  | op => stepW g op

end TV.CinTabK
