import TracklibVerif.Model.GraphPathExt
import TracklibVerif.Model.GraphAStar
/-! `Network.shortest_path` / `run_routing_backward` in A* MODE (`tracklib/core/network.py`, as it is after fix c78e3ab).

`setRoutingMethod(Network.ROUTING_ALGO_ASTAR)` / `setAStarWeight(w)` assign the instance attributes `routing_mode` /
`astar_wgt`. `run_routing_forward` then orders its queue by `fils.poids + heuristic`, `heuristic` being
`astar_wgt * fils.distanceTo(self.NODES[target])` when `routing_mode == 1` and a target is given and its initial value `0`
otherwise (`forwardH` / `heuristicOf`, `Model/GraphAStar.lean`); the labels, the relaxation, `antecedent` / `antecedent_edge`,
the stop tests and `output_dict` are those of the Dijkstra loop. `run_routing_backward` is the same code in both modes: it
walks `antecedent` / `antecedent_edge` as the forward pass left them.

Here: `shortest_path` on a fresh network with the heuristic values `h` (`shortestPathH`, through the track operators
`shortestPathHT`), and the calls `shortest_path` / `shortest_distance` / `run_routing_forward` / `run_routing_backward` /
`setRoutingMethod` / `setAStarWeight` as operations of a session on ONE `Network` object whose state is the session state
of `Model/GraphPathExt.lean` (node flags, the caller's `output_dict`) plus the two settings (`SessA`, `stepOpA`,
`runSessionA`). In Dijkstra mode `heuristic` is the literal `0` that the code adds to every priority. Core Lean only. -/
namespace TV.GraphExt
open TV.Graph
variable {W : Type} [LT W] [DecidableLT W] [Add W] [OfNat W 0]

/-- `shortest_path(source, target, cut)` on a fresh network when `heuristic` takes the values `h` (list-level geometry) -/
def shortestPathH {P : Type} (net : Net W) (geo : Geo P) (h : Nat → W) (s t : Nat) (cut : Option W) : Back P :=
  runBackward net geo (runForwardH net h s (some t) cut).1 t

/-- the same through the track operators of the C04 model -/
def shortestPathHT (net : Net W) (geo : GeoT) (h : Nat → W) (s t : Nat) (cut : Option W) : BackT :=
  runBackwardT net geo (runForwardH net h s (some t) cut).1 t

/-- `run_routing_forward(source, target, cut, output_dict)` on the flags `flags`, `heuristic` taking the values `h` -/
def runForwardOnH (net : Net W) (h : Nat → W) (flags : Option (St W)) (s : NodeArg) (t : Option NodeArg) (cut : Option W) :
    St W × List (Nat × W) :=
  forwardH net h (t.map correctInputNode) cut net.n (setSource (resetFlags flags) (correctInputNode s)) []

/-- the forward pass of an operation, with the optional recording in the session's dictionary -/
def Sess.forwardH (net : Net W) (h : Nat → W) (se : Sess W) (s : NodeArg) (t : Option NodeArg) (cut : Option W)
    (useDict : Bool) : Sess W :=
  let r := runForwardOnH net h se.flags s t cut
  { flags := some r.1, dict := if useDict then record se.dict (correctInputNode s) r.2 else se.dict }

/-- one routing call on the network, `hOf target` being the values `heuristic` takes in a search for `target` -/
def stepOpH (net : Net W) (geo : GeoT) (order : List Nat) (hOf : Option Nat → Nat → W) (se : Sess W) : Op W → Sess W × Out W
  | .path s t cut ud =>
    let se' := se.forwardH net (hOf (some (correctInputNode t))) s (some t) cut ud
    match se'.flags with
    | some st => (se', .path (runBackwardT net geo st (correctInputNode t)) (st.d (correctInputNode t)))
    | Option.none => (se', .attrErr)
  | .dist s t cut ud =>
    let se' := se.forwardH net (hOf (t.map correctInputNode)) s t cut ud
    match se'.flags, t with
    | some st, some t => (se', .dist (st.d (correctInputNode t)))
    | some st, Option.none => (se', .dists (order.map st.d))
    | Option.none, _ => (se', .attrErr)
  | .fwd s t cut ud => (se.forwardH net (hOf (t.map correctInputNode)) s t cut ud, .done)
  | .back t =>
    match se.flags with
    | Option.none => (se, .attrErr)
    | some st => (se, .path (runBackwardT net geo st (correctInputNode t)) (st.d (correctInputNode t)))

/-- the state of a session on a `Network` object with its routing settings -/
structure SessA (W : Type) where
  sess : Sess W
  mode : Nat          -- `self.routing_mode`
  wgt : W             -- `self.astar_wgt`

/-- `Network()`: `routing_mode = ROUTING_ALGO_DIJKSTRA` (0), `astar_wgt = 1`; no search yet -/
def SessA.start [OfNat W 1] : SessA W := { sess := Sess.start, mode := 0, wgt := 1 }

inductive OpA (W : Type) where
  | setMethod (m : Nat)      -- `setRoutingMethod(m)`
  | setWeight (w : W)        -- `setAStarWeight(w)`
  | call (op : Op W)         -- a routing call

variable [Sub W] [Mul W]

/-- the values of `heuristic` in a search for `target` on this object -/
def SessA.h (sqrt : W → W) (pos : Nat → Pos W) (sa : SessA W) (target : Option Nat) : Nat → W :=
  heuristicOf sqrt pos sa.mode sa.wgt target

/-- one call on the object; `pos` = the coordinates of its `Node` objects -/
def stepOpA (sqrt : W → W) (net : Net W) (geo : GeoT) (pos : Nat → Pos W) (order : List Nat) (sa : SessA W) :
    OpA W → SessA W × Out W
  | .setMethod m => ({ sa with mode := m }, .done)
  | .setWeight w => ({ sa with wgt := w }, .done)
  | .call op => let r := stepOpH net geo order (sa.h sqrt pos) sa.sess op; ({ sa with sess := r.1 }, r.2)

/-- a sequence of calls on one object: the outputs in order, and the final state -/
def runSessionA (sqrt : W → W) (net : Net W) (geo : GeoT) (pos : Nat → Pos W) (order : List Nat) :
    SessA W → List (OpA W) → List (Out W) × SessA W
  | sa, [] => ([], sa)
  | sa, op :: ops =>
    let r := stepOpA sqrt net geo pos order sa op
    let rest := runSessionA sqrt net geo pos order r.1 ops
    (r.2 :: rest.1, rest.2)
end TV.GraphExt
