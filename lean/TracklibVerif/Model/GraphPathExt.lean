import TracklibVerif.Model.Graph
import TracklibVerif.Model.Seq
import TracklibVerif.Model.SeqOps
/-! Extension of the C07 model (`tracklib/core/network.py`, `tracklib/core/track.py`). Core Lean only.

1. `run_routing_backward` written with the TRACK OPERATORS of the C04 model (`Model/Seq.lean`,
   `Model/SeqOps.lean`): `Track()`, `addObs`, `copy`, `reverse`, `>` (`Seq.dropFirst`), `+` (`Seq.concat`), on
   tracks = points + analytical-feature table, exactly as the Python writes it:
   `track = track + (edge_geom > 1)`. `Lemmas/GraphPathExt.lean` proves that its points are those of the
   list-level model (`TV.Graph.runBackward`) and that the returned track has an empty feature table.

2. `Network.addNode` / `Network.addEdge` as they fill `NODES`, `EDGES` and `NEXT_EDGES` (`NetObj`, `build`); the lemmas show
   that the loop over `NEXT_EDGES[pere]` of a network built that way is the loop over the model's `nextEdges`.

3. the front ends and the state they leave on the `Network` object: `__correctInputNode` (a node is given by
   id or as a `Node` object), `__resetFlags`, `run_routing_forward`, `shortest_distance`, `shortest_path`,
   `run_routing_backward` as operations of a SESSION on one network: the node flags (`poids`, `visite`,
   `antecedent`, `antecedent_edge`) persist between calls, as does a caller-supplied `output_dict`. -/
namespace TV.GraphExt
open TV.Graph

/-! ### `run_routing_backward` through the track operators -/

/-- `Track.copy()` = `copy.deepcopy(self)`: the same points and the same feature table (the model's values are
immutable, a deep copy is the value itself) -/
def copyT (tr : Seq.Track) : Seq.Track := tr

/-- `Track.reverse()`: `output = self.copy(); output.__POINTS = output.__POINTS[::-1]; return output` -/
def reverseT (tr : Seq.Track) : Seq.Track :=
  let output := copyT tr
  { output with pts := output.pts.reverse }

/-- `Track()`: no point, no analytical feature -/
def emptyT : Seq.Track := ⟨[], []⟩

/-- what the backward pass reads: `Obs(node.coord)` per node, `EDGES[id].geom` per edge id -/
structure GeoT where
  pos : Nat → Seq.Obs
  geom : Nat → Seq.Track

inductive BackT where
  | none                                              -- `return None`
  | diverge                                           -- the loop would not end / KeyError (proved impossible)
  | path (nodes : List Nat) (track : Seq.Track)       -- `track.path`, the returned `Track`
deriving Repr, DecidableEq

variable {W : Type}

/-- the `while node.antecedent != "":` loop on tracks -/
def backAuxT (net : Net W) (geo : GeoT) (st : St W) : Nat → Nat → List Nat → Seq.Track → BackT
  | 0, _, _, _ => .diverge
  | f+1, node, nodes, track =>
    match st.pred node with
    | Option.none => .path nodes.reverse (reverseT track)        -- `track.path = NODES_PATH[::-1]; return track.reverse()`
    | some (a, eid) =>
      match findEdge net eid with
      | Option.none => .diverge
      | some e =>
        let edge_geom := copyT (geo.geom eid)                                      -- `e.geom.copy()`
        let edge_geom := if e.src ≠ node then reverseT edge_geom else edge_geom    -- `if e.source != node: …reverse()`
        backAuxT net geo st f a (nodes ++ [a]) (Seq.concat track (Seq.dropFirst edge_geom 1))   -- `track + (edge_geom > 1)`

/-- `run_routing_backward(target)`: `track = Track(); track.addObs(Obs(node.coord)); if node.antecedent == "": return None` -/
def runBackwardT (net : Net W) (geo : GeoT) (st : St W) (t : Nat) : BackT :=
  let track := Seq.addObs emptyT (geo.pos t)
  match st.pred t with
  | Option.none => .none
  | some _ => backAuxT net geo st (net.n + 1) t [t] track

/-- the list-level geometry read off the tracks -/
def GeoT.toGeo (geo : GeoT) : Geo Seq.Obs := { pos := geo.pos, line := fun i => (geo.geom i).pts }

/-- a list-level result as a track without analytical features -/
def liftBack : Back Seq.Obs → BackT
  | .none => .none
  | .diverge => .diverge
  | .path nodes g => .path nodes ⟨g, []⟩

/-! ### `Network.addNode` / `Network.addEdge`: what routing reads of a network built edge by edge -/

/-- the part of a `Network` object that routing reads -/
structure NetObj (W P : Type) where
  nodes : List (Nat × P)     -- NODES in insertion order: (id, coord)
  edges : List (Edge W)      -- EDGES in insertion order; `src` / `tgt` = ids of `edge.source` / `edge.target` (the REGISTERED nodes)
  next : Nat → List Nat      -- NEXT_EDGES[id]: edge ids in insertion order

def NetObj.empty {W P : Type} : NetObj W P := { nodes := [], edges := [], next := fun _ => [] }

/-- `addNode(node)`: `if node.id not in self.NODES:` register it (the first registration wins), `NEXT_EDGES[id] = []` -/
def addNode {W P : Type} (nb : NetObj W P) (id : Nat) (coord : P) : NetObj W P :=
  if nb.nodes.any (fun p => p.1 == id) then nb else { nb with nodes := nb.nodes ++ [(id, coord)] }

/-- `addEdge(edge, source, target)` (`sc`, `tc`: the coordinates of the two `Node` arguments): both nodes are registered
if they are not yet, `edge.source` / `edge.target` become the registered nodes, the edge is stored, its id is appended
to `NEXT_EDGES[source.id]` when `orientation >= 0` and to `NEXT_EDGES[target.id]` when `orientation <= 0` -/
def addEdge {W P : Type} (nb : NetObj W P) (e : Edge W) (sc tc : P) : NetObj W P :=
  let nb := addNode (addNode nb e.src sc) e.tgt tc
  let nb : NetObj W P := { nb with edges := nb.edges ++ [e] }
  let nb : NetObj W P := if 0 ≤ e.ori then { nb with next := fun u => if u = e.src then nb.next u ++ [e.id] else nb.next u } else nb
  if e.ori ≤ 0 then { nb with next := fun u => if u = e.tgt then nb.next u ++ [e.id] else nb.next u } else nb

/-- a network built by successive `addEdge` calls -/
def build {W P : Type} (nb : NetObj W P) : List (Edge W × P × P) → NetObj W P
  | [] => nb
  | (e, sc, tc) :: r => build (addEdge nb e sc tc) r

/-- `NODES[v].coord` -/
def posOf {W P : Type} (nb : NetObj W P) (v : Nat) : Option P := (nb.nodes.find? (fun p => p.1 == v)).map (·.2)

/-- what `addEdge` appends to `NEXT_EDGES[u]` for the edge `e` (its id twice for a two-way edge from `u` to `u`) -/
def nextOf {W : Type} (e : Edge W) (u : Nat) : List Nat :=
  (if 0 ≤ e.ori ∧ e.src = u then [e.id] else []) ++ (if e.ori ≤ 0 ∧ e.tgt = u then [e.id] else [])

/-- the edges that `for edge_id in NEXT_EDGES[u]: e = EDGES[edge_id]` visits, in order: every edge once per entry of its
id in `NEXT_EDGES[u]` — a two-way edge from `u` to `u` is visited twice (the model's `nextEdges` has it once) -/
def pyNext {W : Type} (net : Net W) (u : Nat) : List (Edge W) :=
  net.edges.flatMap (fun e => (if 0 ≤ e.ori ∧ e.src = u then [e] else []) ++ (if e.ori ≤ 0 ∧ e.tgt = u then [e] else []))

/-! ### the front ends as operations on one `Network` object -/

/-- how a node is designated in a call: by its id, or by a `Node` object (with that id) -/
inductive NodeArg where
  | id (i : Nat)
  | obj (i : Nat)
deriving Repr, DecidableEq

/-- `__correctInputNode`: `if isinstance(node, Node): return node.id; return node` -/
def correctInputNode : NodeArg → Nat
  | .id i => i
  | .obj i => i

/-- `__resetFlags`: every node gets `poids = -1, visite = False, antecedent = "", antecedent_edge = ""`,
whatever an earlier search left -/
def resetFlags (_st : Option (St W)) : St W :=
  { d := fun _ => none, vis := fun _ => false, pred := fun _ => none }

/-- `self.NODES[source].poids = 0` -/
def setSource [OfNat W 0] (st : St W) (s : Nat) : St W :=
  { st with d := fun v => if v = s then some 0 else st.d v }

variable [LT W] [DecidableLT W] [Add W] [OfNat W 0]

/-- `run_routing_forward(source, target, cut, output_dict)` on a network whose nodes carry the flags `flags`
(`none`: no search has been run yet, the nodes have no routing attributes). Returns the new flags and the
`(pere.id, pere.poids)` entries written to `output_dict` under the key `(source, pere.id)`. -/
def runForwardOn (net : Net W) (flags : Option (St W)) (s : NodeArg) (t : Option NodeArg) (cut : Option W) :
    St W × List (Nat × W) :=
  let source := correctInputNode s
  let target := t.map correctInputNode
  forward net target cut net.n (setSource (resetFlags flags) source) []

/-- the state of a session: the node flags and the caller's `output_dict` -/
structure Sess (W : Type) where
  flags : Option (St W)
  dict : Table W

def Sess.start : Sess W := { flags := none, dict := Table.empty }

inductive Op (W : Type) where
  /-- `shortest_path(source, target, cut[, output_dict])` -/
  | path (s t : NodeArg) (cut : Option W) (useDict : Bool)
  /-- `shortest_distance(source, target | None, cut[, output_dict])` -/
  | dist (s : NodeArg) (t : Option NodeArg) (cut : Option W) (useDict : Bool)
  /-- `run_routing_forward(source, target | None, cut[, output_dict])` -/
  | fwd (s : NodeArg) (t : Option NodeArg) (cut : Option W) (useDict : Bool)
  /-- `run_routing_backward(target)` on whatever the last search left -/
  | back (t : NodeArg)

inductive Out (W : Type) where
  /-- result of `shortest_path` / `run_routing_backward` and `NODES[target].poids` after the call -/
  | path (b : BackT) (label : Option W)
  | dist (d : Option W)
  | dists (l : List (Option W))
  | done
  /-- `AttributeError`: `run_routing_backward` before any search (the nodes have no `antecedent`) -/
  | attrErr
deriving DecidableEq, Repr

/-- the forward pass of an operation, with the optional recording in the session's dictionary -/
def Sess.forward (net : Net W) (se : Sess W) (s : NodeArg) (t : Option NodeArg) (cut : Option W) (useDict : Bool) :
    Sess W :=
  let r := runForwardOn net se.flags s t cut
  { flags := some r.1, dict := if useDict then record se.dict (correctInputNode s) r.2 else se.dict }

/-- one call on the network. `order` = node insertion order (for the list form of `shortest_distance`). -/
def stepOp (net : Net W) (geo : GeoT) (order : List Nat) (se : Sess W) : Op W → Sess W × Out W
  | .path s t cut ud =>
    let se' := se.forward net s (some t) cut ud
    match se'.flags with
    | some st => (se', .path (runBackwardT net geo st (correctInputNode t)) (st.d (correctInputNode t)))
    | Option.none => (se', .attrErr)
  | .dist s t cut ud =>
    let se' := se.forward net s t cut ud
    match se'.flags, t with
    | some st, some t => (se', .dist (st.d (correctInputNode t)))
    | some st, Option.none => (se', .dists (order.map st.d))
    | Option.none, _ => (se', .attrErr)
  | .fwd s t cut ud => (se.forward net s t cut ud, .done)
  | .back t =>
    match se.flags with
    | Option.none => (se, .attrErr)
    | some st => (se, .path (runBackwardT net geo st (correctInputNode t)) (st.d (correctInputNode t)))

/-- a sequence of calls on one network: the outputs in order, and the final state -/
def runSession (net : Net W) (geo : GeoT) (order : List Nat) : Sess W → List (Op W) → List (Out W) × Sess W
  | se, [] => ([], se)
  | se, op :: ops =>
    let r := stepOp net geo order se op
    let rest := runSession net geo order r.1 ops
    (r.2 :: rest.1, rest.2)

/-- `shortest_path(source, target, cut)` on a fresh network, through the track operators -/
def shortestPathT (net : Net W) (geo : GeoT) (s t : Nat) (cut : Option W) : BackT :=
  runBackwardT net geo (runForward net s (some t) cut).1 t

end TV.GraphExt
