import TracklibVerif.Model.Raster
/-! Model of the `Raster` object of `core/raster.py` as a state machine (C19): what a sequence of calls on ONE
raster object does. Mirrors, as the code is now:

* the object state: the grid geometry (fixed by `Raster.__init__`), `__noDataValue` (`getNoDataValue` /
  `setNoDataValue`), the ordered dictionary of bands `__afmaps` (name → `AFMap.grid`) and the attribute
  `collectionValuesGrid` (feature name → grid of per-cell value lists), which does **not exist** before the first
  `addCollectionToRaster`;
* `Raster.addAFMap(name, grid=None)` / `AFMap.__init__` : the name must be non-empty and not taken
  (`WrongArgumentError`); without `grid` the band is created with one empty list per cell; an explicit grid must be a
  list of lists (`grid[0]` is read: `IndexError` on `[]`) with `len(grid) = nrow` and `len(grid[0]) = ncol`;
* `Raster.addCollectionToRaster(collection)` : the features are the band names up to the first `#`, as a Python
  `set`; `collectionValuesGrid` is **replaced** by a new dictionary with one grid of empty lists per feature (nothing
  of an earlier collection survives); every track must have every feature (`AnalyticalFeatureError`, raised after
  the replacement); then `for trace: for afname in AFs: for i:` append the value to `grid[line][column]`
  (`getCell` returning `None` makes the tuple unpacking raise `TypeError`, with the values scattered so far left in
  place);
* `Raster.computeAggregates()` : for the bands in insertion order, `names = name.split('#')`, `names[1]`
  (`IndexError` for a name without `#`), `self.collectionValuesGrid` (`AttributeError` before the first collection),
  `[afname]` (`KeyError` for a band added after the collection with a new feature), `eval(aggregate + '(tarray)')`
  (`NameError` for an unknown operator); every cell of the band is overwritten, a NaN result by the raster's CURRENT
  no-data value `self.getNoDataValue()` (since the `fix:` commit 279f7b2; before, by the module constant
  `NO_DATA_VALUE` whatever the raster's own value): the constructor argument `novalue` (default `NO_DATA_VALUE`), or
  what `setNoDataValue` put there since — `None` included, which is then what those cells hold. All four errors arise at the first cell of a band
  (a raster has at least one cell), so a band is either rewritten completely or left as it was, and the bands
  before the failing one have been rewritten;
* `Raster.setNoDataValue(v)` : a two-line setter, `self.__noDataValue = v` — it does not touch a band: a band written by
  `computeAggregates` keeps the marker of THAT call in its cells without value (and, of course, every genuine aggregate,
  whatever it is equal to); `Raster.getAFMap(name)` (`getBand`) reads a band by name;
* `Track.hasAnalyticalFeature` / `getObsAnalyticalFeature` for the names used: `uid` (the track's uid, tested
  first by the raster), the built-in `x`, `y`, `idx`, otherwise the track's own analytical features;
* `algo/summarising.py` `summarize` : `listify`, the two argument checks (an empty feature list raises — a
  `NameError`, the exception class is not imported there —, lists of different lengths return `0`), the bounding
  box of the collection (`IndexError` for a collection without track or with an empty track), one `addAFMap` per
  (feature, operator) in call order (`AFMap.getMeasureName`), `addCollectionToRaster`, `computeAggregates`.

Conventions. A band name is represented by the list of its `#`-separated parts (`'v#co_sum'` = `["v", "co_sum"]`,
`'v'` = `["v"]`, `''` = `[""]`); the parts contain no `#`, so two names are equal iff their part lists are. An operator
name is one of the six `co_*` names of the property or is taken to be undefined in `raster.py` (names that `eval`
would resolve otherwise — builtins, `co_dominant`, `co_count_distinct` — are outside the model; the driver refuses
them, as it refuses the features `z`, `t`, `timestamp`). The iteration order of the Python `set` of features is an
input (`afOrder`, a permutation of the distinct features, checked): it only matters for what is left behind when the
scatter raises. -/
namespace TV.Raster
variable {α : Type}

/-- the Python exceptions on these paths -/
inductive Err | attr | key | index | type | name | wrongArg | afError | order
  deriving DecidableEq, Repr

/-- a track: uid, positions, analytical features by name (value lists as long as `pts`; `none` = NaN) -/
structure Trk (α : Type) where
  uid : α
  pts : List (α × α)
  feats : List (String × List (Option α))

/-- a band: name parts, and the grid — `none` as created by `addAFMap` without grid (every cell an empty list),
    `some` entries once given explicitly or written by `computeAggregates`; an entry `none` is Python's `None`
    (written for a cell without value when the raster's no-data value is `None`; a NaN is never written) -/
structure Band (α : Type) where
  name : List String
  grid : Option (List (List (Option α)))

/-- `collectionValuesGrid`: feature → per-cell value lists, in insertion order -/
abbrev Vals (α : Type) := List (String × Cells (Option α))

structure RState (α : Type) where
  g : Grid α
  noData : Option α
  bands : List (Band α)
  values : Option (Vals α)

/-- `Raster.getAFMap(name)`: the band of that name — the first one, names are unique (`addBand`) — `none` = `KeyError` -/
def getBand (s : RState α) (name : List String) : Option (Band α) := s.bands.find? (fun b => b.name == name)

/-- `Raster.__init__` -/
def initState (g : Grid α) (noData : Option α) : RState α := { g := g, noData := noData, bands := [], values := none }

def opOf : String → Option Op
  | "co_count" => some .count
  | "co_sum" => some .sum
  | "co_min" => some .min
  | "co_max" => some .max
  | "co_avg" => some .avg
  | "co_median" => some .median
  | _ => none

/-- the distinct features of the bands (`name.split('#')[0]`), in order of first appearance -/
def afsOf (bands : List (Band α)) : List String := (bands.map (fun b => b.name.headD "")).eraseDups

/-- `Raster.addAFMap(name, grid)` -/
def addBand (s : RState α) (name : List String) (init : Option (List (List (Option α)))) : RState α × Option Err :=
  if name = [""] then (s, some .wrongArg)
  else if s.bands.any (fun b => b.name == name) then (s, some .wrongArg)
  else match init with
    | none => ({ s with bands := s.bands ++ [⟨name, none⟩] }, none)
    | some [] => (s, some .index)
    | some (r0 :: rest) =>
      if ((rest.length + 1 : Nat) : Int) ≠ s.g.nrow ∨ ((r0.length : Nat) : Int) ≠ s.g.ncol then (s, some .wrongArg)
      else ({ s with bands := s.bands ++ [⟨name, some (r0 :: rest)⟩] }, none)

section arith
variable [Add α] [Sub α] [Mul α] [Div α] [OfNat α 0] [OfNat α 1] [OfNat α 2] [IntCast α] [NatCast α]
  [LT α] [DecidableLT α] [LE α] [DecidableLE α] [BEq α]

/-- the values of feature `af` along a track, `none` when the track does not have it -/
def featVals (t : Trk α) (af : String) : Option (List (Option α)) :=
  if af = "uid" then some (t.pts.map (fun _ => some t.uid))
  else if af = "x" then some (t.pts.map (fun p => some p.1))
  else if af = "y" then some (t.pts.map (fun p => some p.2))
  else if af = "idx" then some ((List.range t.pts.length).map (fun i => some ((i : Nat) : α)))
  else t.feats.lookup af

/-- the observations (x, y, value of `af`) of a track, in order; empty when the track lacks the feature -/
def obsOf (t : Trk α) (af : String) : List (α × α × Option α) :=
  match featVals t af with
  | none => []
  | some vs => (t.pts.zip vs).map (fun pv => (pv.1.1, pv.1.2, pv.2))

/-- the scatter loop over the observations of one track for one feature: the cells reached and the exception -/
def scatterP {V : Type} (floor : α → Int) (g : Grid α) : Cells V → List (α × α × V) → Cells V × Option Err
  | c, [] => (c, none)
  | c, (x, y, v) :: rest =>
    match getCell floor g x y with
    | none => (c, some .type)
    | some (column, line) =>
      match put c line column v with
      | none => (c, some .index)
      | some c' => scatterP floor g c' rest

/-- one (track, feature) pass on the feature's entry of `collectionValuesGrid`. (The `none` branch —
    `getObsAnalyticalFeature` raising for a missing feature — cannot be reached from `addColl`, which has tested every
    track for every feature before.) -/
def growE (floor : α → Int) (g : Grid α) (t : Trk α) (e : String × Cells (Option α)) :
    (String × Cells (Option α)) × Option Err :=
  match featVals t e.1 with
  | none => (e, some .afError)
  | some _ => let r := scatterP floor g e.2 (obsOf t e.1); ((e.1, r.1), r.2)

/-- `for afname in AFs:` for one track (the dictionary was filled in the same order) -/
def addTrack (floor : α → Int) (g : Grid α) (t : Trk α) : Vals α → Vals α × Option Err
  | [] => ([], none)
  | e :: rest =>
    match growE floor g t e with
    | (e', some x) => (e' :: rest, some x)
    | (e', none) => let r := addTrack floor g t rest; (e' :: r.1, r.2)

/-- `for trace in collection.getTracks():` -/
def addTracks (floor : α → Int) (g : Grid α) : List (Trk α) → Vals α → Vals α × Option Err
  | [], V => (V, none)
  | t :: ts, V =>
    match addTrack floor g t V with
    | (V', some x) => (V', some x)
    | (V', none) => addTracks floor g ts V'

/-- `Raster.addCollectionToRaster(collection)` -/
def addColl (floor : α → Int) (s : RState α) (afOrder : List String) (tracks : List (Trk α)) : RState α × Option Err :=
  if !(afOrder.isPerm (afsOf s.bands)) then (s, some .order)
  else
    let V0 : Vals α := afOrder.map (fun af => (af, emptyCells s.g.nrow.toNat s.g.ncol.toNat))
    if tracks.any (fun t => afOrder.any (fun af => (featVals t af).isNone)) then ({ s with values := some V0 }, some .afError)
    else let r := addTracks floor s.g tracks V0; ({ s with values := some r.1 }, r.2)

/-- `if isnan(sumval): … = self.getNoDataValue() else: … = sumval` -/
def fillNaN (nd : Option α) : Option α → Option α
  | none => nd
  | some a => some a

/-- `computeAggregates` for one map: a NaN result is stored as the raster's no-data value `nd` (`none` = `None`) -/
def aggregatesN (nd : Option α) (op : Op) (c : Cells (Option α)) : List (List (Option α)) :=
  c.map (fun row => row.map (fun cell => fillNaN nd (cellValue op cell)))

/-- `computeAggregates` for one band; `nd` is the raster's current no-data value `self.getNoDataValue()` -/
def computeBand (nd : Option α) (V : Option (Vals α)) (b : Band α) : Band α × Option Err :=
  match b.name with
  | af :: opn :: _ =>
    match V with
    | none => (b, some .attr)
    | some V =>
      match V.lookup af with
      | none => (b, some .key)
      | some c =>
        match opOf opn with
        | none => (b, some .name)
        | some op => ({ b with grid := some (aggregatesN nd op c) }, none)
  | _ => (b, some .index)

def computeAll (nd : Option α) (V : Option (Vals α)) : List (Band α) → List (Band α) × Option Err
  | [] => ([], none)
  | b :: rest =>
    match computeBand nd V b with
    | (b', some x) => (b' :: rest, some x)
    | (b', none) => let r := computeAll nd V rest; (b' :: r.1, r.2)

/-- one call on the raster -/
inductive Cmd (α : Type)
  | band (name : List String) (init : Option (List (List (Option α))))
  | add (afOrder : List String) (tracks : List (Trk α))
  | compute
  | setNoData (v : Option α)

def Cmd.isAdd : Cmd α → Bool
  | .add _ _ => true
  | _ => false

/-- `computeAggregates` is the only call that writes into the grid of a band -/
def Cmd.isCompute : Cmd α → Bool
  | .compute => true
  | _ => false

def step (floor : α → Int) (s : RState α) : Cmd α → RState α × Option Err
  | .band name init => addBand s name init
  | .add afOrder tracks => addColl floor s afOrder tracks
  | .compute => let r := computeAll s.noData s.values s.bands; ({ s with bands := r.1 }, r.2)
  | .setNoData v => ({ s with noData := v }, none)

/-- a sequence of calls, each one caught: final state and the outcome of every call -/
def run (floor : α → Int) : RState α → List (Cmd α) → RState α × List (Option Err)
  | s, [] => (s, [])
  | s, c :: rest =>
    let r := step floor s c
    let r' := run floor r.1 rest
    (r'.1, r.2 :: r'.2)

def firstErr : List (Option Err) → Option Err
  | [] => none
  | some e :: _ => some e
  | none :: rest => firstErr rest

inductive SumRes (α : Type)
  | raised (e : Err)
  | zero
  | ok (s : RState α)

/-- `summarize(collection, af_algos, aggregates, resolution, margin)`: feature names and operator names after
    `listify`; `wr` is the module constant `NO_DATA_VALUE`, the default `novalue` of the raster it builds; the calls on the new raster are those of `run`, the first exception ends the call -/
def summarizeS (floor ceil : α → Int) (wr : α) (tracks : List (Trk α)) (afs ops : List String) (rx ry margin : α)
    (afOrder : List String) : SumRes α :=
  if afs.length = 0 then .raised .name
  else if afs.length ≠ ops.length then .zero
  else if tracks.isEmpty || tracks.any (fun t => t.pts.isEmpty) then .raised .index
  else
    let xs := tracks.flatMap (fun t => t.pts.map (·.1))
    let ys := tracks.flatMap (fun t => t.pts.map (·.2))
    match minOf xs, maxOf xs, minOf ys, maxOf ys with
    | some bx0, some bx1, some by0, some by1 =>
      let g := mkGrid ceil bx0 bx1 by0 by1 rx ry margin
      let cmds : List (Cmd α) := (afs.zip ops).map (fun p => Cmd.band [p.1, p.2] none) ++ [Cmd.add afOrder tracks, Cmd.compute]
      let r := run floor (initState g (some wr)) cmds
      match firstErr r.2 with
      | some e => .raised e
      | none => .ok r.1
    | _, _, _, _ => .raised .index

end arith
end TV.Raster
