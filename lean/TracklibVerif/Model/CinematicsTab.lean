import TracklibVerif.Model.Features
import TracklibVerif.Model.Cinematics
import TracklibVerif.Model.ObsTimeG
/-! Model of the curvilinear-abscissa and speed features **on the feature table** (C17), and of the world of
observations that several tracks share.

Part 1 — programs written once against the Track API of `Model/Features.lean` (`class Tbl`: `size`, `has`,
`getObs`, `setObs`, `create`, `remove`, …), exactly as the Python goes through `Track`:
* `algo/analytics.py` `ds(track, i)`, `speed(track, i)`        → `dsAlgT`, `speedAlgT`
* `core/track.py` `addAnalyticalFeature(algorithm, name)`       → `addAFfn` (the algorithm is a function `i ↦ M σ V`;
  `Features.addAF` is the instance for the closed algorithm language of C01)
* `core/operators.py` `Integrator.execute`, `Differentiator.execute` → `Features.unaryVoid` (re-used as it is)
* `algo/cinematics.py` `computeAbsCurv`, `estimate_speed`, `computeCurvAbsBetweenTwoPoints` → `computeAbsCurvT`,
  `estimateSpeedT`, `curvAbsT`;  `core/track.py` `Track.length`, `isSorted`, `duration` → `lengthT`, `isSortedT`, `durationT`
They are instantiated at the specification table `ATab` (name ↦ column), at the concrete single-track table `St`
(dict + rows) and at the `World` below.

Part 2 — `World`: a heap of observation objects (position, calendar stamp, `Obs.features` list) and tracks that are
lists of *references* into the heap plus their own name → index dict. `Track.__add__`, `extract`, slicing share
the objects, `copy()` duplicates them; positions and timestamp FIELDS are edited in place; `toAbsTime()` is
computed from the fields at every use (`ObsTimeG.toAbsG`). The `Tbl` instance of `World` is the Track API of the
track in focus (`cur`): `createAnalyticalFeature` APPENDS a slot to every observation of the track and registers
index `len(dico)`, every read and write goes through `features[dico[name]]`, `removeAnalyticalFeature` deletes
that slot — so observations that went through another track's computations carry extra slots, and a program is
right only if it writes by index.

Scalars: `V` is the type of a feature value (`Option α` in the driver and in the theorems, `none` = NaN);
`GOps V` adds to `Features.Ops` what the geometry needs. Core Lean only. -/
namespace TV.CinTab
open TV.Features TV.ObsTime

/-- arithmetic on feature values: `Features.Ops` plus square root, division, `== 0` and `<= 0` -/
structure GOps (V : Type) extends Ops V where
  sqrt : V → V
  div : V → V → V
  isZero : V → Bool
  nonpos : V → Bool

variable {V : Type}

/-- `ENUCoords.norm2D` of the difference vector -/
def norm2D (g : GOps V) (dE dN : V) : V := g.sqrt (g.add (g.mul dE dE) (g.mul dN dN))
/-- `ENUCoords.norm` -/
def norm3D (g : GOps V) (dE dN dU : V) : V := g.sqrt (g.add (g.add (g.mul dE dE) (g.mul dN dN)) (g.mul dU dU))

section api
variable {σ : Type} [Tbl σ V]
open Tbl

/-- `track.getObs(i).position.distance2DTo(track.getObs(j).position)` = `(P[j] - P[i]).norm2D()`;
an index outside the track is Python's `IndexError` -/
def dist2DT (g : GOps V) (i j : Nat) : M σ V := do
  let xi ← getObs g.toOps "x" i
  let yi ← getObs g.toOps "y" i
  let xj ← getObs g.toOps "x" j
  let yj ← getObs g.toOps "y" j
  pure (norm2D g (g.sub xj xi) (g.sub yj yi))

/-- `track.getObs(i).distanceTo(track.getObs(j))` = `(P[j] - P[i]).norm()` (3D) -/
def dist3DT (g : GOps V) (i j : Nat) : M σ V := do
  let xi ← getObs g.toOps "x" i
  let yi ← getObs g.toOps "y" i
  let zi ← getObs g.toOps "z" i
  let xj ← getObs g.toOps "x" j
  let yj ← getObs g.toOps "y" j
  let zj ← getObs g.toOps "z" j
  pure (norm3D g (g.sub xj xi) (g.sub yj yi) (g.sub zj zi))

/-- `analytics.ds(track, i)` -/
def dsAlgT (g : GOps V) (i : Nat) : M σ V :=
  if i = 0 then pure g.zero else dist2DT g i (i - 1)

/-- speed from the later fix `a` and the earlier fix `b`: `NAN` when `ts[a] - ts[b] == 0`, else distance / difference -/
def speedBetweenT (g : GOps V) (a b : Nat) : M σ V := do
  let d ← dist2DT g a b
  let ta ← getObs g.toOps "t" a
  let tb ← getObs g.toOps "t" b
  let dt := g.sub ta tb
  pure (if g.isZero dt then g.nan else g.div d dt)

/-- `analytics.speed(track, i)` -/
def speedAlgT (g : GOps V) (i : Nat) : M σ V :=
  if i = 0 then speedBetweenT g 1 0
  else do
    let n ← size
    if i = n - 1 then speedBetweenT g (n - 1) (n - 2) else speedBetweenT g (i + 1) (i - 1)

/-- the loop of `addAnalyticalFeature`: `for i: try value = algorithm(self, i) except IndexError: value = NAN; features[idAF] = value` -/
def afLoop (o : Ops V) (alg : Nat → M σ V) (name : String) (n : Nat) : M σ Unit :=
  M.forEach (List.range n) fun i => M.catchIndex (alg i) o.nan >>= fun v => setObs name i v

/-- `Track.addAnalyticalFeature(algorithm, name)` for an arbitrary algorithm `i ↦ value` that reads through the
Track API: create-if-absent, the loop, return the column -/
def addAFfn (o : Ops V) (alg : Nat → M σ V) (name : String) : M σ (List V) :=
  if reserved name then M.throw .reserved
  else
    has name >>= fun b =>
    (if !b then create name (.scalar o.zero) else pure ()) >>= fun _ =>
    size >>= fun n =>
    afLoop o alg name n >>= fun _ =>
    get o name

/-- `if not track.hasAnalyticalFeature("ds"): track.addAnalyticalFeature(ds, "ds")` -/
def ensureDsT (g : GOps V) : M σ Unit := do
  let b ← has "ds"
  if !b then addAFfn g.toOps (dsAlgT g) "ds" >>= fun _ => pure () else pure ()

/-- `if not track.hasAnalyticalFeature("abs_curv"): track.operate(Operator.INTEGRATOR, "ds", "abs_curv")` -/
def ensureAbsCurvT (g : GOps V) : M σ Unit := do
  let b ← has "abs_curv"
  if !b then unaryVoid g.toOps .integrator "ds" "abs_curv" >>= fun _ => pure () else pure ()

/-- `cinematics.computeAbsCurv(track)` -/
def computeAbsCurvT (g : GOps V) : M σ (List V) :=
  ensureDsT g >>= fun _ => ensureAbsCurvT g >>= fun _ => remove "ds" >>= fun _ => get g.toOps "abs_curv"

/-- `cinematics.estimate_speed(track)` = `Track.estimate_speed()` (kernel None) -/
def estimateSpeedT (g : GOps V) : M σ (List V) := do
  let b ← has "speed"
  if b then get g.toOps "speed" else addAFfn g.toOps (speedAlgT g) "speed"

/-- `track.operate("abs_curv=I{ds}")` — the expression front end on the integrator: `I{ds}` becomes `I @ ds`, evaluated
as `operate(Operator.INTEGRATOR, "ds", "#0")`; the assignment copies `#0` into `abs_curv` (an existing `abs_curv` is
removed and created again, so it moves to the last index); the `finally` block of `operate(str)` purges `#0` -/
def integExprT (g : GOps V) : M σ Unit :=
  M.tryFinally
    (unaryVoid g.toOps .integrator "ds" "#0" >>= fun _ => assignOp g.toOps (.tok "abs_curv") (.tok "#0"))
    purge

/-- `Track.length()`: `s = 0; for i in 1..n-1: s += getObs(i-1).distanceTo(getObs(i))` -/
def lengthT (g : GOps V) : M σ V := do
  let n ← size
  M.foldL (List.range' 1 (n - 1)) g.zero fun s i => do
    let d ← dist3DT g (i - 1) i
    pure (g.add s d)

/-- `cinematics.computeCurvAbsBetweenTwoPoints(track)`: `for i in 0..n-2: s = s + track[i].position.distance2DTo(track[i+1].position)` -/
def curvAbsT (g : GOps V) : M σ V := do
  let n ← size
  M.foldL (List.range (n - 1)) g.zero fun s i => do
    let d ← dist2DT g i (i + 1)
    pure (g.add s d)

/-- `Track.isSorted()`: `for i in range(size-1): if ts[i+1] - ts[i] <= 0: return False` -/
def isSortedT (g : GOps V) : M σ Bool := do
  let n ← size
  M.foldL (List.range (n - 1)) true fun acc i =>
    if !acc then pure false
    else do
      let a ← getObs g.toOps "t" (i + 1)
      let b ← getObs g.toOps "t" i
      pure (!(g.nonpos (g.sub a b)))

/-- `Track.duration()`: `getLastObs().timestamp - getFirstObs().timestamp` (`__POINTS[-1]` on an empty track is an IndexError) -/
def durationT (g : GOps V) : M σ V := do
  let n ← size
  if n = 0 then M.throw .index
  else
    let a ← getObs g.toOps "t" (n - 1)
    let b ← getObs g.toOps "t" 0
    pure (g.sub a b)

end api

/-! ## feature values with NaN: `Option α` -/

section opt
variable {α : Type} [Add α] [Sub α] [Mul α] [Div α] [OfNat α 0] [BEq α] [LE α] [DecidableLE α]

def olift2 (f : α → α → α) : Option α → Option α → Option α
  | some a, some b => some (f a b)
  | _, _ => none

/-- the arithmetic of Python floats on `Option α` (`none` = NaN): every operation propagates NaN, `NaN == 0` and
`NaN <= 0` are false. `Cinematics.oadd` is the addition, so that the integrator is the one of `Model/Cinematics.lean`. -/
def optG (sqrt : α → α) (ofNat : Nat → α) (isNaN : α → Bool) : GOps (Option α) where
  zero := some 0
  nan := none
  add := Cinematics.oadd
  sub := olift2 (· - ·)
  mul := olift2 (· * ·)
  ofNat := fun n => some (ofNat n)
  isNaN := fun v => match v with | none => true | some a => isNaN a
  parse := fun _ => none
  sqrt := Option.map sqrt
  div := olift2 (· / ·)
  isZero := fun v => match v with | some a => a == 0 | none => false
  nonpos := fun v => match v with | some a => decide (a ≤ 0) | none => false
end opt

/-! ## the world of shared observations -/

/-- how a calendar stamp becomes the scalar `toAbsTime()` -/
class AbsTime (V : Type) where
  ofStamp : StampZ → V

instance {α : Type} [Add α] [Div α] [IntCast α] : AbsTime (Option α) := ⟨fun t => some (toAbsG t)⟩

/-- an `Obs` object: position, `ObsTime` fields, `features`. `zone` is the eighth field of the `ObsTime` object: no
feature program reads it (`toAbsTime()` and `t2 - t1` are functions of the seven calendar fields `t`) and none writes it -/
structure WObs (V : Type) where
  x : V
  y : V
  z : V
  t : StampZ
  feats : List V
  zone : Int := 0

/-- a `Track` object: references to its observations and `__analyticalFeaturesDico` -/
structure WTrk where
  ids : List Nat
  dico : List (String × Nat)

structure World (V : Type) where
  heap : List (WObs V)
  trks : List WTrk
  /-- the track the Track API is addressed to -/
  cur : Nat

def World.trk (w : World V) : WTrk := w.trks.getD w.cur ⟨[], []⟩

def World.setDico (w : World V) (d : List (String × Nat)) : World V :=
  { w with trks := w.trks.modify w.cur (fun t => { t with dico := d }) }

def WObs.coord [AbsTime V] (ob : WObs V) : Coord → V
  | .x => ob.x | .y => ob.y | .z => ob.z | .t => AbsTime.ofStamp ob.t

def WObs.setCoord (ob : WObs V) (c : Coord) (v : V) : WObs V :=
  match c with
  | .x => { ob with x := v } | .y => { ob with y := v } | .z => { ob with z := v } | .t => ob

def hasW (w : World V) (name : String) : Bool := (find w.trk.dico name).isSome || reserved name

/-- `getObs(i).features.append(v)` for one observation object -/
def pushSlot (h : List (WObs V)) (id : Nat) (v : V) : List (WObs V) :=
  h.modify id (fun ob => { ob with feats := ob.feats ++ [v] })

/-- `for i in range(size): getObs(i).features.append(val_init)` -/
def appendScalar (v : V) (ids : List Nat) (h : List (WObs V)) : List (WObs V) :=
  ids.foldl (fun h id => pushSlot h id v) h

/-- `for i in range(size): getObs(i).features.append(val_init[i])`: a short list raises IndexError, the slots appended
before stay -/
def appendVals : List Nat → List V → List (WObs V) → Except Err Unit × List (WObs V)
  | [], _, h => (.ok (), h)
  | _ :: _, [], h => (.error .index, h)
  | id :: ids, v :: vs, h => appendVals ids vs (pushSlot h id v)

/-- `features[idx] = v` on one observation object; `none` = IndexError -/
def writeSlot (h : List (WObs V)) (id idx : Nat) (v : V) : Option (List (WObs V)) :=
  match h[id]? with
  | none => none
  | some ob => if idx < ob.feats.length then some (h.set id { ob with feats := ob.feats.set idx v }) else none

/-- `for i in range(size): getObs(i).features[idAF] = new_val[i]` -/
def writeVals (idx : Nat) : List Nat → List V → List (WObs V) → Except Err Unit × List (WObs V)
  | [], _, h => (.ok (), h)
  | _ :: _, [], h => (.error .index, h)
  | id :: ids, v :: vs, h =>
    match writeSlot h id idx v with
    | none => (.error .index, h)
    | some h' => writeVals idx ids vs h'

/-- `for i in range(size): getObs(i).features[idAF] = new_val` -/
def writeScalar (idx : Nat) (v : V) : List Nat → List (WObs V) → Except Err Unit × List (WObs V)
  | [], h => (.ok (), h)
  | id :: ids, h =>
    match writeSlot h id idx v with
    | none => (.error .index, h)
    | some h' => writeScalar idx v ids h'

/-- `for i in range(size): del getObs(i).features[idAF]` -/
def delSlots (idx : Nat) : List Nat → List (WObs V) → Except Err Unit × List (WObs V)
  | [], h => (.ok (), h)
  | id :: ids, h =>
    match h[id]? with
    | none => (.error .index, h)
    | some ob =>
      if idx < ob.feats.length then delSlots idx ids (h.set id { ob with feats := ob.feats.eraseIdx idx })
      else (.error .index, h)

/-- createAnalyticalFeature(name, val_init) on the track in focus; a list shorter than the track is refused with an
`IndexError` before anything is written (the name is not registered, no slot is appended) -/
def createW (name : String) (init : Init V) : M (World V) Unit := fun w =>
  if reserved name then (.error .reserved, w)
  else if w.trk.ids.isEmpty then (.error .empty, w)
  else if hasW w name then (.ok (), w)
  else
    let w1 := w.setDico (w.trk.dico ++ [(name, w.trk.dico.length)])
    match init with
    | .scalar v => (.ok (), { w1 with heap := appendScalar v w.trk.ids w.heap })
    | .list l =>
      -- `if isinstance(val_init, list) and len(val_init) < self.size(): raise IndexError` BEFORE the name is registered
      if l.length < w.trk.ids.length then (.error .index, w)
      else
        let r := appendVals w.trk.ids l w.heap
        (r.1, { w1 with heap := r.2 })

/-- updateAnalyticalFeature(name, new_val) -/
def updateW (name : String) (init : Init V) : M (World V) Unit := fun w =>
  if !hasW w name then (.error .unknown, w)
  else if w.trk.ids.isEmpty then (.error .empty, w)
  else match find w.trk.dico name with
    | none => (.error .key, w)
    | some idx =>
      let r := match init with
        | .scalar v => writeScalar idx v w.trk.ids w.heap
        | .list l => writeVals idx w.trk.ids l w.heap
      (r.1, { w with heap := r.2 })

/-- removeAnalyticalFeature(name): delete the slot of every observation of the track, then shift the higher indices -/
def removeW (name : String) : M (World V) Unit := fun w =>
  if !hasW w name then (.error .unknown, w)
  else match find w.trk.dico name with
    | none => (.error .key, w)
    | some idx =>
      match delSlots idx w.trk.ids w.heap with
      | (.error e, h) => (.error e, { w with heap := h })
      | (.ok _, h) =>
        (.ok (), World.setDico { w with heap := h }
          ((w.trk.dico.filter (fun p => !(p.1 == name))).map (fun p => (p.1, if p.2 > idx then p.2 - 1 else p.2))))

/-- the observation object at position `i` of the track in focus -/
def World.obs? (w : World V) (i : Nat) : Option (WObs V) := (w.trk.ids[i]?).bind (w.heap[·]?)

/-- getAnalyticalFeature(name) -/
def getW [AbsTime V] (o : Ops V) (name : String) : M (World V) (List V) := fun w =>
  match coord? name with
  | some c =>
    match w.trk.ids.mapM (fun id => (w.heap[id]?).map (·.coord c)) with
    | some l => (.ok l, w)
    | none => (.error .index, w)
  | none =>
    if name == "timestamp" then (.error .unsupported, w)
    else if name == "idx" then (.ok ((List.range w.trk.ids.length).map o.ofNat), w)
    else match find w.trk.dico name with
      | none => (.error .unknown, w)
      | some idx =>
        match w.trk.ids.mapM (fun id => (w.heap[id]?).bind (·.feats[idx]?)) with
        | some col => (.ok col, w)
        | none => (.error .index, w)

/-- getObsAnalyticalFeature(name, i) -/
def getObsW [AbsTime V] (o : Ops V) (name : String) (i : Nat) : M (World V) V := fun w =>
  match coord? name with
  | some c =>
    match w.obs? i with
    | some ob => (.ok (ob.coord c), w)
    | none => (.error .index, w)
  | none =>
    if name == "timestamp" then (.error .unsupported, w)
    else if name == "idx" then (.ok (o.ofNat i), w)
    else match find w.trk.dico name with
      | none => (.error .unknown, w)
      | some idx =>
        match w.obs? i with
        | none => (.error .index, w)
        | some ob =>
          match ob.feats[idx]? with
          | some v => (.ok v, w)
          | none => (.error .index, w)

/-- setObsAnalyticalFeature(name, i, val) -/
def setObsW (name : String) (i : Nat) (v : V) : M (World V) Unit := fun w =>
  if name == "x" || name == "y" || name == "z" then
    match coord? name, w.trk.ids[i]? with
    | some c, some id =>
      if id < w.heap.length then (.ok (), { w with heap := w.heap.modify id (·.setCoord c v) }) else (.error .index, w)
    | some _, none => (.error .index, w)
    | none, _ => (.error .unsupported, w)
  else match find w.trk.dico name with
    | none => (.error .unknown, w)
    | some idx =>
      match w.trk.ids[i]? with
      | none => (.error .index, w)
      | some id =>
        match writeSlot w.heap id idx v with
        | some h => (.ok (), { w with heap := h })
        | none => (.error .index, w)

instance tblWorld [AbsTime V] : Tbl (World V) V where
  size := fun w => (.ok w.trk.ids.length, w)
  has := fun n w => (.ok (hasW w n), w)
  names := fun w => (.ok (w.trk.dico.map Prod.fst), w)
  get := getW
  getObs := getObsW
  setObs := setObsW
  create := createW
  update := updateW
  remove := removeW

/-! ### operations of a history -/

inductive WOp (V : Type)
  | absCurv (k : Nat)                         -- computeAbsCurv(track)
  | speed (k : Nat)                           -- estimate_speed(track), track.estimate_speed()
  | speedAF (k : Nat)                         -- track.addAnalyticalFeature(speed)
  | dsAF (k : Nat)                            -- track.addAnalyticalFeature(ds, "ds")
  | integ (k : Nat)                           -- track.operate(Operator.INTEGRATOR, "ds", "abs_curv")
  | integExpr (k : Nat)                       -- track.operate("abs_curv=I{ds}")
  | diff (k : Nat)                            -- track.operate(Operator.DIFFERENTIATOR, "abs_curv", "dd")
  | length (k : Nat)                          -- track.length()
  | curvAbs (k : Nat)                         -- computeCurvAbsBetweenTwoPoints(track)
  | read (k : Nat) (name : String)            -- track.getAbsCurv(), track.getSpeed(), track[name]
  | remove (k : Nat) (name : String)          -- track.removeAnalyticalFeature(name)
  | write (k : Nat) (name : String) (vals : List V)   -- track[name] = list
  | sorted (k : Nat)                          -- track.isSorted()
  | duration (k : Nat)                        -- track.duration()
  | times (k : Nat)                           -- track.getT()
  | add (i j : Nat)                           -- tracks[i] + tracks[j]
  | extract (k a b : Nat)                     -- track.extract(a, b)
  | slice (k a b : Nat)                       -- track[a:b]
  | copy (k : Nat)                            -- track.copy()
  | setPos (k i : Nat) (c : String) (v : V)   -- position.setX / setObsAnalyticalFeature("x", i, v) / position.E = v
  | setTime (k i : Nat) (field : String) (v : Int)   -- track[i].timestamp.<field> = v   (the seven calendar fields and `zone`)
  | speedMethod (k : Nat)                     -- track.estimate_speed()   (the METHOD of core/track.py, kernel=None)
  | setZone (k : Nat) (zone : Int)            -- track.setTimeZone(zone)

inductive WRet (V : Type)
  | none
  | num (v : V)
  | col (l : List V)
  | bool (b : Bool)
  | ids (l : List Nat)

def WOp.track : WOp V → Nat
  | .absCurv k | .speed k | .speedAF k | .dsAF k | .integ k | .integExpr k | .diff k | .length k | .curvAbs k | .read k _
  | .remove k _ | .write k _ _ | .sorted k | .duration k | .times k | .add k _ | .extract k _ _ | .slice k _ _
  | .copy k | .setPos k _ _ _ | .setTime k _ _ _ | .speedMethod k | .setZone k _ => k

def _root_.TV.ObsTime.StampZ.setField (t : StampZ) (field : String) (v : Int) : Option StampZ :=
  if field == "year" then some { t with year := v.toNat }
  else if field == "month" then some { t with month := v.toNat }
  else if field == "day" then some { t with day := v }
  else if field == "hour" then some { t with hour := v }
  else if field == "min" then some { t with min := v }
  else if field == "sec" then some { t with sec := v }
  else if field == "ms" then some { t with ms := v }
  else none

/-- `copy.deepcopy` of the observation list: every distinct object is duplicated once (the memo), the copies are
new heap cells in order of first occurrence -/
def copyObs : List Nat → List (Nat × Nat) → List (WObs V) → List Nat → List Nat × List (WObs V)
  | [], _, h, acc => (acc.reverse, h)
  | id :: ids, memo, h, acc =>
    match memo.find? (fun p => p.1 == id) with
    | some p => copyObs ids memo h (p.2 :: acc)
    | none =>
      match h[id]? with
      | none => copyObs ids memo h acc
      | some ob => copyObs ids ((id, h.length) :: memo) (h ++ [ob]) (h.length :: acc)

/-- `Track.estimate_speed(self, kernel=None)` of core/track.py: `if kernel is None: return estimate_speed(self)` — the
function of algo/cinematics.py on the track itself, nothing before it (`kernel` given: `smoothed_speed_calculation`, another
feature, not modelled) -/
def estimateSpeedMethodT {σ : Type} [Tbl σ V] (g : GOps V) : M σ (List V) := estimateSpeedT g

/-- `Track.setTimeZone(zone)`: `for i in range(len(self)): self[i].timestamp.zone = zone` — the `zone` field of the stamp of
every observation the track references, in place (shared objects are seen by the sharing tracks) -/
def setZoneIds (zone : Int) : List Nat → List (WObs V) → List (WObs V)
  | [], h => h
  | id :: ids, h => setZoneIds zone ids (h.modify id (fun ob => { ob with zone := zone }))

def newTrack (w : World V) (t : WTrk) : Except Err (WRet V) × World V :=
  (.ok (.ids t.ids), { w with trks := w.trks ++ [t] })

/-- one operation of a history; `.unsupported` = a reference to a track that does not exist (never generated) -/
def stepW [AbsTime V] (g : GOps V) (op : WOp V) : M (World V) (WRet V) := fun w0 =>
  if op.track ≥ w0.trks.length then (.error .unsupported, w0)
  else
    let w := { w0 with cur := op.track }
    let col (m : M (World V) (List V)) : Except Err (WRet V) × World V := match m w with | (r, w') => (r.map .col, w')
    let num (m : M (World V) V) : Except Err (WRet V) × World V := match m w with | (r, w') => (r.map .num, w')
    let unit (m : M (World V) Unit) : Except Err (WRet V) × World V := match m w with | (r, w') => (r.map (fun _ => .none), w')
    match op with
    | .absCurv _ => col (computeAbsCurvT g)
    | .speed _ => col (estimateSpeedT g)
    | .speedMethod _ => col (estimateSpeedMethodT g)
    | .setZone _ zone => (.ok .none, { w with heap := setZoneIds zone w.trk.ids w.heap })
    | .speedAF _ => col (addAFfn g.toOps (speedAlgT g) "speed")
    | .dsAF _ => col (addAFfn g.toOps (dsAlgT g) "ds")
    | .integ _ => col (unaryVoid g.toOps .integrator "ds" "abs_curv")
    | .integExpr _ => unit (integExprT g)
    | .diff _ => col (unaryVoid g.toOps .differentiator "abs_curv" "dd")
    | .length _ => num (lengthT g)
    | .curvAbs _ => num (curvAbsT g)
    | .read _ name => col (Tbl.get g.toOps name)
    | .remove _ name => unit (Tbl.remove name)
    | .write _ name vals => unit (setItem name (.list vals))
    | .sorted _ => match (isSortedT g : M (World V) Bool) w with | (r, w') => (r.map .bool, w')
    | .duration _ => num (durationT g)
    | .times _ => col (Tbl.get g.toOps "t")
    | .add _ j =>
      match w.trks[j]? with
      | none => (.error .unsupported, w0)
      | some u =>
        let t := w.trk
        newTrack w ⟨t.ids ++ u.ids, if t.dico.map Prod.fst == u.dico.map Prod.fst then t.dico else []⟩
    | .extract _ a b =>
      if b < w.trk.ids.length then newTrack w ⟨(w.trk.ids.drop a).take (b + 1 - a), w.trk.dico⟩
      else (.error .index, w)
    | .slice _ a b => newTrack w ⟨(w.trk.ids.drop a).take (b - a), w.trk.dico⟩
    | .copy _ =>
      let r := copyObs w.trk.ids [] w.heap []
      newTrack { w with heap := r.2 } ⟨r.1, w.trk.dico⟩
    | .setPos _ i c v => if c == "x" || c == "y" || c == "z" then unit (Tbl.setObs c i v) else (.error .unsupported, w0)
    | .setTime _ i field v =>
      match w.trk.ids[i]? with
      | none => (.error .index, w)
      | some id =>
        match w.heap[id]? with
        | none => (.error .index, w)
        | some ob =>
          if field == "zone" then (.ok .none, { w with heap := w.heap.set id { ob with zone := v } })
          else
          match ob.t.setField field v with
          | none => (.error .unsupported, w0)
          | some t' => (.ok .none, { w with heap := w.heap.set id { ob with t := t' } })

end TV.CinTab
