/-! Model of `priority_dict` (`tracklib/core/utils.py`): a `dict` key → priority plus a `heapq` list of
`(priority, key)` tuples with lazy deletion of stale entries.

`heapq` itself is not modelled: the heap is a list standing for a multiset of tuples and `heappop` removes a
smallest tuple (Python tuple order: priority first, then key — for `Node` keys `Node.__lt__`, i.e. the id).
What is modelled is the bookkeeping around it: `__setitem__` (push, or rebuild when the heap has grown to twice
the dict), `pop_smallest` (pop until the popped entry is current), `del`. Keys are `Nat`. Core Lean only. -/
namespace TV.PDict
variable {W : Type}

structure PD (W : Type) where
  dict : List (Nat × W)       -- the dict: key ↦ priority (keys unique by construction)
  heap : List (W × Nat)       -- `_heap`
deriving Repr

/-- `self[k]` (`none` = `k not in self`) -/
def lookup : List (Nat × W) → Nat → Option W
  | [], _ => none
  | (k', v) :: r, k => if k' = k then some v else lookup r k

variable [LT W] [DecidableLT W]

/-- Python's `(v1, k1) < (v2, k2)` on tuples -/
def tlt (a b : W × Nat) : Bool :=
  decide (a.1 < b.1) || (!decide (b.1 < a.1) && decide (a.2 < b.2))

/-- `heappop`: a smallest tuple and the remaining entries (`none` = IndexError on an empty heap) -/
def extractMin : List (W × Nat) → Option ((W × Nat) × List (W × Nat))
  | [] => none
  | a :: r =>
    match extractMin r with
    | none => some (a, [])
    | some (b, r') => if tlt b a then some (b, a :: r') else some (a, r)

/-- `priority_dict(d)`: `_rebuild_heap` -/
def rebuild (dict : List (Nat × W)) : List (W × Nat) := dict.map (fun p => (p.2, p.1))

def ofDict (dict : List (Nat × W)) : PD W := { dict := dict, heap := rebuild dict }

/-- `pd[key] = val` -/
def setitem (pd : PD W) (k : Nat) (v : W) : PD W :=
  let dict := (k, v) :: pd.dict.filter (fun p => p.1 ≠ k)      -- dict.__setitem__
  if pd.heap.length < 2 * dict.length then { dict := dict, heap := (v, k) :: pd.heap }   -- heappush
  else { dict := dict, heap := rebuild dict }

/-- `k in self and self[k] == v` -/
def current (dict : List (Nat × W)) (k : Nat) (v : W) : Bool :=
  match lookup dict k with
  | none => false
  | some v' => !decide (v' < v) && !decide (v < v')

/-- `v, k = heappop(heap); while k not in self or self[k] != v: v, k = heappop(heap)` -/
def popLoop (dict : List (Nat × W)) : Nat → List (W × Nat) → Option (Nat × List (W × Nat))
  | 0, _ => none
  | f+1, heap =>
    match extractMin heap with
    | none => none
    | some (m, rest) => if current dict m.2 m.1 then some (m.2, rest) else popLoop dict f rest

/-- `pop_smallest()`: the key and the new state (`none` = IndexError) -/
def popSmallest (pd : PD W) : Option (Nat × PD W) :=
  match popLoop pd.dict (pd.heap.length + 1) pd.heap with
  | none => none
  | some (k, heap) => some (k, { dict := pd.dict.filter (fun p => p.1 ≠ k), heap := heap })   -- `del self[k]`

/-- `len(pd)` -/
def len (pd : PD W) : Nat := pd.dict.length
end TV.PDict
