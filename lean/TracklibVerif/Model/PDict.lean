import TracklibVerif.Model.Heapq
/-! Model of `priority_dict` (`tracklib/core/utils.py`): a `dict` key → priority plus a `heapq` list of
`(priority, key)` tuples with lazy deletion of stale entries.

The heap is the list `_heap` itself, maintained by the `heapq` functions of `Model/Heapq.lean` (`heapify` in
`_rebuild_heap`, `heappush` in `__setitem__`, `heappop` in `pop_smallest`) under Python's tuple order `tlt`
(priority first, then key — for `Node` keys `Node.__lt__`, i.e. the id). The dict is the list of its items in
insertion order (assigning to an existing key keeps its place, a new key goes to the end, `del` removes in place),
which is the order `_rebuild_heap` reads them in — so `_heap` agrees with the Python list position by position.
Keys are `Nat`. Core Lean only. -/
namespace TV.PDict
variable {W : Type}

structure PD (W : Type) where
  dict : List (Nat × W)       -- the dict items in insertion order (keys unique by construction)
  heap : List (W × Nat)       -- `_heap`
deriving Repr

/-- `self[k]` (`none` = `k not in self`) -/
def lookup : List (Nat × W) → Nat → Option W
  | [], _ => none
  | (k', v) :: r, k => if k' = k then some v else lookup r k

/-- `dict.__setitem__(k, v)`: in place for a key already present, at the end for a new key -/
def dictSet : List (Nat × W) → Nat → W → List (Nat × W)
  | [], k, v => [(k, v)]
  | (k', v') :: r, k, v => if k' = k then (k', v) :: r else (k', v') :: dictSet r k v

variable [LT W] [DecidableLT W]

/-- Python's `(v1, k1) < (v2, k2)` on tuples -/
def tlt (a b : W × Nat) : Bool :=
  decide (a.1 < b.1) || (!decide (b.1 < a.1) && decide (a.2 < b.2))

/-- `_rebuild_heap`: `self._heap = [(v, k) for k, v in self.items()]; heapify(self._heap)` -/
def rebuild (dict : List (Nat × W)) : List (W × Nat) := Heapq.heapify tlt (dict.map (fun p => (p.2, p.1)))

/-- `priority_dict(d)` -/
def ofDict (dict : List (Nat × W)) : PD W := { dict := dict, heap := rebuild dict }

/-- `pd[key] = val` -/
def setitem (pd : PD W) (k : Nat) (v : W) : PD W :=
  let dict := dictSet pd.dict k v                                     -- `super().__setitem__(key, val)`
  if pd.heap.length < 2 * dict.length then { dict := dict, heap := Heapq.heappush tlt pd.heap (v, k) }
  else { dict := dict, heap := rebuild dict }

/-- `k in self and self[k] == v` -/
def current (dict : List (Nat × W)) (k : Nat) (v : W) : Bool :=
  match lookup dict k with
  | none => false
  | some v' => !decide (v' < v) && !decide (v < v')

/-- `v, k = heappop(heap); while k not in self or self[k] != v: v, k = heappop(heap)` -/
def popLoop (dict : List (Nat × W)) : Nat → List (W × Nat) → Option (Nat × List (W × Nat))
  | 0, _ => none
  | f+1, heap =>
    match Heapq.heappop tlt heap with
    | none => none
    | some (m, rest) => if current dict m.2 m.1 then some (m.2, rest) else popLoop dict f rest

/-- `pop_smallest()`: the key and the new state (`none` = IndexError) -/
def popSmallest (pd : PD W) : Option (Nat × PD W) :=
  match popLoop pd.dict (pd.heap.length + 1) pd.heap with
  | none => none
  | some (k, heap) => some (k, { dict := pd.dict.filter (fun p => p.1 ≠ k), heap := heap })   -- `del self[k]`

/-- the state a `pop_smallest()` that raised IndexError leaves: `heappop` has emptied `_heap` (every tuple was stale) -/
def afterFailedPop (pd : PD W) : PD W := { pd with heap := [] }

/-- `len(pd)` -/
def len (pd : PD W) : Nat := pd.dict.length
end TV.PDict
