/-! Model of the coordinate conversions of `tracklib/core/obs_coords.py` and of the whole-track
conversions of `tracklib/core/track.py` (`Track.toECEFCoords/toENUCoords/toGeoCoords/toProjCoords`).

The scalar `α` is a parameter; `+ − × ÷`, unary minus and decimal literals come from the standard
classes, every libm function (and the constant `math.pi`) is a field of `Trig α`. The driver
instantiates `α := Float` with Lean's `Float.sin …` (the same libm the Python interpreter calls), the
theorems instantiate `α := ℝ` with Mathlib's `Real.sin …` (`Lemmas/Geo.lean`).

Every definition performs the operations of the Python function it mirrors *in the same order and
with the same association* (`a * b / c` is `(a * b) / c`, `x ** 2` is `pow x 2.0`, …), so that the
`Float` instance reproduces Python's doubles. All numeric literals are written with a decimal point:
they elaborate through `OfScientific`, the only literal class assumed of `α`; Python's integer
literals in these formulas (`2 - Fe`, `** 2`, `180`) are converted to the same doubles.

One 3-vector type `V3` is used for the three kinds of coordinates, as the Python classes alias
`getX/getY/getZ`: Geo = (lon°, lat°, hgt m), ENU = (E, N, U), ECEF = (X, Y, Z).
Only the `STANDARD_PROJ == 1` branch of `GeoCoords.toENUCoords` is modelled (module constant). -/
namespace TV.Geo

/-- the `math` functions used by obs_coords.py -/
structure Trig (α : Type) where
  pi : α
  sin : α → α
  cos : α → α
  tan : α → α
  atan : α → α
  /-- `atan2 y x` -/
  atan2 : α → α → α
  sqrt : α → α
  log : α → α
  exp : α → α
  /-- `pow x y`, also Python's `x ** y` on floats -/
  pow : α → α → α

structure V3 (α : Type) where
  x : α
  y : α
  z : α

/-- a base point as the Python accepts it: a `GeoCoords` or an `ECEFCoords` -/
inductive Base (α : Type) where
  | geo (c : V3 α)
  | ecef (c : V3 α)

section
variable {α : Type} [Add α] [Sub α] [Mul α] [Div α] [Neg α] [OfScientific α]

/-- `Re: float = 6378137.0` -/
def Re : α := 6378137.0
/-- `Fe: float = 1.0 / 298.257223563` -/
def Fe : α := 1.0 / 298.257223563

variable (T : Trig α)

/-- `GeoCoords.toECEFCoords` -/
def geoToEcef (g : V3 α) : V3 α :=
  let e := T.sqrt (Fe * (2.0 - Fe))
  let lon := g.x * T.pi / 180.0
  let lat := g.y * T.pi / 180.0
  let hgt := g.z
  let n := Re / T.sqrt (1.0 - T.pow (e * T.sin lat) 2.0)
  ⟨(n + hgt) * T.cos lat * T.cos lon,
   (n + hgt) * T.cos lat * T.sin lon,
   ((1.0 - e * e) * n + hgt) * T.sin lat⟩

/-- `ECEFCoords.toGeoCoords` (closed-form inverse, as coded) -/
def ecefToGeo (p : V3 α) : V3 α :=
  let b := Re * (1.0 - Fe)
  let e := T.sqrt (Fe * (2.0 - Fe))
  let X := p.x
  let Y := p.y
  let Z := p.z
  let h := Re * Re - b * b
  let pp := T.sqrt (X * X + Y * Y)
  let t := T.atan2 (Z * Re) (pp * b)
  let lon := T.atan2 Y X
  let lat := T.atan2 (Z + h / b * T.pow (T.sin t) 3.0) (pp - h / Re * T.pow (T.cos t) 3.0)
  let n := Re / T.sqrt (1.0 - T.pow (e * T.sin lat) 2.0)
  let hgt := pp / T.cos lat - n
  ⟨lon * (180.0 / T.pi), lat * (180.0 / T.pi), hgt⟩

/-- `GeoCoords(0, lat, h).toECEFCoords().toGeoCoords()`: the latitude (degrees) and the height that come back, in the
meridian plane of longitude 0 (by `TV.C14.geo_ecef_geo_residual` they are the same at every longitude) -/
def meridianRoundTrip (lat h : α) : α × α :=
  let q := ecefToGeo T (geoToEcef T ⟨0.0, lat, h⟩)
  (q.y, q.z)

/-- `base.toECEFCoords()` (a copy for an `ECEFCoords`) -/
def Base.toEcef : Base α → V3 α
  | .geo c => geoToEcef T c
  | .ecef c => c

/-- `base.toGeoCoords()` (a copy for a `GeoCoords`) -/
def Base.toGeo : Base α → V3 α
  | .geo c => c
  | .ecef c => ecefToGeo T c

/-- `ECEFCoords.toENUCoords(base)`: the base goes to ECEF, then back to Geo for the two angles -/
def ecefToEnu (p : V3 α) (base : Base α) : V3 α :=
  let b := base.toEcef T
  let bg := ecefToGeo T b
  let blon := bg.x * T.pi / 180.0
  let blat := bg.y * T.pi / 180.0
  let x := p.x - b.x
  let y := p.y - b.y
  let z := p.z - b.z
  let slon := T.sin blon
  let slat := T.sin blat
  let clon := T.cos blon
  let clat := T.cos blat
  ⟨(-x) * slon + y * clon,
   (-x) * clon * slat - y * slon * slat + z * clat,
   x * clon * clat + y * slon * clat + z * slat⟩

/-- `ENUCoords.toECEFCoords(base)` -/
def enuToEcef (q : V3 α) (base : Base α) : V3 α :=
  let b := base.toEcef T
  let e := q.x
  let n := q.y
  let u := q.z
  let bg := ecefToGeo T b
  let blon := bg.x * T.pi / 180.0
  let blat := bg.y * T.pi / 180.0
  let slon := T.sin blon
  let slat := T.sin blat
  let clon := T.cos blon
  let clat := T.cos blat
  ⟨(-e) * slon - n * clon * slat + u * clon * clat + b.x,
   e * clon - n * slon * slat + u * slon * clat + b.y,
   n * clat + u * slat + b.z⟩

/-- `GeoCoords.toENUCoords(base)` for a point base (standard flat projection branch) -/
def geoToEnu (g : V3 α) (base : Base α) : V3 α :=
  let baseEcef := base.toEcef T
  let pointEcef := geoToEcef T g
  ecefToEnu T pointEcef (.ecef baseEcef)

/-- `ENUCoords.toGeoCoords(base)` for a point base -/
def enuToGeo (q : V3 α) (base : Base α) : V3 α :=
  let baseEcef := base.toEcef T
  let pointEcef := enuToEcef T q (.ecef baseEcef)
  ecefToGeo T pointEcef

/-- `ENUCoords.toENUCoords(base1, base2)` -/
def enuToEnu (q : V3 α) (base1 base2 : Base α) : V3 α :=
  let b1 := base1.toEcef T
  let b2 := base2.toEcef T
  let pointEcef := enuToEcef T q (.ecef b1)
  ecefToEnu T pointEcef (.ecef b2)

/-! ### Lambert-93 (the constants are repeated in both Python functions) -/

def lambE : α := 0.08181919106
def lambXp : α := 700000.000
def lambYp : α := 12655612.050
def lambN : α := 0.725607765053267
def lambC : α := 11754255.4260960
def lambLambda0 : α := 0.0523598775598299

/-- `_projToLambert93` -/
def toLambert93 (c : V3 α) : V3 α :=
  let E : α := lambE
  let Xp : α := lambXp
  let Yp : α := lambYp
  let n : α := lambN
  let C : α := lambC
  let lambda0 : α := lambLambda0
  let lon := c.x * T.pi / 180.0
  let phi := c.y * T.pi / 180.0
  let latiso := T.pow ((1.0 - E * T.sin phi) / (1.0 + E * T.sin phi)) (E / 2.0)
  let latiso := T.tan (T.pi / 4.0 + phi / 2.0) * latiso
  let latiso := T.log latiso
  let X := Xp + C * T.exp ((-n) * latiso) * T.sin (n * (lon - lambda0))
  let Y := Yp - C * T.exp ((-n) * latiso) * T.cos (n * (lon - lambda0))
  ⟨X, Y, c.z⟩

/-- `for i in range(k): x = f(x)` -/
def iter (f : α → α) : Nat → α → α
  | 0, x => x
  | k + 1, x => iter f k (f x)

/-- one pass of the loop body of `__projFromLambert93` -/
def lambStep (latiso : α) (phi : α) : α :=
  let E : α := lambE
  let phi := 2.0 * T.atan (T.pow ((1.0 + E * T.sin phi) / (1.0 - E * T.sin phi)) (E / 2.0) * T.exp latiso)
  phi - T.pi / 2.0

/-- `__projFromLambert93` with its 10 fixed-point iterations -/
def fromLambert93 (c : V3 α) : V3 α :=
  let Xp : α := lambXp
  let Yp : α := lambYp
  let n : α := lambN
  let C : α := lambC
  let lambda0 : α := lambLambda0
  let X := c.x
  let Y := c.y
  let lon := T.atan ((-(X - Xp)) / (Y - Yp)) / n + lambda0
  let latiso := (-T.log (T.sqrt (T.pow (X - Xp) 2.0 + T.pow (Y - Yp) 2.0) / C)) / n
  let phi := 2.0 * T.atan (T.exp latiso) - T.pi / 2.0
  let phi := iter (lambStep T latiso) 10 phi
  ⟨lon * 180.0 / T.pi, phi * 180.0 / T.pi, c.z⟩

/-! ### dispatch on the kind of base (`isinstance(base, int)`) and whole tracks -/

/-- what Python passes as `base`: a coordinate object or an SRID number -/
inductive BaseArg (α : Type) where
  | pt (b : Base α)
  | srid (n : Nat)

/-- error kinds: `exit` = the code printed an error and called `exit()`; `attr` = AttributeError
(an `int` or `None` base reached `.toECEFCoords()`, or the class has no such method); `type` = TypeError (a method
called with the wrong number of arguments, e.g. `ENUCoords.toECEFCoords()` reached through an `ENUCoords` base);
`index` = IndexError (`getSRID` of an empty track); `unmodelled` = the UTM inverse (`_projFromUTM`), outside this
model; `dangling` = not a Python situation: a request of the driver names an object that does not exist -/
inductive Err where
  | exit | attr | type | index | unmodelled | dangling
  deriving DecidableEq

/-- `_proj(coords, srid)` -/
def proj (c : V3 α) (srid : Nat) : Except Err (V3 α) :=
  if srid == 2154 then .ok (toLambert93 T c) else .error .exit

/-- `_unproj(coords, srid)` -/
def unproj (c : V3 α) (srid : Nat) : Except Err (V3 α) :=
  if srid == 2154 then .ok (fromLambert93 T c)
  else if srid ≥ 32600 && srid ≤ 32799 then .error .unmodelled
  else .error .exit

/-- `GeoCoords.toENUCoords(base)` -/
def geoToEnuArg (g : V3 α) : BaseArg α → Except Err (V3 α)
  | .srid n => proj T g n
  | .pt b => .ok (geoToEnu T g b)

/-- `ECEFCoords.toENUCoords(base)`: an `int` base has no `toECEFCoords` -/
def ecefToEnuArg (p : V3 α) : BaseArg α → Except Err (V3 α)
  | .srid _ => .error .attr
  | .pt b => .ok (ecefToEnu T p b)

/-- `ENUCoords.toECEFCoords(base)` -/
def enuToEcefArg (q : V3 α) : BaseArg α → Except Err (V3 α)
  | .srid _ => .error .attr
  | .pt b => .ok (enuToEcef T q b)

/-- `ENUCoords.toGeoCoords(base)` -/
def enuToGeoArg (q : V3 α) : BaseArg α → Except Err (V3 α)
  | .srid n => unproj T q n
  | .pt b => .ok (enuToGeo T q b)

/-- `ENUCoords.toENUCoords(base1, base2)` -/
def enuToEnuArg (q : V3 α) : BaseArg α → BaseArg α → Except Err (V3 α)
  | .pt b1, .pt b2 => .ok (enuToEnu T q b1 b2)
  | _, _ => .error .attr

/-- `Track.getSRID()` of a non-empty track -/
inductive Kind where
  | geo | enu | ecef
  deriving DecidableEq

/-- the part of a `Track` the conversions read and write: the class of the positions (they all
share it), the positions, and `Track.base` (`none` = Python `None`) -/
structure Track (α : Type) where
  kind : Kind
  pts : List (V3 α)
  base : Option (BaseArg α)

/-- the loop `for i in range(self.size()): self.getObs(i).position = f(position)`; the first failing
point aborts the call -/
def mapPts (f : V3 α → Except Err (V3 α)) : List (V3 α) → Except Err (List (V3 α))
  | [] => .ok []
  | p :: ps => do
    let q ← f p
    let qs ← mapPts f ps
    .ok (q :: qs)

/-- `Track.toECEFCoords(base=None)` -/
def Track.toECEF (t : Track α) (arg : Option (BaseArg α)) : Except Err (Track α) :=
  match t.pts with
  | [] => .error .index
  | _ :: _ =>
    match t.kind with
    | .geo => .ok { t with kind := .ecef, pts := t.pts.map (geoToEcef T) }
    | .enu =>
      match (match arg with | some b => some b | none => t.base) with
      | none => .error .exit
      | some base => do
        let ps ← mapPts (fun q => enuToEcefArg T q base) t.pts
        .ok { t with kind := .ecef, pts := ps }
    | .ecef => .ok t

/-- `Track.toENUCoords(base=None)`: without a base the position of the first observation is used;
the base used is recorded as `GeoCoords` (or as the SRID number) -/
def Track.toENU (t : Track α) (arg : Option (BaseArg α)) : Except Err (Track α) :=
  match t.pts with
  | [] => .error .index
  | first :: _ =>
    match t.kind with
    | .geo =>
      let base : BaseArg α := match arg with | some b => b | none => .pt (.geo first)
      do
        let ps ← mapPts (fun g => geoToEnuArg T g base) t.pts
        let nb : BaseArg α := match base with | .srid n => .srid n | .pt b => .pt (.geo (b.toGeo T))
        .ok { kind := .enu, pts := ps, base := some nb }
    | .ecef =>
      let base : BaseArg α := match arg with | some b => b | none => .pt (.ecef first)
      do
        let ps ← mapPts (fun p => ecefToEnuArg T p base) t.pts
        let nb : BaseArg α := match base with | .srid n => .srid n | .pt b => .pt (.geo (b.toGeo T))
        .ok { kind := .enu, pts := ps, base := some nb }
    | .enu =>
      match arg with
      | none => .error .exit
      | some base =>
        match t.base with
        | none => .error .exit
        | some old => do
          let ps ← mapPts (fun q => enuToEnuArg T q old base) t.pts
          match base with
          | .srid _ => .error .attr      -- `base.toGeoCoords()` on an int (unreachable: the loop failed first)
          | .pt b => .ok { kind := .enu, pts := ps, base := some (.pt (.geo (b.toGeo T))) }

/-- `Track.toENUCoordsIfNeeded()`: a Geo track goes to ENU about (a copy of) the position of its first observation,
any other track is left alone -/
def Track.toENUIfNeeded (t : Track α) : Except Err (Track α) :=
  match t.pts with
  | [] => .error .index
  | first :: _ =>
    match t.kind with
    | .geo => t.toENU T (some (.pt (.geo first)))
    | _ => .ok t

/-- `Track.toGeoCoords(base=None)`; `Track.base` is left as it is -/
def Track.toGeo (t : Track α) (arg : Option (BaseArg α)) : Except Err (Track α) :=
  match t.pts with
  | [] => .error .index
  | _ :: _ =>
    match t.kind with
    | .ecef => .ok { t with kind := .geo, pts := t.pts.map (ecefToGeo T) }
    | .enu =>
      match (match arg with | some b => some b | none => t.base) with
      | none => .error .exit
      | some base => do
        let ps ← mapPts (fun q => enuToGeoArg T q base) t.pts
        .ok { t with kind := .geo, pts := ps }
    | .geo => .ok t

/-- `Track.toProjCoords(srid)`; the positions become `ENUCoords`, `Track.base` the SRID -/
def Track.toProj (t : Track α) (srid : Nat) : Except Err (Track α) :=
  match t.pts with
  | [] => .error .index
  | _ :: _ =>
    match t.kind with
    | .geo => do
      let ps ← mapPts (fun g => proj T g srid) t.pts
      .ok { kind := .enu, pts := ps, base := some (.srid srid) }
    | _ => .error .exit

end

/-- the instance used by the native driver: Lean's `Float` functions (C `double`, libm) and
`math.pi = 3.141592653589793` -/
def floatTrig : Trig Float where
  pi := 3.141592653589793
  sin := Float.sin
  cos := Float.cos
  tan := Float.tan
  atan := Float.atan
  atan2 := Float.atan2
  sqrt := Float.sqrt
  log := Float.log
  exp := Float.exp
  pow := Float.pow

end TV.Geo
