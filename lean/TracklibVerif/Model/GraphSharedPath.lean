import TracklibVerif.Model.GraphShared
import TracklibVerif.Model.GraphPathExt
/-! `Network.shortest_path` on a network that SHARES its `Node` objects with other networks (`net.sub_network(s, cut)` kept
and used next to `net`, extracts of extracts: `Model/GraphShared.lean`). The routing attributes `poids` / `visite` /
`antecedent` / `antecedent_edge` live on the shared `Node` objects, so the call finds on them whatever the last search of
ANY network of the family left: `run_routing_forward` resets the nodes of its own `NODES` only (`routeOnPD`, the loop with
the explicit `priority_dict`), then `run_routing_backward` walks `antecedent` / `antecedent_edge` from the target.
Core Lean only. -/
namespace TV.GraphExt
open TV.Graph
variable {W : Type} [LT W] [DecidableLT W] [Add W] [OfNat W 0]

/-- `shortest_path(source, target, cut)` on a network with `NODES` = `order` whose `Node` objects carry the flags `st`:
the returned track, and the flags the call leaves on the shared objects -/
def shortestPathSh (net : Net W) (geo : GeoT) (order : List Nat) (st : St W) (s t : Nat) (cut : Option W) : BackT × St W :=
  let r := routeOnPD net order st s (some t) cut
  (runBackwardT net geo r.1 t, r.1)

/-- `run_routing_forward(source, target, cut)` then `run_routing_backward(t')` on the same network, nothing in between -/
def backwardAfterSh (net : Net W) (geo : GeoT) (order : List Nat) (st : St W) (s : Nat) (tgt : Option Nat) (cut : Option W)
    (t' : Nat) : BackT :=
  runBackwardT net geo (routeOnPD net order st s tgt cut).1 t'

/-! ### a program over a family, with path calls -/

/-- a call of a program over a family of networks sharing their `Node` / `Edge` objects: any call of `Model/GraphShared.lean`
(`Network()`, a distance call on a member, `sub_network` kept as a new member, `edge.weight = w`), or
`nets[k].shortest_path(s, t, cut)`. `geo`: the coordinates of the `Node` objects and the geometries of the `Edge` objects —
one per id, the objects being shared. -/
inductive FamPOp (W : Type) where
  | fam (op : FamOp W)
  | path (k s t : Nat) (cut : Option W)

inductive FamPOut (W : Type) where
  | out (o : Graph.Out W)
  /-- the returned track and `NODES[t].poids` after the call -/
  | path (b : BackT) (label : Option W)
  /-- no such network / `KeyError` (a node the network does not hold) -/
  | err

def execFamP (geo : GeoT) (F : Fam W) : FamPOp W → Fam W × FamPOut W
  | .fam op => let r := execFam F op; (r.1, .out r.2)
  | .path k s t cut =>
    match F.nets[k]? with
    | Option.none => (F, .err)
    | some σ =>
      if σ.order.contains s && σ.order.contains t then
        let r := shortestPathSh σ.net geo σ.order F.flags s t cut
        ({ F with flags := r.2 }, .path r.1 (r.2.d t))
      else (F, .err)

def runFamP (geo : GeoT) (F : Fam W) : List (FamPOp W) → List (FamPOut W)
  | [] => []
  | op :: rest => (execFamP geo F op).2 :: runFamP geo (execFamP geo F op).1 rest

def famPAfter (geo : GeoT) (F : Fam W) : List (FamPOp W) → Fam W
  | [] => F
  | op :: rest => famPAfter geo (execFamP geo F op).1 rest
end TV.GraphExt
