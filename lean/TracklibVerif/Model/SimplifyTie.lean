import TracklibVerif.Model.Simplify
/-! The freedom the statement of C16 leaves to Visvalingam: **which of several equally small triangles goes first**.

`visvalingam` (algo/simplification.py) asks `Operator.ARGMIN` for the fix to eliminate; ARGMIN (`val < minimum`, strict, once an index is recorded) answers
the *first* of several equal minima. The property only says: a sub-sequence of the input observations in their order, with the
first and the last one. An implementation that eliminates another of the equally small triangles (the last one, a random one)
is as good; since the areas of the neighbours are recomputed after every removal, it can end with *other* observations.

This file models that freedom (core Lean, executable, scalar-polymorphic):
* `vwBody` — the body of the `while` loop after the test, for an arbitrary index (`removeObs(id)` and the two guarded updates);
* `tieIds` — the indices an ARGMIN with another tie-break may answer: its own answer and, when a minimum was found (the entry
  there is a number below the initial minimum `big` or, since b728412, equal to it), every index whose entry is `==` to it;
* `vwNext` — the states one pass may lead to (`[]`: the loop stops, by `break` or because two observations remain);
* `VReach` — reachability by such passes; `VwAnyResult` — the results of all runs;
* `vwAllLevels` / `visvalingamAll` — the executable enumeration the driver runs (level by level, states with the same observations
  merged, `none` as soon as a level holds more than `cap` states). `Lemmas/SimplifyVwTie.lean` proves that everything it returns is a
  `VwAnyResult` and that the code's own run is one; `Props/C16.lean` (T13) proves the property for every `VwAnyResult`.
The correspondence check accepts exactly these results (as it accepts `dpAllFuel` for Douglas–Peucker). -/
namespace TV.Simplify

variable {α : Type} [Add α] [Sub α] [Mul α] [Div α] [Neg α] [LT α] [DecidableLT α] [BEq α]
  [OfNat α 0] [OfNat α 1] [OfNat α 2]

/-- the loop body after the `break` test, for the index `id`: `output.removeObs(id)`, then
`if id > 1: set '@aire' of id-1`, `if id < size-1: set '@aire' of id` -/
def vwBody (S : VState α) (id : Nat) : VState α :=
  let S1 := S.eraseIdx id
  let S2 := if id > 1 then setAire S1 (id - 1) else S1
  if id < S2.length - 1 then setAire S2 id else S2

/-- is entry `j` of the column a number `==` to `v`? (NaN never is) -/
def isTie (col : List (Option α)) (v : α) (j : Nat) : Bool :=
  match col[j]? with
  | some (some w) => w == v
  | _ => false

/-- the indices an ARGMIN with another tie-break may answer: ARGMIN's own answer `id`, and — when the entry there is a number
below the initial minimum or equal to it (b728412), i.e. when a minimum was found at all — every other index whose entry equals
it. (When no entry is a number `<=` the initial minimum ARGMIN answers its default `0`: nothing is tied, the list is `[0]`.) -/
def tieIds (big : α) (col : List (Option α)) : List Nat :=
  let id := argmin big col
  match col[id]? with
  | some (some v) =>
    if v < big ∨ (v == big) = true then id :: (List.range col.length).filter (fun j => j != id && isTie col v j) else [id]
  | _ => [id]

/-- the states one pass of the loop may lead to when any of the equally small entries may be taken; `[]`: the loop stops
(`size <= 2`, or the smallest entry — the same number for all tied indices — exceeds `eps2`: `break`) -/
def vwNext (big eps2 : α) (S : VState α) : List (VState α) :=
  if S.length > 2 then
    let id := argmin big (S.map (·.2))
    let stop : Bool := match S[id]? with
      | some (_, some v) => decide (v > eps2)
      | _ => false
    if stop then [] else (tieIds big (S.map (·.2))).map (vwBody S)
  else []

/-- `S'` is reached from `S` by zero or more passes, each taking any of the equally small entries -/
inductive VReach (big eps2 : α) : VState α → VState α → Prop
  | refl (S : VState α) : VReach big eps2 S S
  | step {S S1 S' : VState α} : S1 ∈ vwNext big eps2 S → VReach big eps2 S1 S' → VReach big eps2 S S'

/-- `out` is what Visvalingam returns for **some** choice among equally small triangles at every pass: the observations of a
state reachable from the initial column in which the loop stops -/
def VwAnyResult (big eps : α) (L out : List (Fix α)) : Prop :=
  ∃ S', VReach big (eps * eps) (vwInit L) S' ∧ vwNext big (eps * eps) S' = [] ∧ out = S'.map (·.1)

/-! ### executable enumeration (driver) -/

/-- the observations of a state, by tag -/
def tagsOf (S : VState α) : List Nat := S.map (·.1.tag)

/-- keep the first of the states that hold the same observations -/
def dedupTags (l : List (VState α)) : List (VState α) :=
  l.foldl (fun acc S => if acc.any (fun T => tagsOf T == tagsOf S) then acc else acc ++ [S]) []

/-- level-by-level enumeration of the final states of all runs: `frontier` = the states after `k` passes, `finals` = the states
in which some run has stopped. `none`: a level holds more than `cap` states (too many ties to enumerate), or the fuel ran out. -/
def vwAllLevels (big eps2 : α) (cap : Nat) : Nat → List (VState α) → List (VState α) → Option (List (VState α))
  | 0, frontier, finals => if frontier.isEmpty then some finals else none
  | fuel + 1, frontier, finals =>
    if frontier.isEmpty then some finals
    else if frontier.length > cap then none
    else
      vwAllLevels big eps2 cap fuel (dedupTags (frontier.flatMap (vwNext big eps2)))
        (finals ++ frontier.filter (fun S => (vwNext big eps2 S).isEmpty))

/-- every result Visvalingam can return with another choice among equally small triangles (`eps = eps * eps` as in the code) -/
def visvalingamAll (big eps : α) (cap : Nat) (L : List (Fix α)) : Option (List (List (Fix α))) :=
  (vwAllLevels big (eps * eps) cap (L.length + 1) [vwInit L] []).map (fun R => R.map (fun S => S.map (·.1)))

end TV.Simplify
