/-! Model of `optimalPartition`, `backtracking`, `backward`, `optimalSegmentation`, `findStopsGlobal`'s reward matrix, the dispatcher
`findStops` (algo/segmentation.py), of `optimalSimplification` / `simplify`'s modes 4–8 (algo/simplification.py, as of b8f1113:
parameter and direction forwarded) and of `TrackCollection.simplify` for the free modes (core/track_collection.py).

`optimalPartition` has two forms:
* the *table* form (`optimalPartition`, run by the driver on arrays: `Model/PartitionArr.lean`) mirrors the Python line by
  line: `N = rows − 1`, tables `D`, `M` initialised on the upper triangle, filled in place by increasing diagonals, both
  direction tests as written, `backward`/`backtracking` on `M`;
* the *function* form (`opt`, fuel-indexed interval recursion with the strict scan) is what the optimality
  lemmas are proved about; `Lemmas/PartitionTable.lean` proves the two equal.

The front ends (second half of the file) are modelled from the caller's arguments down to the call of
`optimalPartition`: the call protocol of the user's cost function (`CostFn`: three / four parameters, default value, not
callable; `glob_param is None` selects the three-argument call, EVERY other value is passed), the loops that fill the
matrix (in place, loop form, with `findStopsGlobal`'s `break`), `C + C.T`, degenerate track sizes and the exceptions.
`findStopsGlobal` is modelled from ITS arguments (`findStopsGlobalPy`, last section): the track it works on (`downsampling > 1`:
the resampled copy), the planimetric `distance2DTo` and the elapsed time read from the observations `(x, y, z, t)`, the three
tests, the final filter and the identifiers of the stops. The dispatcher `findStops(…, MODE_STOPS_GLOBAL, verbose)` is `findStopsPy` (`verbose` goes by keyword; `findStopsPyOld` is the pre-fix positional call). `minCircle` (modelled on its own in
`Model/MinCircle.lean`), the temporal resampling `track ** n`, the geometry of
`findStopsGlobalForRTK` and the built-in cost functions of `simplify` enter as parameters.

`better a b` is the strict test of the selected direction (`a < b` to minimise, `a > b` to maximise).
Core Lean only; polymorphic in the scalar (`Rat`/`Int` and `Float` in the driver, an ordered monoid in the proofs). -/
namespace TV.Partition
variable {α : Type}

/-! ## function form -/

/-- `for k in range(lo, lo+n): val = f k; if better val best: best = val; arg = k` -/
def scan (better : α → α → Bool) (f : Nat → α) : Nat → Nat → α × Option Nat → α × Option Nat
  | _, 0, acc => acc
  | lo, n+1, acc =>
    let acc' := scan better f lo n acc
    let k := lo + n
    if better (f k) acc'.1 then (f k, some k) else acc'

/-- D[i,j] (value) and M[i,j] (split point, `none` = −1), fuel ≥ span − 1 -/
def opt (better : α → α → Bool) (add : α → α → α) (cost : Nat → Nat → α) : Nat → Nat → Nat → α × Option Nat
  | 0, i, j => (cost i j, none)
  | f+1, i, j =>
    scan better (fun k => add (opt better add cost f i k).1 (opt better add cost f k j).1) (i+1) (j - i - 1) (cost i j, none)

/-! ## table form -/

/-- `for x in range(lo, lo+n): s = body x s` -/
def loop {σ : Type} (lo : Nat) : Nat → (Nat → σ → σ) → σ → σ
  | 0, _, s => s
  | n+1, body, s => body (lo + n) (loop lo n body s)

/-- in-place assignment `T[i,j] = v` on a table seen as a function of its two indices -/
def upd {β : Type} (T : Nat → Nat → β) (i j : Nat) (v : β) : Nat → Nat → β :=
  fun a b => if a = i ∧ b = j then v else T a b

/-- the two numpy tables: `D` (best value) and `M` (best split point, −1 = none; floats holding integers in Python) -/
structure Tabs (α : Type) where
  D : Nat → Nat → α
  M : Nat → Nat → Int

/-- `D = zeros((N,N)); M = zeros((N,N)); for i in range(N): for j in range(i,N): D[i,j] = C[i,j]; M[i,j] = -1` -/
def init (zero : α) (N : Nat) (C : Nat → Nat → α) : Tabs α :=
  { D := fun i j => if i ≤ j ∧ j < N then C i j else zero
    M := fun i j => if i ≤ j ∧ j < N then -1 else 0 }

variable [Add α] [LT α] [DecidableLT α]

/-- the strict test selected by `mode` (0 = MINIMIZE: `a < b`, 1 = MAXIMIZE: `a > b`, anything else: never) -/
def better (mode : Nat) (a b : α) : Bool :=
  (mode == 0 && decide (a < b)) || (mode == 1 && decide (a > b))

/-- body of the `k` loop, both tests as written (`mode` is compared with the constants 0 = MINIMIZE, 1 = MAXIMIZE;
the second test reads `D[i,j]` after the first assignment) -/
def stepK (mode i j k : Nat) (t : Tabs α) : Tabs α :=
  let val := t.D i k + t.D k j
  let t1 : Tabs α := if val < t.D i j ∧ mode = 0 then ⟨upd t.D i j val, upd t.M i j (k : Int)⟩ else t
  if val > t1.D i j ∧ mode = 1 then ⟨upd t1.D i j val, upd t1.M i j (k : Int)⟩ else t1

/-- `for k in range(i+1, j): …` -/
def cellLoop (mode i j : Nat) (t : Tabs α) : Tabs α :=
  loop (i + 1) (j - (i + 1)) (stepK mode i j) t

/-- `for i in range(0, N - diag): j = i + diag; …` -/
def diagLoop (mode N diag : Nat) (t : Tabs α) : Tabs α :=
  loop 0 (N - diag) (fun i t => cellLoop mode i (i + diag) t) t

/-- `for diag in range(2, N): …` -/
def fill (mode N : Nat) (t : Tabs α) : Tabs α :=
  loop 2 (N - 2) (fun diag t => diagLoop mode N diag t) t

/-- `backtracking(B, i, j)`; the recursion is on `(i, id)` and `(id, j)` with `i < id < j` whenever `B` was
produced by `fill`, so fuel `j − i` suffices (proved); out of fuel returns `[i]`. -/
def backtracking (B : Nat → Nat → Int) : Nat → Nat → Nat → List Nat
  | 0, i, _ => [i]
  | f+1, i, j =>
    if B i j < 0 ∨ (if i ≤ j then j - i else i - j) ≤ 1 then [i]
    else
      let id := (B i j).toNat
      backtracking B f i id ++ backtracking B f id j

/-- `backward(B)`: `n = B.shape[0]` -/
def backward (B : Nat → Nat → Int) (n : Nat) : List Nat :=
  backtracking B n 0 (n - 1) ++ [n - 1]

/-- tables after the dynamic programme -/
def tables (zero : α) (rows : Nat) (C : Nat → Nat → α) (mode : Nat) : Tabs α :=
  fill mode (rows - 1) (init zero (rows - 1) C)

/-- `optimalPartition(cost_matrix, mode)` for a `rows × rows` matrix with `rows ≥ 2` (`N = rows − 1 ≥ 1`).
(`rows = 1` raises IndexError in `backward`, `rows = 0` ValueError in `np.zeros`: handled by the driver.) -/
def optimalPartition (zero : α) (rows : Nat) (C : Nat → Nat → α) (mode : Nat) : List Nat :=
  backward (tables zero rows C mode).M (rows - 1)

/-- summed segment cost of an index list -/
def pathCost (zero : α) (C : Nat → Nat → α) : List Nat → α
  | a :: b :: rest => C a b + pathCost zero C (b :: rest)
  | _ => zero

/-! ## front ends

`optimalSegmentation(track, cost, glob_param, mode)`, `optimalSimplification(track, cost, eps, mode)`,
`simplify(track, tolerance, mode)` for the modes that delegate to them, and `findStopsGlobal`: everything between the
caller's arguments and the call of `optimalPartition` — how the user's cost function is called (with or without the
global parameter), which cells of the matrix receive a cost, what is on and below the diagonal, the symmetric fill. -/

/-- the exceptions a call on this path can end with -/
inductive Err where
  /-- `TypeError`: the cost function is called with a number of arguments it does not accept -/
  | type
  /-- `IndexError`: `backward` indexes an empty table (track of one observation) -/
  | index
  /-- `ValueError`: `np.zeros((-1, -1))` (empty track) -/
  | value
  deriving DecidableEq, Repr

/-- A user cost function, as far as Python's call protocol is concerned. `γ` is the type of the global parameter,
`i` the first index, `e : Int` the last index of the segment (`optimalSegmentation` passes `j − 1`, which is `−1` for
`i = j = 0`). -/
inductive CostFn (γ α : Type) where
  /-- `def cost(track, i, j)` -/
  | three (f : Nat → Int → α)
  /-- `def cost(track, i, j, p)` -/
  | four (f : Nat → Int → γ → α)
  /-- `def cost(track, i, j, p=d)` (also `def cost(track, i, j, *rest)` reading `rest[0]` when present) -/
  | fourD (f : Nat → Int → γ → α) (d : γ)
  /-- not callable with three or four positional arguments at all (a number given where a function is expected) -/
  | notCallable

namespace CostFn
variable {γ : Type}
/-- `cost(track, i, e)` -/
def call3 : CostFn γ α → Nat → Int → Except Err α
  | three f, i, e => .ok (f i e)
  | four _, _, _ => .error .type
  | fourD f d, i, e => .ok (f i e d)
  | notCallable, _, _ => .error .type

/-- `cost(track, i, e, g)` -/
def call4 : CostFn γ α → Nat → Int → γ → Except Err α
  | three _, _, _, _ => .error .type
  | four f, i, e, g => .ok (f i e g)
  | fourD f _, i, e, g => .ok (f i e g)
  | notCallable, _, _, _ => .error .type
end CostFn

/-- the call written in `optimalSegmentation`'s loop body:
`if glob_param is None: cost(track, i, j-1)  else: cost(track, i, j-1, glob_param)`.
The test is `is None`: every other value — `0`, `0.0`, `False`, an empty tuple — is handed to the cost function. -/
def segCall {γ : Type} (c : CostFn γ α) (glob : Option γ) (i : Nat) (e : Int) : Except Err α :=
  match glob with
  | none => c.call3 i e
  | some g => c.call4 i e g

/-- the same as a total function of `(i, e)` when the protocol is accepted (it does not depend on `i`, `e`),
`none` when every call raises `TypeError` -/
def segCost {γ : Type} (c : CostFn γ α) (glob : Option γ) : Option (Nat → Int → α) :=
  match c, glob with
  | .three f, none => some f
  | .fourD f d, none => some (fun i e => f i e d)
  | .four f, some g => some (fun i e => f i e g)
  | .fourD f _, some g => some (fun i e => f i e g)
  | _, _ => none

/-- `C = np.zeros((size, size)); for i in range(size-2): for j in range(i, size-1): C[i,j] = cost(track, i, j-1)`
as the two nested loops with in-place assignment -/
def segFill (zero : α) (size : Nat) (cost : Nat → Int → α) : Nat → Nat → α :=
  loop 0 (size - 2) (fun i C => loop i (size - 1 - i) (fun j C => upd C i j (cost i ((j : Int) - 1))) C)
    (fun _ _ => zero)

/-- `C + np.transpose(C)` -/
def addTranspose (C : Nat → Nat → α) : Nat → Nat → α := fun i j => C i j + C j i

/-- the matrix handed to `optimalPartition` by `optimalSegmentation`, loop form -/
def segMatrixL (zero : α) (size : Nat) (cost : Nat → Int → α) : Nat → Nat → α :=
  addTranspose (segFill zero size cost)

/-- the same matrix in closed form (`Lemmas/PartitionFront.lean`: equal to the loop form): the cells `i ≤ j` with
`i < size − 2`, `j < size − 1` receive `cost(track, i, j−1)`, everything else stays `0`, then the transpose is added — so
`C[i,j] = C[j,i] = cost(track, i, j−1)` for `i < j ≤ size−2`, the diagonal holds `2·cost(track, i, i−1)` (never read by
`optimalPartition`), and the last row and column are `0` (outside the leading `N × N` block, `N = size − 1`). -/
def segMatrix (zero : α) (size : Nat) (cost : Nat → Int → α) : Nat → Nat → α :=
  let C0 : Nat → Nat → α := fun i j => if i + 2 < size ∧ i ≤ j ∧ j + 1 < size then cost i ((j : Int) - 1) else zero
  fun i j => C0 i j + C0 j i

/-- `optimalSegmentation` once the cost function is a total function of `(i, e)` -/
def optimalSegmentation (zero : α) (size : Nat) (cost : Nat → Int → α) (mode : Nat) : List Nat :=
  optimalPartition zero size (segMatrix zero size cost) mode

/-- `optimalSegmentation(track, cost, glob_param, mode)` as called from Python, for a track of `size` observations.
No call of `cost` happens for `size ≤ 2` (`range(size − 2)` is empty); for `size ≥ 3` the first call is
`cost(track, 0, −1[, glob_param])` and a call protocol the function does not accept raises `TypeError` there.
`size = 2` gives `[0, 0]` (one candidate), `size = 1` `IndexError`, `size = 0` `ValueError` (both inside
`optimalPartition`). -/
def optimalSegmentationPy {γ : Type} (zero : α) (size : Nat) (c : CostFn γ α) (glob : Option γ) (mode : Nat) :
    Except Err (List Nat) :=
  if size = 0 then .error .value
  else if size = 1 then .error .index
  else
    match segCost c glob with
    | some cost => .ok (optimalSegmentation zero size cost mode)
    | none => if size = 2 then .ok (optimalSegmentation zero size (fun _ _ => zero) mode) else .error .type

/-- `optimalSimplification(track, cost, eps, mode)`: `segmentation = optimalSegmentation(track, cost, eps, mode, verbose)`
(the direction IS forwarded since b8f1113), then the observations at the selected indices are copied in order. -/
def optimalSimplificationPy {γ ω : Type} (zero : α) (obs : List ω) (c : CostFn γ α) (eps : Option γ) (mode : Nat) :
    Except Err (List ω) :=
  match optimalSegmentationPy zero obs.length c eps mode with
  | .ok seg => .ok (seg.filterMap (fun i => obs[i]?))
  | .error e => .error e

/-- `simplify(track, tolerance, mode)` for the three built-in criteria that go through `optimalSimplification`:
4 = MINIMIZE_LARGEST_DEVIATION, 5 = MINIMIZE_ELONGATION_RATIO, 6 = PRECLUDE_LARGE_DEVIATION. `builtin m` is the module's
four-parameter cost function of mode `m` (`def __cost_…(track, i, j, offset)`, geometry not modelled: a parameter);
`tolerance` is handed over as the global parameter (`None` included) and the direction is MINIMIZE. -/
def simplifyBuiltin {γ ω : Type} (zero : α) (obs : List ω) (builtin : Nat → Nat → Int → γ → α) (tolerance : Option γ)
    (smode : Nat) : Option (Except Err (List ω)) :=
  if smode = 4 ∨ smode = 5 ∨ smode = 6 then
    some (optimalSimplificationPy zero obs (CostFn.four (builtin smode)) tolerance 0)
  else none

/-- `simplify(track, cost, mode)` for the two "free" modes: 7 = MODE_SIMPLIFY_FREE minimises, 8 =
MODE_SIMPLIFY_FREE_MAXIMIZE maximises the user's function, called with three arguments (`eps = None`). -/
def simplifyFree {γ ω : Type} (zero : α) (obs : List ω) (c : CostFn γ α) (smode : Nat) : Option (Except Err (List ω)) :=
  if smode = 7 then some (optimalSimplificationPy zero obs c none 0)
  else if smode = 8 then some (optimalSimplificationPy zero obs c none 1)
  else none

/-- `TrackCollection.simplify(tolerance, mode)` (core/track_collection.py) for the two "free" modes: `output = self.copy();
for i in range(len(output)): output[i] = simplify(output[i], tolerance, mode)` — the tracks one after the other, the first
exception ends the call. -/
def collectionSimplifyFree {γ ω : Type} (zero : α) (c : CostFn γ α) (smode : Nat) :
    List (List ω) → Option (Except Err (List (List ω)))
  | [] => some (.ok [])
  | t :: ts =>
    match simplifyFree zero t c smode with
    | none => none
    | some (.error e) => some (.error e)
    | some (.ok r) =>
      match collectionSimplifyFree zero c smode ts with
      | none => none
      | some (.error e) => some (.error e)
      | some (.ok rs) => some (.ok (r :: rs))

/-! ### stop detection (`findStopsGlobal`) -/

/-- what the row loops of stop detection read from the track and its parameters (geometry and clock not modelled:
parameters). The second index is the LAST observation of the segment, `e = j − 1`. `stopPredGlobal` below gives the three
tests of `findStopsGlobal`; `findStopsGlobalForRTK` runs the same loops with `far` = `track[i].distanceTo(track[e]) > 3 *
std_max`, `short` = `t_e − t_i <= duration`, `small` = `some (sqrt(var_x + var_y + var_z) < std_max)` and the final filter
`C[a, b] != 0`. -/
structure StopPred where
  /-- first test of the loop body (`break`) -/
  far : Nat → Nat → Bool
  /-- second test of the loop body (`continue`) -/
  short : Nat → Nat → Bool
  /-- `none` when the size of the segment cannot be computed (`minCircle` returns `None`), else whether it is admitted -/
  small : Nat → Nat → Option Bool

/-- the three tests of `findStopsGlobal` as written since 026cb79 (inclusive boundaries, as documented):
`track[i].distance2DTo(track[e]) > diameter` (break), `track[e].timestamp - track[i].timestamp < duration` (reward 0),
`2 * cercle.radius <= diameter` (rewarded; written `¬ diameter < 2r`, the same for numbers that are not NaN).
`dist i e`, `dur i e`, `circ i e` are the distance, the elapsed time and `2 * radius` of `minCircle` (`none` = `None`). -/
def stopPredGlobal (dist dur : Nat → Nat → α) (circ : Nat → Nat → Option α) (diameter duration : α) : StopPred where
  far := fun i e => decide (diameter < dist i e)
  short := fun i e => decide (dur i e < duration)
  small := fun i e => (circ i e).map (fun twoR => !decide (diameter < twoR))

/-- value written by one passage through the body of the `j` loop that does not `break` -/
def stopCell (zero : α) (sq : Nat → α) (p : StopPred) (i j : Nat) : α :=
  if p.short i (j - 1) then zero
  else match p.small i (j - 1) with
    | some true => sq (j - i)
    | _ => zero

/-- the `j` loop of row `i`, with its `break`: state = (matrix, has the loop been left).
```
for j in range(i + 1, size - 1):
    if far(i, j-1): C[i,j] = 0; break
    if short(i, j-1): C[i,j] = 0; continue
    cercle = minCircle(...);  C[i,j] = (2*radius < diameter) * (j-i)**2   (0 if None)
``` -/
def stopsRow (zero : α) (sq : Nat → α) (p : StopPred) (size i : Nat) (C : Nat → Nat → α) : (Nat → Nat → α) × Bool :=
  loop (i + 1) (size - 1 - (i + 1)) (fun j st =>
    if st.2 then st
    else if p.far i (j - 1) then (upd st.1 i j zero, true)
    else (upd st.1 i j (stopCell zero sq p i j), false)) (C, false)

/-- `C = np.zeros((size, size)); for i in range(size - 2): …` -/
def stopsFill (zero : α) (sq : Nat → α) (p : StopPred) (size : Nat) : Nat → Nat → α :=
  loop 0 (size - 2) (fun i C => (stopsRow zero sq p size i C).1) (fun _ _ => zero)

/-- the reward matrix handed to `optimalPartition`: `C + C.T` -/
def stopsMatrix (zero : α) (sq : Nat → α) (p : StopPred) (size : Nat) : Nat → Nat → α :=
  addTranspose (stopsFill zero sq p size)

/-- the segmentation computed inside `findStopsGlobal`: `optimalPartition(C, MODE_SEGMENTATION_MAXIMIZE)` -/
def stopsSegmentation (zero : α) (sq : Nat → α) (p : StopPred) (size : Nat) : List Nat :=
  optimalPartition zero size (stopsMatrix zero sq p size) 1

/-- consecutive pairs of an index list -/
def pairs : List Nat → List (Nat × Nat)
  | a :: b :: rest => (a, b) :: pairs (b :: rest)
  | _ => []

/-- the stops reported: the segments `[a, b)` of the segmentation that pass the final filter
`not (C is None or C.radius > diameter/2 or portion.duration() < duration)`, as `(id_ini, id_end) = (a, b − 1)`.
`keep a e` is that filter on `track.extract(a, e)`. -/
def stopsReported (zero : α) (sq : Nat → α) (p : StopPred) (keep : Nat → Nat → Bool) (size : Nat) : List (Nat × Nat) :=
  ((pairs (stopsSegmentation zero sq p size)).filter (fun ab => keep ab.1 (ab.2 - 1))).map (fun ab => (ab.1, ab.2 - 1))
/-! ### `findStopsGlobal` from the caller's arguments down to the stops it reports

`findStopsGlobal(track, diameter, duration, downsampling, verbose)`: the choice of the track the criterion is evaluated on
(`downsampling > 1`: the resampled copy), the three tests of the row loops read from the observations — the PLANIMETRIC
distance `distance2DTo` (the altitude is never read), the elapsed time, the size of `minCircle`'s circle —, the delegation to
`optimalPartition(MAXIMIZE)`, the final filter and the identifiers written on the stops (`segmentation[i] * downsampling`).
Lengths are compared through their squares (the test `sqrt(s) > d` is `d < 0 ∨ d² < s` for exact non-negative `s`).
`minCircle` (Welzl's randomised algorithm) and the temporal resampling `track ** n` are parameters. -/

/-- an observation as stop detection reads it: ENU position `(x, y, z)` and absolute time `t` in seconds -/
structure Fix (α : Type) where
  x : α
  y : α
  z : α
  t : α

section track
variable [Sub α] [Mul α]

/-- square of `p.distance2DTo(q)` = `(q − p).norm2D()²`: planimetric, the altitude `z` is not read -/
def dist2D2 (p q : Fix α) : α := (q.x - p.x) * (q.x - p.x) + (q.y - p.y) * (q.y - p.y)

/-- the three tests of `findStopsGlobal` read from the track `tr` (index → observation):
`track[i].distance2DTo(track[e]) > diameter` (break), `track[e].timestamp - track[i].timestamp < duration` (reward 0),
`2 * cercle.radius <= diameter` (rewarded), with lengths compared through their squares: `circ2 i e` is the SQUARE of
`2 * minCircle(track.extract(i, e)).radius` (`none` = `None`). A negative `diameter` is exceeded by every distance and by
every circle. -/
def stopPredTrack (zero : α) (tr : Nat → Fix α) (circ2 : Nat → Nat → Option α) (diameter duration : α) : StopPred :=
  if diameter < zero then
    { far := fun _ _ => true
      short := fun i e => decide ((tr e).t - (tr i).t < duration)
      small := fun i e => (circ2 i e).map (fun _ => false) }
  else
    stopPredGlobal (fun i e => dist2D2 (tr i) (tr e)) (fun i e => (tr e).t - (tr i).t) circ2 (diameter * diameter) duration

/-- the final filter on `portion = track.extract(a, e)`: `C = minCircle(portion)`; the segment is reported unless `C` is
`None`, `C.radius > diameter / 2` or `portion.duration() < duration`. `circA a e` is the squared `2 * radius` of THAT call
(`minCircle` is randomised: the second call on the same fixes may return `None` where the first did not). -/
def stopKeepTrack (zero : α) (tr : Nat → Fix α) (circA : Nat → Nat → Option α) (diameter duration : α) (a e : Nat) : Bool :=
  match circA a e with
  | none => false
  | some c => !(decide (diameter < zero) || decide (diameter * diameter < c)) && !decide ((tr e).t - (tr a).t < duration)

/-- run-time certificate for the circles handed to the model as `minCircle`'s answers (`circ2 i e` = squared diameter, centre
`(cx i e, cy i e)`): every observation `p_i … p_e` of every segment `i ≤ e < size` lies in the disc, i.e.
`4 · |p_k − centre|² ≤ circ2 i e` (planimetric). `Props/C12.lean` (`enclosedB_sound`) turns `true` into the hypothesis of
`stops_criterion`. -/
def enclosedB (four : α) (tr : Nat → Fix α) (circ2 : Nat → Nat → Option α) (cx cy : Nat → Nat → α) (size : Nat) : Bool :=
  (List.range size).all fun i => (List.range size).all fun e =>
    if i ≤ e then
      match circ2 i e with
      | none => true
      | some c => (List.range (e + 1 - i)).all fun d =>
          !decide (c < four * (((tr (i + d)).x - cx i e) * ((tr (i + d)).x - cx i e) + ((tr (i + d)).y - cy i e) * ((tr (i + d)).y - cy i e)))
    else true

/-- `if downsampling > 1: track = track.copy(); track **= track.size() / downsampling` (`**=` builds the temporal resampling
on that number of points: `resampled`, a parameter); every other value of `downsampling` leaves the track as it is -/
def stopsTrack (one downsampling : α) (track resampled : List (Fix α)) : List (Fix α) :=
  if one < downsampling then resampled else track

/-- `track[i]` -/
def getFix (zero : α) (l : List (Fix α)) : Nat → Fix α :=
  fun i => l.getD i ⟨zero, zero, zero, zero⟩

/-- what `findStopsGlobal` reads of an observation: planimetric position and time -/
def Fix.flat (p : Fix α) : α × α × α := (p.x, p.y, p.t)

/-- `findStopsGlobal(track, diameter, duration, downsampling)`: the stops reported as `(id_ini, id_end, nb_points)` =
`(a * downsampling, (b − 1) * downsampling, b − a)` for the segments `[a, b)` of the maximising segmentation that pass the
final filter. An empty track raises `ValueError` (`np.zeros((-1, -1))` in `optimalPartition`), a track of one observation
`IndexError` (`backward` indexes an empty table), of two observations `IndexError` too (the segmentation is `[0, 0]` and
`extract(0, -1)` is an empty track whose duration is asked for). -/
def findStopsGlobalPy (zero one : α) (sq ofNat : Nat → α) (track resampled : List (Fix α))
    (circ2 circA : Nat → Nat → Option α) (diameter duration downsampling : α) : Except Err (List (α × α × Nat)) :=
  let tr := stopsTrack one downsampling track resampled
  let size := tr.length
  if size = 0 then .error .value
  else if size ≤ 2 then .error .index
  else
    let f := getFix zero tr
    let p := stopPredTrack zero f circ2 diameter duration
    .ok ((stopsReported zero sq p (stopKeepTrack zero f circA diameter duration) size).map
      (fun ae => (ofNat ae.1 * downsampling, ofNat ae.2 * downsampling, ae.2 + 1 - ae.1)))

/-- a Python `bool` used as a number: `True` is `1`, `False` is `0` -/
def boolNum (zero one : α) (b : Bool) : α := if b then one else zero

/-- the `downsampling` that `findStops` hands to `findStopsGlobal`: the call is
`findStopsGlobal(track, spatial, temporal, verbose=verbose)` — the flag goes by keyword, `downsampling` keeps its default `1`
whatever `verbose` is -/
def dispatchDs (one : α) (_verbose : Bool) : α := one

/-- `findStops(track, spatial, temporal, mode, verbose=True)` for `mode == MODE_STOPS_GLOBAL`: the dispatcher calls
`findStopsGlobal(track, spatial, temporal, verbose=verbose)`; `verbose` only switches the progress output, which is not
modelled: the result is that of `findStopsGlobal(track, spatial, temporal)` (`downsampling = 1`). -/
def findStopsPy (zero one : α) (sq ofNat : Nat → α) (track resampled : List (Fix α))
    (circ2 circA : Nat → Nat → Option α) (spatial temporal : α) (verbose : Bool) : Except Err (List (α × α × Nat)) :=
  findStopsGlobalPy zero one sq ofNat track resampled circ2 circA spatial temporal (dispatchDs one verbose)

/-- the dispatcher BEFORE the repair (documented pre-fix variant, no longer a model of any code): the call was
`findStopsGlobal(track, spatial, temporal, verbose)` — positionally, and the fourth parameter of `findStopsGlobal` is
`downsampling`: the caller's `verbose` was what `findStopsGlobal` received as `downsampling` (`boolNum`). -/
def findStopsPyOld (zero one : α) (sq ofNat : Nat → α) (track resampled : List (Fix α))
    (circ2 circA : Nat → Nat → Option α) (spatial temporal : α) (verbose : Bool) : Except Err (List (α × α × Nat)) :=
  findStopsGlobalPy zero one sq ofNat track resampled circ2 circA spatial temporal (boolNum zero one verbose)
end track
end TV.Partition
