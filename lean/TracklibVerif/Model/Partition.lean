/-! Model of `optimalPartition`, `backtracking`, `backward`, `optimalSegmentation` (algo/segmentation.py)
and of `optimalSimplification` / the two "free" modes of `simplify` (algo/simplification.py).

Two forms:
* the *table* form (`optimalPartition`, run by the driver) mirrors the Python line by line: `N = rows − 1`,
  tables `D`, `M` initialised on the upper triangle, filled in place by increasing diagonals, both
  direction tests as written, `backward`/`backtracking` on `M`;
* the *function* form (`opt`, fuel-indexed interval recursion with the strict scan) is what the optimality
  lemmas are proved about; `Lemmas/PartitionTable.lean` proves the two equal.

`better a b` is the strict test of the selected direction (`a < b` to minimise, `a > b` to maximise).
Core Lean only; polymorphic in the scalar (`Rat`/`Int` and `Float` in the driver, an ordered monoid in the proofs). -/
namespace TV.Partition
variable {α : Type}

/-! ## function form -/

/-- `for k in range(lo, lo+n): val = f k; if better val best: best = val; arg = k` -/
def scan (better : α → α → Bool) (f : Nat → α) : Nat → Nat → α × Option Nat → α × Option Nat
  | _, 0, acc => acc
  | lo, n+1, acc =>
    let acc' := scan better f lo n acc
    let k := lo + n
    if better (f k) acc'.1 then (f k, some k) else acc'

/-- D[i,j] (value) and M[i,j] (split point, `none` = −1), fuel ≥ span − 1 -/
def opt (better : α → α → Bool) (add : α → α → α) (cost : Nat → Nat → α) : Nat → Nat → Nat → α × Option Nat
  | 0, i, j => (cost i j, none)
  | f+1, i, j =>
    scan better (fun k => add (opt better add cost f i k).1 (opt better add cost f k j).1) (i+1) (j - i - 1) (cost i j, none)

/-! ## table form -/

/-- `for x in range(lo, lo+n): s = body x s` -/
def loop {σ : Type} (lo : Nat) : Nat → (Nat → σ → σ) → σ → σ
  | 0, _, s => s
  | n+1, body, s => body (lo + n) (loop lo n body s)

/-- in-place assignment `T[i,j] = v` on a table seen as a function of its two indices -/
def upd {β : Type} (T : Nat → Nat → β) (i j : Nat) (v : β) : Nat → Nat → β :=
  fun a b => if a = i ∧ b = j then v else T a b

/-- the two numpy tables: `D` (best value) and `M` (best split point, −1 = none; floats holding integers in Python) -/
structure Tabs (α : Type) where
  D : Nat → Nat → α
  M : Nat → Nat → Int

/-- `D = zeros((N,N)); M = zeros((N,N)); for i in range(N): for j in range(i,N): D[i,j] = C[i,j]; M[i,j] = -1` -/
def init (zero : α) (N : Nat) (C : Nat → Nat → α) : Tabs α :=
  { D := fun i j => if i ≤ j ∧ j < N then C i j else zero
    M := fun i j => if i ≤ j ∧ j < N then -1 else 0 }

variable [Add α] [LT α] [DecidableLT α]

/-- the strict test selected by `mode` (0 = MINIMIZE: `a < b`, 1 = MAXIMIZE: `a > b`, anything else: never) -/
def better (mode : Nat) (a b : α) : Bool :=
  (mode == 0 && decide (a < b)) || (mode == 1 && decide (a > b))

/-- body of the `k` loop, both tests as written (`mode` is compared with the constants 0 = MINIMIZE, 1 = MAXIMIZE;
the second test reads `D[i,j]` after the first assignment) -/
def stepK (mode i j k : Nat) (t : Tabs α) : Tabs α :=
  let val := t.D i k + t.D k j
  let t1 : Tabs α := if val < t.D i j ∧ mode = 0 then ⟨upd t.D i j val, upd t.M i j (k : Int)⟩ else t
  if val > t1.D i j ∧ mode = 1 then ⟨upd t1.D i j val, upd t1.M i j (k : Int)⟩ else t1

/-- `for k in range(i+1, j): …` -/
def cellLoop (mode i j : Nat) (t : Tabs α) : Tabs α :=
  loop (i + 1) (j - (i + 1)) (stepK mode i j) t

/-- `for i in range(0, N - diag): j = i + diag; …` -/
def diagLoop (mode N diag : Nat) (t : Tabs α) : Tabs α :=
  loop 0 (N - diag) (fun i t => cellLoop mode i (i + diag) t) t

/-- `for diag in range(2, N): …` -/
def fill (mode N : Nat) (t : Tabs α) : Tabs α :=
  loop 2 (N - 2) (fun diag t => diagLoop mode N diag t) t

/-- `backtracking(B, i, j)`; the recursion is on `(i, id)` and `(id, j)` with `i < id < j` whenever `B` was
produced by `fill`, so fuel `j − i` suffices (proved); out of fuel returns `[i]`. -/
def backtracking (B : Nat → Nat → Int) : Nat → Nat → Nat → List Nat
  | 0, i, _ => [i]
  | f+1, i, j =>
    if B i j < 0 ∨ (if i ≤ j then j - i else i - j) ≤ 1 then [i]
    else
      let id := (B i j).toNat
      backtracking B f i id ++ backtracking B f id j

/-- `backward(B)`: `n = B.shape[0]` -/
def backward (B : Nat → Nat → Int) (n : Nat) : List Nat :=
  backtracking B n 0 (n - 1) ++ [n - 1]

/-- tables after the dynamic programme -/
def tables (zero : α) (rows : Nat) (C : Nat → Nat → α) (mode : Nat) : Tabs α :=
  fill mode (rows - 1) (init zero (rows - 1) C)

/-- `optimalPartition(cost_matrix, mode)` for a `rows × rows` matrix with `rows ≥ 2` (`N = rows − 1 ≥ 1`).
(`rows = 1` raises IndexError in `backward`, `rows = 0` ValueError in `np.zeros`: handled by the driver.) -/
def optimalPartition (zero : α) (rows : Nat) (C : Nat → Nat → α) (mode : Nat) : List Nat :=
  backward (tables zero rows C mode).M (rows - 1)

/-- summed segment cost of an index list -/
def pathCost (zero : α) (C : Nat → Nat → α) : List Nat → α
  | a :: b :: rest => C a b + pathCost zero C (b :: rest)
  | _ => zero

/-! ## front ends -/

/-- the matrix built by `optimalSegmentation` for a track of `size` observations:
`C = zeros((size,size)); for i in range(size-2): for j in range(i, size-1): C[i,j] = cost(track, i, j-1)`
then `C = C + C.T`. `cost i e` stands for `cost(track, i, e[, glob_param])` with `e = j − 1` (an `Int`: `j = i = 0` gives −1). -/
def segMatrix (zero : α) (size : Nat) (cost : Nat → Int → α) : Nat → Nat → α :=
  let C0 : Nat → Nat → α := fun i j => if i + 2 < size ∧ i ≤ j ∧ j + 1 < size then cost i ((j : Int) - 1) else zero
  fun i j => C0 i j + C0 j i

/-- `optimalSegmentation(track, cost, glob_param, mode)` -/
def optimalSegmentation (zero : α) (size : Nat) (cost : Nat → Int → α) (mode : Nat) : List Nat :=
  optimalPartition zero size (segMatrix zero size cost) mode

/-- `optimalSimplification(track, cost, eps, mode)`: the `mode` argument is NOT forwarded (the code calls
`optimalSegmentation(track, cost, eps)`), so the default MINIMIZE is always used; the result keeps the
observations at the selected indices. -/
def optimalSimplification {ω : Type} (zero : α) (obs : List ω) (cost : Nat → Int → α) (_mode : Nat) : List ω :=
  (optimalSegmentation zero obs.length cost 0).filterMap (fun i => obs[i]?)

/-- `simplify(track, tolerance, mode)` for the two "free" modes: 7 = MODE_SIMPLIFY_FREE calls
`optimalSimplification(track, tolerance, None, verbose)` (verbose lands in the ignored `mode` slot);
8 = MODE_SIMPLIFY_FREE_MAXIMIZE passes five positional arguments to the four-parameter function: `TypeError` (`none`). -/
def simplifyFree {ω : Type} (zero : α) (obs : List ω) (cost : Nat → Int → α) (mode : Nat) : Option (List ω) :=
  if mode = 7 then some (optimalSimplification zero obs cost 1)
  else none
end TV.Partition
