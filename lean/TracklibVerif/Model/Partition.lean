/-! Model of `optimalPartition` (algo/segmentation.py), function style with fuel.
    `better a b` is the strict test of the selected direction (`a < b` to minimise, `a > b` to maximise). -/
namespace TV.Partition
variable {α : Type}

/-- `for k in range(lo, hi): val = f k; if better val best: best = val; arg = k` -/
def scan (better : α → α → Bool) (f : Nat → α) : Nat → Nat → α × Option Nat → α × Option Nat
  | _, 0, acc => acc
  | lo, n+1, acc =>
    let acc' := scan better f lo n acc
    let k := lo + n
    if better (f k) acc'.1 then (f k, some k) else acc'

/-- D[i,j] (value) and M[i,j] (split point), fuel = span -/
def opt (better : α → α → Bool) (add : α → α → α) (cost : Nat → Nat → α) : Nat → Nat → Nat → α × Option Nat
  | 0, i, j => (cost i j, none)
  | f+1, i, j =>
    scan better (fun k => add (opt better add cost f i k).1 (opt better add cost f k j).1) (i+1) (j - i - 1) (cost i j, none)
end TV.Partition
