import TracklibVerif.Model.Features
import TracklibVerif.Model.RasterSession
/-! How a `Track` stores its analytical features, on the call path of `Raster.addCollectionToRaster` (C19).

`addCollectionToRaster` reads every value with `trace.getObsAnalyticalFeature(afname, i)`, i.e.
`self.__POINTS[i].features[self.__analyticalFeaturesDico[afname]]`: the RANK of a feature in `Obs.features` is looked up
in the dictionary of THAT track. Two tracks of one collection may hold the same features at different ranks (created in
another order, an extra feature created earlier, a feature removed — `removeAnalyticalFeature` moves the later ones down
one rank —, a feature removed and created again). The raster model (`Model/RasterSession.lean`) works with the view
"feature name ↦ values" (`Trk.feats`); this file builds that view from the concrete table, with the table operations of
the model of `core/track.py` written for C01 (`Model/Features.lean`: `St` = dictionary + one value list per observation,
`createC` = `createAnalyticalFeature`, `removeC` = `removeAnalyticalFeature`, `setObsC` = `setObsAnalyticalFeature`).

The driver builds the tracks that come with a script through `trkOfScript`; the harness runs the same script on the real
`Track`. -/
namespace TV.Raster
open TV.Features (St M createC removeC setObsC Init)
variable {α : Type}

/-- one call of the script that builds the analytical features of a track -/
inductive LStep (α : Type)
  /-- `track.createAnalyticalFeature(name, vals)` -/
  | create (name : String) (vals : List (Option α))
  /-- `track.removeAnalyticalFeature(name)` -/
  | remove (name : String)
  /-- `for k, v in enumerate(vals): track.setObsAnalyticalFeature(name, k, v)` -/
  | write (name : String) (vals : List (Option α))

def LStep.run : LStep α → M (St (Option α)) Unit
  | .create n vs => createC n (.list vs)
  | .remove n => removeC n
  | .write n vs => M.forEach vs.zipIdx (fun p => setObsC n p.2 p.1)

def runScript (steps : List (LStep α)) : M (St (Option α)) Unit := M.forEach steps LStep.run

/-- the feature table of a track after `addObs` of its observations: no feature, `Obs.features = []` everywhere.
(The coordinate columns of `St` are filled with x, y; z and t are not read on the raster's paths — the driver refuses
those feature names.) -/
def tab0 (pts : List (α × α)) : St (Option α) :=
  { dico := [], rows := pts.map (fun _ => []), xs := pts.map (fun p => some p.1), ys := pts.map (fun p => some p.2),
    zs := pts.map (fun _ => none), ts := pts.map (fun _ => none) }

/-- the view by name: for every entry `name ↦ rank` of the dictionary, `features[rank]` of every observation.
(`features[rank]` raises `IndexError` for a rank beyond the list: never on an aligned table — `Features.Inv`, kept by
every operation —, where every observation has exactly one value per entry.) -/
def featsOfTab (st : St (Option α)) : List (String × List (Option α)) :=
  st.dico.map (fun p => (p.1, st.rows.map (fun r => r.getD p.2 none)))

/-- the track whose features were built by `steps`; `none` when a call of the script raises -/
def trkOfScript (uid : α) (pts : List (α × α)) (steps : List (LStep α)) : Option (Trk α) :=
  match runScript steps (tab0 pts) with
  | (.ok _, st) => some { uid := uid, pts := pts, feats := featsOfTab st }
  | (.error _, _) => none

end TV.Raster
