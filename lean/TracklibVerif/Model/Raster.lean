/-! Model of grid summarising (C19).

Mirrors, as the code is now:
* `core/raster.py` `Raster.__init__` : bbox enlarged by `margin` (relative, both widths read before any bound is
  moved), `ncol = max(1, ceil(ax / rx))`, `nrow = max(1, ceil(ay / ry))` (after the `fix:` commit bdf8515: a box of
  zero width / height — all observations on one vertical / horizontal line, a single observation — gets one
  column / one row)
* `core/raster.py` `Raster.getCell`  : `None` outside `[xmin,xmax]×[ymin,ymax]`; `idx = (x-xmin)/rx`,
  `idy = (nrow-1) - (y-ymin)/ry`; column `floor(idx)`, but `floor(idx)-1` when `idx == ncol`; line `int(idy)` when
  `idy` is an integer `> -1`, `int(idy)+1` when it is the integer `-1`, else `floor(idy)+1`
* `core/raster.py` `addCollectionToRaster` : per track, per observation, `grid[line][column].append(value)`
  (Python list indexing: a negative index counts from the end, anything out of range is an `IndexError`)
* `core/raster.py` `computeAggregates` : the cell operator applied to every cell, a NaN result stored as the
  no-data value
* `core/utils.py` `co_count co_sum co_min co_max co_avg co_median` (after the `fix:` commits 90d9915, 4b05560,
  c08b436): NaN values skipped everywhere
* `core/track.py`/`core/bbox.py` extent of a collection: minimum and maximum of the coordinates (modelled as a plain
  fold; the `±1e300` sentinels of `Operator.MIN/MAX` are not modelled)

The `Raster` object itself (bands, `collectionValuesGrid`, sequences of `addAFMap` / `addCollectionToRaster` /
`computeAggregates`) and `summarize` are in `Model/RasterSession.lean`.

Scalars: `α` is any type with the arithmetic used (`Float` and `Rat` in the driver, a floor ring in the theorems, the
rationals with every operation rounded — `RQ rnd`, `Lemmas/RasterRounded.lean` — in the floating-point theorems);
`floor`, `ceil : α → Int` are parameters. A feature value is an `Option α`, `none` standing for NaN. -/
namespace TV.Raster
variable {α : Type}

structure Grid (α : Type) where
  xmin : α
  xmax : α
  ymin : α
  ymax : α
  rx : α
  ry : α
  ncol : Int
  nrow : Int

inductive Op | count | sum | min | max | avg | median
  deriving DecidableEq, Repr

section arith
variable [Add α] [Sub α] [Mul α] [Div α] [OfNat α 0] [OfNat α 1] [OfNat α 2] [IntCast α] [NatCast α]
  [LT α] [DecidableLT α] [LE α] [DecidableLE α] [BEq α]

/-- `Raster.__init__` from the collection's bounding box `bx0 ≤ bx1`, `by0 ≤ by1` -/
def mkGrid (ceil : α → Int) (bx0 bx1 by0 by1 rx ry margin : α) : Grid α :=
  let dx := bx1 - bx0
  let dy := by1 - by0
  let xmin := bx0 - margin * dx
  let xmax := bx1 + margin * dx
  let ymin := by0 - margin * dy
  let ymax := by1 + margin * dy
  let ax := xmax - xmin
  let ay := ymax - ymin
  { xmin := xmin, xmax := xmax, ymin := ymin, ymax := ymax, rx := rx, ry := ry,
    ncol := max 1 (ceil (ax / rx)), nrow := max 1 (ceil (ay / ry)) }

/-- minimum / maximum of a non-empty list, scanning from the first element -/
def minOf : List α → Option α
  | [] => none
  | a :: r => some (r.foldl (fun m v => if v < m then v else m) a)
def maxOf : List α → Option α
  | [] => none
  | a :: r => some (r.foldl (fun m v => if m < v then v else m) a)

/-- `Raster.getCell(coord)` : `(column, line)` -/
def getCell (floor : α → Int) (g : Grid α) (x y : α) : Option (Int × Int) :=
  if x < g.xmin ∨ g.xmax < x then none
  else if y < g.ymin ∨ g.ymax < y then none
  else
    let idx := (x - g.xmin) / g.rx
    let idy := ((g.nrow - 1 : Int) : α) - (y - g.ymin) / g.ry
    let column := if idx == (g.ncol : α) then floor idx - 1 else floor idx
    let isInt := ((floor idy : Int) : α) == idy          -- idy.is_integer()
    let line :=
      if isInt && decide (floor idy > -1) then floor idy
      else if isInt && floor idy == -1 then floor idy + 1
      else floor idy + 1
    some (column, line)

/-- Python list indexing: position designated by `i` in a list of length `len`, or `IndexError` -/
def pyIdx (len : Nat) (i : Int) : Option Nat :=
  if 0 ≤ i ∧ i < len then some i.toNat
  else if i < 0 ∧ -(len : Int) ≤ i then some (len + i).toNat
  else none

abbrev Cells (V : Type) := List (List (List V))

def emptyCells {V : Type} (nrow ncol : Nat) : Cells V := List.replicate nrow (List.replicate ncol [])

/-- `grid[line][column].append(v)` -/
def put {V : Type} (c : Cells V) (line column : Int) (v : V) : Option (Cells V) :=
  match pyIdx c.length line with
  | none => none
  | some l =>
    match c[l]? with
    | none => none
    | some row =>
      match pyIdx row.length column with
      | none => none
      | some k => some (c.set l (row.set k (row[k]?.getD [] ++ [v])))

/-- the scatter loop of `addCollectionToRaster` over the observations (x, y, value) in track order;
    `none` = Python raised (`IndexError`, or `TypeError` on unpacking `None`) -/
def scatter {V : Type} (floor : α → Int) (g : Grid α) : Cells V → List (α × α × V) → Option (Cells V)
  | c, [] => some c
  | c, (x, y, v) :: rest =>
    match getCell floor g x y with
    | none => none
    | some (column, line) =>
      match put c line column v with
      | none => none
      | some c' => scatter floor g c' rest

/-! ### cell operators (`core/utils.py`) on a list of values, `none` = NaN -/

def coCount : List (Option α) → Nat
  | [] => 0
  | none :: r => coCount r
  | some _ :: r => coCount r + 1

/-- `somme = 0; for val: if isnan(val): continue; somme += val` -/
def coSum (l : List (Option α)) : α :=
  l.foldl (fun s v => match v with | none => s | some a => s + a) 0

def coMin (l : List (Option α)) : Option α :=
  l.foldl (fun m v => match v with
    | none => m
    | some a => match m with
      | none => some a
      | some b => if a < b then some a else some b) none

def coMax (l : List (Option α)) : Option α :=
  l.foldl (fun m v => match v with
    | none => m
    | some a => match m with
      | none => some a
      | some b => if b < a then some a else some b) none

def coAvg (l : List (Option α)) : Option α :=
  if l.length = 0 then none
  else
    let cnt := coCount l
    if cnt = 0 then none else some (coSum l / (cnt : α))

/-- the non-NaN values, in order -/
def nonNaN (l : List (Option α)) : List α := l.filterMap id

/-- `valmin = arr[0]; for val in arr: if val <= valmin: valmin = val` -/
def lastMin (a : α) (l : List α) : α := l.foldl (fun m v => if v ≤ m then v else m) a

/-- the selection sort of `co_median`: repeatedly find `valmin`, `arr.remove(valmin)`, append it -/
def selSort : Nat → List α → List α
  | 0, _ => []
  | _ + 1, [] => []
  | k + 1, a :: r => let m := lastMin a (a :: r); m :: selSort k ((a :: r).erase m)

def coMedian (l : List (Option α)) : Option α :=
  if l.length = 0 then none
  else
    let arr := nonNaN l
    let n := arr.length
    if n = 0 then none
    else
      let tab := selSort n arr
      if n % 2 = 1 then tab[(n - 1) / 2]?
      else match tab[n / 2]?, tab[n / 2 - 1]? with
        | some a, some b => some ((1 / 2 : α) * (a + b))
        | _, _ => none

/-- the value of a cell operator, `none` = NaN -/
def cellValue (op : Op) (l : List (Option α)) : Option α :=
  match op with
  | .count => some ((coCount l : Nat) : α)
  | .sum => some (coSum l)
  | .min => coMin l
  | .max => coMax l
  | .avg => coAvg l
  | .median => coMedian l

/-- `computeAggregates` for one map: NaN is stored as the no-data value -/
def aggregates (noData : α) (op : Op) (c : Cells (Option α)) : List (List α) :=
  c.map (fun row => row.map (fun cell => (cellValue op cell).getD noData))

end arith
end TV.Raster
