import TracklibVerif.Model.Grid
/-! Argument handling of `SpatialIndex.neighborhood(self, obj, j=None, unit=0)` (`tracklib/core/spatial_index.py`): the
dispatch on the class of `obj` (`int`, coordinates, `[coord1, coord2]`, `Track`) and the two defaulted parameters. The
second POSITIONAL parameter is `j` (the row of the cell form); it is read by the cell form only, so `neighborhood(coord, 2)`
— the form the comment above the method advertises, "neighborhood(coord, unit)" — runs with `unit = 0`. Core Lean only. -/
namespace TV.Grid

/-- the first argument of `neighborhood` / `request` -/
inductive NObj (α : Type) where
  | cell (i : Int)
  | point (p : α × α)
  | seg (a b : α × α)
  | track (t : List (α × α))

section scalar
variable {α : Type} [Add α] [Sub α] [Mul α] [Div α] [Neg α] [LT α] [LE α]
  [DecidableLT α] [DecidableLE α] [IntCast α] [OfNat α 0]

/-- `neighborhood(obj, j, unit)` with `j` / `unit` possibly left out (`none`: the defaults `None` / `0`). The cell form
with `j = None` raises TypeError (`j - u` in `__neighboringcells`); the other forms never read `j`. The cell and track forms
return a list, the point form `None` outside the extent, the segment form `None` when the `unit = -1` search finds nothing. -/
def neighborhoodCall (fl : α → Int) (ix : Index α) (obj : NObj α) (j : Option Int) (unit : Option Int) : Res (Option (List Nat)) :=
  let u : Int := match unit with | some u => u | none => 0
  match obj with
  | .cell i =>
    match j with
    | none => .error .type
    | some j =>
      match neighborhoodCell ix i j u with
      | .error e => .error e
      | .ok l => .ok (some l)
  | .point p => neighborhoodPoint fl ix p u
  | .seg a b => neighborhoodSeg fl ix a b u
  | .track t =>
    match neighborhoodTrack fl ix t u with
    | .error e => .error e
    | .ok l => .ok (some l)

end scalar
end TV.Grid
