import TracklibVerif.Model.Partition
/-! `optimalPartition` on real two-dimensional arrays (`Array (Array _)`, the numpy `D` and `M`): the same
loops as `Model/Partition.lean`, with `D[i,j]` reads and in-place `D[i,j] = v` writes on arrays. This is the
form the driver runs; `Lemmas/PartitionArr.lean` proves it equal to the function-table form. Core Lean only. -/
namespace TV.Partition
variable {α : Type}

/-- `T[i,j]` (`d` outside the array: never happens for the indices the loops produce) -/
def mget {β : Type} (d : β) (T : Array (Array β)) (i j : Nat) : β :=
  match T[i]? with
  | some r => (r[j]?).getD d
  | none => d

/-- `T[i,j] = v` -/
def mset {β : Type} (T : Array (Array β)) (i j : Nat) (v : β) : Array (Array β) :=
  T.modify i (fun r => r.setIfInBounds j v)

structure TabsA (α : Type) where
  D : Array (Array α)
  M : Array (Array Int)

/-- `D = zeros((N,N)); M = zeros((N,N)); for i in range(N): for j in range(i,N): D[i,j] = C[i,j]; M[i,j] = -1` -/
def initA (zero : α) (N : Nat) (C : Nat → Nat → α) : TabsA α :=
  { D := (Array.range N).map (fun i => (Array.range N).map (fun j => if i ≤ j then C i j else zero))
    M := (Array.range N).map (fun i => (Array.range N).map (fun j => if i ≤ j then (-1 : Int) else 0)) }

variable [Add α] [LT α] [DecidableLT α]

def stepKA (zero : α) (mode i j k : Nat) (t : TabsA α) : TabsA α :=
  let val := mget zero t.D i k + mget zero t.D k j
  let t1 : TabsA α := if val < mget zero t.D i j ∧ mode = 0 then ⟨mset t.D i j val, mset t.M i j (k : Int)⟩ else t
  if val > mget zero t1.D i j ∧ mode = 1 then ⟨mset t1.D i j val, mset t1.M i j (k : Int)⟩ else t1

def cellLoopA (zero : α) (mode i j : Nat) (t : TabsA α) : TabsA α :=
  loop (i + 1) (j - (i + 1)) (stepKA zero mode i j) t

def diagLoopA (zero : α) (mode N diag : Nat) (t : TabsA α) : TabsA α :=
  loop 0 (N - diag) (fun i t => cellLoopA zero mode i (i + diag) t) t

def fillA (zero : α) (mode N : Nat) (t : TabsA α) : TabsA α :=
  loop 2 (N - 2) (fun diag t => diagLoopA zero mode N diag t) t

def tablesA (zero : α) (rows : Nat) (C : Nat → Nat → α) (mode : Nat) : TabsA α :=
  fillA zero mode (rows - 1) (initA zero (rows - 1) C)

/-- `optimalPartition(cost_matrix, mode)` on arrays -/
def optimalPartitionA (zero : α) (rows : Nat) (C : Nat → Nat → α) (mode : Nat) : List Nat :=
  backward (mget 0 (tablesA zero rows C mode).M) (rows - 1)

/-- `findStopsGlobalPy` with the dynamic programme run on arrays (what the driver runs; `Props/C12.lean`,
`find_stops_array_form`: equal to `findStopsGlobalPy`). Returns the segmentation too. -/
def findStopsGlobalPyA [Sub α] [Mul α] (zero one : α) (sq ofNat : Nat → α) (track resampled : List (Fix α))
    (circ2 circA : Nat → Nat → Option α) (diameter duration downsampling : α) :
    Except Err (List Nat × List (Nat × Nat) × List (α × α × Nat)) :=
  let tr := stopsTrack one downsampling track resampled
  let size := tr.length
  if size = 0 then .error .value
  else if size ≤ 2 then .error .index
  else
    let f := getFix zero tr
    let p := stopPredTrack zero f circ2 diameter duration
    let seg := optimalPartitionA zero size (stopsMatrix zero sq p size) 1
    let st := ((pairs seg).filter (fun ab => stopKeepTrack zero f circA diameter duration ab.1 (ab.2 - 1))).map (fun ab => (ab.1, ab.2 - 1))
    .ok (seg, st, st.map (fun ae => (ofNat ae.1 * downsampling, ofNat ae.2 * downsampling, ae.2 + 1 - ae.1)))
end TV.Partition
