/-! Model of the point-on-polyline projection of tracklib (C20, shared by C10).

Mirrors, operation by operation and in the same order (so that the `Float` instance reproduces
Python's doubles bit for bit):

* `tracklib/util/geometry.py`  `cartesienne`, `projection_droite` (with its `b == 0` special case
  **as coded**: it returns `(x, a)`), `proj_segment` (distance to the line, inclusion test with the
  eight comparisons, recomputation of the foot, nearest end otherwise), `proj_polyligne`
  (the answer starts as the first vertex `Xp[0], Yp[0]`, index 0 — `IndexError` on an empty polyline —,
  near-zero-length segments skipped, strict `<` minimum; when nothing was kept, `distmin == 1e400`, the distance
  to the first vertex is computed: `math.sqrt((x - xproj) ** 2 + (y - yproj) ** 2)`. This is the code since the
  `fix:` commit 563eeba; before it the function raised `UnboundLocalError` when nothing was kept);
* `tracklib/algo/mapping.py`   `__projOnTrack`, `mapOnTrack` (both branches);
* second half of the file: the same functions with their argument forms (lists / numpy arrays, two sequences
  of unequal lengths) and on 3D positions (`Track.getX()/getY()`, `ENUCoords(xproj, yproj, 0)`).

Scalar-polymorphic (core Lean only): `Float` in the driver, an ordered field in the theorems.
`sqrt` is a parameter (`math.sqrt`). Python's `ZeroDivisionError` (float division by `±0.0`), `IndexError`
(`Xp[0]` on an empty polyline) and `OverflowError` (`v ** 2` on a Python float, S-forms only) are explicit results. `x == 0` is written `x ≤ 0 ∧ 0 ≤ x` (same truth value on
IEEE doubles, NaN included, and on an ordered field), `math.fabs v` is `if 0 < v then v else 0 - v`
(same value on doubles, `-0.0` included).

The sentinel `distmin = 1e400` (= +inf), two forms (last part of the file):
* `better / polyLoop / projPolyligne / polyLoopXY / projPolyligneXY` (the `none`-state forms): the sentinel is
  the state `none` and EVERY distance is `<` it; when the loop ends in the state `none` (every segment skipped) the
  answer is `firstVertex`: the first vertex, the distance to it (squares written `v * v`), index 0. This is the form the
  theorems of `Props/C20.lean` (and C10, through `Model/MapMatch`) are about, and it is NOT what the code does on a
  distance that is itself `inf`/NaN, nor where `v ** 2` raises.
* `betterS / polyLoopS / projPolyligneS / polyLoopXYS / projPolyligneXYS` (the sentinel-faithful S-forms, taking
  the sentinel `inf : α` and the squaring `sq : α → Except Err α` (`v ** 2`) as parameters): the state `none` compares
  `dist < inf` as the code does (`dist < distmin` with `distmin = 1e400`), so an input whose distances are all
  `inf`/NaN keeps nothing; after the loop the code's state `(distmin, xproj, yproj, iproj)` (`encS`: `(inf, Xp[0], Yp[0], 0)`
  while nothing is kept) goes through `finishS`: `if distmin == 1e400: distmin = math.sqrt((x - xproj) ** 2 + (y - yproj) ** 2)`
  evaluated literally (e.g. `proj_polyligne([0, 1, 2], [0, 1, 0], inf, 0) = (inf, 0, 0, 0)`, and
  `proj_polyligne([0, 1, 2], [0, 1, 0], 1e200, 0)` raises `OverflowError` at `1e200 ** 2` on Python floats). These are what the
  code does: `Tie/C20.lean` `tie_proj_polyligne_exact` proves the translation of the current source equal to
  `projPolyligneXYS` on ALL inputs (with `sq v = pow v 2`, the translator's total `pow`), and the driver (`Drv/C20.lean`)
  answers `proj_polyligne` requests with them (`inf := 1.0 / 0.0` at `Float`, `sq` raising where Python's float `**` does).
The two forms agree whenever every distance the loop meets is `< inf`, a value `< inf` is not `== inf`, `inf == inf`, and
`sq v = .ok (v * v)` (`Lemmas/ProjSentinel.lean`
`projPolyligneXYS_eq`, `projPolyligneS_eq`): finite distances on doubles, any `inf` above the distances in an
ordered field. -/
namespace TV.Proj

inductive Err where
  | zerodiv
  /-- `IndexError`: `Xp[0]` on an empty polyline (since 563eeba; the pre-fix code raised `UnboundLocalError` there) -/
  | index
  /-- `OverflowError`: `v ** 2` on a Python float whose square is outside the double range (sentinel-faithful forms only) -/
  | overflow
  deriving DecidableEq, Repr

section
variable {α : Type} [Add α] [Sub α] [Mul α] [Div α] [Neg α] [LT α] [LE α]
  [DecidableLT α] [DecidableLE α] [OfNat α 0]

/-- `v == 0` -/
def isZero (v : α) : Bool := decide (v ≤ 0) && decide (0 ≤ v)

/-- `math.fabs` / `abs` -/
def fabs (v : α) : α := if 0 < v then v else 0 - v

/-- `cartesienne(segment)`: `[a, b, c]` -/
def cartesienne (x1 y1 x2 y2 : α) : α × α × α :=
  let u1 := x2 - x1
  let u2 := y2 - y1
  let b := -u1
  let a := u2
  let c := -(a * x1 + b * y1)
  (a, b, c)

/-- the foot of the perpendicular as computed (twice, with identical text) in `projection_droite`
and in the inclusion branch of `proj_segment`: `yb = -c / b` raises when `b == 0`. -/
def foot (sqrt : α → α) (a b c x y : α) : Except Err (α × α) :=
  let xv := -b
  let yv := a
  let norm := sqrt (xv * xv + yv * yv)
  let xb : α := 0
  if isZero b then .error .zerodiv else
  let yb := -c / b
  if isZero norm then .error .zerodiv else
  let bh := ((x - xb) * xv + (y - yb) * yv) / norm
  let xproj := xb + bh * xv / norm
  let yproj := yb + bh * yv / norm
  .ok (xproj, yproj)

/-- `projection_droite(param, x, y)`; `if b == 0: return (x, a)` is the code's special case -/
def projectionDroite (sqrt : α → α) (a b c x y : α) : Except Err (α × α) :=
  if isZero b then .ok (x, a) else foot sqrt a b c x y

/-- the inclusion test of `proj_segment` (eight comparisons) -/
def included (x1 y1 x2 y2 xproj yproj : α) : Bool :=
  let boolx1 := decide (x1 ≤ xproj) && decide (xproj ≤ x2)
  let boolx2 := decide (xproj ≤ x1) && decide (x2 ≤ xproj)
  let boolx := boolx1 || boolx2
  let booly1 := decide (y1 ≤ yproj) && decide (yproj ≤ y2)
  let booly2 := decide (yproj ≤ y1) && decide (y2 ≤ yproj)
  let booly := booly1 || booly2
  boolx && booly

/-- nearest end point branch of `proj_segment` -/
def nearestEnd (sqrt : α → α) (x1 y1 x2 y2 x y : α) : α × α × α :=
  let distance1 := sqrt ((x - x1) * (x - x1) + (y - y1) * (y - y1))
  let distance2 := sqrt ((x - x2) * (x - x2) + (y - y2) * (y - y2))
  if distance1 ≤ distance2 then (distance1, x1, y1) else (distance2, x2, y2)

/-- `proj_segment(segment, x, y)`: `(distance, xproj, yproj)` -/
def projSegment (sqrt : α → α) (x1 y1 x2 y2 x y : α) : Except Err (α × α × α) :=
  let param := cartesienne x1 y1 x2 y2
  let a := param.1
  let b := param.2.1
  let c := param.2.2
  let n := sqrt (a * a + b * b)
  if isZero n then .error .zerodiv else
  let distance := fabs (a * x + b * y + c) / n
  match projectionDroite sqrt a b c x y with
  | .error e => .error e
  | .ok pr =>
    if included x1 y1 x2 y2 pr.1 pr.2 then
      match foot sqrt a b c x y with
      | .error e => .error e
      | .ok p => .ok (distance, p.1, p.2)
    else
      .ok (nearestEnd sqrt x1 y1 x2 y2 x y)

/-- `abs(x1-x2) + abs(y1-y2) < 1e-16` -/
def skipped (eps : α) (x1 y1 x2 y2 : α) : Bool :=
  decide (fabs (x1 - x2) + fabs (y1 - y2) < eps)

/-- `dist < distmin` with `distmin = +inf` initially -/
def better (dist : α) : Option (α × α × α × Nat) → Bool
  | none => true
  | some cur => decide (dist < cur.1)

/-- the loop of `proj_polyligne` from segment index `i` on, with the current best -/
def polyLoop (sqrt : α → α) (eps x y : α) :
    List (α × α) → Nat → Option (α × α × α × Nat) → Except Err (Option (α × α × α × Nat))
  | [], _, cur => .ok cur
  | [_], _, cur => .ok cur
  | p1 :: p2 :: rest, i, cur =>
    if skipped eps p1.1 p1.2 p2.1 p2.2 then polyLoop sqrt eps x y (p2 :: rest) (i + 1) cur
    else
      match projSegment sqrt p1.1 p1.2 p2.1 p2.2 x y with
      | .error e => .error e
      | .ok r =>
        let cur' := if better r.1 cur then some (r.1, r.2.1, r.2.2, i) else cur
        polyLoop sqrt eps x y (p2 :: rest) (i + 1) cur'

/-- the answer of `proj_polyligne` when no segment was kept (every segment skipped: all the vertices coincide up to
`1e-16` per segment, or a single vertex): `xproj, yproj, iproj = Xp[0], Yp[0], 0` and, `distmin` being still the sentinel,
`distmin = math.sqrt((x - xproj) ** 2 + (y - yproj) ** 2)` -/
def firstVertex (sqrt : α → α) (x y x0 y0 : α) : α × α × α × Nat :=
  (sqrt ((x - x0) * (x - x0) + (y - y0) * (y - y0)), x0, y0, 0)

/-- `proj_polyligne(Xp, Yp, x, y)`: `(distmin, xproj, yproj, iproj)`; vertices given as pairs. `IndexError` (`Xp[0]`) on
an empty polyline; the first vertex when every segment is skipped -/
def projPolyligne (sqrt : α → α) (eps : α) (pts : List (α × α)) (x y : α) :
    Except Err (α × α × α × Nat) :=
  match pts with
  | [] => .error .index
  | p0 :: _ =>
    match polyLoop sqrt eps x y pts 0 none with
    | .error e => .error e
    | .ok none => .ok (firstVertex sqrt x y p0.1 p0.2)
    | .ok (some r) => .ok r

/-- the pre-fix `proj_polyligne` (before 563eeba), kept ONLY as the documented old variant: `none` stands for the
`UnboundLocalError` it raised when no segment was kept. No theorem of the property is about it; `Props/C20.lean`
`projPolyligne_vs_old` relates the two. -/
def projPolyligneOld (sqrt : α → α) (eps : α) (pts : List (α × α)) (x y : α) :
    Except Err (Option (α × α × α × Nat)) :=
  polyLoop sqrt eps x y pts 0 none

/-- `__projOnTrack(point, track)`: `(ENUCoords(xproj, yproj, 0), distmin, iproj)` -/
def projOnTrack (sqrt : α → α) (eps : α) (pts : List (α × α)) (x y : α) :
    Except Err ((α × α) × α × Nat) :=
  match projPolyligne sqrt eps pts x y with
  | .error e => .error e
  | .ok r => .ok ((r.2.1, r.2.2.1), r.1, r.2.2.2)

/-- `mapOnTrack(track_of_queries, track)`: positions of the output track and its `dist` / `edge`
columns, one row per query, the first exception aborting the call -/
def mapOnTrackAll (sqrt : α → α) (eps : α) (pts : List (α × α)) :
    List (α × α) → Except Err (List ((α × α) × α × Nat))
  | [] => .ok []
  | q :: qs =>
    match projOnTrack sqrt eps pts q.1 q.2 with
    | .error e => .error e
    | .ok r =>
      match mapOnTrackAll sqrt eps pts qs with
      | .error e => .error e
      | .ok rs => .ok (r :: rs)

end
/-! ## Front ends and argument forms (added next to the kernel above; nothing above is changed)

* `footG / projectionDroiteG / projSegmentG np`: the same three functions with the argument form as a
  parameter. `np = false`: the segment coordinates are Python floats / ints (`list`, `tuple`): `-c / b` raises
  `ZeroDivisionError` when `b == 0` (this is `foot / projection_droite / proj_segment` above, see
  `Props/C20.lean` `projSegmentG_lists`). `np = true`: they are numpy scalars (`numpy.ndarray` arguments):
  `-c / b` is then an IEEE division that never raises (it yields `±inf` / `nan` and a `RuntimeWarning`);
  every other division of the function has a Python `float` divisor (`math.sqrt` returns one) and raises as before.
* `polyLoopXY / projPolyligneXY`: `proj_polyligne(Xp, Yp, x, y)` with its two **separate** sequences as it
  receives them: `range(len(Xp) - 1)` drives the loop, `Yp[i]`, `Yp[i + 1]` are read before the zero-length
  test, a shorter `Yp` raises `IndexError`, a longer one is silently ignored.
* `getXs / getYs`: `Track.getX()` / `Track.getY()` on a list of 3D positions `(X, Y, Z)` (`ENUCoords(E, N, U)`,
  `GeoCoords(lon, lat, hgt)`, `ECEFCoords(X, Y, Z)`: only `getX()`, `getY()` are read by the projection).
* `projOnTrack3`: `__projOnTrack(point, track)` on 3D positions: the altitude of the query and of the track are
  never read, the returned coordinate is `ENUCoords(xproj, yproj, 0)`, the distance is the planimetric one.
* `mapOnTrack3`: `mapOnTrack(coord_or_track, track)` with its dispatch on the type of the first argument. -/

/-- errors of the front ends: those of the kernel plus Python's `IndexError` -/
inductive ErrX where
  | base (e : Err)
  | index
  deriving DecidableEq, Repr

section
variable {α : Type} [Add α] [Sub α] [Mul α] [Div α] [Neg α] [LT α] [LE α]
  [DecidableLT α] [DecidableLE α] [OfNat α 0]

/-- the foot computation for both argument forms (`np`: numpy scalars, `-c / b` never raises) -/
def footG (np : Bool) (sqrt : α → α) (a b c x y : α) : Except Err (α × α) :=
  let xv := -b
  let yv := a
  let norm := sqrt (xv * xv + yv * yv)
  let xb : α := 0
  if (!np && isZero b) then .error .zerodiv else
  let yb := -c / b
  if isZero norm then .error .zerodiv else
  let bh := ((x - xb) * xv + (y - yb) * yv) / norm
  let xproj := xb + bh * xv / norm
  let yproj := yb + bh * yv / norm
  .ok (xproj, yproj)

/-- `projection_droite` for both argument forms -/
def projectionDroiteG (np : Bool) (sqrt : α → α) (a b c x y : α) : Except Err (α × α) :=
  if isZero b then .ok (x, a) else footG np sqrt a b c x y

/-- `proj_segment(segment, x, y)` for both argument forms of `segment` -/
def projSegmentG (np : Bool) (sqrt : α → α) (x1 y1 x2 y2 x y : α) : Except Err (α × α × α) :=
  let param := cartesienne x1 y1 x2 y2
  let a := param.1
  let b := param.2.1
  let c := param.2.2
  let n := sqrt (a * a + b * b)
  if isZero n then .error .zerodiv else
  let distance := fabs (a * x + b * y + c) / n
  match projectionDroiteG np sqrt a b c x y with
  | .error e => .error e
  | .ok pr =>
    if included x1 y1 x2 y2 pr.1 pr.2 then
      match footG np sqrt a b c x y with
      | .error e => .error e
      | .ok p => .ok (distance, p.1, p.2)
    else
      .ok (nearestEnd sqrt x1 y1 x2 y2 x y)

/-- the loop of `proj_polyligne(Xp, Yp, x, y)` on its two sequences, from index `i` on -/
def polyLoopXY (np : Bool) (sqrt : α → α) (eps x y : α) :
    List α → List α → Nat → Option (α × α × α × Nat) → Except ErrX (Option (α × α × α × Nat))
  | [], _, _, cur => .ok cur
  | [_], _, _, cur => .ok cur
  | x1 :: x2 :: xs, ys, i, cur =>
    match ys with
    | y1 :: y2 :: ys' =>
      if skipped eps x1 y1 x2 y2 then polyLoopXY np sqrt eps x y (x2 :: xs) (y2 :: ys') (i + 1) cur
      else
        match projSegmentG np sqrt x1 y1 x2 y2 x y with
        | .error e => .error (.base e)
        | .ok r =>
          let cur' := if better r.1 cur then some (r.1, r.2.1, r.2.2, i) else cur
          polyLoopXY np sqrt eps x y (x2 :: xs) (y2 :: ys') (i + 1) cur'
    | _ => .error .index

/-- `proj_polyligne(Xp, Yp, x, y)` on its two sequences (`np`: they are numpy arrays). `Xp[0]` on an empty `Xp` is the
kernel's `IndexError` (`.base .index`), `Yp[0]` on an empty `Yp` the front end's (`.index`, as for any `Yp` shorter than `Xp`) -/
def projPolyligneXY (np : Bool) (sqrt : α → α) (eps : α) (X Y : List α) (x y : α) :
    Except ErrX (α × α × α × Nat) :=
  match X with
  | [] => .error (.base .index)
  | x0 :: _ =>
    match Y with
    | [] => .error .index
    | y0 :: _ =>
      match polyLoopXY np sqrt eps x y X Y 0 none with
      | .error e => .error e
      | .ok none => .ok (firstVertex sqrt x y x0 y0)
      | .ok (some r) => .ok r

/-- `Track.getX()` on a list of positions -/
def getXs (pts : List (α × α × α)) : List α := pts.map (fun p => p.1)
/-- `Track.getY()` on a list of positions -/
def getYs (pts : List (α × α × α)) : List α := pts.map (fun p => p.2.1)

/-- `__projOnTrack(point, track)` on 3D positions: `(ENUCoords(xproj, yproj, 0), distmin, iproj)` -/
def projOnTrack3 (sqrt : α → α) (eps : α) (pts : List (α × α × α)) (q : α × α × α) :
    Except ErrX ((α × α × α) × α × Nat) :=
  match projPolyligneXY false sqrt eps (getXs pts) (getYs pts) q.1 q.2.1 with
  | .error e => .error e
  | .ok r => .ok ((r.2.1, r.2.2.1, 0), r.1, r.2.2.2)

/-- the loop of `mapOnTrack(track_of_queries, track)`: one row per query, the first exception aborts -/
def mapOnTrack3All (sqrt : α → α) (eps : α) (pts : List (α × α × α)) :
    List (α × α × α) → Except ErrX (List ((α × α × α) × α × Nat))
  | [] => .ok []
  | q :: qs =>
    match projOnTrack3 sqrt eps pts q with
    | .error e => .error e
    | .ok r =>
      match mapOnTrack3All sqrt eps pts qs with
      | .error e => .error e
      | .ok rs => .ok (r :: rs)

/-- `mapOnTrack(coord_or_track, track)`: a coordinate gives one `(point, distance, index)`; a track gives the
positions of the output track with its `dist` / `edge` columns -/
def mapOnTrack3 (sqrt : α → α) (eps : α) (pts : List (α × α × α)) :
    (α × α × α) ⊕ List (α × α × α) →
      Except ErrX (((α × α × α) × α × Nat) ⊕ List ((α × α × α) × α × Nat))
  | .inl q => (projOnTrack3 sqrt eps pts q).map .inl
  | .inr qs => (mapOnTrack3All sqrt eps pts qs).map .inr

end

/-! ## Sentinel-faithful forms (added; nothing above is changed)

The code initialises `distmin = 1e400` (the double `+inf`) and tests `dist < distmin`. The forms below take the sentinel
`inf : α` as a parameter and evaluate that test literally: while nothing is kept (state `none`) the comparison is
`dist < inf`; once a segment is kept (state `some c`) it is `dist < c.1`, `c.1` being the current `distmin`. Everything
else is, line for line, `polyLoop / projPolyligne / polyLoopXY / projPolyligneXY` above. -/

section
variable {α : Type} [Add α] [Sub α] [Mul α] [Div α] [Neg α] [LT α] [LE α]
  [DecidableLT α] [DecidableLE α] [OfNat α 0]

/-- `dist < distmin` as the code evaluates it: `distmin` is the sentinel `inf` (`1e400`) until a segment is kept -/
def betterS (inf dist : α) : Option (α × α × α × Nat) → Bool
  | none => decide (dist < inf)
  | some cur => decide (dist < cur.1)

/-- the loop of `proj_polyligne` on a vertex list, sentinel-faithful (`polyLoop` with `betterS inf`) -/
def polyLoopS (inf : α) (sqrt : α → α) (eps x y : α) :
    List (α × α) → Nat → Option (α × α × α × Nat) → Except Err (Option (α × α × α × Nat))
  | [], _, cur => .ok cur
  | [_], _, cur => .ok cur
  | p1 :: p2 :: rest, i, cur =>
    if skipped eps p1.1 p1.2 p2.1 p2.2 then polyLoopS inf sqrt eps x y (p2 :: rest) (i + 1) cur
    else
      match projSegment sqrt p1.1 p1.2 p2.1 p2.2 x y with
      | .error e => .error e
      | .ok r =>
        let cur' := if betterS inf r.1 cur then some (r.1, r.2.1, r.2.2, i) else cur
        polyLoopS inf sqrt eps x y (p2 :: rest) (i + 1) cur'

/-- `a == b` on floats (`a ≤ b ∧ b ≤ a`: same truth value on IEEE doubles, NaN included, and on an ordered field) -/
def isEq (a b : α) : Bool := decide (a ≤ b) && decide (b ≤ a)

/-- the code's loop state `(distmin, xproj, yproj, iproj)` for a model state: `(1e400, Xp[0], Yp[0], 0)` while nothing is
kept -/
def encS (inf x0 y0 : α) : Option (α × α × α × Nat) → α × α × α × Nat
  | none => (inf, x0, y0, 0)
  | some r => r

/-- the lines after the loop, literally, on the code's state:
`if distmin == 1e400: distmin = math.sqrt((x - xproj) ** 2 + (y - yproj) ** 2)`; `sq` is `v ** 2` (it may raise) -/
def finishS (inf : α) (sqrt : α → α) (sq : α → Except Err α) (x y : α) (s : α × α × α × Nat) :
    Except Err (α × α × α × Nat) :=
  if isEq s.1 inf then
    match sq (x - s.2.1) with
    | .error e => .error e
    | .ok a =>
      match sq (y - s.2.2.1) with
      | .error e => .error e
      | .ok b => .ok (sqrt (a + b), s.2.1, s.2.2.1, s.2.2.2)
  else .ok s

/-- `proj_polyligne(Xp, Yp, x, y)` on a vertex list, sentinel-faithful: when no segment has a distance `< inf` (none
kept, or all distances `inf`/NaN) the first vertex and the distance to it -/
def projPolyligneS (inf : α) (sqrt : α → α) (sq : α → Except Err α) (eps : α) (pts : List (α × α)) (x y : α) :
    Except Err (α × α × α × Nat) :=
  match pts with
  | [] => .error .index
  | p0 :: _ =>
    match polyLoopS inf sqrt eps x y pts 0 none with
    | .error e => .error e
    | .ok cur => finishS inf sqrt sq x y (encS inf p0.1 p0.2 cur)

/-- the loop of `proj_polyligne(Xp, Yp, x, y)` on its two sequences, sentinel-faithful (`polyLoopXY` with `betterS inf`) -/
def polyLoopXYS (np : Bool) (inf : α) (sqrt : α → α) (eps x y : α) :
    List α → List α → Nat → Option (α × α × α × Nat) → Except ErrX (Option (α × α × α × Nat))
  | [], _, _, cur => .ok cur
  | [_], _, _, cur => .ok cur
  | x1 :: x2 :: xs, ys, i, cur =>
    match ys with
    | y1 :: y2 :: ys' =>
      if skipped eps x1 y1 x2 y2 then polyLoopXYS np inf sqrt eps x y (x2 :: xs) (y2 :: ys') (i + 1) cur
      else
        match projSegmentG np sqrt x1 y1 x2 y2 x y with
        | .error e => .error (.base e)
        | .ok r =>
          let cur' := if betterS inf r.1 cur then some (r.1, r.2.1, r.2.2, i) else cur
          polyLoopXYS np inf sqrt eps x y (x2 :: xs) (y2 :: ys') (i + 1) cur'
    | _ => .error .index

/-- `proj_polyligne(Xp, Yp, x, y)` on its two sequences, sentinel-faithful (`inf` is the code's `1e400`): this is the
function the translation of the current source is equal to on ALL inputs (`Tie/C20.lean` `tie_proj_polyligne_exact`) -/
def projPolyligneXYS (np : Bool) (inf : α) (sqrt : α → α) (sq : α → Except Err α) (eps : α) (X Y : List α) (x y : α) :
    Except ErrX (α × α × α × Nat) :=
  match X with
  | [] => .error (.base .index)
  | x0 :: _ =>
    match Y with
    | [] => .error .index
    | y0 :: _ =>
      match polyLoopXYS np inf sqrt eps x y X Y 0 none with
      | .error e => .error e
      | .ok cur => (finishS inf sqrt sq x y (encS inf x0 y0 cur)).mapError ErrX.base

end
end TV.Proj
