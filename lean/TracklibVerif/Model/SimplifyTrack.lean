import TracklibVerif.Model.Simplify
import TracklibVerif.Model.SeqOps
/-! Track-level model of `tracklib/algo/simplification.py`: what `simplify(track, tolerance, mode)`,
`douglas_peucker` and `visvalingam` do to a **`Track` object**, not only to its list of positions:

* every observation carries its `features` list (`Ob.feats`, `none` = NaN), the track carries `uid`, `tid`,
  `base` (`Trk.info`) and the insertion-ordered feature dict `__analyticalFeaturesDico` (`Trk.dico`);
* `douglas_peucker` builds its sub-tracks with `tracklib.Track(L[0:imax], user_id=…, track_id=…, base=…)`
  (no feature dict) and joins the two results with `Track.__add__` — the C04 operator: its rule for the
  feature dict is `TV.Seq.sameNames` of `Model/Seq.lean`, used here as it is; the base case `n <= 2`
  returns `tracklib.Track(L)`: **default** `uid = 0, tid = 0, base = None`;
* `visvalingam` works on `track.copy()` (a deep copy: the model is functional, the input is never written),
  creates the temporary column `'@aire'` with `addAnalyticalFeature` (`createAnalyticalFeature` when the name
  is new: column index `len(dico)`, initial value `0.0`), sets its first entry to NaN, runs the loop of
  `Model/Simplify.lean` **on that column of the feature rows** (`Operator.ARGMIN` reads it through
  `getObsAnalyticalFeature`, `removeObs` is C04's `removeObsList([id])`, `TV.Seq.removeObs`), and finally
  deletes the column with `removeAnalyticalFeature` (larger column indices shifted down);
* `simplify` dispatches on `mode`; `Network.simplify` (`netSimplify`) and `TrackCollection.simplify` (`collSimplify`, 039f340)
  call it on every edge geometry / on a copy of every track.

Feature rows are assumed as long as the dict says (the invariant of C01); a write outside a row (Python:
`IndexError`) is a no-op of `List.set` here. Core Lean only. -/
namespace TV.Simplify

/-- an observation: position/tag (`Fix`) and its `features` list (`none` = NaN) -/
structure Ob (α : Type) where
  fix : Fix α
  feats : List (Option α)
deriving Repr, BEq, DecidableEq

/-- `uid`, `tid`, `base` of a `Track` (`base`: `none` = Python `None`, otherwise an opaque token) -/
structure Info where
  uid : Nat
  tid : Nat
  base : Option Nat
deriving Repr, BEq, DecidableEq

/-- what `tracklib.Track(list_of_obs)` sets when the keywords are not given: `user_id=0, track_id=0, base=None` -/
def Info.default : Info := ⟨0, 0, none⟩

structure Trk (α : Type) where
  pts : List (Ob α)
  info : Info
  /-- `__analyticalFeaturesDico`: (name, column index), in insertion order -/
  dico : List (String × Nat)
deriving Repr, BEq, DecidableEq

variable {α : Type} [Add α] [Sub α] [Mul α] [Div α] [Neg α] [LT α] [DecidableLT α] [BEq α]
  [OfNat α 0] [OfNat α 1] [OfNat α 2]

/-- the positions of a list of observations -/
abbrev fixes (S : List (Ob α)) : List (Fix α) := S.map (·.fix)

/-- `getListAnalyticalFeatures()`: `list(dico.keys())` -/
def Trk.names (T : Trk α) : List String := T.dico.map (·.1)

/-! ### Douglas–Peucker on a `Track` -/

/-- `t1 + t2` (`Track.__add__`): the points of both, `uid`, `tid`, `base` of the **left** operand; the left
operand's feature dict when both have the same list of names (C04's rule `TV.Seq.sameNames`), else none. -/
def trkAdd (t1 t2 : Trk α) : Trk α :=
  { pts := t1.pts ++ t2.pts, info := t1.info,
    dico := if TV.Seq.sameNames t1.names t2.names then t1.dico else [] }

/-- `douglas_peucker(track, eps)` on the `Track`:
`n <= 2` → `Track(L)` (default `uid/tid/base`, no feature dict; Python even shares the list object);
`dmax < eps` → `Track([L[0], L[n-1]], uid, tid, base)`; else
`douglas_peucker(Track(L[0:imax], uid, tid, base), eps) + douglas_peucker(Track(L[imax:n], uid, tid, base), eps)`.
The farthest-fix search is `farthest` of `Model/Simplify.lean` on the positions. `none` = unbounded recursion. -/
def dpTrkFuel (sqrt : α → α) (eps : α) : Nat → Trk α → Option (Trk α)
  | 0, T => if T.pts.length ≤ 2 then some ⟨T.pts, Info.default, []⟩ else none
  | fuel + 1, T =>
    if T.pts.length ≤ 2 then some ⟨T.pts, Info.default, []⟩
    else
      match T.pts.head?, T.pts.getLast? with
      | some a, some b =>
        let r := farthest sqrt a.fix b.fix (fixes T.pts) 0 0 0
        if r.1 < eps then some ⟨[a, b], T.info, []⟩
        else
          match dpTrkFuel sqrt eps fuel ⟨T.pts.take r.2, T.info, []⟩,
                dpTrkFuel sqrt eps fuel ⟨T.pts.drop r.2, T.info, []⟩ with
          | some o1, some o2 => some (trkAdd o1 o2)
          | _, _ => none
      | _, _ => none

def dpTrk (sqrt : α → α) (eps : α) (T : Trk α) : Option (Trk α) := dpTrkFuel sqrt eps T.pts.length T

/-! ### Visvalingam on a `Track` -/

/-- the name of the temporary column -/
def aireName : String := "@aire"

/-- `dico[name]` (`none` = the name is not a key) -/
def findAF (dico : List (String × Nat)) (name : String) : Option Nat :=
  (dico.find? (fun p => p.1 == name)).map (·.2)

/-- `getObsAnalyticalFeature(name, i)` for the column `k = dico[name]`: `features[k]` (`none` = NaN) -/
def colAt (k : Nat) (o : Ob α) : Option α := (o.feats[k]?).join

/-- `o.features[k] = v` -/
def Ob.setFeat (o : Ob α) (k : Nat) (v : Option α) : Ob α := { o with feats := o.feats.set k v }

/-- `setObsAnalyticalFeature("@aire", i, aire_visval(output, i))` on the feature rows -/
def setAireT (k : Nat) (S : List (Ob α)) (i : Nat) : List (Ob α) :=
  match S[i]? with
  | some o => S.set i (o.setFeat k (aireVisval (fixes S) i))
  | none => S

/-- `if output.getObsAnalyticalFeature("@aire", id) > eps: break` (`NaN > eps` is `False`) -/
def stopOf (eps2 : α) : Option (Option α) → Bool
  | some (some v) => decide (v > eps2)
  | _ => false

/-- one pass of the `while output.size() > 2` body on the `Track` (`none` = `break` / condition false):
ARGMIN over column `k`, `removeObs(id)` = C04's `removeObsList([id])`, the two neighbour updates -/
def vwStepT (big eps2 : α) (k : Nat) (S : List (Ob α)) : Option (List (Ob α)) :=
  if S.length > 2 then
    let id := argmin big (S.map (colAt k))
    if stopOf eps2 ((S[id]?).map (colAt k)) then none
    else
      let S1 := (TV.Seq.removeObs S (id : Int)).1
      let S2 := if id > 1 then setAireT k S1 (id - 1) else S1
      let S3 := if id < S2.length - 1 then setAireT k S2 id else S2
      some S3
  else none

def vwLoopT (big eps2 : α) (k : Nat) : Nat → List (Ob α) → List (Ob α)
  | 0, S => S
  | fuel + 1, S =>
    match vwStepT big eps2 k S with
    | none => S
    | some S' => vwLoopT big eps2 k fuel S'

/-- `addAnalyticalFeature(aire_visval, "@aire")`: `createAnalyticalFeature` when the name is new (an empty
track raises `AnalyticalFeatureError`; new column index `len(dico)`, initial value `0.0` appended to every
row), then `features[idAF] = aire_visval(self, i)` for every `i` (NaN on `IndexError`).
Returns the rows, the dict and the column index. -/
def addAire (T : Trk α) : Except String (List (Ob α) × List (String × Nat) × Nat) :=
  let created : Except String (List (Ob α) × List (String × Nat)) :=
    match findAF T.dico aireName with
    | some _ => .ok (T.pts, T.dico)
    | none =>
      if T.pts.isEmpty then .error "AnalyticalFeatureError"
      else .ok (T.pts.map (fun o => { o with feats := o.feats ++ [some 0] }), T.dico ++ [(aireName, T.dico.length)])
  match created with
  | .error e => .error e
  | .ok (rows, dico) =>
    match findAF dico aireName with
    | none => .error "KeyError"                    -- unreachable: the name has just been looked up or added
    | some k => .ok (rows.zipIdx.map (fun oi => oi.1.setFeat k (aireVisval (fixes rows) oi.2)), dico, k)

/-- `removeAnalyticalFeature(name)` for a name of the dict with column `k`: `del features[k]` in every row,
`del dico[name]`, larger column indices decremented -/
def removeCol (name : String) (k : Nat) (rows : List (Ob α)) (dico : List (String × Nat)) :
    List (Ob α) × List (String × Nat) :=
  (rows.map (fun o => { o with feats := o.feats.eraseIdx k }),
   (dico.filter (fun p => !(p.1 == name))).map (fun p => (p.1, if p.2 > k then p.2 - 1 else p.2)))

/-- `visvalingam(track, eps)` on the `Track`: `eps = eps * eps` (b704eae); `output = track.copy()`; `'@aire'` column added and
filled; its entry 0 set to NaN (`IndexError` on an empty track that already has the column); the loop; the
column removed. `uid`, `tid`, `base` are the copy's, i.e. the input's. -/
def vwTrk (big eps : α) (T : Trk α) : Except String (Trk α) :=
  match addAire T with
  | .error e => .error e
  | .ok (rows, dico, k) =>
    match rows[0]? with
    | none => .error "IndexError"                  -- `self.__POINTS[0]` on an empty track that already has the column
    | some o =>
      let S1 := rows.set 0 (o.setFeat k none)
      let S2 := vwLoopT big (eps * eps) k S1.length S1
      let r := removeCol aireName k S2 dico
      .ok ⟨r.1, T.info, r.2⟩

/-! ### the dispatcher `simplify(track, tolerance, mode=MODE_SIMPLIFY_DOUGLAS_PEUCKER, verbose=True)` -/

/-- which function a `mode` selects. `verbose` is only forwarded to `optimalSimplification`. -/
inductive Algo
  | douglasPeucker          -- 1 (the default)
  | visvalingam             -- 2
  | squaring                -- 3: moves the positions, not a selection of observations
  | optimal                 -- 4 … 8: optimalSimplification / optimalSegmentation (dynamic programming, C12's code)
  | nameError               -- anything else: `raise NotYetImplementedError(…)`, a name that simplification.py does not import
deriving Repr, DecidableEq

def dispatch (mode : Int) : Algo :=
  if mode == 1 then .douglasPeucker
  else if mode == 2 then .visvalingam
  else if mode == 3 then .squaring
  else if mode == 4 || mode == 5 || mode == 6 || mode == 7 || mode == 8 then .optimal
  else .nameError

/-- `simplify` on the two modes the property is about; the other modes are outside the model (`unsupported`) -/
def simplify (sqrt : α → α) (big : α) (T : Trk α) (tol : α) (mode : Int) : Except String (Trk α) :=
  match dispatch mode with
  | .douglasPeucker =>
    match dpTrk sqrt tol T with
    | some O => .ok O
    | none => .error "RecursionError"
  | .visvalingam => vwTrk big tol T
  | .nameError => .error "NameError"
  | _ => .error "unsupported"

/-! ### the attribute `no_data_value` (set by the readers: `TrackReader.readFromFile` stores the format's value, default
`-999999`, and places a fix at `(no_data, no_data, no_data)` for a line whose E or N field is blank / `NA`)

`simplify`, `douglas_peucker` and `visvalingam` never read it: the placeholder fixes are ordinary observations of the
track (`Track.removeNoDataValues()` is a separate call that the user may make, it is not on this path). What happens to the
attribute itself: Douglas–Peucker builds its result with `Track(…)` / `Track.__add__`, whose constructor sets
`no_data_value = None`; Visvalingam returns the (deep) copy of the input, attribute included. -/

/-- a `Track` with its `no_data_value` attribute (`none` = Python `None`, the constructor's value) -/
structure TrkN (α : Type) where
  trk : Trk α
  nodata : Option α
deriving Repr, BEq, DecidableEq

/-- `simplify(track, tolerance, mode)` on a track carrying `no_data_value`: the observations are those of `simplify` on the
same track without the attribute (it is never read); the result's attribute is `None` after Douglas–Peucker (a new
`Track`) and the input's after Visvalingam (the copy) -/
def simplifyN (sqrt : α → α) (big : α) (T : TrkN α) (tol : α) (mode : Int) : Except String (TrkN α) :=
  match simplify sqrt big T.trk tol mode with
  | .ok O => .ok ⟨O, if dispatch mode = .visvalingam then T.nodata else none⟩
  | .error e => .error e

/-- `Network.simplify(tolerance, mode)`: `for id in self.__idx_edges: self.EDGES[id].geom = simplify(self.EDGES[id].geom,
tolerance, mode)` — the edges' geometries in insertion order, the first exception ends the call (`verbose` keeps its
default) -/
def netSimplify (sqrt : α → α) (big : α) (geoms : List (TrkN α)) (tol : α) (mode : Int) : Except String (List (TrkN α)) :=
  geoms.mapM (fun g => simplifyN sqrt big g tol mode)

/-- `TrackCollection.simplify(tolerance, mode=1)` (core/track_collection.py, as repaired by 039f340): `output = self.copy()` — a
**new** collection holding `track.copy()`, a deep copy, of every track, attributes (`uid`, `tid`, `base`, feature dict,
`no_data_value`) included —, then `for i in range(len(output)): output[i] = simplify(output[i], tolerance, mode)` (`verbose` keeps
its default) and `return output`: the list of the simplified **copies**, in the collection's order; the first exception ends the
call (nothing is returned; the caller's collection was never written). The default of `mode` is `1`, Douglas–Peucker. A
collection is the list of its tracks; the model is a function, so the caller's collection and its tracks are untouched by
construction (the harness compares a full snapshot of every track and of the collection's list before and after the call, and
checks that no `Track` or `Obs` object of the result is one of the input's). An empty collection comes back empty whatever the
mode (the dispatcher is never reached). Before 039f340 the body called `output[i].simplify(...)`, a method `Track` does not
have (`AttributeError` for every non-empty collection), and had no `return`. -/
def collSimplify (sqrt : α → α) (big : α) (tracks : List (TrkN α)) (tol : α) (mode : Int := 1) : Except String (List (TrkN α)) :=
  tracks.mapM (fun t => simplifyN sqrt big t tol mode)

end TV.Simplify
