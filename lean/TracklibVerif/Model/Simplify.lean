/-! Model of track simplification (`tracklib/algo/simplification.py`: `douglas_peucker`, `visvalingam`;
`tracklib/util/geometry.py`: `distance_to_segment`, `triangle_area`, `aire_visval`; `Operator.ARGMIN` of
`core/operators.py`), as the code is after the repairs ec611a5 (`l == 0` branch), 1a5eeec (NaN area at
index 0, `while size > 2`), 68863c7 (ARGMIN starts from `+inf`) and b728412 (ARGMIN records no index until a number
`<=` its start value is met: a column of infinite areas answers the first of them, not the NaN at index 0).

Scalar-polymorphic, core Lean only. `sqrt` is a parameter (`math.sqrt`), `big` is ARGMIN's initial minimum:
`float('inf')` since 68863c7 (`1e300` before; the driver passes the current value, the theorems hold for any).
NaN in the `@aire` column is `none`. A fix carries a tag (its index in the input track / its timestamp) so
that "sub-sequence of the input observations" is a statement about observations, not about positions. -/
namespace TV.Simplify

structure Fix (α : Type) where
  tag : Nat
  x : α
  y : α
deriving Repr, BEq, DecidableEq

variable {α : Type} [Add α] [Sub α] [Mul α] [Div α] [Neg α] [LT α] [DecidableLT α] [BEq α]
  [OfNat α 0] [OfNat α 1] [OfNat α 2]

/-- Python `max(a, b)`: the first argument unless the second is strictly greater -/
def pmax (a b : α) : α := if b > a then b else a
/-- Python `min(a, b)`: the first argument unless the second is strictly smaller -/
def pmin (a b : α) : α := if b < a then b else a

/-- `distance_to_segment(x0, y0, x1, y1, x2, y2)` (geometry.py), operation by operation. -/
def distanceToSegment (sqrt : α → α) (x0 y0 x1 y1 x2 y2 : α) : α :=
  let l := sqrt ((x2 - x1) * (x2 - x1) + (y2 - y1) * (y2 - y1))
  if l == 0 then
    sqrt ((x0 - x1) * (x0 - x1) + (y0 - y1) * (y0 - y1))
  else
    let psn := ((x0 - x1) * (x2 - x1) + (y0 - y1) * (y2 - y1)) / l
    let X := pmax x1 x2
    let Y := pmax y1 y2
    let x := pmin x1 x2
    let y := pmin y1 y2
    let xproj := x1 + psn / l * (x2 - x1)
    let yproj := y1 + psn / l * (y2 - y1)
    let xproj := pmin (pmax xproj x) X
    let yproj := pmin (pmax yproj y) Y
    sqrt ((x0 - xproj) * (x0 - xproj) + (y0 - yproj) * (y0 - yproj))

/-- square-root-free specification of the same quantity (squared): squared distance from `(x0, y0)` to the
point of the closed segment whose parameter is the orthogonal projection's, clamped to `[0, 1]`.
Not code of tracklib: the executable form of the right-hand side of `dist_seg_spec`, run on `Rat` by the
driver to cross-check the harness' oracle. -/
def distSegSq (x0 y0 x1 y1 x2 y2 : α) : α :=
  let l2 := (x2 - x1) * (x2 - x1) + (y2 - y1) * (y2 - y1)
  if l2 == 0 then (x0 - x1) * (x0 - x1) + (y0 - y1) * (y0 - y1)
  else
    let t := pmax 0 (pmin (((x0 - x1) * (x2 - x1) + (y0 - y1) * (y2 - y1)) / l2) 1)
    (x0 - (x1 + t * (x2 - x1))) * (x0 - (x1 + t * (x2 - x1))) + (y0 - (y1 + t * (y2 - y1))) * (y0 - (y1 + t * (y2 - y1)))

/-- distance of fix `p` to the chord `[a, b]` as `douglas_peucker` calls it -/
def distFix (sqrt : α → α) (a b p : Fix α) : α :=
  distanceToSegment sqrt p.x p.y a.x a.y b.x b.y

/-- the `for i in range(0, n)` loop of `douglas_peucker`: `(dmax, imax)` with strict `>` (the first
farthest fix wins), started from `dmax = 0, imax = 0` -/
def farthest (sqrt : α → α) (a b : Fix α) : List (Fix α) → Nat → α → Nat → α × Nat
  | [], _, dmax, imax => (dmax, imax)
  | p :: rest, i, dmax, imax =>
    let d := distFix sqrt a b p
    if d > dmax then farthest sqrt a b rest (i + 1) d i
    else farthest sqrt a b rest (i + 1) dmax imax

/-- `douglas_peucker(track, eps)` on the observation list. Python recurses without a bound; the model
recurses on `fuel` and answers `none` when it runs out (Python: `RecursionError`). `dp_total`
(Props/C16) shows that `fuel = len(L)` is never exhausted when `eps > 0`.
Base case `n <= 2`: the list itself. Otherwise the chord is `L[0] .. L[n-1]`; if `dmax < eps` the two
ends, else `douglas_peucker(L[0:imax]) + douglas_peucker(L[imax:n])` — the code's split, kept as is
(both `L[imax-1]` and `L[imax]` survive). -/
def dpFuel (sqrt : α → α) (eps : α) : Nat → List (Fix α) → Option (List (Fix α))
  | _, [] => some []
  | _, [a] => some [a]
  | _, [a, b] => some [a, b]
  | 0, _ :: _ :: _ :: _ => none
  | fuel + 1, a :: p :: q :: rest =>
    let L := a :: p :: q :: rest
    let b := (q :: rest).getLast (List.cons_ne_nil _ _)
    let r := farthest sqrt a b L 0 0 0
    if r.1 < eps then some [a, b]
    else
      match dpFuel sqrt eps fuel (L.take r.2), dpFuel sqrt eps fuel (L.drop r.2) with
      | some o1, some o2 => some (o1 ++ o2)
      | _, _ => none

def douglasPeucker (sqrt : α → α) (eps : α) (L : List (Fix α)) : Option (List (Fix α)) :=
  dpFuel sqrt eps L.length L

/-- **depth of the recursion** of `douglas_peucker(track, eps)`: the number of nested recursive calls below the outermost call
(`0`: the call returns without calling itself — `n <= 2` or `dmax < eps`; a split costs one level more than the deeper of its two
halves). The same recursion as `dpFuel`, with the results forgotten; `none` exactly when `dpFuel` is `none`. CPython needs
`depth + 1` frames of `douglas_peucker` on top of the caller's; nothing else of the interpreter enters the model. -/
def dpDepthFuel (sqrt : α → α) (eps : α) : Nat → List (Fix α) → Option Nat
  | _, [] => some 0
  | _, [_] => some 0
  | _, [_, _] => some 0
  | 0, _ :: _ :: _ :: _ => none
  | fuel + 1, a :: p :: q :: rest =>
    let L := a :: p :: q :: rest
    let b := (q :: rest).getLast (List.cons_ne_nil _ _)
    let r := farthest sqrt a b L 0 0 0
    if r.1 < eps then some 0
    else
      match dpDepthFuel sqrt eps fuel (L.take r.2), dpDepthFuel sqrt eps fuel (L.drop r.2) with
      | some d1, some d2 => some (1 + Nat.max d1 d2)
      | _, _ => none

def dpDepth (sqrt : α → α) (eps : α) (L : List (Fix α)) : Option Nat :=
  dpDepthFuel sqrt eps L.length L

/-! ### the freedom left by ties: every output Douglas–Peucker can produce when *any* farthest fix
(not necessarily the first one) is taken as the split point. Used by the correspondence check to
accept a different tie-break, never by the theorems about the code's own choice. -/

/-- indices `i` (from `i0`) whose distance to the chord equals `dmax` -/
def tiesAt (sqrt : α → α) (a b : Fix α) (dmax : α) : List (Fix α) → Nat → List Nat
  | [], _ => []
  | p :: rest, i =>
    if distFix sqrt a b p == dmax then i :: tiesAt sqrt a b dmax rest (i + 1)
    else tiesAt sqrt a b dmax rest (i + 1)

def dpAllFuel (sqrt : α → α) (eps : α) : Nat → List (Fix α) → List (List (Fix α))
  | _, [] => [[]]
  | _, [a] => [[a]]
  | _, [a, b] => [[a, b]]
  | 0, _ :: _ :: _ :: _ => []
  | fuel + 1, a :: p :: q :: rest =>
    let L := a :: p :: q :: rest
    let b := (q :: rest).getLast (List.cons_ne_nil _ _)
    let r := farthest sqrt a b L 0 0 0
    if r.1 < eps then [[a, b]]
    else
      ((tiesAt sqrt a b r.1 L 0).filter (fun i => 0 < i)).flatMap (fun i =>
        (dpAllFuel sqrt eps fuel (L.take i)).flatMap (fun o1 =>
          (dpAllFuel sqrt eps fuel (L.drop i)).map (fun o2 => o1 ++ o2)))

/-! ### Visvalingam -/

/-- Python `abs` on a float: `v` if `0 < v` else `0 - v` — the same double as C's `fabs` for every double, `-0.0`
included (`abs(-0.0) == 0.0` with a positive sign; the former `if v < 0 then -v else v` returned `-0.0` there: found
by the tie with the translated source, `Tie/C16.lean`) -/
def pabs (v : α) : α := if 0 < v then v else 0 - v

/-- `triangle_area(x0, y0, x1, y1, x2, y2)`; `0.5` is `1/2` -/
def triangleArea (x0 y0 x1 y1 x2 y2 : α) : α :=
  (1 / 2 : α) * pabs ((x1 - x0) * (y2 - y1) - (x2 - x1) * (y1 - y0))

def areaFix (p0 p1 p2 : Fix α) : α := triangleArea p0.x p0.y p1.x p1.y p2.x p2.y

/-- state of the loop: the observations of `output` with their `@aire` value (`none` = NaN) -/
abbrev VState (α : Type) := List (Fix α × Option α)

/-- `aire_visval(output, i)`: `getObs(i-1)` wraps to the last fix when `i = 0` (Python's index −1),
`getObs(i+1)` past the end is an `IndexError`, which `addAnalyticalFeature` turns into NaN; inside the
loop the guards make `i+1` valid. Here: `none` for that error. -/
def aireVisval (S : List (Fix α)) (i : Nat) : Option α :=
  let prev := if i = 0 then S.getLast? else S[i - 1]?
  match prev, S[i]?, S[i + 1]? with
  | some p0, some p1, some p2 => some (areaFix p0 p1 p2)
  | _, _, _ => none

/-- `addAnalyticalFeature(aire_visval, "@aire")` then `setObsAnalyticalFeature("@aire", 0, nan)` -/
def vwInit (L : List (Fix α)) : VState α :=
  L.zipIdx.map (fun pi => (pi.1, if pi.2 = 0 then none else aireVisval L pi.2))

/-- `Operator.ARGMIN` (core/operators.py, as it is since b728412): `minimum = float('inf')` (`big`; `+1e300` before 68863c7);
`idmin = None`; `if val < minimum or (idmin is None and val == minimum): minimum = val; idmin = i` — strict afterwards, so the
**first** index of the smallest number wins; a number equal to the start value is taken as long as no index has been
recorded (before b728412 the scan started from `idmin = 0` and only moved on `val < minimum`: a column `[nan, inf, inf]`
answered 0, the index of the NaN); NaN never compares smaller nor equal. `none` = no index recorded. -/
def argminLoop : List (Option α) → Nat → α → Option Nat → Option Nat
  | [], _, _, idmin => idmin
  | none :: rest, i, minimum, idmin => argminLoop rest (i + 1) minimum idmin
  | some v :: rest, i, minimum, idmin =>
    if v < minimum ∨ (idmin = none ∧ (v == minimum) = true) then argminLoop rest (i + 1) v (some i)
    else argminLoop rest (i + 1) minimum idmin

/-- `return 0 if idmin is None else idmin` -/
def argmin (big : α) (col : List (Option α)) : Nat := (argminLoop col 0 big none).getD 0

/-- `setObsAnalyticalFeature("@aire", i, aire_visval(output, i))` -/
def setAire (S : VState α) (i : Nat) : VState α :=
  match S[i]? with
  | some (p, _) => S.set i (p, aireVisval (S.map (·.1)) i)
  | none => S

/-- one pass of the `while output.size() > 2` body; `none` = `break` (or loop condition false) -/
def vwStep (big eps2 : α) (S : VState α) : Option (VState α) :=
  if S.length > 2 then
    let id := argmin big (S.map (·.2))
    let stop : Bool := match S[id]? with
      | some (_, some v) => decide (v > eps2)
      | _ => false                       -- NaN > eps is False
    if stop then none
    else
      let S1 := S.eraseIdx id
      let S2 := if id > 1 then setAire S1 (id - 1) else S1
      let S3 := if id < S2.length - 1 then setAire S2 id else S2
      some S3
  else none

/-- the `while` loop; every pass removes one observation, so `fuel = size` passes always suffice
(`vw_sublist_ends` in Props/C16) -/
def vwLoop (big eps2 : α) : Nat → VState α → VState α
  | 0, S => S
  | fuel + 1, S =>
    match vwStep big eps2 S with
    | none => S
    | some S' => vwLoop big eps2 fuel S'

/-- `visvalingam(track, eps)`: `eps = eps * eps` (b704eae; `eps **= 2`, which raises OverflowError from 1.35e154 on, before), area column, loop, feature removed -/
def visvalingam (big eps : α) (L : List (Fix α)) : List (Fix α) :=
  (vwLoop big (eps * eps) L.length (vwInit L)).map (·.1)

end TV.Simplify
