import TracklibVerif.Model.SplitVal
/-! `segmentation()` on numbers of different Python types: what `current_value <= seuil_max` (and `isnan`) does when
the operands are Python ints, Python floats, `numpy.int64` or `numpy.float64` scalars.

`segmentation()` hands the cell and the threshold to `<=` as they are (no `float()` anywhere on the path), so:
* Python int / Python float, in any pairing: Python compares the two numbers EXACTLY (`int.__le__(float)` does not
  convert the int: `2**53 + 1 <= 2.0**53` is False). An integer threshold beyond 2^53 is therefore told apart from its
  neighbours — epoch nanoseconds, counters, 64-bit identifiers;
* `numpy.int64` against a Python int or a `numpy.int64`: integer comparison, exact; two floats of either flavour: exact;
* a numpy scalar on one side, one integer and one float operand (`numpy.int64 <= 2.0**53`, `numpy.float64 <= 2**53 + 3`,
  `2.0**53 <= numpy.int64`, also through the reflected operator when the Python number is on the left): numpy converts
  the INTEGER to a double (nearest, ties to even) and compares doubles — `roundInt` below.
`PNum.le?` is that table; the loops are `foldCmpG` .. `markersG` of `Model/SplitVal.lean` run with it. -/
namespace TV.Split

/-- the double nearest to the natural number `n`, ties to even (`float(n)`, numpy's int64 -> float64): keep the 53
leading bits. (`n < 2^1024`; beyond, Python / numpy raise OverflowError — not reachable from an int64.) -/
def roundNat (n : Nat) : Nat :=
  let e := (n.log2 + 1) - 53            -- number of low bits that do not fit (0 when n < 2^53)
  let q := n >>> e
  let r := n - (q <<< e)
  let half := (1 <<< e) / 2
  let q' := if r > half ∨ (r = half ∧ 0 < e ∧ q % 2 = 1) then q + 1 else q
  q' <<< e

def roundInt (n : Int) : Int := if n < 0 then -((roundNat n.natAbs : Nat) : Int) else ((roundNat n.natAbs : Nat) : Int)

/-- the Python type of a number -/
inductive NumKind where
  | pyInt | pyFloat | npInt | npFloat
  deriving DecidableEq

def NumKind.isInt : NumKind → Bool
  | .pyInt | .npInt => true
  | _ => false

def NumKind.isNumpy : NumKind → Bool
  | .npInt | .npFloat => true
  | _ => false

/-- a non-NaN number as Python holds it: its type and its exact value (an integer for the two integer types) -/
structure PNum where
  kind : NumKind
  val : Ext
  deriving DecidableEq

instance : OfNat PNum 0 := ⟨⟨.pyInt, 0⟩⟩
instance : OfNat PNum 1 := ⟨⟨.pyInt, 1⟩⟩

/-- does `a <= b` convert the integer operand to a double first? -/
def PNum.converts (a b : PNum) : Bool :=
  (a.kind.isNumpy || b.kind.isNumpy) && (a.kind.isInt != b.kind.isInt)

/-- the value `<=` works with: the integer operand of a converting comparison becomes the nearest double -/
def PNum.image (conv : Bool) (a : PNum) : Ext :=
  match conv && a.kind.isInt, a.val with
  | true, .fin r => .fin ((roundInt r.num : Int) : Rat)
  | _, v => v

/-- Python's `a <= b` on two non-NaN numbers (never raises) -/
def PNum.le? (a b : PNum) : Except String Bool :=
  .ok (decide (a.image (a.converts b) ≤ b.image (a.converts b)))

/-- `utils.isnan` on a non-NaN number -/
def PNum.isnan (_ : PNum) : Bool := false

def PNum.fmax : PNum := ⟨.pyFloat, Ext.fmax⟩
end TV.Split
