import TracklibVerif.Model.GraphPathExt
/-! One `Network` object (`tracklib/core/network.py`) that is MODIFIED between the routing calls — model for C07.

Everything a routing call reads is state of the object and is read at the time of the call:

* `NODES` (ids in insertion order, each with the `coord` of its `Node` object), `EDGES` (insertion order; the Edge objects'
  `source` / `target` / `weight` / `orientation` attributes as they are NOW), `NEXT_EDGES` (filled by `addEdge`, never
  rewritten afterwards) — `GraphExt.NetObj`, with `GraphExt.addNode` / `GraphExt.addEdge`;
* `EDGES[id].geom` (the polyline, with its analytical-feature table);
* the routing flags of the Node objects (`poids`, `visite`, `antecedent`, `antecedent_edge`) and which nodes carry them at
  all (a node registered after the last search has none: `run_routing_backward` raises `AttributeError` on it);
* the caller's `output_dict`.

The forward pass is written as the code has it: `for edge_id in self.NEXT_EDGES[pere.id]: e = self.EDGES[edge_id]` — the
adjacency lists are those `addEdge` filled when the edge was added, the edge attributes (`weight`) those of the moment of
the relaxation. So `getEdge(id).weight = w` is seen by the next search, `getEdge(id).orientation = o` is not
(`Lemmas/GraphMut.lean`: `synced_query`, `setOri_not_read`).

Operations: `addNode`, `addEdge` (also after searches), `getEdge(id).weight = w`, `getEdge(id).orientation = o`,
`getEdge(id).geom = track` (or moving its points in place), `getNode(id).coord = c` (or moving it in place),
`shortest_path`, `shortest_distance` (pair / list), `run_routing_forward`, `run_routing_backward`; a node argument is an id
or a `Node` object. Domain: node ids `< n` (a bound fixed at construction: heap ties are broken by node id), edge ids
unique, weights non-negative; a mutation outside the domain answers `err` and leaves the state unchanged (the property does
not speak about it). A query that names an unregistered node raises `KeyError` in the code — *after* `__resetFlags` when it
is the source, after the whole forward pass when it is the target: `keyErr`, with the flags left accordingly. Core Lean only. -/
namespace TV.GraphMut
open TV.Graph TV.GraphExt

structure Obj (W : Type) where
  n : Nat
  nb : NetObj W Seq.Obs
  geom : Nat → Seq.Track          -- `EDGES[id].geom`
  flags : St W
  seen : List Nat                 -- the nodes that carry routing attributes (NODES at the time of the last `__resetFlags`)
  dict : Table W

/-- a new `Network()`: no node, no edge (the flags are those of no node) -/
def Obj.new {W : Type} (n : Nat) : Obj W :=
  { n := n, nb := NetObj.empty, geom := fun _ => emptyT, flags := resetFlags none, seen := [], dict := Table.empty }

inductive Op (W : Type) where
  | addNode (v : Nat) (c : Seq.Obs)
  /-- `addEdge(edge, source, target)`: `sc`, `tc` = `Obs(coord)` of the two Node arguments, `g` = `edge.geom` -/
  | addEdge (e : Edge W) (sc tc : Seq.Obs) (g : Seq.Track)
  /-- `getEdge(i).weight = w` -/
  | setWeight (i : Nat) (w : W)
  /-- `getEdge(i).orientation = o` -/
  | setOri (i : Nat) (o : Int)
  /-- `getEdge(i).geom = g` -/
  | setGeom (i : Nat) (g : Seq.Track)
  /-- `getNode(v).coord = c` -/
  | setCoord (v : Nat) (c : Seq.Obs)
  | path (s t : NodeArg) (cut : Option W) (useDict : Bool)
  | dist (s : NodeArg) (t : Option NodeArg) (cut : Option W) (useDict : Bool)
  | fwd (s : NodeArg) (t : Option NodeArg) (cut : Option W) (useDict : Bool)
  | back (t : NodeArg)

inductive Out (W : Type) where
  | unit
  | err                                          -- outside the domain, nothing done
  | keyErr                                       -- `KeyError`: a node / edge that is not registered
  | attrErr                                      -- `AttributeError`: the node has no routing attributes yet
  | path (b : BackT) (label : Option W)
  | dist (d : Option W)
  | dists (l : List (Option W))
  | done
deriving DecidableEq, Repr

variable {W : Type}

/-- `id in self.NODES` -/
def registered (o : Obj W) (v : Nat) : Bool := o.nb.nodes.any (fun p => p.1 == v)

/-- the keys of `NODES`, in insertion order -/
def order (o : Obj W) : List Nat := o.nb.nodes.map (·.1)

/-- `EDGES` as a `Net`: the Edge objects with their CURRENT attributes -/
def netOf (o : Obj W) : Net W := { n := o.n, edges := o.nb.edges }

/-- what `run_routing_backward` reads: `Obs(NODES[v].coord)`, `EDGES[i].geom` -/
def geoOf (o : Obj W) : GeoT := { pos := fun v => (posOf o.nb v).getD ⟨0, 0, []⟩, geom := o.geom }

/-- `[self.EDGES[edge_id] for edge_id in self.NEXT_EDGES[u]]` -/
def adj (o : Obj W) (u : Nat) : List (Edge W) := (o.nb.next u).filterMap (findEdge (netOf o))

/-- `e.<attr> = x` on the Edge object with id `i` -/
def updEdge (f : Edge W → Edge W) (i : Nat) (es : List (Edge W)) : List (Edge W) :=
  es.map (fun e => if e.id = i then f e else e)

def hasEdge (o : Obj W) (i : Nat) : Bool := o.nb.edges.any (fun e => e.id == i)

section search
variable [LT W] [DecidableLT W] [Add W]

/-- one iteration of `run_routing_forward` after the stop tests, over the adjacency lists `nx` -/
def settleA (nx : Nat → List (Edge W)) (st : St W) (u : Nat) (du : W) : St W :=
  (nx u).foldl (relaxOne u du) { st with vis := fun z => if z = u then true else st.vis z }

/-- the `while len(fil) != 0` loop over the adjacency lists `nx` (`Graph.forward` is this loop over `nextEdges net`) -/
def forwardA (nx : Nat → List (Edge W)) (n : Nat) (target : Option Nat) (cut : Option W) :
    Nat → St W → List (Nat × W) → St W × List (Nat × W)
  | 0, st, out => (st, out)
  | f+1, st, out =>
    match popMinAux st n with
    | none => (st, out)
    | some (u, du) =>
      if stops target cut u du then (st, out)
      else forwardA nx n target cut f (settleA nx st u du) (out ++ [(u, du)])

variable [OfNat W 0]

/-- `run_routing_forward(source, target, cut, output_dict)` on the object as it is now. `__resetFlags` gives every node of
`NODES` its attributes; then `self.NODES[source]` raises `KeyError` when the source is not registered. -/
def search (o : Obj W) (s : Nat) (t : Option Nat) (cut : Option W) (ud : Bool) : Obj W :=
  if registered o s then
    let r := forwardA (adj o) o.n t cut o.n (setSource (resetFlags (some o.flags)) s) []
    { o with flags := r.1, seen := order o, dict := if ud then record o.dict s r.2 else o.dict }
  else { o with flags := resetFlags (some o.flags), seen := order o }

/-- `run_routing_backward(target)` on the flags the last search left and the geometries / coordinates of NOW -/
def backward (o : Obj W) (t : Nat) : Out W :=
  if !registered o t then .keyErr
  else if !o.seen.contains t then .attrErr
  else .path (runBackwardT (netOf o) (geoOf o) o.flags t) (o.flags.d t)

/-- one call; the new state and what the caller sees -/
def exec (o : Obj W) : Op W → Obj W × Out W
  | .addNode v c => if v < o.n then ({ o with nb := addNode o.nb v c }, .unit) else (o, .err)
  | .addEdge e sc tc g =>
    if e.src < o.n && e.tgt < o.n && !decide (e.w < 0) && !hasEdge o e.id then
      ({ o with nb := addEdge o.nb e sc tc, geom := fun i => if i = e.id then g else o.geom i }, .unit)
    else (o, .err)
  | .setWeight i w =>
    if !hasEdge o i then (o, .keyErr)
    else if decide (w < 0) then (o, .err)
    else ({ o with nb := { o.nb with edges := updEdge (fun e => { e with w := w }) i o.nb.edges } }, .unit)
  | .setOri i x =>
    if !hasEdge o i then (o, .keyErr)
    else ({ o with nb := { o.nb with edges := updEdge (fun e => { e with ori := x }) i o.nb.edges } }, .unit)
  | .setGeom i g =>
    if !hasEdge o i then (o, .keyErr)
    else ({ o with geom := fun j => if j = i then g else o.geom j }, .unit)
  | .setCoord v c =>
    if !registered o v then (o, .keyErr)
    else ({ o with nb := { o.nb with nodes := o.nb.nodes.map (fun p => if p.1 = v then (v, c) else p) } }, .unit)
  | .path s t cut ud =>
    let s := correctInputNode s
    let t := correctInputNode t
    let o' := search o s (some t) cut ud
    if registered o s then (o', backward o' t) else (o', .keyErr)
  | .dist s t cut ud =>
    let s := correctInputNode s
    let t := t.map correctInputNode
    let o' := search o s t cut ud
    if !registered o s then (o', .keyErr)
    else match t with
      | some t => if registered o t then (o', .dist (o'.flags.d t)) else (o', .keyErr)
      | Option.none => (o', .dists ((order o).map o'.flags.d))
  | .fwd s t cut ud =>
    let s := correctInputNode s
    let o' := search o s (t.map correctInputNode) cut ud
    if registered o s then (o', .done) else (o', .keyErr)
  | .back t => (o, backward o (correctInputNode t))

/-- a sequence of calls on one object: the outputs in order, and the final state -/
def runOps : Obj W → List (Op W) → List (Out W) × Obj W
  | o, [] => ([], o)
  | o, op :: ops =>
    let r := exec o op
    let rest := runOps r.1 ops
    (r.2 :: rest.1, rest.2)
end search
end TV.GraphMut
