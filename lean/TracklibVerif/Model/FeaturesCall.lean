import TracklibVerif.Model.Features
/-! The LIST forms of `Track.operate` (tracklib/core/track.py, `operate`, the branches after `isinstance(arg1, str)`).

For the void operator families — `operate(op, [in…], [out…])`, `operate(op, [in1…], [in2…], [out…])`,
`operate(op, [in…], number, [out…])`, the output list optional (`None`: the inputs are overwritten) — Python runs
`operator.execute(self, arg1[i], …)` once per position, in order: `stepList`. An exception stops the loop, what the earlier
positions did stays, nothing is returned. For the value-returning unary and binary families the list form evaluates
`range(output)` on a list and raises TypeError before anything is read or written: `Call.refused`.
(Lists of different lengths raise before the loop as well — `OperatorError`, in fact NameError: the name is not imported —;
the harness does not generate them.) Core Lean only. -/
namespace TV.Features
variable {V σ : Type} [Tbl σ V]

/-- `for i in range(len(arg1)): operator.execute(self, arg1[i], …)` — `ops` are the single calls, one per position -/
def stepList (o : Ops V) : List (Op V) → M σ (Ret V)
  | [] => pure .none
  | op :: rest => do
    let _ ← step o op
    stepList o rest

/-- one call of the Track API -/
inductive Call (V : Type)
  | one (op : Op V)              -- a single call (`Model/Features.lean`, `Op`)
  | list (ops : List (Op V))     -- list form of a void operator family
  | refused                      -- list form of a value-returning unary / binary operator: TypeError, nothing touched
  deriving Repr

def call (o : Ops V) : Call V → M σ (Ret V)
  | .one op => step o op
  | .list ops => stepList o ops
  | .refused => M.throw .type

/-- a history of calls: the state and the outcome after every call -/
def traceC (o : Ops V) : List (Call V) → σ → List (Except Err (Ret V) × σ)
  | [], _ => []
  | c :: cs, s =>
    let r := call o c s
    r :: traceC o cs r.2

end TV.Features
