/-! # Model of the algebraic-expression evaluator of `Track` (C02)

Mirrors, as the code is now in /repo:
* `Track.__evaluate` (core/track.py): the literal `str.replace` chain (`__specialOpChar`,
  `__convertReflexOperator`, `__unaryOp`, `f(` → `f@(` for every key of `Operator.NAMES_DICT_VOID` /
  `NAMES_DICT_NON_VOID` in dict order, the `#output = ` prefix), on character lists;
* `utils.makeRPN` at character level (nine precedence groups, right-to-left scan at depth 0,
  `strip`, outer-parenthesis stripping) and `Track.__prime` / `__double_prime`;
* `Track.__getitem__` with a string (expression or feature name) and the default output name of `Track.operate(operator, …)`;
* `Track.__evaluateRPN` / `Track.__applyOperation` (stack machine, `#k` temporaries, dispatch on
  `=`, literal∘literal, `@`, AF∘AF, AF∘scalar `s+`…, scalar∘AF `sr+`…) and the purge of `Track.operate`;
* the vector functions of core/operators.py for `+ - * / ^ < >`, `I D D2 ABS SQRT LOG DIODE SIGN EXP COS SIN TAN`,
  `SUM AVG VAR STD MSE RMSE MAD MIN MAX MEDIAN ARGMIN ARGMAX` with their NaN / edge rules as coded.

Python `str` = `List Char`. The feature table is the insertion-ordered association list
name ↦ column (its index-remapping representation is the subject of C01). Errors are the
engine's enum strings (`err:index`, `err:zerodiv`, …). Scalars are abstract (`Scalar α`);
the driver instantiates `Float`. Core Lean only. -/
namespace TV.Expr

abbrev Str := List Char
abbrev Err := String

/-! ## Python string primitives -/

/-- `pat in s` -/
def contains (pat : Str) : Str → Bool
  | [] => pat.isEmpty
  | c :: cs => pat.isPrefixOf (c :: cs) || contains pat cs

def replaceAux (pat rep : Str) : Nat → Str → Str
  | 0, s => s
  | _+1, [] => []
  | f+1, c :: cs =>
    if pat.isPrefixOf (c :: cs) then rep ++ replaceAux pat rep f ((c :: cs).drop pat.length)
    else c :: replaceAux pat rep f cs

/-- `s.replace(pat, rep)` for a non-empty `pat` (non-overlapping, left to right) -/
def replace (s pat rep : Str) : Str := if pat.isEmpty then s else replaceAux pat rep (s.length + 1) s

def splitAux (sep : Str) : Nat → Str → Str → List Str
  | 0, acc, s => [acc.reverse ++ s]
  | _+1, acc, [] => [acc.reverse]
  | f+1, acc, c :: cs =>
    if sep.isPrefixOf (c :: cs) then acc.reverse :: splitAux sep f [] ((c :: cs).drop sep.length)
    else splitAux sep f (c :: acc) cs

/-- `s.split(sep)` for a non-empty `sep` -/
def splitOn (s sep : Str) : List Str := splitAux sep (s.length + 1) [] s

def isWs (c : Char) : Bool := c == ' ' || c == '\t' || c == '\n' || c == '\r'
/-- `s.strip()` -/
def strip (s : Str) : Str := ((s.dropWhile isWs).reverse.dropWhile isWs).reverse

/-! ## `Track.__evaluate`: the rewriting chain -/

def specialOpChar (e : Str) : Str :=
  let e := replace e ['*', '*'] ['^']
  let e := replace e ['.', '*'] ['!']
  let e := replace (replace e ['{'] ['@', '(']) ['}'] [')']
  replace (replace e ['>', '>'] ['&']) ['<', '<'] ['$']

def reflexOps : List Str := [['+'], ['-'], ['*'], ['/'], ['^'], ['>', '>'], ['<', '<'], ['%'], ['!']]

def convertReflexOperator (e : Str) : Str :=
  reflexOps.foldl (fun e op =>
    if contains (op ++ ['=']) e then
      let splt := splitOn e (op ++ ['='])
      let s0 := splt.getD 0 []
      let s1 := splt.getD 1 []
      s0 ++ ['='] ++ s0 ++ op ++ ['('] ++ s1 ++ [')']
    else e) e

def unaryOp (e : Str) : Except Err Str :=
  match e with
  | [] => .error "err:index"
  | c :: _ =>
    let e := if c == '-' || c == '+' then '0' :: e else e
    let e := replace (replace e ['=', '-'] ['=', '0', '-']) ['=', '+'] ['=', '0', '+']
    let e := replace (replace e ['(', '-'] ['(', '0', '-']) ['(', '+'] ['(', '0', '+']
    let e := replace (replace e ['-', '-'] ['+']) ['+', '+'] ['+']
    let e := replace (replace e ['+', '-'] ['-']) ['-', '+'] ['-']
    .ok e

/-- keys of `Operator.NAMES_DICT_VOID`, in dict order -/
def namesVoid : List Str := [
  ['I'], ['D'], ['D', '2'], ['L', 'O', 'G'], ['A', 'B', 'S'], ['S', 'Q', 'R', 'T'], ['D', 'I', 'O', 'D', 'E'],
  ['S', 'I', 'G', 'N'], ['E', 'X', 'P'], ['C', 'O', 'S'], ['S', 'I', 'N'], ['T', 'A', 'N'],
  ['+'], ['-'], ['*'], ['/'], ['^'], ['>'], ['<'], ['%'], ['!'],
  ['s', '+'], ['s', '-'], ['s', '*'], ['s', '/'], ['s', '^'], ['s', '&'], ['s', '$'], ['s', '>'], ['s', '<'], ['s', '%'],
  ['s', 'r', '+'], ['s', 'r', '-'], ['s', 'r', '*'], ['s', 'r', '/'], ['s', 'r', '^'], ['s', 'r', '>'], ['s', 'r', '%'], ['s', 'r', '<']]

/-- keys of `Operator.NAMES_DICT_NON_VOID`, in dict order -/
def namesNonVoid : List Str := [
  ['S', 'U', 'M'], ['A', 'V', 'G'], ['V', 'A', 'R'], ['S', 'T', 'D'], ['M', 'S', 'E'], ['R', 'M', 'S', 'E'], ['M', 'A', 'D'],
  ['M', 'I', 'N'], ['M', 'A', 'X'], ['M', 'E', 'D', 'I', 'A', 'N'], ['A', 'R', 'G', 'M', 'I', 'N'], ['A', 'R', 'G', 'M', 'A', 'X']]

def lastIn (f : Str) (cs : List Char) : Bool := match f.getLast? with | some c => cs.contains c | none => false

/-- the two `for f_name in …: expression = expression.replace(f_name + "(", f_name + "@(")` loops; the first
    skips the keys ending in an operator character, comparison operators `> < %` (and `& $`) included, so that a
    parenthesis directly after a comparison stays a parenthesis (fix 6716f85); the second skips `+ - * / ^` only -/
def funcAt (e : Str) : Str :=
  let e := namesVoid.foldl (fun e f =>
    if lastIn f ['+', '-', '*', '/', '^', '!', '>', '<', '%', '&', '$'] then e else replace e (f ++ ['(']) (f ++ ['@', '('])) e
  namesNonVoid.foldl (fun e f =>
    if lastIn f ['+', '-', '*', '/', '^'] then e else replace e (f ++ ['(']) (f ++ ['@', '('])) e

/-- everything `__evaluate` does to the string before `makeRPN`; the flag is `void = "=" in expression` -/
def preprocess (e : Str) : Except Err (Str × Bool) := do
  let e := replace e [' '] []
  let e := specialOpChar e
  let e := convertReflexOperator e
  let e ← unaryOp e
  let e := funcAt e
  let void := contains ['='] e
  pure (if void then e else ['#', 'o', 'u', 't', 'p', 'u', 't', ' ', '=', ' '] ++ e, void)

/-! ## `utils.makeRPN`, character level -/

def balC : Str → Int
  | [] => 0
  | ')' :: cs => balC cs + 1
  | '(' :: cs => balC cs - 1
  | _ :: cs => balC cs

/-- rightmost character of the group at depth 0 (the inner `for p in range(len(s)-1,-1,-1)`) -/
def splitRC (grp : Str) : Str → Option (Str × Char × Str)
  | [] => none
  | c :: cs =>
    match splitRC grp cs with
    | some (l, o, r) => some (c :: l, o, r)
    | none => if balC (c :: cs) == 0 && grp.contains c then some ([], c, cs) else none

def groups : List Str := [['='], ['<', '>'], ['+', '-'], ['!'], ['*', '/'], ['%'], ['^'], ['@'], ['&', '$']]

def firstSplitC : List Str → Str → Option (Str × Char × Str)
  | [], _ => none
  | g :: gs, s => match splitRC g s with
    | some x => some x
    | none => firstSplitC gs s

def makeRPNg (grps : List Str) : Nat → Str → Except Err (List Str)
  | 0, _ => .error "err:recursion"
  | f+1, s =>
    match firstSplitC grps s with
    | some (l, c, r) => do
      let a ← makeRPNg grps f l
      let b ← makeRPNg grps f r
      pure (a ++ b ++ [[c]])
    | none =>
      match strip s with
      | [] => .error "err:index"
      | '(' :: rest => makeRPNg grps f rest.dropLast
      | t => pure [t]

def makeRPN (s : Str) : Except Err (List Str) := makeRPNg groups (s.length + 1) s

/-- `Track.__prime` (`e[-1]` raises IndexError on an empty token) -/
def prime : List Str → Except Err (List Str)
  | [] => .ok []
  | e :: es =>
    match e.getLast? with
    | none => .error "err:index"
    | some c => do
      let rest ← prime es
      pure ((if c == '\'' then [['D'], e.dropLast, ['@'], ['D'], ['t'], ['@'], ['/']] else [e]) ++ rest)

def doublePrime (r : List Str) : Except Err (List Str) := do
  let r1 ← prime r
  prime r1

/-! ## Scalars -/

class Scalar (α : Type) where
  add : α → α → α
  sub : α → α → α
  mul : α → α → α
  /-- float division where Python does not raise (callers test the denominator where Python would) -/
  div : α → α → α
  neg : α → α
  /-- Python `x ** y` on floats (ZeroDivisionError, complex result, OverflowError are errors) -/
  pow : α → α → Except Err α
  /-- `math.sqrt` (ValueError on negatives) -/
  sqrt : α → Except Err α
  abs : α → α
  lt : α → α → Bool
  /-- `v == 0` -/
  isZero : α → Bool
  isNaN : α → Bool
  nan : α
  /-- the decimal literal `m·10^(-k)` as `float("…")` reads it -/
  ofDec : Nat → Nat → α
  /-- `float('inf')` -/
  inf : α
  /-- `math.exp` (OverflowError when the result is not representable) -/
  exp : α → Except Err α := fun _ => .error "err:unsupported"
  /-- Python `a == b` on floats (false as soon as one side is NaN); by default what the comparison says: neither below
      the other, neither NaN -/
  eq : α → α → Bool := fun a b => !(lt a b) && !(lt b a) && !(isNaN a) && !(isNaN b)
  /-- `math.log` on a positive argument (`Log` tests `val > 0` itself) -/
  log : α → Except Err α := fun _ => .error "err:unsupported"
  /-- `math.cos`, `math.sin`, `math.tan` (ValueError on an infinite argument) -/
  cos : α → Except Err α := fun _ => .error "err:unsupported"
  sin : α → Except Err α := fun _ => .error "err:unsupported"
  tan : α → Except Err α := fun _ => .error "err:unsupported"

namespace Scalar
variable {α : Type} [Scalar α]
def zero : α := ofDec 0 0
def one : α := ofDec 1 0
def two : α := ofDec 2 0
def half : α := ofDec 5 1
def ofNat (n : Nat) : α := ofDec n 0
/-- Python `0.0 + (bool)` / `float(bool)` -/
def ofBool (b : Bool) : α := if b then one else zero
/-- `a <= b` (false as soon as one side is NaN) -/
def le (a b : α) : Bool := !(lt b a) && !(isNaN a) && !(isNaN b)
end Scalar

/-- `math.exp`: `OverflowError` ("math range error") when a finite argument gives an infinite result -/
def floatExp (x : Float) : Except Err Float :=
  let r := x.exp
  if r.isInf && x.isFinite then .error "err:OverflowError" else .ok r

/-- `math.cos` / `math.sin` / `math.tan`: `ValueError` ("math domain error") on ±inf, NaN passes through -/
def floatTrig (f : Float → Float) (x : Float) : Except Err Float :=
  if x.isInf then .error "err:value" else .ok (f x)

def floatPow (x y : Float) : Except Err Float :=
  if y == 0.0 then .ok 1.0
  else if x.isNaN then .ok x
  else if y.isNaN then .ok (if x == 1.0 then 1.0 else y)
  else if x == 0.0 && y < 0.0 && y.isFinite then .error "err:zerodiv"   -- `0.0 ** -inf` is `inf` (the infinite exponent is tested first)
  else if x < 0.0 && x.isFinite && y.isFinite && y.floor != y then .error "err:complex"
  else
    let r := x.pow y
    if r.isInf && x.isFinite && y.isFinite then .error "err:OverflowError" else .ok r

instance : Scalar Float where
  add := (· + ·)
  sub := (· - ·)
  mul := (· * ·)
  div := (· / ·)
  neg := fun x => -x
  pow := floatPow
  sqrt := fun x => if x < 0.0 then .error "err:value" else .ok x.sqrt
  abs := Float.abs
  lt := fun a b => a < b
  isZero := fun x => x == 0.0
  isNaN := Float.isNaN
  nan := 0.0 / 0.0
  ofDec := fun m k => Float.ofScientific m true k
  inf := 1.0 / 0.0
  exp := floatExp
  eq := fun a b => a == b
  log := fun x => .ok x.log
  cos := floatTrig Float.cos
  sin := floatTrig Float.sin
  tan := floatTrig Float.tan

open Scalar

/-! ## Literals (`isfloat`) -/

def digitVal (c : Char) : Option Nat := if c.isDigit then some (c.toNat - '0'.toNat) else none

/-- value of a digit string -/
def digitsVal : Str → Nat → Option Nat
  | [], acc => some acc
  | c :: cs, acc => match digitVal c with
    | some d => digitsVal cs (acc * 10 + d)
    | none => none

/-- Python's `float` accepts single underscores between two digits (`3_2` is 32): no leading, trailing or doubled `_` -/
def underscoresOK (s : Str) : Bool :=
  s.head? != some '_' && s.getLast? != some '_' && !contains ['_', '_'] s

def dropUnderscores (s : Str) : Str := s.filter (fun c => c != '_')

/-- decimal part `12`, `12.`, `12.5`, `.5`, `1_000.2_5` → (mantissa, number of decimals) -/
def parseDec (s : Str) : Option (Nat × Nat) :=
  match splitOn s ['.'] with
  | [a] => if a.isEmpty || !underscoresOK a then none else (digitsVal (dropUnderscores a) 0).map (fun m => (m, 0))
  | [a, b] =>
    if (a.isEmpty && b.isEmpty) || !underscoresOK a || !underscoresOK b then none
    else (digitsVal (dropUnderscores a ++ dropUnderscores b) 0).map (fun m => (m, (dropUnderscores b).length))
  | _ => none

/-- what `float(token)` reads: `m · 10^(e-k)`, an infinity or NaN -/
inductive Lit where
  | fin (m k e : Nat)
  | inf
  | nan

/-- the part before the first `e` / `E` and, when there is one, the part after it -/
def splitExp : Str → Str × Option Str
  | [] => ([], none)
  | c :: cs =>
    if c == 'e' || c == 'E' then ([], some cs)
    else let r := splitExp cs; (c :: r.1, r.2)

/-- `inf`, `infinity`, `nan` in any case -/
def wordLit (s : Str) : Option Lit :=
  let l := s.map Char.toLower
  if l = ['i', 'n', 'f'] || l = ['i', 'n', 'f', 'i', 'n', 'i', 't', 'y'] then some .inf
  else if l = ['n', 'a', 'n'] then some .nan else none

/-- the tokens Python's `float()` accepts (`isfloat`), signs and surrounding blanks apart — a token never contains
    `+` or `-`, which are operators —: decimal literals `12`, `12.`, `12.5`, `.5`, with single underscores between
    digits (`1_000.2_5`), an optional exponent `e`/`E` followed by digits (`1e5`, `2.5E3`, `1_0e1_0`; `1e-5` is not
    a token), and the words `inf`, `infinity`, `nan` in any case. (Non-ASCII digits, which `float()` also reads, are
    outside the model.) -/
def parseLit (s : Str) : Option Lit :=
  match s with
  | [] => none
  | c :: _ =>
    if c.isDigit || c == '.' then
      match splitExp s with
      | (mant, none) => (parseDec mant).map (fun p => .fin p.1 p.2 0)
      | (mant, some ex) =>
        if ex.isEmpty || !underscoresOK ex then none
        else match parseDec mant, digitsVal (dropUnderscores ex) 0 with
          | some p, some e => some (.fin p.1 p.2 e)
          | _, _ => none
    else wordLit s

/-- the value of a literal: `m · 10^(e-k)` read exactly (`ofDec` is `float("…")` on a decimal string), beyond
    every double when the exponent is out of range -/
def litVal {α : Type} [Scalar α] : Lit → α
  | .fin m k e =>
    if e ≤ k then ofDec m (k - e)
    else if m = 0 then ofDec 0 0
    else if e - k > 400 then inf
    else ofDec (m * 10 ^ (e - k)) 0
  | .inf => inf
  | .nan => nan

/-! ## The track: coordinates, timestamps (as epoch seconds) and the feature table -/

structure Tr (α : Type) where
  n : Nat
  xs : List α
  ys : List α
  zs : List α
  ts : List α
  feats : List (Str × List α)

section
variable {α : Type} [Scalar α]

def reservedNames : List Str := [['x'], ['y'], ['z'], ['t'], ['t', 'i', 'm', 'e', 's', 't', 'a', 'm', 'p'], ['i', 'd', 'x']]
def isReserved (s : Str) : Bool := reservedNames.contains s

def lookup (s : Str) : List (Str × List α) → Option (List α)
  | [] => none
  | (k, v) :: rest => if k = s then some v else lookup s rest

def hasAF (tr : Tr α) (s : Str) : Bool := (lookup s tr.feats).isSome || isReserved s

/-- `getAnalyticalFeature(name)` (also the per-observation reads of a whole column) -/
def getAF (tr : Tr α) (s : Str) : Except Err (List α) :=
  if s = ['x'] then .ok tr.xs else if s = ['y'] then .ok tr.ys else if s = ['z'] then .ok tr.zs
  else if s = ['t'] then .ok tr.ts
  else if s = ['t', 'i', 'm', 'e', 's', 't', 'a', 'm', 'p'] then .error "err:unsupported"
  else if s = ['i', 'd', 'x'] then .ok ((List.range tr.n).map ofNat)
  else match lookup s tr.feats with
    | some c => .ok c
    | none => .error "err:AnalyticalFeatureError"

def eraseKey (s : Str) : List (Str × List α) → List (Str × List α)
  | [] => []
  | (k, v) :: rest => if k = s then rest else (k, v) :: eraseKey s rest

def setKey (s : Str) (c : List α) : List (Str × List α) → List (Str × List α)
  | [] => []
  | (k, v) :: rest => if k = s then (k, c) :: rest else (k, v) :: setKey s c rest

/-- `createAnalyticalFeature(name, val_init)` with the column already expanded -/
def createAF (tr : Tr α) (s : Str) (c : List α) : Except Err (Tr α) :=
  if isReserved s then .error "err:AnalyticalFeatureError"
  else if tr.n = 0 then .error "err:AnalyticalFeatureError"
  else if (lookup s tr.feats).isSome then .ok tr
  else .ok { tr with feats := tr.feats ++ [(s, c)] }

/-- `updateAnalyticalFeature(name, new_val)` -/
def updateAF (tr : Tr α) (s : Str) (c : List α) : Except Err (Tr α) :=
  if !hasAF tr s then .error "err:AnalyticalFeatureError"
  else if tr.n = 0 then .error "err:AnalyticalFeatureError"
  else if (lookup s tr.feats).isSome then .ok { tr with feats := setKey s c tr.feats }
  else .error "err:key"

/-- `removeAnalyticalFeature(name)` -/
def removeAF (tr : Tr α) (s : Str) : Except Err (Tr α) :=
  if !hasAF tr s then .error "err:AnalyticalFeatureError"
  else if (lookup s tr.feats).isSome then .ok { tr with feats := eraseKey s tr.feats }
  else .error "err:key"

/-- `addListToAF(track, name, array)`: `setObsAnalyticalFeature` at every index -/
def writeAF (tr : Tr α) (s : Str) (c : List α) : Except Err (Tr α) :=
  if tr.n = 0 then .ok tr
  else if s = ['x'] then .ok { tr with xs := c } else if s = ['y'] then .ok { tr with ys := c }
  else if s = ['z'] then .ok { tr with zs := c }
  else if (lookup s tr.feats).isSome then .ok { tr with feats := setKey s c tr.feats }
  else .error "err:AnalyticalFeatureError"

def konst (tr : Tr α) (v : α) : List α := List.replicate tr.n v

/-! ## Operator semantics (core/operators.py) -/

def mapM' {β γ : Type} (f : β → Except Err γ) : List β → Except Err (List γ)
  | [] => .ok []
  | x :: xs => do let y ← f x; let ys ← mapM' f xs; pure (y :: ys)

def zipWithM' {β γ δ : Type} (f : β → γ → Except Err δ) : List β → List γ → Except Err (List δ)
  | x :: xs, y :: ys => do let z ← f x y; let zs ← zipWithM' f xs ys; pure (z :: zs)
  | _, _ => .ok []

/-- the `isfloat(op1) and isfloat(op2)` block of `__applyOperation` -/
def litOp (o : Char) (a b : α) : Except Err α :=
  if o = '+' then .ok (add a b) else if o = '-' then .ok (sub a b) else if o = '*' then .ok (mul a b)
  else if o = '/' then (if isZero b then .error "err:zerodiv" else .ok (div a b))
  else if o = '^' then pow a b
  else if o = '>' then .ok (ofBool (lt b a)) else if o = '<' then .ok (ofBool (lt a b))
  else .error "err:unsupported"

/-- Adder, Substracter, Multiplier, Divider, Power, Above, Below at one observation -/
def vvAt (o : Char) (a b : α) : Except Err α :=
  if o = '+' then .ok (add a b) else if o = '-' then .ok (sub a b) else if o = '*' then .ok (mul a b)
  else if o = '/' then .ok (if isZero b then nan else div a b)
  else if o = '^' then pow a b
  else if o = '>' then .ok (ofBool (lt b a)) else if o = '<' then .ok (ofBool (lt a b))
  else .error "err:unsupported"

def vvOp (o : Char) (a b : List α) : Except Err (List α) := zipWithM' (vvAt o) a b

/-- `s+ s- s* s/ s^ s> s<` : ScalarAdder, ScalarSubstracter, ScalarMuliplier, ScalarDivider
    (`x / number` at every observation since fix 5676890 — it used to be a multiplication by `1.0/number` —; Python
    raises ZeroDivisionError at the first observation when the number is 0), ScalarPower, ScalarAbove, ScalarBelow -/
def vsOp (o : Char) (a : List α) (s : α) : Except Err (List α) :=
  if o = '+' then .ok (a.map (fun x => add x s)) else if o = '-' then .ok (a.map (fun x => sub x s))
  else if o = '*' then .ok (a.map (fun x => mul x s))
  else if o = '/' then mapM' (fun x => if isZero s then Except.error "err:zerodiv" else .ok (div x s)) a
  else if o = '^' then mapM' (fun x => pow x s) a
  else if o = '>' then .ok (a.map (fun x => ofBool (lt s x))) else if o = '<' then .ok (a.map (fun x => ofBool (lt x s)))
  else .error "err:unsupported"

/-- `sr+ sr- sr* sr/ sr^ sr> sr<` : ScalarAdder, ScalarRevSubstracter, ScalarMuliplier, ScalarRevDivider
    (`number / x` at every observation since fix 5676890 — it used to be Inverser `1.0/x` followed by a multiplication —;
    ZeroDivisionError at the first zero value), ScalarRevPower, ScalarRevAbove, ScalarRevBelow -/
def svOp (o : Char) (s : α) (a : List α) : Except Err (List α) :=
  if o = '+' then .ok (a.map (fun x => add x s)) else if o = '-' then .ok (a.map (fun x => sub s x))
  else if o = '*' then .ok (a.map (fun x => mul x s))
  else if o = '/' then mapM' (fun x => if isZero x then Except.error "err:zerodiv" else .ok (div s x)) a
  else if o = '^' then mapM' (fun x => pow s x) a
  else if o = '>' then .ok (a.map (fun x => ofBool (lt x s))) else if o = '<' then .ok (a.map (fun x => ofBool (lt s x)))
  else .error "err:unsupported"

def integAux (acc : α) : List α → List α
  | [] => []
  | x :: xs => let a := add acc x; a :: integAux a xs
/-- Integrator: `temp[0] = 0; temp[i] = temp[i-1] + x[i]` -/
def integ (c : List α) : List α := zero :: integAux zero (c.drop 1)
/-- Differentiator: `temp[i] = x[i] - x[i-1]; temp[0] = NAN` -/
def diff (c : List α) : List α := nan :: List.zipWith sub (c.drop 1) c
/-- SecondOrderFiniteDiff: `x[i+1] - 2*x[i] + x[i-1]` inside, NaN at both ends -/
def diff2Mid : List α → List α
  | a :: b :: c :: rest => add (sub c (mul two b)) a :: diff2Mid (b :: c :: rest)
  | _ => []
def diff2 (n : Nat) (c : List α) : List α :=
  if n ≤ 1 then [nan] else nan :: (diff2Mid c ++ [nan])
def logName : Str := ['L', 'O', 'G']
def isVoidFn (f : Str) : Bool :=
  f = ['I'] || f = ['D'] || f = ['D', '2'] || f = ['A', 'B', 'S'] || f = ['S', 'Q', 'R', 'T']
    || f = logName || f = ['D', 'I', 'O', 'D', 'E'] || f = ['S', 'I', 'G', 'N'] || f = ['E', 'X', 'P']
    || f = ['C', 'O', 'S'] || f = ['S', 'I', 'N'] || f = ['T', 'A', 'N']
/-- does the function read its input column on a track of `n` observations? (reads are per observation) -/
def voidReads (f : Str) (n : Nat) : Bool :=
  if f = ['I'] || f = ['D'] then decide (2 ≤ n) else if f = ['D', '2'] then decide (3 ≤ n) else decide (1 ≤ n)
/-- Log: `math.log(val) if val > 0 else 0` -/
def logAt (x : α) : Except Err α := if lt zero x then log x else .ok zero
/-- Diode: `x * (x > 0)` -/
def diode (x : α) : α := mul x (ofBool (lt zero x))
/-- Sign: `1 * (x >= 0) - 1 * (x < 0)` -/
def sign (x : α) : α := sub (ofBool (le zero x)) (ofBool (lt x zero))
/-- the void functions; `ABS` (Rectifier) is `abs` since fix 8378be5 (it used to be `-x*(x<0) + x*(x>0)`, NaN at ±inf) -/
def voidFn (f : Str) (n : Nat) (c : List α) : Except Err (List α) :=
  if f = ['I'] then .ok (integ c) else if f = ['D'] then .ok (diff c) else if f = ['D', '2'] then .ok (diff2 n c)
  else if f = ['A', 'B', 'S'] then .ok (c.map abs) else if f = ['S', 'Q', 'R', 'T'] then mapM' sqrt c
  else if f = logName then mapM' logAt c
  else if f = ['D', 'I', 'O', 'D', 'E'] then .ok (c.map diode) else if f = ['S', 'I', 'G', 'N'] then .ok (c.map sign)
  else if f = ['E', 'X', 'P'] then mapM' exp c
  else if f = ['C', 'O', 'S'] then mapM' cos c else if f = ['S', 'I', 'N'] then mapM' sin c
  else if f = ['T', 'A', 'N'] then mapM' tan c
  else .error "err:unsupported"

def skipNaN (c : List α) : List α := c.filter (fun v => !isNaN v)
def sumL (c : List α) : α := (skipNaN c).foldl add zero
/-- Averager: `mean / count` (0/0 on integers raises) -/
def avgL (c : List α) : Except Err α :=
  let v := skipNaN c
  if v.isEmpty then .error "err:zerodiv" else .ok (div (v.foldl add zero) (ofNat v.length))
/-- Min / Max: `minimum = float('inf')`, `if val < minimum: minimum = val` (fix 68863c7: the start value used to be
    `1e300`); NaN never compares below, so it is skipped; on an empty or all-NaN feature the start value comes back -/
def minL (c : List α) : α := c.foldl (fun m v => if lt v m then v else m) inf
def maxL (c : List α) : α := c.foldl (fun m v => if lt m v then v else m) (neg inf)
/-- the loops of Argmin / Argmax since fix b728412: `minimum = float('inf')`, `idmin = None`,
    `if val < minimum or (idmin is None and val == minimum): minimum = val; idmin = i`; the index is an `Option`
    (it used to start at 0 and move on a strict improvement only: `[nan, inf, inf]` gave 0, the index of the NaN) -/
def argLoop (better : α → α → Bool) : List α → Nat → α → Option Nat → Option Nat
  | [], _, _, best => best
  | v :: vs, i, cur, best =>
    if better v cur || (best.isNone && eq v cur) then argLoop better vs (i + 1) v (some i)
    else argLoop better vs (i + 1) cur best
/-- `return 0 if idmin is None else idmin` -/
def argminL (c : List α) : α := ofNat ((argLoop (fun v m => lt v m) c 0 inf none).getD 0)
def argmaxL (c : List α) : α := ofNat ((argLoop (fun v m => lt m v) c 0 (neg inf) none).getD 0)
/-- order of `np.argsort`: NaN last -/
def leNaNLast (a b : α) : Bool := if isNaN b then true else if isNaN a then false else !(lt b a)
def sortL (c : List α) : List α := c.mergeSort leNaNLast
/-- the middle order statistic(s) as `Median` / `Mad` pick them -/
def middle (c : List α) : Except Err α :=
  let s := sortL c
  let N := s.length
  if N = 0 then .error "err:index"
  else if N % 2 = 0 then .ok (mul half (add (s.getD (N / 2 - 1) nan) (s.getD (N / 2) nan)))
  else .ok (s.getD (N / 2) nan)
def madL (c : List α) : Except Err α := middle ((skipNaN c).map abs)
/-- Variance: `mean = AVERAGER`, then `var += (x - mean) ** 2` over the non-NaN values, `var / count` -/
def varL (c : List α) : Except Err α := do
  let m ← avgL c
  let v := skipNaN c
  let sq ← mapM' (fun x => pow (sub x m) two) v
  pure (div (sq.foldl add zero) (ofNat v.length))
/-- StdDev: `math.sqrt(VARIANCE)` -/
def stdL (c : List α) : Except Err α := do
  let v ← varL c
  sqrt v
/-- Mse: `mse += x ** 2` over the non-NaN values, `mse / count` (0/0 on integers raises) -/
def mseL (c : List α) : Except Err α := do
  let v := skipNaN c
  let sq ← mapM' (fun x => pow x two) v
  if v.isEmpty then .error "err:zerodiv" else pure (div (sq.foldl add zero) (ofNat v.length))
/-- Rmse: `math.sqrt(MSE)` -/
def rmseL (c : List α) : Except Err α := do
  let m ← mseL c
  sqrt m

def isAggFn (f : Str) : Bool :=
  f = ['S', 'U', 'M'] || f = ['A', 'V', 'G'] || f = ['M', 'I', 'N'] || f = ['M', 'A', 'X'] || f = ['M', 'E', 'D', 'I', 'A', 'N']
    || f = ['M', 'A', 'D'] || f = ['S', 'T', 'D'] || f = ['V', 'A', 'R'] || f = ['M', 'S', 'E'] || f = ['R', 'M', 'S', 'E']
    || f = ['A', 'R', 'G', 'M', 'I', 'N'] || f = ['A', 'R', 'G', 'M', 'A', 'X']
def aggFn (f : Str) (c : List α) : Except Err α :=
  if f = ['S', 'U', 'M'] then .ok (sumL c) else if f = ['A', 'V', 'G'] then avgL c
  else if f = ['M', 'I', 'N'] then .ok (minL c) else if f = ['M', 'A', 'X'] then .ok (maxL c)
  else if f = ['M', 'E', 'D', 'I', 'A', 'N'] then middle c else if f = ['M', 'A', 'D'] then madL c
  else if f = ['S', 'T', 'D'] then stdL c else if f = ['V', 'A', 'R'] then varL c
  else if f = ['M', 'S', 'E'] then mseL c else if f = ['R', 'M', 'S', 'E'] then rmseL c
  else if f = ['A', 'R', 'G', 'M', 'I', 'N'] then .ok (argminL c) else if f = ['A', 'R', 'G', 'M', 'A', 'X'] then .ok (argmaxL c)
  else .error "err:unsupported"

/-! ## Operator objects through `Track.operate(operator, …)` -/

/-- result of an action on the track: value or error, and the track as it is left -/
abbrev Res (α β : Type) := Except Err β × Tr α

/-- a void operator's `execute`: `createAnalyticalFeature(out)`, compute `temp` from the inputs
    (nothing is written if that raises — but `out` has been created), `addListToAF(out, temp)` -/
def runVoid (tr : Tr α) (out : Str) (compute : Tr α → Except Err (List α)) : Res α (List α) :=
  match createAF tr out (konst tr zero) with
  | .error e => (.error e, tr)
  | .ok tr1 =>
    match compute tr1 with
    | .error e => (.error e, tr1)
    | .ok temp =>
      match writeAF tr1 out temp with
      | .error e => (.error e, tr1)
      | .ok tr2 => (.ok temp, tr2)

def opBin (tr : Tr α) (o : Char) (in1 in2 out : Str) : Res α (List α) :=
  runVoid tr out (fun t => do let a ← getAF t in1; let b ← getAF t in2; vvOp o a b)
/-- the scalar operators `s+ … s<`: ScalarDivider included, which since fixes 5676890 / 2dd86ce has the shape of the others
    (`createAnalyticalFeature(out)`, `temp[i] = x[i] / number` — ZeroDivisionError at the first observation for a zero
    number, `out` already created —, `addListToAF`); it used to evaluate `1.0 / number` before anything was created -/
def opScal (tr : Tr α) (o : Char) (inp : Str) (s : α) (out : Str) : Res α (List α) :=
  runVoid tr out (fun t => do let a ← getAF t inp; vsOp o a s)
/-- `sr+ … sr<`: ScalarRevDivider included (`temp[i] = number / x[i]` after `createAnalyticalFeature(out)`) -/
def opScalRev (tr : Tr α) (o : Char) (inp : Str) (s : α) (out : Str) : Res α (List α) :=
  runVoid tr out (fun t => do let a ← getAF t inp; svOp o s a)
/-- the input column of a void function. The reads are per observation inside the loops: on a track
    too short for the loop body to run, an unknown input name is never looked up (the column, when it
    exists, is then not used either) -/
def voidInput (t : Tr α) (f inp : Str) : Except Err (List α) :=
  if voidReads f t.n then getAF t inp
  else match getAF t inp with
    | .ok c => .ok c
    | .error _ => .ok []
def voidCompute (f inp : Str) (t : Tr α) : Except Err (List α) := do
  let a ← voidInput t f inp
  voidFn f t.n a
/-- `Log.execute`: the values are computed first and then stored with `track[af_output] = temp`
    (`updateAnalyticalFeature` when the name is known — a coordinate name then raises KeyError —, else
    `createAnalyticalFeature` with the list); the method returns nothing -/
def opLog (tr : Tr α) (inp out : Str) : Res α (List α) :=
  match voidCompute logName inp tr with
  | .error e => (.error e, tr)
  | .ok temp =>
    if hasAF tr out then
      match updateAF tr out temp with
      | .error e => (.error e, tr)
      | .ok tr1 => (.ok temp, tr1)
    else
      match createAF tr out temp with
      | .error e => (.error e, tr)
      | .ok tr1 => (.ok temp, tr1)
def opVoidFn (tr : Tr α) (f : Str) (inp out : Str) : Res α (List α) :=
  if f = logName then opLog tr inp out else runVoid tr out (voidCompute f inp)
def opAgg (tr : Tr α) (f : Str) (inp : Str) : Except Err α := do
  let a ← getAF tr inp
  aggFn f a

/-! ## `__applyOperation` / `__evaluateRPN` -/

/-- what the Python stack holds: a token, a folded number (float or bool), or `None` (result of `=`) -/
inductive Item (α : Type) where
  | tok (s : Str)
  | num (v : α)
  | unit

def litOf (s : Str) : Option α := (parseLit s).map litVal

/-- `isfloat(op)` together with `float(op)`; `float(None)` is a TypeError, which `isfloat` does not catch -/
def isFloat : Item α → Except Err (Option α)
  | .tok s => .ok (litOf s)
  | .num v => .ok (some v)
  | .unit => .error "err:type"

/-- `float(op)` -/
def toFloat : Item α → Except Err α
  | .tok s => match litOf s with | some v => .ok v | none => .error "err:value"
  | .num v => .ok v
  | .unit => .error "err:type"

def itemHasAF (tr : Tr α) : Item α → Bool
  | .tok s => hasAF tr s
  | _ => false

def tmpName (k : Nat) : Str := '#' :: (toString k).toList
def isTemp (s : Str) : Bool := s.head? == some '#'

def binOps : List Char := ['+', '-', '*', '/', '^', '>', '<']

/-- `setXFromAnalyticalFeature` / `setY…` / `setZ…`: one coordinate column replaced -/
def setCoord (tr : Tr α) (l : Str) (c : List α) : Tr α :=
  if l = ['x'] then { tr with xs := c } else if l = ['y'] then { tr with ys := c } else { tr with zs := c }

/-- the `operator == "="` branch -/
def assign (tr : Tr α) (op1 op2 : Item α) : Res α Unit :=
  match op1 with
  | .tok l =>
    if itemHasAF tr op2 then
      match op2 with
      | .tok r =>
        if hasAF tr l then
          if l = ['x'] || l = ['y'] || l = ['z'] then
            match getAF tr r with
            | .error e => (.error e, tr)
            | .ok c =>
              let tr1 := setCoord tr l c
              if isTemp r then
                match removeAF tr1 r with
                | .error e => (.error e, tr1)
                | .ok tr2 => (.ok (), tr2)
              else (.ok (), tr1)
          else if l = ['t'] then (.error "err:unsupported", tr)
          else
            match getAF tr r with
            | .error e => (.error e, tr)
            | .ok c =>
              match removeAF tr l with
              | .error e => (.error e, tr)
              | .ok tr1 =>
                match createAF tr1 l c with
                | .error e => (.error e, tr1)
                | .ok tr2 => (.ok (), tr2)
        else
          match getAF tr r with
          | .error e => (.error e, tr)
          | .ok c =>
            match createAF tr l c with
            | .error e => (.error e, tr)
            | .ok tr1 => (.ok (), tr1)
      | _ => (.error "err:unsupported", tr)
    else if l = ['x'] || l = ['y'] || l = ['z'] then
      -- `for i in range(self.size()): self.setObsAnalyticalFeature(op1, i, float(op2))` (fix 144a468):
      -- `float(op2)` is evaluated inside the loop, so nothing is evaluated (or raised) on an empty track
      if tr.n = 0 then (.ok (), tr)
      else
        match toFloat op2 with
        | .error e => (.error e, tr)
        | .ok v => (.ok (), setCoord tr l (konst tr v))
    else
      match toFloat op2 with
      | .error e => (.error e, tr)
      | .ok v =>
        if hasAF tr l then
          match updateAF tr l (konst tr v) with
          | .error e => (.error e, tr)
          | .ok tr1 => (.ok (), tr1)
        else
          match createAF tr l (konst tr v) with
          | .error e => (.error e, tr)
          | .ok tr1 => (.ok (), tr1)
  | .unit =>
    -- `hasAnalyticalFeature(None)` is False and `createAnalyticalFeature(None, …)` returns at once
    if itemHasAF tr op2 then
      match op2 with
      | .tok r => match getAF tr r with
        | .error e => (.error e, tr)
        | .ok _ => (.ok (), tr)
      | _ => (.error "err:unsupported", tr)
    else
      match toFloat op2 with
      | .error e => (.error e, tr)
      | .ok _ => (.ok (), tr)
  | .num _ => (.error "err:unsupported", tr)

/-- the `operator == "@"` branch -/
def applyCall (tr : Tr α) (op1 op2 : Item α) (k : Nat) : Res α (Item α) :=
  let out := tmpName k
  match op1 with
  | .tok f =>
    if isVoidFn f then
      match op2 with
      | .tok a => match opVoidFn tr f a out with
        | (.ok _, tr1) => (.ok (.tok out), tr1)
        | (.error e, tr1) => (.error e, tr1)
      | _ => (.error "err:type", tr)
    else if isAggFn f then
      match op2 with
      | .tok a =>
        match opAgg tr f a with
        | .error e => (.error e, tr)
        | .ok v =>
          match createAF tr out (konst tr v) with
          | .error e => (.error e, tr)
          | .ok tr1 => (.ok (.tok out), tr1)
      | _ => (.error "err:type", tr)
    else if namesVoid.contains f || namesNonVoid.contains f then (.error "err:unsupported", tr)
    else (.error "err:exit", tr)
  | _ => (.error "err:exit", tr)

/-- `Track.__applyOperation(op1, op2, operator, temp_af_counter)` -/
def applyOperation (tr : Tr α) (op1 op2 : Item α) (o : Char) (k : Nat) : Res α (Item α) :=
  if o = '=' then
    match assign tr op1 op2 with
    | (.ok _, tr1) => (.ok .unit, tr1)
    | (.error e, tr1) => (.error e, tr1)
  else
    -- `isfloat(op1) and isfloat(op2)`
    match isFloat op1 with
    | .error e => (.error e, tr)
    | .ok f1 =>
      match (match f1 with | some _ => isFloat op2 | none => .ok none) with
      | .error e => (.error e, tr)
      | .ok f2 =>
        match f1, f2 with
        | some a, some b =>
          if binOps.contains o then
            match litOp o a b with
            | .ok v => (.ok (.num v), tr)
            | .error e => (.error e, tr)
          -- both operands have been rebound to floats: `"Function '" + op1 + …` is a TypeError
          else if o = '@' then (.error "err:type", tr)
          else (.error "err:unsupported", tr)
        | _, _ =>
          if o = '@' then applyCall tr op1 op2 k
          else if !binOps.contains o then (.error "err:unsupported", tr)
          else
            let out := tmpName k
            match op1, op2, itemHasAF tr op1, itemHasAF tr op2 with
            | .tok a, .tok b, true, true =>
              match opBin tr o a b out with
              | (.ok _, tr1) => (.ok (.tok out), tr1)
              | (.error e, tr1) => (.error e, tr1)
            | .tok a, _, true, false =>
              match toFloat op2 with
              | .error e => (.error e, tr)
              | .ok s =>
                match opScal tr o a s out with
                | (.ok _, tr1) => (.ok (.tok out), tr1)
                | (.error e, tr1) => (.error e, tr1)
            | _, .tok b, false, true =>
              match toFloat op1 with
              | .error e => (.error e, tr)
              | .ok s =>
                match opScalRev tr o b s out with
                | (.ok _, tr1) => (.ok (.tok out), tr1)
                | (.error e, tr1) => (.error e, tr1)
            | _, _, _, _ => (.error "err:exit", tr)

def isOperatorTok (e : Str) : Option Char :=
  match e with
  | [c] => if ['=', '+', '-', '*', '/', '^', '@', '&', '$', '<', '>', '%', '!'].contains c then some c else none
  | _ => none

/-- `Track.__evaluateRPN`: the loop over the postfix tokens -/
def evalRPN (tr : Tr α) : List Str → List (Item α) → Nat → Res α (List (Item α))
  | [], st, _ => (.ok st, tr)
  | e :: es, st, k =>
    match isOperatorTok e with
    | some o =>
      match st with
      | op2 :: op1 :: st' =>
        match applyOperation tr op1 op2 o k with
        | (.ok r, tr1) => evalRPN tr1 es (r :: st') (k + 1)
        | (.error err, tr1) => (.error err, tr1)
      | _ => (.error "err:index", tr)
    | none => evalRPN tr es (.tok e :: st) k

/-- the `finally` of `Track.operate`: every listed name starting with `#` is removed -/
def purge (tr : Tr α) : Tr α := { tr with feats := tr.feats.filter (fun p => !isTemp p.1) }

def outputName : Str := ['#', 'o', 'u', 't', 'p', 'u', 't']

/-- the end of `Track.__evaluate`, from the postfix token list on: run the stack machine, then fetch
    and remove `#output` when the expression had no `=` -/
def evalTokens (tr : Tr α) (rpn : List Str) (void : Bool) : Res α (Option (List α)) :=
  match evalRPN tr rpn [] 0 with
  | (.error e, tr1) => (.error e, tr1)
  | (.ok _, tr1) =>
    if void then (.ok none, tr1)
    else
      match getAF tr1 outputName with
      | .error e => (.error e, tr1)
      | .ok c =>
        match removeAF tr1 outputName with
        | .error e => (.error e, tr1)
        | .ok tr2 => (.ok (some c), tr2)

/-- `Track.operate` on a postfix token list: evaluation followed by the purge of the `finally` clause -/
def operateTokens (tr : Tr α) (rpn : List Str) (void : Bool) : Res α (Option (List α)) :=
  let r := evalTokens tr rpn void
  (r.1, purge r.2)

/-- `Track.__evaluate` from the rewritten string on: `makeRPN`, `__double_prime`, the stack machine -/
def evaluateRewritten (tr : Tr α) (s : Str) (void : Bool) : Res α (Option (List α)) :=
  match makeRPN s with
  | .error e => (.error e, tr)
  | .ok rpn0 =>
    match doublePrime rpn0 with
    | .error e => (.error e, tr)
    | .ok rpn => evalTokens tr rpn void

/-- `Track.operate` from the rewritten string on (evaluation, then the purge) -/
def operateRewritten (tr : Tr α) (s : Str) (void : Bool) : Res α (Option (List α)) :=
  let r := evaluateRewritten tr s void
  (r.1, purge r.2)

/-- `Track.__evaluate` -/
def evaluate (tr : Tr α) (expr : Str) : Res α (Option (List α)) :=
  match preprocess expr with
  | .error e => (.error e, tr)
  | .ok (s, void) => evaluateRewritten tr s void

/-- `Track.operate(expression)` -/
def operate (tr : Tr α) (expr : Str) : Res α (Option (List α)) :=
  let r := evaluate tr expr
  (r.1, purge r.2)

/-! ## externals: `Track.operate(expression, {'name': value, …})` -/

def lookupExt (s : Str) : List (Str × α) → Option α
  | [] => none
  | (k, v) :: rest => if k = s then some v else lookupExt s rest

/-- `__evaluateRPN(expression, external)`: a token that is a key of the dictionary `external` (the operator tokens
    excepted: they are tested first) is replaced by its value — a number — before it is pushed -/
def evalRPNx (ext : List (Str × α)) (tr : Tr α) : List Str → List (Item α) → Nat → Res α (List (Item α))
  | [], st, _ => (.ok st, tr)
  | e :: es, st, k =>
    match isOperatorTok e with
    | some o =>
      match st with
      | op2 :: op1 :: st' =>
        match applyOperation tr op1 op2 o k with
        | (.ok r, tr1) => evalRPNx ext tr1 es (r :: st') (k + 1)
        | (.error err, tr1) => (.error err, tr1)
      | _ => (.error "err:index", tr)
    | none =>
      match lookupExt e ext with
      | some v => evalRPNx ext tr es (.num v :: st) k
      | none => evalRPNx ext tr es (.tok e :: st) k

/-- `evalTokens` with externals -/
def evalTokensX (ext : List (Str × α)) (tr : Tr α) (rpn : List Str) (void : Bool) : Res α (Option (List α)) :=
  match evalRPNx ext tr rpn [] 0 with
  | (.error e, tr1) => (.error e, tr1)
  | (.ok _, tr1) =>
    if void then (.ok none, tr1)
    else
      match getAF tr1 outputName with
      | .error e => (.error e, tr1)
      | .ok c =>
        match removeAF tr1 outputName with
        | .error e => (.error e, tr1)
        | .ok tr2 => (.ok (some c), tr2)

def evaluateRewrittenX (ext : List (Str × α)) (tr : Tr α) (s : Str) (void : Bool) : Res α (Option (List α)) :=
  match makeRPN s with
  | .error e => (.error e, tr)
  | .ok rpn0 =>
    match doublePrime rpn0 with
    | .error e => (.error e, tr)
    | .ok rpn => evalTokensX ext tr rpn void

def evaluateX (ext : List (Str × α)) (tr : Tr α) (expr : Str) : Res α (Option (List α)) :=
  match preprocess expr with
  | .error e => (.error e, tr)
  | .ok (s, void) => evaluateRewrittenX ext tr s void

/-- `Track.operate(expression, external)`: as `operate`, the stack machine reading the externals -/
def operateX (ext : List (Str × α)) (tr : Tr α) (expr : Str) : Res α (Option (List α)) :=
  let r := evaluateX ext tr expr
  (r.1, purge r.2)

/-- the characters `Track.__getitem__` looks for to decide that a string is an expression (the opening brace of a
    function call among them since fix 396f8f9) -/
def exprChars : List Char := ['+', '-', '/', '*', '^', '>', '<', '(', ')', '=', '\'', '{']

/-- `Track.__getitem__(n)` with a string: `n.strip()`, then `operate(n)` when `n` contains one of `exprChars`,
    else `getAnalyticalFeature(n)` -/
def getitemStr (tr : Tr α) (n : Str) : Res α (Option (List α)) :=
  let n := strip n
  if n.any (fun c => exprChars.contains c) then operate tr n
  else match getAF tr n with
    | .ok c => (.ok (some c), tr)
    | .error e => (.error e, tr)

/-- `Track.operate(operator, arg1, …, out)`: "when output AF name is not provided, it is automatically set as the
    first AF input" (`if arg3 == None: arg3 = arg1`) -/
def defaultOut (out : Option Str) (in1 : Str) : Str := out.getD in1

/-! ## Specification side: expression trees -/

inductive Ex where
  | num (s : Str)
  | var (s : Str)
  | bin (o : Char) (l r : Ex)
  | call (f : Str) (e : Ex)

/-- postfix form -/
def post : Ex → List Str
  | .num s => [s]
  | .var s => [s]
  | .bin o l r => post l ++ post r ++ [[o]]
  | .call f e => [f] ++ post e ++ [['@']]

/-- a value of the tree semantics: a number (literal-only subtree) or one value per observation -/
inductive Val (α : Type) where
  | lit (v : α)
  | vec (c : List α)

def nodeBin (o : Char) : Val α → Val α → Except Err (Val α)
  | .lit a, .lit b => (litOp o a b).map .lit
  | .vec a, .vec b => (vvOp o a b).map .vec
  | .vec a, .lit s => (vsOp o a s).map .vec
  | .lit s, .vec a => (svOp o s a).map .vec

def nodeCall (n : Nat) (f : Str) : Val α → Except Err (Val α)
  | .vec a =>
    if isVoidFn f then (voidFn f n a).map .vec
    else if isAggFn f then (aggFn f a).map (fun v => .vec (List.replicate n v))
    else .error "err:unsupported"
  | .lit _ => .error "err:type"

/-- tree semantics with the operator definitions as coded (structural recursion; no stack, no names
    other than those of the tree, no temporaries) -/
def denoteM (tr : Tr α) : Ex → Except Err (Val α)
  | .num s => match litOf s with | some v => .ok (.lit v) | none => .error "err:value"
  | .var s => (getAF tr s).map .vec
  | .bin o l r => do
    let a ← denoteM tr l
    let b ← denoteM tr r
    nodeBin o a b
  | .call f e => do
    let a ← denoteM tr e
    nodeCall tr.n f a

/-- what `operate` returns for a value: numbers are broadcast -/
def Val.toVec (n : Nat) : Val α → List α
  | .lit v => List.replicate n v
  | .vec c => c

end
end TV.Expr
