import TracklibVerif.Model.ObsTimeG
/-! Model of the `zone` attribute of `ObsTime` (tracklib/core/obs_time.py) and of the functions around it, and of
the *object* behaviour of the conversions (which call returns a new object, which one writes into an existing one).

* `ObsZ` — an `ObsTime` object: the seven calendar fields (`StampZ`) and `zone`.
* `readUnixZ`, `addZ`, `rtZ` — `readUnixTime`, `addSec/addMin/addHour/addDay`, `readUnixTime(t.toAbsTime())`: the
  result is built from `ObsTime()`, so its zone is **0** whatever the zone of the operand.
* `toAbsZ`, the comparisons, `subZ` — `toAbsTime`, `__lt__ … __ne__`, `__sub__` never read `zone`.
* `convertToZoneG` — `convertToZone(zone)`: `readUnixTime(self.toAbsTime() + 3600 * (zone - self.zone))`, then
  `new_time.zone = zone`. `convertToZoneMs` is its integer-millisecond form (what it is in exact arithmetic).
* `printZone`, `timeWithZone`, `dayOfWeekG` — `printZone()`, `timeWithZone()` (its fixed print format
  `4Y-2M-2DT2h:2m:2s` followed by the zone code), `getDayOfWeek()`.
* `setTimeZone`, `getTimeZone`, `convertToTimeZone`, `addSeconds` — the `Track` methods of core/track.py on the list of
  the timestamps of a track.
* `Op`, `step`, `run` — a small interpreter of *programs* over a store of `ObsTime` objects: every constructor,
  conversion or copy **appends a new object** to the store (Python: returns a fresh object); only an attribute
  assignment (`set`) and `Track.setTimeZone` (`tset`) write into existing objects. The harness runs the same
  program on real objects and compares every output, the final state of every object and which objects are
  identical (`is`): a conversion that hands out an object it handed out before (a cache), or that writes into its
  operand, shows as a disagreement, and — through the oracle on the later results — as a failing input.

Core Lean only; scalar-polymorphic like `Model/ObsTimeG.lean` (the driver runs it at `Float`). -/
namespace TV.ObsTime

/-- An `ObsTime` object: calendar fields and the `zone` attribute. -/
structure ObsZ where
  t : StampZ
  zone : Int
  deriving DecidableEq, Repr

/-- `convertToZone` on integer milliseconds: a stamp labelled `z0`, relabelled `z`, moves by `z - z0` whole hours.
`Int.toNat`: an instant before 1970 is outside the integer model (the theorems assume it is not). -/
def convertToZoneMs (t : Stamp) (z0 z : Int) : Stamp :=
  readUnixMs ((toAbsMs t : Int) + 3600000 * (z - z0)).toNat

/-- `"{:02d}".format(n)` for `n ≥ 0` -/
def pad2 (n : Nat) : String := if n < 10 then "0" ++ toString n else toString n

/-- `"{:0wd}".format(n)`: the sign counts in the width -/
def zpadI (w : Nat) (n : Int) : String :=
  let digits (k : Nat) (m : Nat) : String := "".pushn '0' (k - (toString m).length) ++ toString m
  if n < 0 then "-" ++ digits (w - 1) n.natAbs else digits w n.toNat

/-- `printZone()`: `Z` for zone 0, else sign, two digits, `:00` -/
def printZone (z : Int) : String :=
  if z == 0 then "Z"
  else if z > 0 then "+" ++ pad2 z.toNat ++ ":00"
  else "-" ++ pad2 z.natAbs ++ ":00"

/-- `timeWithZone()`: `str(self)` under the print format `4Y-2M-2DT2h:2m:2s`, then `printZone()`
(the print format in force before the call is put back: the model has no format state to change) -/
def timeWithZone (o : ObsZ) : String :=
  zpadI 4 o.t.year ++ "-" ++ zpadI 2 o.t.month ++ "-" ++ zpadI 2 o.t.day ++ "T" ++ zpadI 2 o.t.hour ++ ":"
    ++ zpadI 2 o.t.min ++ ":" ++ zpadI 2 o.t.sec ++ printZone o.zone

/-- `ObsTime.__day_names` -/
def dayNames : List String := ["Mon", "Tue", "Wed", "Thu", "Fri", "Sat", "Sun"]

inductive AddUnit where
  | sec | min | hour | day
  deriving DecidableEq, Repr

section
variable {α : Type} [Add α] [Sub α] [Mul α] [Div α] [LT α] [DecidableLT α] [IntCast α]

/-- `ObsTime.readUnixTime(x)`: `time = ObsTime()` (zone 0), fields filled in -/
def readUnixZ (trunc : α → Int) (x : α) : Option ObsZ := (readUnixG trunc x).map (⟨·, 0⟩)

/-- `toAbsTime()`: the zone is not read -/
def toAbsZ (o : ObsZ) : α := toAbsG o.t

/-- `addSec/addMin/addHour/addDay(nb)`: `ObsTime.readUnixTime(self.toAbsTime() + nb [* 60 | 3600 | 86400])` -/
def addZ (trunc : α → Int) (u : AddUnit) (o : ObsZ) (nb : α) : Option ObsZ :=
  (match u with
   | .sec => addSecG trunc o.t nb
   | .min => addMinG trunc o.t nb
   | .hour => addHourG trunc o.t nb
   | .day => addDayG trunc o.t nb).map (⟨·, 0⟩)

/-- `ObsTime.readUnixTime(t.toAbsTime())` -/
def rtZ (trunc : α → Int) (o : ObsZ) : Option ObsZ := readUnixZ trunc (toAbsZ o : α)

/-- `convertToZone(zone)`: `shift = zone - self.zone` (integers), `readUnixTime(self.toAbsTime() + 3600 * shift)`,
`new_time.zone = zone` -/
def convertToZoneG (trunc : α → Int) (o : ObsZ) (zone : Int) : Option ObsZ :=
  (readUnixG trunc (toAbsG o.t + ((3600 * (zone - o.zone) : Int) : α))).map (⟨·, zone⟩)

/-- `__sub__` -/
def subZ (a b : ObsZ) : α := subG a.t b.t

/-- `getDayOfWeek()`: index `((int)(seconds / 86400) + 3) % 7` in `__day_names` (Python's `%`: non-negative) -/
def dayOfWeekG (trunc : α → Int) (o : ObsZ) : Int :=
  (trunc ((toAbsG o.t : α) / ((86400 : Int) : α)) + 3) % 7

/-! ### `Track.setTimeZone / getTimeZone / convertToTimeZone / addSeconds` on the timestamps of a track -/

/-- `for i in range(len(self)): self[i].timestamp.zone = zone` -/
def setTimeZone (z : Int) (l : List ObsZ) : List ObsZ := l.map fun o => { o with zone := z }

/-- `self.getFirstObs().timestamp.zone` (`none`: IndexError on an empty track) -/
def getTimeZone (l : List ObsZ) : Option Int := l.head?.map (·.zone)

/-- `self[i].timestamp = self[i].timestamp.convertToZone(zone)` for every `i` -/
def convertToTimeZone (trunc : α → Int) (z : Int) (l : List ObsZ) : Option (List ObsZ) :=
  l.mapM (convertToZoneG (α := α) trunc · z)

/-- `Track.addSeconds(sec_number)`: `timestamp = timestamp.addSec(sec_number)` for every observation -/
def addSeconds (trunc : α → Int) (nb : α) (l : List ObsZ) : Option (List ObsZ) :=
  l.mapM (addZ trunc .sec · nb)

/-! ### programs over a store of objects -/

/-- one statement of a program; `i`, `j` are slots of the store (objects in the order of their creation) -/
inductive Op (α : Type) where
  | new (t : StampZ) (zone : Int)          -- `ObsTime(y, m, d, h, mi, s, ms, zone)`
  | read (x : α)                           -- `ObsTime.readUnixTime(x)`
  | add (i : Nat) (u : AddUnit) (nb : α)   -- `o.addSec(nb)` …
  | conv (i : Nat) (zone : Int)            -- `o.convertToZone(zone)`
  | copy (i : Nat)                         -- `o.copy()`
  | rt (i : Nat)                           -- `a = o.toAbsTime(); ObsTime.readUnixTime(a)`
  | set (i : Nat) (field : Nat) (v : Int)  -- `o.<field> = v` (0 year … 6 ms, 7 zone)
  | abs (i : Nat)                          -- `o.toAbsTime()`
  | cmp (i j : Nat)                        -- the six comparison operators
  | sub (i j : Nat)                        -- `a - b`
  | pz (i : Nat)                           -- `o.printZone()`
  | tz (i : Nat)                           -- `o.timeWithZone()`
  | dow (i : Nat)                          -- `o.getDayOfWeek()`
  | trk (is : List Nat)                    -- `Track([Obs(p, o_i) …])`: the track refers to the objects themselves
  | tget                                   -- `track.getTimeZone()`
  | tset (zone : Int)                      -- `track.setTimeZone(zone)`: writes into the objects of the track
  | tconv (zone : Int)                     -- `track.convertToTimeZone(zone)`: new objects replace the old ones in the track
  | tadd (nb : α)                          -- `track.addSeconds(nb)`: the same

/-- what a statement yields -/
inductive Out (α : Type) where
  | obj (o : ObsZ)                 -- a new object (it is the last slot of the store)
  | absobj (a : α) (o : ObsZ)      -- `rt`: the seconds and the object read from them
  | objs (l : List ObsZ)           -- new objects, in track order
  | scalar (x : α)
  | cmpo (l : List Bool) (a b : α)  -- `cmp`: the six operators, and the `toAbsTime()` of both operands
  | str (s : String)
  | int (z : Int)
  | unit
  | err (e : String)               -- `slot`: no such object (malformed program); `nonterm`; `index`

structure State where
  store : List ObsZ
  track : List Nat

def State.empty : State := ⟨[], []⟩

/-- attribute assignment -/
def setField (o : ObsZ) (field : Nat) (v : Int) : ObsZ :=
  match field with
  | 0 => { o with t := { o.t with year := v.toNat } }
  | 1 => { o with t := { o.t with month := v.toNat } }
  | 2 => { o with t := { o.t with day := v } }
  | 3 => { o with t := { o.t with hour := v } }
  | 4 => { o with t := { o.t with min := v } }
  | 5 => { o with t := { o.t with sec := v } }
  | 6 => { o with t := { o.t with ms := v } }
  | _ => { o with zone := v }

/-- a statement that returns a new object: the store grows by exactly that object, nothing else changes -/
def push (σ : State) (r : Option ObsZ) : State × Out α :=
  match r with
  | some o => ({ σ with store := σ.store ++ [o] }, .obj o)
  | none => (σ, .err "nonterm")

/-- a `Track` method that replaces every timestamp of the track by a new object -/
def pushTrack (σ : State) (rs : Option (List ObsZ)) : State × Out α :=
  match rs with
  | some l => (⟨σ.store ++ l, (List.range l.length).map (· + σ.store.length)⟩, .objs l)
  | none => (σ, .err "nonterm")

def withObj (σ : State) (i : Nat) (k : ObsZ → State × Out α) : State × Out α :=
  match σ.store[i]? with
  | some o => k o
  | none => (σ, .err "slot")

def step (trunc : α → Int) (σ : State) : Op α → State × Out α
  | .new t z => push σ (some ⟨t, z⟩)
  | .read x => push σ (readUnixZ trunc x)
  | .add i u nb => withObj σ i fun o => push σ (addZ trunc u o nb)
  | .conv i z => withObj σ i fun o => push σ (convertToZoneG (α := α) trunc o z)
  | .copy i => withObj σ i fun o => push σ (some o)
  | .rt i => withObj σ i fun o =>
      match rtZ (α := α) trunc o with
      | some r => ({ σ with store := σ.store ++ [r] }, .absobj (toAbsZ o) r)
      | none => (σ, .err "nonterm")
  | .set i f v => withObj σ i fun o => ({ σ with store := σ.store.set i (setField o f v) }, .unit)
  | .abs i => withObj σ i fun o => (σ, .scalar (toAbsZ o))
  | .cmp i j => withObj σ i fun a => withObj σ j fun b =>
      (σ, .cmpo [ltZ a.t b.t, gtZ a.t b.t, eqZ a.t b.t, leZ a.t b.t, geZ a.t b.t, neZ a.t b.t] (toAbsZ a) (toAbsZ b))
  | .sub i j => withObj σ i fun a => withObj σ j fun b => (σ, .scalar (subZ a b))
  | .pz i => withObj σ i fun o => (σ, .str (printZone o.zone))
  | .tz i => withObj σ i fun o => (σ, .str (timeWithZone o))
  | .dow i => withObj σ i fun o => (σ, .int (dayOfWeekG (α := α) trunc o))
  | .trk is => if is.all (· < σ.store.length) then ({ σ with track := is }, .unit) else (σ, .err "slot")
  | .tget =>
      match getTimeZone (σ.track.filterMap (σ.store[·]?)) with
      | some z => (σ, .int z)
      | none => (σ, .err "index")
  | .tset z => ({ σ with store := σ.track.foldl (fun s i => match s[i]? with
                                                          | some o => s.set i { o with zone := z }
                                                          | none => s) σ.store }, .unit)
  | .tconv z => pushTrack σ (convertToTimeZone (α := α) trunc z (σ.track.filterMap (σ.store[·]?)))
  | .tadd nb => pushTrack σ (addSeconds trunc nb (σ.track.filterMap (σ.store[·]?)))

/-- a program: the outputs of its statements in order, and the final state -/
def run (trunc : α → Int) : State → List (Op α) → State × List (Out α)
  | σ, [] => (σ, [])
  | σ, op :: rest =>
    let (σ1, o) := step trunc σ op
    let (σ2, os) := run trunc σ1 rest
    (σ2, o :: os)

end

end TV.ObsTime
