import TracklibVerif.Model.TextIO
/-! Sessions (property C13): the hidden class-level state of `ObsTime` as part of the model state.

`core/obs_time.py` keeps three class attributes: `__READ_FMT`, `__PRINT_FMT` and the memo table
`__PRECOMPILED_READ_FMT` (filled by `setReadFormat`, used by `readTimestamp`; in the class body it is a LITERAL list
written out for the default format). The library's own calls touch them: `writeToGpx` and `timeWithZone` set the print
format to `4Y-2M-2DT2h:2m:2s` and put the saved one back; `TrackFormat()` copies the read format into `time_fmt`;
`__readFromCsv` saves the read format, sets `fmt.time_fmt` (which recomputes the memo table), reads, and puts the saved
one back — unless an exception leaves the function first.

`step` is one operation of a session on that state; `readTimestampS` reads through the memo table of the state, not through
the format. -/
namespace TV.TextIO
open TV.ObsTime

/-- the class-level state of `ObsTime` -/
structure TState where
  readFmt : Str                            -- `ObsTime.__READ_FMT`
  printFmt : Str                           -- `ObsTime.__PRINT_FMT`
  pre : List ((Nat × Char) × Nat)          -- `ObsTime.__PRECOMPILED_READ_FMT`
  deriving DecidableEq, Repr

def defaultFmtStr : Str := "2D/2M/4Y 2h:2m:2s".toList
def isoFmtStr : Str := "4Y-2M-2DT2h:2m:2s".toList

/-- the class body of `ObsTime`: the two format strings and the literal precompiled list -/
def TState.init : TState :=
  ⟨defaultFmtStr, defaultFmtStr, [((2, 'D'), 0), ((2, 'M'), 3), ((4, 'Y'), 6), ((2, 'h'), 11), ((2, 'm'), 14), ((2, 's'), 17)]⟩

/-- `ObsTime.setReadFormat(format)`: the format and its memo table -/
def setReadFormat (st : TState) (f : Str) : TState := { st with readFmt := f, pre := precompile (tokenize f) }
/-- `ObsTime.setPrintFormat(format)` -/
def setPrintFormat (st : TState) (f : Str) : TState := { st with printFmt := f }
/-- `str(t)` in state `st` -/
def strS (st : TState) (t : Stamp) : Str := printTime (tokenize st.printFmt) t
/-- `ObsTime.readTimestamp(s)` / `ObsTime(s)` in state `st`: the loop over the MEMO TABLE -/
def readTimestampS (st : TState) (s : Str) : Option Stamp := readLoop st.pre s epoch

/-! ### the CSV reader with the timestamp reader as a parameter (the same definitions as `readRow` / `readLines` / `readCsv`) -/

def readRowG (rd : Str → Option Stamp) (f : CsvFmt) (line : Str) : Except String RRow := do
  let fields := (splitOnChar f.sep (strip line)).filter (fun s => !s.isEmpty)
  let time ←
    if f.idT ≠ -1 then do
      let fld ← nth fields (idx f.idT)
      let T := (strip fld).filter (· ≠ '"')
      pure (match rd T with | some t => t | none => epoch)
    else pure epoch
  let fe ← nth fields (idx f.idE)
  let fn ← nth fields (idx f.idN)
  let fu? ← if f.idU ≥ 0 then (do let u ← nth fields (idx f.idU); pure (some u)) else pure none
  let E ← match coordField fe true with | some v => pure v | none => throw "arg"
  let N ← match coordField fn true with | some v => pure v | none => throw "arg"
  if decTrunc E ≠ noData ∧ decTrunc N ≠ noData then
    let U ← match fu? with
      | some fu => (match coordField fu false with | some v => pure v | none => throw "value")
      | none => pure ((0, 0) : Dec)
    return ⟨E, N, U, time⟩
  else
    return ⟨(noData, 0), (noData, 0), (noData, 0), time⟩

def readLinesG (rd : Str → Option Stamp) (f : CsvFmt) (cmt : Char) : List Str → Except String (List RRow)
  | [] => pure []
  | l :: ls =>
    let s := strip l
    match s with
    | [] => pure []
    | c :: _ =>
      if c = cmt then readLinesG rd f cmt ls
      else do
        let r ← readRowG rd f s
        let rs ← readLinesG rd f cmt ls
        pure (r :: rs)

def readCsvG (rd : Str → Option Stamp) (f : CsvFmt) (header : Nat) (text : Str) : Except String (List RRow) := do
  let ls ← skipHeader header (fileLines text)
  readLinesG rd f '#' ls

/-! ### operations of a session -/

inductive SOp where
  | setRead (f : Str)                 -- the user: `ObsTime.setReadFormat(f)`
  | setPrint (f : Str)                -- the user: `ObsTime.setPrintFormat(f)`
  | print (t : Stamp)                 -- `str(t)`
  | read (s : Str)                    -- `ObsTime.readTimestamp(s)` / `ObsTime(s)`
  | readLast                          -- the same on the text of the last `print` / `tz` of the session
  | tz (t : Stamp)                    -- `t.timeWithZone()` (zone 0)
  | csv (f : CsvFmt) (geo : Bool) (h hr : Nat) (srid : Str) (rows : List Row)   -- `writeToFile` then `readFromCsv`
  | gpxw (name : Str) (rows : List GRow)                                       -- `writeToGpx(track, path)`

inductive SOut where
  | none
  | text (s : Str)
  | stamp (t : Option Stamp)
  | file (s : Str)
  | csv (w : Except String Str) (r : Except String (List RRow))

/-- one operation on the class-level state: the new state, what the caller sees -/
def step (st : TState) (last : Str) : SOp → TState × SOut
  | .setRead f => (setReadFormat st f, .none)
  | .setPrint f => (setPrintFormat st f, .none)
  | .print t => (st, .text (strS st t))
  | .read s => (st, .stamp (readTimestampS st s))
  | .readLast => (st, .stamp (readTimestampS st last))
  | .tz t =>
    let save := st.printFmt
    let st1 := setPrintFormat st isoFmtStr
    (setPrintFormat st1 save, .text (strS st1 t ++ ['Z']))
  | .csv f geo h hr srid rows =>
    match writeToFile f geo (tokenize st.printFmt) h 0 (rows.map (fun r => (r, []))) srid [] with
    | .error e => (st, .csv (.error e) (.error e))
    | .ok text =>
      let timeFmt := st.readFmt             -- `TrackFormat(...)`: `self.time_fmt = ObsTime.getReadFormat()`
      let save := st.readFmt                -- `time_fmt_save = ObsTime.getReadFormat()`
      let st1 := setReadFormat st timeFmt   -- `ObsTime.setReadFormat(fmt.time_fmt)`
      match readCsvG (readTimestampS st1) f hr text with
      | .error e => (st1, .csv (.ok text) (.error e))        -- the exception leaves before the format is put back
      | .ok rs => (setReadFormat st1 save, .csv (.ok text) (.ok rs))
  | .gpxw name rows =>
    let save := st.printFmt
    let st1 := setPrintFormat st isoFmtStr
    -- every `<time>` line is `str(t) + "Z"` in state `st1`
    (setPrintFormat st1 save, .file (((gpxLines name rows).map (· ++ ['\n'])).flatten))

/-- the text a later `readLast` refers to -/
def lastOf (last : Str) : SOut → Str
  | .text s => s
  | _ => last

/-- a whole session from a state: the final state and the outputs with the state after every operation -/
def runOuts : TState → Str → List SOp → List (SOut × TState)
  | _, _, [] => []
  | st, last, op :: ops =>
    let r := step st last op
    (r.2, r.1) :: runOuts r.1 (lastOf last r.2) ops

/-- the state after a session -/
def run : TState → Str → List SOp → TState
  | st, _, [] => st
  | st, last, op :: ops => let r := step st last op; run r.1 (lastOf last r.2) ops

end TV.TextIO
