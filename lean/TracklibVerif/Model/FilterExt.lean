import TracklibVerif.Model.Filter
/-! Model of `Filter.execute` (tracklib/core/operators.py) OUTSIDE the domain of the weighted mean (property C15):
the same loops (`TV.Filter.cells`, `TV.Filter.normalise` — shared definitions, instantiated at another scalar type)
run over the numbers Python actually computes with there:

* a weight list whose total is 0: `kernel[i] /= np.sum(np.array(kernel))` divides by a numpy scalar, which does not
  raise: every weight becomes `inf`, `-inf` or `nan`;
* a weight list holding a NaN (a kernel given as the name of a feature one of whose values is NaN): the total is NaN
  and so is every weight;
* negative weights: a collected norm equal to 0 with a non-zero sum of products gives `±inf` (numpy scalars) instead of
  a `ZeroDivisionError`;
* a signal holding `+inf` / `-inf` samples (`isnan(val)` lets them through).

`Ext α` extends an exact scalar type with `+inf`, `-inf` and `nan`; `+`, `*`, `/` follow IEEE 754 on the special values
and are the operations of `α` on finite values (no rounding, no overflow, no signed zero: the statements about `Ext`
are about the special values, rounding is outside them as for every other theorem of C15).
Core Lean only. -/
namespace TV.Filter

/-- a Python / numpy float: a finite value, `inf`, `-inf` or `nan` -/
inductive Ext (α : Type) where
  | fin (a : α)
  | pinf
  | ninf
  | nan
  deriving Repr, DecidableEq

namespace Ext
section ops
variable {α : Type} [Add α] [Mul α] [Div α] [OfNat α 0] [LT α] [DecidableLT α]

def isFin : Ext α → Bool
  | fin _ => true
  | _ => false

/-- `inf` (pos) or `-inf` -/
def sgnInf (pos : Bool) : Ext α := if pos then pinf else ninf

/-- `a * inf` (pos) / `a * -inf` for a finite `a`: `0 * inf` is `nan` -/
def mulInf (a : α) (pos : Bool) : Ext α :=
  if 0 < a then sgnInf pos else if a < 0 then sgnInf (!pos) else nan

def add : Ext α → Ext α → Ext α
  | fin a, fin b => fin (a + b)
  | nan, _ => nan
  | _, nan => nan
  | pinf, ninf => nan
  | ninf, pinf => nan
  | pinf, _ => pinf
  | _, pinf => pinf
  | ninf, _ => ninf
  | _, ninf => ninf

def mul : Ext α → Ext α → Ext α
  | fin a, fin b => fin (a * b)
  | nan, _ => nan
  | _, nan => nan
  | fin a, pinf => mulInf a true
  | fin a, ninf => mulInf a false
  | pinf, fin a => mulInf a true
  | ninf, fin a => mulInf a false
  | pinf, pinf => pinf
  | ninf, ninf => pinf
  | pinf, ninf => ninf
  | ninf, pinf => ninf

/-- numpy division (no exception): `a / 0` is `±inf` by the sign of `a`, `0 / 0` is `nan`, `a / ±inf` is `0`,
`±inf / b` keeps or flips its sign by the sign of `b` (`inf / 0.0` is `inf`), `inf / inf` is `nan` -/
def div : Ext α → Ext α → Ext α
  | nan, _ => nan
  | _, nan => nan
  | fin a, fin b => if 0 < b ∨ b < 0 then fin (a / b) else mulInf a true
  | fin _, pinf => fin 0
  | fin _, ninf => fin 0
  | pinf, fin b => if b < 0 then ninf else pinf
  | ninf, fin b => if b < 0 then pinf else ninf
  | _, _ => nan

instance : Add (Ext α) := ⟨add⟩
instance : Mul (Ext α) := ⟨mul⟩
instance : Div (Ext α) := ⟨div⟩
instance : OfNat (Ext α) 0 := ⟨fin 0⟩

/-- `norm == 0` -/
def isZero : Ext α → Bool
  | fin a => !(decide (0 < a)) && !(decide (a < 0))
  | _ => false
end ops
end Ext

section filterX
variable {α : Type} [Add α] [Mul α] [Div α] [OfNat α 0] [LT α] [DecidableLT α]

/-- the samples as the loop sees them: `isnan(val)` → skipped (`none`); an infinite value is a sample like another -/
def toSamples (v : List (Ext α)) : List (Option (Ext α)) :=
  v.map (fun x => match x with | .nan => none | y => some y)

/-- `Filter.execute` after kernel preparation, over Python's numbers: the loops of `filterWindowG` (`cells`), then
`temp[i] /= norm`: with the untouched ints `0 / 0` when no sample was read, and with Python floats (`np = false`: the
window of a Kernel object) and a norm equal to 0, a `ZeroDivisionError`; with numpy scalars (`np = true`: a weight list
after `kernel[i] /= norm`) the IEEE quotient, whatever it is; then the boundary copy. -/
def filterWindowX (v k : List (Ext α)) (boundary np : Bool) : Except Err (List (Ext α)) :=
  let N := k.length
  if N % 2 == 0 then .error .evenKernel
  else
    let D := N / 2
    let s := toSamples v
    let cs := cells s k D
    if cs.zipIdx.any (fun c => (c.1.2.isZero && !np) || !anySample s D c.2 k 0) then .error .zeroDiv
    else
      let temp : List (Ext α) := cs.map (fun c => c.1 / c.2)
      if boundary then .ok temp
      else if v.length < D then .error .index
      else .ok ((List.range v.length).map (fun i =>
        if i < D ∨ v.length - D ≤ i then (v[i]?).getD .nan else (temp[i]?).getD .nan))

/-- `Filter.execute(track, af_input, kernel, af_output)` for a weight LIST (or the values of a feature given by name):
`norm = np.sum(np.array(kernel)); kernel[i] /= norm` (no exception, whatever the total), odd-window test, loops with
numpy weights, boundaries copied. Returns the caller's list as the call leaves it and the output. -/
def executeListX (v k : List (Ext α)) : Except Err (List (Ext α) × List (Ext α)) :=
  let k' := normalise k
  match filterWindowX v k' false true with
  | .ok out => .ok (k', out)
  | .error e => .error e

/-- `Filter.execute` for a Kernel object whose sliding window is `w` (Python floats) -/
def executeObjX (v : List (Ext α)) (w : List α) (boundary : Bool) : Except Err (List (Ext α)) :=
  filterWindowX v (w.map .fin) boundary false
end filterX

/-! ### The front ends with a weight list, over Python's numbers

`track.operate(Operator.FILTER, af_in, weights, af_out)` and `filter_seq(track, weights, dim)` for a weight LIST, as `operate` /
`seqLoop` / `filterSeq` of `Model/Filter.lean` but with `filterWindowX`: a track is `Sigs (Ext α)` (NaN is `none`, never `some nan`;
an infinite value is `some pinf` / `some ninf`). The list is the same Python object at every dimension: it is divided by its total again
at each call (`[1,0,-1]` becomes `[inf,nan,-inf]`, then `[nan,nan,nan]`). -/
section frontX
variable {α : Type} [Add α] [Mul α] [Div α] [OfNat α 0] [LT α] [DecidableLT α]

/-- a stored value: NaN is `none` -/
def toOpt : Ext α → Option (Ext α)
  | .nan => none
  | y => some y

def ofOpt : Option (Ext α) → Ext α
  | none => .nan
  | some y => y

/-- `track.operate(Operator.FILTER, af_in, weights, af_out)` for a weight list, in the order of the Python: normalisation in place
(never raises), odd-window test, `createAnalyticalFeature(af_out)` (reserved name, empty track), the loops, `addListToAF`.
Returns the list as the call leaves it, the output values and the track. -/
def operateListX (t : Sigs (Ext α)) (afIn : String) (k : List (Ext α)) (afOut : String) :
    Except Err (List (Ext α) × List (Ext α) × Sigs (Ext α)) :=
  let k' := normalise k
  if k'.length % 2 == 0 then .error .evenKernel
  else if reservedName afOut then .error .feature
  else if trackSize t == 0 then .error .emptyTrack
  else
    let t1 := createAF t afOut
    match getSig t1 afIn with
    | none => .error .feature
    | some v =>
      match filterWindowX (v.map ofOpt) k' false true with
      | .error e => .error e
      | .ok out => .ok (k', out, setSig t1 afOut (out.map toOpt))

/-- the loop `for af in dim` of `filter_seq` with a weight list: a coordinate is filtered into the feature `temp` and copied back,
any other name is filtered in place; the list is re-normalised at every turn -/
def seqLoopListX : List String → List (Ext α) → Sigs (Ext α) → Except Err (List (Ext α) × Sigs (Ext α))
  | [], k, t => .ok (k, t)
  | af :: rest, k, t =>
    if af == "x" ∨ af == "y" ∨ af == "z" then
      match operateListX t af k "temp" with
      | .error e => .error e
      | .ok (k', out, t') => seqLoopListX rest k' (setSig t' af (out.map toOpt))
    else
      match operateListX t af k af with
      | .error e => .error e
      | .ok (k', _, t') => seqLoopListX rest k' t'

/-- `filter_seq(track, weights, dim)` for a weight list (`dim` a list of names): a one-element list returns the track unchanged -/
def filterSeqListX (t : Sigs (Ext α)) (k : List (Ext α)) (dim : List String) : Except Err (List (Ext α) × Sigs (Ext α)) :=
  if k.length == 1 then .ok (k, t) else seqLoopListX dim k t
end frontX

end TV.Filter
