import TracklibVerif.Model.GraphSession
import TracklibVerif.Model.GraphPD
/-! Several `Network` objects (`tracklib/core/network.py`) that **share their `Node` objects**.

`Network.sub_network(source, cut)` builds its result with `sub_net.addEdge(e, e.source, e.target)`: the extract holds the
parent's own `Node` (and `Edge`) objects. A caller may do the same by hand (`B.addEdge(e2, a, b)` with nodes `a`, `b` that
already belong to a network `A`). The routing flags `poids` / `visite` / `antecedent` / `antecedent_edge` are attributes
of the `Node` objects, so every search of any of these networks writes them **in one common store**, and
`__resetFlags` of a network rewrites only the nodes of *its own* `NODES`: a search starts on whatever the last search of
*another* network of the family left on the nodes it does not own.

The model here is the code as it runs in that situation:

* `routeOnPD`: `run_routing_forward` — `__resetFlags` over this network's `NODES`, `source.poids = 0`,
  `fil = priority_dict({source: 0})`, the `while len(fil) != 0` loop of `Model/GraphPD.lean` (which reads and writes the
  flags of the nodes it reaches and nothing else — unlike the abstract "pop the smallest labelled unsettled node" of
  `Model/Graph.lean`, which would see stale labels of foreign nodes) — on a store carrying arbitrary flags;
* `execG`: one call of `Model/GraphSession.lean` with the search given as a parameter (`exec` = `execG routeOn`,
  `execSh` = `execG routeOnPD`);
* `Fam`: the common flag store + the `Network` objects (members); `FamOp`: `Network()` on the family's node pool, a call on
  a member, `sub_network` whose result becomes a new member, `edge.weight = w` on an `Edge` object (shared by a network and
  its extracts).

`Lemmas/GraphShared.lean` proves that sharing is unobservable: every answer is the one the member would give with `Node`
objects of its own (`execFamU`), hence the pure function of its current graph. Core Lean only. -/
namespace TV.Graph
open TV.PDict
variable {W : Type}

/-- a search procedure: network, its `NODES` in insertion order, the flags on the `Node` objects, source, target,
cut-off ↦ the flags it leaves and the `output_dict` entries in order -/
abbrev Router (W : Type) := Net W → List Nat → St W → Nat → Option Nat → Option W → St W × List (Nat × W)

/-- `all_shortest_distances` with the search `R` (`allOn` = `allOnG routeOn`) -/
def allOnG (R : Router W) (net : Net W) (order : List Nat) (cut : Option W) (x : St W × Table W) : St W × Table W :=
  order.foldl (fun x s => let r := R net order x.1 s none cut; (r.1, record x.2 s r.2)) x

/-- one call on one object, the search being `R`; line by line `exec` of `Model/GraphSession.lean` -/
def execG [LT W] [DecidableLT W] [OfNat W 0] (R : Router W) (σ : Sess W) : Op W → Sess W × Out W
  | .addNode v =>
    if v < σ.net.n then ({ σ with order := addNodeTo σ.order v }, .unit) else (σ, .err)
  | .addEdge e =>
    if e.src < σ.net.n && e.tgt < σ.net.n && !decide (e.w < 0) && !(σ.net.edges.map (·.id)).contains e.id then
      ({ σ with net := { σ.net with edges := σ.net.edges ++ [e] },
                order := addNodeTo (addNodeTo σ.order e.src) e.tgt }, .unit)
    else (σ, .err)
  | .route s t cut ud =>
    if σ.order.contains s && (match t with | some t => σ.order.contains t | none => true) then
      let r := R σ.net σ.order σ.flags s t cut
      ({ σ with flags := r.1, udict := if ud then record σ.udict s r.2 else σ.udict },
       .flags (σ.order.map r.1.d) (σ.order.map r.1.vis))
    else (σ, .err)
  | .dist s t cut ud =>
    if σ.order.contains s && σ.order.contains t then
      let r := R σ.net σ.order σ.flags s (some t) cut
      ({ σ with flags := r.1, udict := if ud then record σ.udict s r.2 else σ.udict }, .val (r.1.d t))
    else (σ, .err)
  | .distList s cut ud =>
    if σ.order.contains s then
      let r := R σ.net σ.order σ.flags s none cut
      ({ σ with flags := r.1, udict := if ud then record σ.udict s r.2 else σ.udict }, .vals (σ.order.map r.1.d))
    else (σ, .err)
  | .all cut ud =>
    let r := allOnG R σ.net σ.order cut (σ.flags, if ud then σ.udict else Table.empty)
    ({ σ with flags := r.1, udict := if ud then r.2 else σ.udict }, .table r.2)
  | .prepare cut =>
    let r := allOnG R σ.net σ.order cut (σ.flags, σ.prep.getD Table.empty)
    ({ σ with flags := r.1, prep := some r.2 }, .unit)
  | .prepared s t =>
    match σ.prep with
    | none => (σ, .err)
    | some tb => (σ, .val (tb (s, t)))
  | .hasPrepared s t =>
    match σ.prep with
    | none => (σ, .err)
    | some tb => (σ, .bool (tb (s, t)).isSome)
  | .sub s cut =>
    if σ.order.contains s then
      let r := R σ.net σ.order σ.flags s none cut
      let es := subEdges σ.net r.1
      ({ σ with flags := r.1 },
       .subnet (es.foldl (fun o e => addNodeTo (addNodeTo o e.src) e.tgt) []) (es.map (·.id)))
    else (σ, .err)
  | .saveLoad =>
    match σ.prep with
    | none => (σ, .err)
    | some _ => (σ, .unit)

variable [LT W] [DecidableLT W] [Add W] [OfNat W 0]

/-- `run_routing_forward(source, target, cut, output_dict)` as coded, on `Node` objects carrying the flags `st`
(possibly written by searches of another network holding the same objects): `self.__resetFlags()` (this network's
`NODES` only), `NODES[source].poids = 0`, `fil = priority_dict({source: 0})`, the loop. -/
def routeOnPD : Router W := fun net order st s tgt cut =>
  forwardPD net tgt cut net.n (startFlags order st s) (ofDict [(s, 0)]) []

/-- the search as a function of the graph alone (no trace of the flags found on the nodes) -/
def pureRoute : Router W := fun net _ _ s tgt cut => runForward net s tgt cut

/-- one call on a network whose `Node` objects carry the flags `σ.flags`, the search as coded -/
def execSh (σ : Sess W) (op : Op W) : Sess W × Out W := execG routeOnPD σ op

/-- the `Network` object `__sub_network_routing` returns: a new `Network()` to which the kept edges are added in the
parent's edge order with `addEdge(e, e.source, e.target)` (no `DISTANCES`; the caller has passed it no dictionary yet) -/
def subSess (σ : Sess W) (es : List (Edge W)) : Sess W :=
  { net := { n := σ.net.n, edges := es },
    order := es.foldl (fun o e => addNodeTo (addNodeTo o e.src) e.tgt) [],
    flags := St.clean, prep := none, udict := Table.empty }

/-- networks built on one pool of `Node` objects (ids `< n`): the flags those objects carry, and the networks
(the `flags` field of a member is not used: the members' flags are `Fam.flags`) -/
structure Fam (W : Type) where
  n : Nat
  flags : St W
  nets : List (Sess W)

def Fam.new (n : Nat) : Fam W := { n := n, flags := St.clean, nets := [] }

/-- `edge.weight = w` on the `Edge` object with this id, as one network sees it: the weight is an attribute of the `Edge`
object, read by `run_routing_forward` at every relaxation (`pere.poids + e.weight`), so the next search uses the new value -/
def setW (eid : Nat) (w : W) (σ : Sess W) : Sess W :=
  { σ with net := { σ.net with edges := σ.net.edges.map (fun e => if e.id = eid then { e with w := w } else e) } }

inductive FamOp (W : Type) where
  | create                                          -- `Network()`, later filled with nodes of the pool
  | on (k : Nat) (op : Op W)                        -- a call on the `k`-th network
  | extract (k : Nat) (s : Nat) (cut : Option W)    -- `nets.append(nets[k].sub_network(s, cut))`
  | setWeight (eid : Nat) (w : W)                   -- `edge.weight = w`: an extract holds its parent's `Edge` objects, so every
                                                    -- network holding that edge sees the new weight (edge ids identify the objects)

/-- one step of a program over a family that shares its `Node` objects -/
def execFam (F : Fam W) : FamOp W → Fam W × Out W
  | .create => ({ F with nets := F.nets ++ [Sess.new F.n] }, .unit)
  | .on k op =>
    match F.nets[k]? with
    | none => (F, .err)
    | some σ =>
      let r := execSh { σ with flags := F.flags } op
      ({ F with flags := r.1.flags, nets := F.nets.set k { r.1 with flags := St.clean } }, r.2)
  | .extract k s cut =>
    match F.nets[k]? with
    | none => (F, .err)
    | some σ =>
      if σ.order.contains s then
        let r := routeOnPD σ.net σ.order F.flags s none cut
        let sub := subSess σ (subEdges σ.net r.1)
        ({ F with flags := r.1, nets := F.nets ++ [sub] }, .subnet sub.order (sub.net.edges.map (·.id)))
      else (F, .err)
  | .setWeight eid w =>
    if w < 0 then (F, .err) else ({ F with nets := F.nets.map (setW eid w) }, .unit)

def runFam (F : Fam W) : List (FamOp W) → List (Out W)
  | [] => []
  | op :: rest => (execFam F op).2 :: runFam (execFam F op).1 rest

def famAfter (F : Fam W) : List (FamOp W) → Fam W
  | [] => F
  | op :: rest => famAfter (execFam F op).1 rest

/-- the same program when every network has `Node` objects of its own (each member keeps its flags; `exec` of
`Model/GraphSession.lean`): the reference the shared family is proved to answer like -/
def execFamU (n : Nat) (nets : List (Sess W)) : FamOp W → List (Sess W) × Out W
  | .create => (nets ++ [Sess.new n], .unit)
  | .on k op =>
    match nets[k]? with
    | none => (nets, .err)
    | some σ => let r := exec σ op; (nets.set k r.1, r.2)
  | .extract k s cut =>
    match nets[k]? with
    | none => (nets, .err)
    | some σ =>
      if σ.order.contains s then
        let r := routeOn σ.net σ.order σ.flags s none cut
        let sub := subSess σ (subEdges σ.net r.1)
        (nets.set k { σ with flags := r.1 } ++ [sub], .subnet sub.order (sub.net.edges.map (·.id)))
      else (nets, .err)
  | .setWeight eid w =>
    if w < 0 then (nets, .err) else (nets.map (setW eid w), .unit)

def runFamU (n : Nat) (nets : List (Sess W)) : List (FamOp W) → List (Out W)
  | [] => []
  | op :: rest => (execFamU n nets op).2 :: runFamU n (execFamU n nets op).1 rest

def famAfterU (n : Nat) (nets : List (Sess W)) : List (FamOp W) → List (Sess W)
  | [] => nets
  | op :: rest => famAfterU n (execFamU n nets op).1 rest
end TV.Graph
