import TracklibVerif.Model.GraphSession
/-! `Network.save_prep(filename)` / `Network.load_prep(filename)` (`tracklib/core/network.py`) with the files they write and read.

* `save_prep`: `if self.DISTANCES is None: print(...); exit(1)`, else `np.save(filename, self.DISTANCES)` — numpy's `save` appends
  `.npy` to a file name that does not end with it (`if not file.endswith('.npy'): file = file + '.npy'`) and writes the dictionary
  (pickled inside a 0-d object array) to that path, replacing a file already there.
* `load_prep`: `if len(filename) < 4: filename = filename + ".npy"`, then `if filename[-4:] != ".npy": filename = filename + ".npy"`,
  then `self.DISTANCES = np.load(filename, allow_pickle="TRUE").item()` — a NEW dictionary equal to the one pickled (same keys
  `(source id, target id)`, same values); a missing file raises (`FileNotFoundError`).

The file system is a list of `(path, content)` pairs, newest first; the content of a file is the table at the moment of the
`save_prep` (a later `prepare` changes `DISTANCES`, not the file; after `load_prep` the object holds a dictionary of its own, not
the file). What the pickle does to a dictionary of tuples and Python numbers is taken to be the identity (numpy is not modelled:
exercised by the sessions of the harness). File names are lists of characters. Core Lean only. -/
namespace TV.Graph
variable {W : Type}

/-- `".npy"` -/
def npy : List Char := ['.', 'n', 'p', 'y']

/-- `filename[-4:]`: the last four characters, the whole string when it is shorter -/
def lastFour (f : List Char) : List Char := f.drop (f.length - 4)

/-- the path `np.save(filename, …)` writes: `if not file.endswith('.npy'): file = file + '.npy'` -/
def saveName (f : List Char) : List Char := if lastFour f = npy then f else f ++ npy

/-- the path `load_prep(filename)` reads: the two `if`s of the method, one after the other -/
def loadName (f : List Char) : List Char :=
  let f1 := if f.length < 4 then f ++ npy else f
  if lastFour f1 ≠ npy then f1 ++ npy else f1

/-- the files written so far: `(path, pickled dictionary)`, newest first -/
abbrev Files (W : Type) := List (List Char × Table W)

/-- `np.load(path)`: the newest file of that path (`none`: FileNotFoundError) -/
def findFile : Files W → List Char → Option (Table W)
  | [], _ => none
  | (n, tb) :: rest, name => if n = name then some tb else findFile rest name

/-- one `Network` object and the directory it saves to -/
structure SessF (W : Type) where
  sess : Sess W
  files : Files W

def SessF.new (n : Nat) : SessF W := { sess := Sess.new n, files := [] }

inductive FOp (W : Type) where
  | call (op : Op W)             -- any call of `Model/GraphSession.lean`
  | save (f : List Char)         -- `save_prep(f)`
  | load (f : List Char)         -- `load_prep(f)`

variable [LT W] [DecidableLT W] [Add W] [OfNat W 0]

def execF (x : SessF W) : FOp W → SessF W × Out W
  | .call op => let r := exec x.sess op; ({ x with sess := r.1 }, r.2)
  | .save f =>
    match x.sess.prep with
    | none => (x, .err)                                                   -- prints an error, `exit(1)`
    | some tb => ({ x with files := (saveName f, tb) :: x.files }, .unit)
  | .load f =>
    match findFile x.files (loadName f) with
    | none => (x, .err)                                                   -- `np.load` raises
    | some tb => ({ x with sess := { x.sess with prep := some tb } }, .unit)

def runF (x : SessF W) : List (FOp W) → List (Out W)
  | [] => []
  | op :: rest => (execF x op).2 :: runF (execF x op).1 rest

def afterF (x : SessF W) : List (FOp W) → SessF W
  | [] => x
  | op :: rest => afterF (execF x op).1 rest
end TV.Graph
