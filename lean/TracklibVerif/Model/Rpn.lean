namespace TV.Rpn
inductive Tok where
  | atom (s : String) | op (c : Char) | lp | rp
  deriving DecidableEq, Repr

/-- number of ')' minus number of '(' : the depth counter of makeRPN's right-to-left scan -/
def bal : List Tok → Int
  | [] => 0
  | Tok.rp :: ts => bal ts + 1
  | Tok.lp :: ts => bal ts - 1
  | _ :: ts => bal ts

/-- rightmost operator of group `g` at depth 0 (what the inner `for p in range(len(s)-1,-1,-1)` finds) -/
def splitR (lvl : Char → Nat) (g : Nat) : List Tok → Option (List Tok × Char × List Tok)
  | [] => none
  | t :: ts =>
    match splitR lvl g ts with
    | some (l, c, r) => some (t :: l, c, r)
    | none =>
      match t with
      | Tok.op c => if lvl c = g ∧ bal ts = 0 then some ([], c, ts) else none
      | _ => none

/-- groups are scanned in increasing precedence; `k` groups remain, starting at `g` -/
def firstSplit (lvl : Char → Nat) : Nat → Nat → List Tok → Option (List Tok × Char × List Tok)
  | 0, _, _ => none
  | k+1, g, ts => match splitR lvl g ts with
    | some x => some x
    | none => firstSplit lvl k (g+1) ts

def render : List Tok → String
  | [] => ""
  | Tok.atom s :: ts => s ++ render ts
  | Tok.op c :: ts => c.toString ++ render ts
  | Tok.lp :: ts => "(" ++ render ts
  | Tok.rp :: ts => ")" ++ render ts

/-- makeRPN on tokens, fuel-bounded -/
def rpn (lvl : Char → Nat) (G : Nat) : Nat → List Tok → List String
  | 0, _ => []
  | f+1, ts =>
    match firstSplit lvl G 0 ts with
    | some (l, c, r) => rpn lvl G f l ++ rpn lvl G f r ++ [c.toString]
    | none =>
      match ts with
      | Tok.lp :: rest => rpn lvl G f rest.dropLast
      | _ => [render ts]

inductive E where
  | atom (s : String) | par (e : E) | bin (c : Char) (l r : E)
  deriving Repr

def lv (lvl : Char → Nat) (G : Nat) : E → Nat
  | E.atom _ => G | E.par _ => G | E.bin c _ _ => lvl c

def wrap (b : Bool) (ts : List Tok) : List Tok := if b then Tok.lp :: (ts ++ [Tok.rp]) else ts

def shw (lvl : Char → Nat) (G : Nat) : E → List Tok
  | E.atom s => [Tok.atom s]
  | E.par e => Tok.lp :: (shw lvl G e ++ [Tok.rp])
  | E.bin c l r =>
      wrap (decide (lv lvl G l < lvl c)) (shw lvl G l) ++ Tok.op c :: wrap (decide (lv lvl G r ≤ lvl c)) (shw lvl G r)

def post : E → List String
  | E.atom s => [s] | E.par e => post e | E.bin c l r => post l ++ post r ++ [c.toString]

def size : E → Nat
  | E.atom _ => 1 | E.par e => size e + 1 | E.bin _ l r => size l + size r + 1

def WF (lvl : Char → Nat) (G : Nat) : E → Prop
  | E.atom _ => True | E.par e => WF lvl G e | E.bin c l r => lvl c < G ∧ WF lvl G l ∧ WF lvl G r

def pyLvl (c : Char) : Nat :=
  if c = '=' then 0 else if c = '<' ∨ c = '>' then 1 else if c = '+' ∨ c = '-' then 2 else if c = '!' then 3
  else if c = '*' ∨ c = '/' then 4 else if c = '%' then 5 else if c = '^' then 6 else if c = '@' then 7
  else if c = '&' ∨ c = '$' then 8 else 9
end TV.Rpn
